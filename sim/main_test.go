//go:build go1.25

//go:debug asynctimerchan=0
package sim

import (
	"bufio"
	"encoding/json"
	"fmt"
	"os"
	"strconv"
	"testing"
	"testing/synctest"
	"time"

	"verif/sim/engine"
)

func envInt(name string, def int64) int64 {
	if v := os.Getenv(name); v != "" {
		n, err := strconv.ParseInt(v, 10, 64)
		if err == nil {
			return n
		}
		u, err := strconv.ParseUint(v, 10, 64)
		if err == nil {
			return int64(u)
		}
	}
	return def
}

// runInBubble executes one run with the simulator owning the host clock.
func runInBubble(t *testing.T, spec engine.RunSpec) (res *engine.RunResult) {
	defer func() {
		if r := recover(); r != nil {
			if res == nil {
				res = &engine.RunResult{Seed: spec.Seed, Property: spec.Property}
			}
			// synctest panics when bubbled goroutines are still blocked at the end
			if res.Harness == "" {
				res.Harness = fmt.Sprintf("bubble: %v", r)
			}
		}
	}()
	synctest.Test(t, func(t *testing.T) {
		res = engine.Run(spec)
	})
	return res
}

// TestWorker is the worker entry point of ./check; it does nothing without VERIF_MODE.
func TestWorker(t *testing.T) {
	mode := os.Getenv("VERIF_MODE")
	if mode == "" {
		t.Skip("VERIF_MODE not set")
	}
	prop := os.Getenv("VERIF_PROP")
	switch mode {
	case "batch":
		base := uint64(envInt("VERIF_SEED", 1))
		from, to, stride := envInt("VERIF_FROM", 0), envInt("VERIF_TO", 1), envInt("VERIF_STRIDE", 1)
		deadline := time.Now().Add(time.Duration(envInt("VERIF_BUDGET_S", 3600)) * time.Second)
		out, err := os.Create(os.Getenv("VERIF_OUT"))
		if err != nil {
			fmt.Println("HARNESS cannot create output:", err)
			os.Exit(2)
		}
		bw := bufio.NewWriterSize(out, 1<<20)
		enc := json.NewEncoder(bw)
		long := os.Getenv("VERIF_TIER") == "thorough"
		keepAll := os.Getenv("VERIF_KEEP_SCHEDULES") != ""
		for i := from; i < to; i += stride {
			if time.Now().After(deadline) {
				break
			}
			seed := engine.Mix(base, prop, uint64(i))
			res := runInBubble(t, engine.RunSpec{Property: prop, Seed: seed, Long: long})
			keep := keepAll || res.Harness != "" || i < 2
			for _, v := range res.Violations {
				if v.Property == prop || v.Property == "ENGINE" {
					keep = true
				}
			}
			if !keep {
				res.Schedule = nil
			}
			if err := enc.Encode(res); err != nil {
				fmt.Println("HARNESS cannot write output:", err)
				os.Exit(2)
			}
		}
		bw.Flush()
		out.Close()
	case "replay":
		sched, err := engine.ReadSchedule(os.Getenv("VERIF_REPLAY"))
		if err != nil {
			fmt.Println("HARNESS cannot read replay file:", err)
			os.Exit(2)
		}
		if prop == "" {
			prop = sched.Property
		}
		res := runInBubble(t, engine.RunSpec{Property: prop, Seed: sched.Seed, Replay: sched})
		res.Schedule = nil
		bz, _ := json.MarshalIndent(res, "", " ")
		if p := os.Getenv("VERIF_OUT"); p != "" {
			os.WriteFile(p, bz, 0o644)
		} else {
			fmt.Println(string(bz))
		}
		if res.Harness != "" {
			fmt.Println("HARNESS", res.Harness)
			os.Exit(2)
		}
		if sched.Expect != nil {
			for _, v := range res.Violations {
				if v.Key == sched.Expect.Key {
					fmt.Printf("REPRODUCED %s\n%s\n", v.Key, v.Detail)
					return
				}
			}
			fmt.Printf("NOT-REPRODUCED %s\n", sched.Expect.Key)
			os.Exit(3)
		}
	case "minimise":
		sched, err := engine.ReadSchedule(os.Getenv("VERIF_REPLAY"))
		if err != nil {
			fmt.Println("HARNESS cannot read replay file:", err)
			os.Exit(2)
		}
		key := os.Getenv("VERIF_KEY")
		budget := time.Duration(envInt("VERIF_BUDGET_S", 60)) * time.Second
		run := func(s *engine.Schedule) *engine.RunResult {
			return runInBubble(t, engine.RunSpec{Property: sched.Property, Seed: sched.Seed, Replay: s})
		}
		min, v, tries := engine.Minimise(sched, key, budget, run)
		if v == nil {
			fmt.Println("NOT-REPRODUCED", key)
			os.Exit(3)
		}
		min.Expect = &engine.ViolationRecord{Property: v.Property, Key: v.Key, Detail: v.Detail, Height: v.Height}
		if err := min.Write(os.Getenv("VERIF_OUT")); err != nil {
			fmt.Println("HARNESS cannot write:", err)
			os.Exit(2)
		}
		fmt.Printf("MINIMISED ops %d->%d faults %d->%d blocks %d->%d tries %d\n", sched.NumOps(), min.NumOps(),
			sched.NumFaults(), min.NumFaults(), len(sched.Blocks), len(min.Blocks), tries)
	case "meta":
		ids, _ := json.Marshal(engine.PropertyIDs())
		fmt.Println("PROPS " + string(ids))
		if p := engine.GetProperty(prop); p != nil {
			bz, _ := json.Marshal(map[string]any{"probes": p.Probes, "rule": p.Rule, "profile": p.Profile})
			fmt.Println("META " + string(bz))
		}
	default:
		fmt.Println("HARNESS unknown mode", mode)
		os.Exit(2)
	}
}
