// Package sim wires the workload modules into profiles and the properties into checks.
package sim

import (
	"verif/sim/mods/amm"
	"verif/sim/mods/sys"
)

func init() {
	amm.Register()
	sys.Register()
}
