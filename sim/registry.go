// Package sim wires the workload modules into profiles and the properties into checks.
package sim

import (
	"verif/sim/engine"
	"verif/sim/mods/amm"
	farmmod "verif/sim/mods/farm"
	htlcmod "verif/sim/mods/htlc"
	mtmod "verif/sim/mods/mt"
	nftmod "verif/sim/mods/nft"
	"verif/sim/mods/oraclefeed"
	randommod "verif/sim/mods/random"
	recordmod "verif/sim/mods/record"
	servicemod "verif/sim/mods/service"
	"verif/sim/mods/sys"
	tokenmod "verif/sim/mods/token"
)

func init() {
	amm.Register()
	farmmod.Register()
	htlcmod.Register()
	nftmod.Register()
	mtmod.Register()
	recordmod.Register()
	tokenmod.Register()
	servicemod.Register()
	oraclefeed.Register()
	randommod.Register()
	sys.Workloads = append(sys.Workloads,
		func() engine.Module { return farmmod.New() },
		func() engine.Module { return htlcmod.New() },
		func() engine.Module { return nftmod.New() },
		func() engine.Module { return mtmod.New() },
		func() engine.Module { return recordmod.New() },
		func() engine.Module { return tokenmod.New() },
		func() engine.Module {
			s := servicemod.New()
			// the `random` service (defined at genesis by the random workload) is bound by the
			// service workload's providers, as in the random profile
			s.AddService(randommod.ServiceName, true)
			return s
		},
		func() engine.Module { return oraclefeed.New() },
		func() engine.Module { return randommod.New() },
	)
	sys.Register()
	// every single-module profile of a parameterised module also runs the parameter lab: its
	// experiments on discarded branches are the "simulated transaction" / "failed proposal"
	// stimulus under which state kept in process memory shows (the lab restricts itself to
	// the modules whose workload is present)
	// C07 also needs fees in a second denomination (owner tallies per denomination, prices
	// exchanged through a feed): the service workload together with the feed workload, which
	// sets up the price feed and offers the second price denomination
	if sp := engine.GetProfile("service"); sp != nil {
		engine.RegisterProfile(&engine.Profile{
			Name:    "service-feeds",
			Tune:    sp.Tune,
			Weights: map[string]int{"service": 30, "oraclefeed": 12},
			Mods: func() []engine.Module {
				return []engine.Module{servicemod.New(), oraclefeed.New(), sys.NewParamLab()}
			},
		})
		// C08's callback clause needs module-owned contexts as well
		for _, id := range []string{"C07", "C08"} {
			if p := engine.GetProperty(id); p != nil {
				p.Profile = "service-feeds"
			}
		}
	}
	for _, name := range []string{"amm", "farm", "htlc", "service", "token", "oraclefeed", "random"} {
		if p := engine.GetProfile(name); p != nil {
			orig := p.Mods
			p.Mods = func() []engine.Module { return append(orig(), sys.NewParamLab()) }
		}
	}
}
