package engine

import (
	"encoding/json"
	"fmt"
	"runtime/debug"
	"strings"
	"time"

	"cosmossdk.io/log"
	sdkmath "cosmossdk.io/math"
	abci "github.com/cometbft/cometbft/abci/types"
	cmtproto "github.com/cometbft/cometbft/proto/tendermint/types"
	cmttypes "github.com/cometbft/cometbft/types"
	dbm "github.com/cosmos/cosmos-db"
	"github.com/cosmos/cosmos-sdk/baseapp"
	"github.com/cosmos/cosmos-sdk/client/flags"
	codectypes "github.com/cosmos/cosmos-sdk/codec/types"
	cryptocodec "github.com/cosmos/cosmos-sdk/crypto/codec"
	"github.com/cosmos/cosmos-sdk/crypto/keys/ed25519"
	"github.com/cosmos/cosmos-sdk/server"
	simtestutil "github.com/cosmos/cosmos-sdk/testutil/sims"
	sdk "github.com/cosmos/cosmos-sdk/types"
	authtypes "github.com/cosmos/cosmos-sdk/x/auth/types"
	banktypes "github.com/cosmos/cosmos-sdk/x/bank/types"
	minttypes "github.com/cosmos/cosmos-sdk/x/mint/types"
	stakingtypes "github.com/cosmos/cosmos-sdk/x/staking/types"

	coinswapkeeper "mods.irisnet.org/modules/coinswap/keeper"
	farmkeeper "mods.irisnet.org/modules/farm/keeper"
	htlckeeper "mods.irisnet.org/modules/htlc/keeper"
	htlctypes "mods.irisnet.org/modules/htlc/types"
	mtkeeper "mods.irisnet.org/modules/mt/keeper"
	nftkeeper "mods.irisnet.org/modules/nft/keeper"
	oraclekeeper "mods.irisnet.org/modules/oracle/keeper"
	randomkeeper "mods.irisnet.org/modules/random/keeper"
	recordkeeper "mods.irisnet.org/modules/record/keeper"
	servicekeeper "mods.irisnet.org/modules/service/keeper"
	tokenkeeper "mods.irisnet.org/modules/token/keeper"
	tokentypes "mods.irisnet.org/modules/token/types"
	"mods.irisnet.org/simapp"
)

const ChainID = "simchain-1"

// Keepers are the module keepers of one node, obtained through depinject consumers.
type Keepers struct {
	Coinswap coinswapkeeper.Keeper
	Farm     farmkeeper.Keeper
	HTLC     htlckeeper.Keeper
	MT       mtkeeper.Keeper
	NFT      nftkeeper.Keeper
	Oracle   oraclekeeper.Keeper
	Random   randomkeeper.Keeper
	Record   recordkeeper.Keeper
	Service  servicekeeper.Keeper
	Token    tokenkeeper.Keeper
}

// NodeOptions fixes everything about how a node's application object is built.
type NodeOptions struct {
	Governor string // authority address of the five parameterised irismod modules
	// EVM / ICS20 providers; nil selects the repository's own mocks.
	NewEVM   func() tokentypes.EVMKeeper
	NewICS20 func() tokentypes.ICS20Keeper
	// PostBuild runs after every (re)construction of the app object: a restart loses all
	// in-process state, so taps and registries are re-applied here.
	PostBuild func(n *Node)
}

// Node is one simulated full node: a "disk" (MemDB) and an application object over it.
type Node struct {
	Name string
	DB   *dbm.MemDB
	App  *simapp.SimApp
	K    Keepers
	Opts NodeOptions
	EVM  tokentypes.EVMKeeper

	Height  int64     // last committed height
	Time    time.Time // block time of last committed block
	Builds  int       // number of times the app object was constructed
	Primary bool      // the run's primary node (not a replica, clone or import target)
	lastReq *abci.RequestFinalizeBlock
}

func NewNode(name string, opts NodeOptions) *Node {
	n := &Node{Name: name, DB: dbm.NewMemDB(), Opts: opts}
	n.build()
	return n
}

// NewNodeOnDB builds a node over an existing disk image (a cloned or surviving MemDB).
func NewNodeOnDB(name string, db *dbm.MemDB, opts NodeOptions, height int64, t time.Time) *Node {
	n := &Node{Name: name, DB: db, Opts: opts, Height: height, Time: t}
	n.build()
	return n
}

func (n *Node) build() {
	appOptions := make(simtestutil.AppOptionsMap, 0)
	appOptions[flags.FlagHome] = "/nonexistent-simchain-home"
	appOptions[server.FlagInvCheckPeriod] = uint(0)
	var evm tokentypes.EVMKeeper
	var ics tokentypes.ICS20Keeper
	if n.Opts.NewEVM != nil {
		evm = n.Opts.NewEVM()
	} else {
		evm = tokenkeeper.ProvideMockEVM()
	}
	if n.Opts.NewICS20 != nil {
		ics = n.Opts.NewICS20()
	} else {
		ics = tokenkeeper.ProvideMockICS20()
	}
	n.EVM = evm
	n.K = Keepers{}
	dep := simapp.DepinjectOptions{
		Config:    AppConfig(n.Opts.Governor),
		Providers: []interface{}{evm, ics},
		Consumers: []interface{}{
			&n.K.Coinswap, &n.K.Farm, &n.K.HTLC, &n.K.MT, &n.K.NFT,
			&n.K.Oracle, &n.K.Random, &n.K.Record, &n.K.Service, &n.K.Token,
		},
	}
	n.App = simapp.NewSimApp(log.NewNopLogger(), n.DB, nil, true, dep, appOptions,
		baseapp.SetChainID(ChainID))
	n.Builds++
	if n.Opts.PostBuild != nil {
		n.Opts.PostBuild(n)
	}
}

// Restart drops the application object and rebuilds it over the same disk: everything held
// in process memory is lost, only committed state survives.
func (n *Node) Restart() {
	n.App = nil
	n.build()
}

// CloneDB copies the node's disk.
func (n *Node) CloneDB() *dbm.MemDB {
	out := dbm.NewMemDB()
	it, err := n.DB.Iterator(nil, nil)
	if err != nil {
		panic(err)
	}
	defer it.Close()
	for ; it.Valid(); it.Next() {
		k := append([]byte{}, it.Key()...)
		v := append([]byte{}, it.Value()...)
		if err := out.Set(k, v); err != nil {
			panic(err)
		}
	}
	return out
}

// Clone returns an independent node over a copy of the disk.
func (n *Node) Clone(name string) *Node {
	return NewNodeOnDB(name, n.CloneDB(), n.Opts, n.Height, n.Time)
}

// GenesisAccount is a funded account of the simulated universe.
type GenesisAccount struct {
	Addr  sdk.AccAddress
	Coins sdk.Coins
}

// GenesisSpec is what a run wants in its genesis beyond the defaults.
type GenesisSpec struct {
	Time     time.Time
	Accounts []GenesisAccount
	// Mutators edit per-module genesis JSON after the defaults are in place.
	Mutators []func(n *Node, gs simapp.GenesisState)
	MaxGas   int64
}

var validatorKey = ed25519.GenPrivKeyFromSecret([]byte("simchain validator"))

// BuildGenesis returns the app state bytes for the spec. It does not touch the store.
func (n *Node) BuildGenesis(spec GenesisSpec) []byte {
	app := n.App
	gs := app.DefaultGenesis()
	cdc := app.AppCodec()

	var genAccs []authtypes.GenesisAccount
	var balances []banktypes.Balance
	total := sdk.NewCoins()
	for _, a := range spec.Accounts {
		genAccs = append(genAccs, authtypes.NewBaseAccount(a.Addr, nil, 0, 0))
		balances = append(balances, banktypes.Balance{Address: a.Addr.String(), Coins: a.Coins})
		total = total.Add(a.Coins...)
	}
	gs[authtypes.ModuleName] = cdc.MustMarshalJSON(authtypes.NewGenesisState(authtypes.DefaultParams(), genAccs))

	pub := validatorKey.PubKey()
	cmtPub, err := cryptocodec.ToCmtPubKeyInterface(pub)
	if err != nil {
		panic(err)
	}
	val := cmttypes.NewValidator(cmtPub, 1)
	pkAny, err := codectypes.NewAnyWithValue(pub)
	if err != nil {
		panic(err)
	}
	bondAmt := sdk.DefaultPowerReduction
	validator := stakingtypes.Validator{
		OperatorAddress: sdk.ValAddress(val.Address).String(),
		ConsensusPubkey: pkAny,
		Status:          stakingtypes.Bonded,
		Tokens:          bondAmt,
		DelegatorShares: sdkmath.LegacyOneDec(),
		UnbondingTime:   time.Unix(0, 0).UTC(),
		Commission: stakingtypes.NewCommission(sdkmath.LegacyZeroDec(), sdkmath.LegacyZeroDec(),
			sdkmath.LegacyZeroDec()),
		MinSelfDelegation: sdkmath.ZeroInt(),
	}
	deleg := stakingtypes.NewDelegation(spec.Accounts[0].Addr.String(),
		sdk.ValAddress(val.Address).String(), sdkmath.LegacyOneDec())
	gs[stakingtypes.ModuleName] = cdc.MustMarshalJSON(stakingtypes.NewGenesisState(
		stakingtypes.DefaultParams(), []stakingtypes.Validator{validator}, []stakingtypes.Delegation{deleg}))
	total = total.Add(sdk.NewCoin(sdk.DefaultBondDenom, bondAmt))
	balances = append(balances, banktypes.Balance{
		Address: authtypes.NewModuleAddress(stakingtypes.BondedPoolName).String(),
		Coins:   sdk.Coins{sdk.NewCoin(sdk.DefaultBondDenom, bondAmt)},
	})
	gs[banktypes.ModuleName] = cdc.MustMarshalJSON(banktypes.NewGenesisState(
		banktypes.DefaultGenesisState().Params, balances, total, []banktypes.Metadata{}, []banktypes.SendEnabled{}))

	// No inflation: the supply of the bond denom then only moves through irismod's own
	// mints and burns, which keeps conservation oracles exact.
	mg := minttypes.DefaultGenesisState()
	mg.Minter.Inflation = sdkmath.LegacyZeroDec()
	mg.Params.InflationMax = sdkmath.LegacyZeroDec()
	mg.Params.InflationMin = sdkmath.LegacyZeroDec()
	mg.Params.InflationRateChange = sdkmath.LegacyZeroDec()
	gs[minttypes.ModuleName] = cdc.MustMarshalJSON(mg)

	// htlc's default genesis carries time.Now() evaluated at process start (package variable
	// DefaultPreviousBlockTime): a genesis file is chain data, so the run pins it
	var hg htlctypes.GenesisState
	cdc.MustUnmarshalJSON(gs[htlctypes.ModuleName], &hg)
	hg.PreviousBlockTime = spec.Time
	gs[htlctypes.ModuleName] = cdc.MustMarshalJSON(&hg)

	for _, m := range spec.Mutators {
		m(n, gs)
	}
	bz, err := json.MarshalIndent(gs, "", " ")
	if err != nil {
		panic(err)
	}
	return bz
}

func consensusParams(maxGas int64) *cmtproto.ConsensusParams {
	cp := *simtestutil.DefaultConsensusParams
	blk := *cp.Block
	blk.MaxGas = maxGas
	cp.Block = &blk
	return &cp
}

// Panic describes a panic that escaped an ABCI call.
type Panic struct {
	Where string
	Value string
	Stack string
}

// Module names the first irismod module on the panic's stack, "" when there is none.
func (p *Panic) Module() string {
	const pfx = "mods.irisnet.org/modules/"
	i := strings.Index(p.Stack, pfx)
	if i < 0 {
		return ""
	}
	rest := p.Stack[i+len(pfx):]
	j := strings.IndexAny(rest, "/.")
	if j < 0 {
		return ""
	}
	return rest[:j]
}

func (p *Panic) Error() string { return fmt.Sprintf("panic in %s: %s", p.Where, p.Value) }

func catch(where string, f func() error) (err error) {
	defer func() {
		if r := recover(); r != nil {
			err = &Panic{Where: where, Value: fmt.Sprint(r), Stack: string(debug.Stack())}
		}
	}()
	return f()
}

// InitChain imports the genesis. initialHeight>1 gives an imported chain its old heights.
func (n *Node) InitChain(appState []byte, genTime time.Time, initialHeight int64, maxGas int64) error {
	return catch("InitChain", func() error {
		_, err := n.App.InitChain(&abci.RequestInitChain{
			ChainId:         ChainID,
			Time:            genTime,
			Validators:      []abci.ValidatorUpdate{},
			ConsensusParams: consensusParams(maxGas),
			AppStateBytes:   appState,
			InitialHeight:   initialHeight,
		})
		if err == nil {
			if initialHeight > 1 {
				n.Height = initialHeight - 1
			}
			n.Time = genTime
		}
		return err
	})
}

// Block is what the block producer hands to every node.
type Block struct {
	Height int64
	Time   time.Time
	Txs    [][]byte
}

func (b *Block) request() *abci.RequestFinalizeBlock {
	return &abci.RequestFinalizeBlock{
		Height:          b.Height,
		Time:            b.Time,
		Txs:             b.Txs,
		ProposerAddress: validatorKey.PubKey().Address(),
	}
}

// Exec runs FinalizeBlock. Begin/end-block panics are not recovered by baseapp, so the
// node recovers them itself and reports them.
func (n *Node) Exec(b *Block) (*abci.ResponseFinalizeBlock, error) {
	var res *abci.ResponseFinalizeBlock
	err := catch("FinalizeBlock", func() error {
		// ProcessProposal resets the finalize-block state, so that re-execution of a block
		// that was executed but not committed starts from the committed state.
		req := b.request()
		if _, err := n.App.ProcessProposal(&abci.RequestProcessProposal{
			Height: req.Height, Time: req.Time, Txs: req.Txs, ProposerAddress: req.ProposerAddress,
		}); err != nil {
			return err
		}
		var err error
		res, err = n.App.FinalizeBlock(req)
		return err
	})
	return res, err
}

// Simulate runs a transaction the way a client's gas estimation does (baseapp.Simulate:
// ante handler without signature verification, then the messages, on a branch of the check
// state that is discarded). It reports whether the simulated execution succeeded; a panic
// that baseapp does not recover is returned as an error.
func (n *Node) Simulate(tx []byte) (bool, error) {
	ok := false
	err := catch("Simulate", func() error {
		_, _, e := n.App.BaseApp.Simulate(tx)
		ok = e == nil
		return nil
	})
	return ok, err
}

// Commit makes the executed block durable.
func (n *Node) Commit(b *Block) error {
	return catch("Commit", func() error {
		_, err := n.App.Commit()
		if err == nil {
			n.Height = b.Height
			n.Time = b.Time
		}
		return err
	})
}

// Ctx is a read context over the committed state with the header of the last block.
func (n *Node) Ctx() sdk.Context {
	return n.App.BaseApp.NewUncachedContext(false, cmtproto.Header{
		ChainID: ChainID, Height: n.Height, Time: n.Time,
	})
}

// BranchCtx is a throw-away cache-wrapped context over the committed state.
func (n *Node) BranchCtx() sdk.Context {
	c, _ := n.Ctx().CacheContext()
	return c
}

// Export returns the exported application genesis (never for zero height: simapp's
// zero-height preparation concerns staking/distribution only).
func (n *Node) Export() (state []byte, height int64, err error) {
	err = catch("Export", func() error {
		ex, e := n.App.ExportAppStateAndValidators(false, nil, nil)
		if e != nil {
			return e
		}
		state, height = ex.AppState, ex.Height
		return nil
	})
	return
}

// AppHash of the last commit.
func (n *Node) AppHash() []byte { return n.App.LastCommitID().Hash }
