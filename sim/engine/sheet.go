package engine

import (
	"fmt"
	"math/big"
	"sort"
	"strconv"
	"strings"

	abci "github.com/cometbft/cometbft/abci/types"
	sdk "github.com/cosmos/cosmos-sdk/types"
)

// Move is one bank movement as reported by the SDK bank keeper's own events.
type Move struct {
	Kind  string // spent | received | mint | burn
	Addr  string
	Denom string
	Amt   *big.Int
	Msg   int // msg_index, -1 when the event carries none (ante handler, begin/end block)
}

// Sheet is the balance sheet of one unit of execution (a tx, one message of a tx, a
// begin-block or an end-block): per account and denom the net change, per denom the
// supply change, and the ordered movements they were computed from.
type Sheet struct {
	Delta  map[string]map[string]*big.Int
	Supply map[string]*big.Int
	Moves  []Move
}

func NewSheet() *Sheet {
	return &Sheet{Delta: map[string]map[string]*big.Int{}, Supply: map[string]*big.Int{}}
}

func (s *Sheet) add(addr, denom string, v *big.Int) {
	m := s.Delta[addr]
	if m == nil {
		m = map[string]*big.Int{}
		s.Delta[addr] = m
	}
	if m[denom] == nil {
		m[denom] = new(big.Int)
	}
	m[denom].Add(m[denom], v)
}

func (s *Sheet) apply(mv Move) {
	s.Moves = append(s.Moves, mv)
	switch mv.Kind {
	case "spent":
		s.add(mv.Addr, mv.Denom, new(big.Int).Neg(mv.Amt))
	case "received":
		s.add(mv.Addr, mv.Denom, mv.Amt)
	case "mint":
		if s.Supply[mv.Denom] == nil {
			s.Supply[mv.Denom] = new(big.Int)
		}
		s.Supply[mv.Denom].Add(s.Supply[mv.Denom], mv.Amt)
	case "burn":
		if s.Supply[mv.Denom] == nil {
			s.Supply[mv.Denom] = new(big.Int)
		}
		s.Supply[mv.Denom].Sub(s.Supply[mv.Denom], mv.Amt)
	}
}

// Of returns the net change of (addr, denom), zero when untouched.
func (s *Sheet) Of(addr, denom string) *big.Int {
	if m := s.Delta[addr]; m != nil {
		if v := m[denom]; v != nil {
			return new(big.Int).Set(v)
		}
	}
	return new(big.Int)
}

// SupplyOf returns the supply change of denom.
func (s *Sheet) SupplyOf(denom string) *big.Int {
	if v := s.Supply[denom]; v != nil {
		return new(big.Int).Set(v)
	}
	return new(big.Int)
}

// Addrs lists the accounts with a non-zero net change, sorted.
func (s *Sheet) Addrs() []string {
	var out []string
	for a, m := range s.Delta {
		for _, v := range m {
			if v.Sign() != 0 {
				out = append(out, a)
				break
			}
		}
	}
	sort.Strings(out)
	return out
}

// Denoms lists the denoms with a non-zero change of addr, sorted.
func (s *Sheet) Denoms(addr string) []string {
	var out []string
	for d, v := range s.Delta[addr] {
		if v.Sign() != 0 {
			out = append(out, d)
		}
	}
	sort.Strings(out)
	return out
}

// SupplyDenoms lists denoms whose supply changed, sorted.
func (s *Sheet) SupplyDenoms() []string {
	var out []string
	for d, v := range s.Supply {
		if v.Sign() != 0 {
			out = append(out, d)
		}
	}
	sort.Strings(out)
	return out
}

// Empty reports whether nothing moved net and no supply changed.
func (s *Sheet) Empty() bool { return len(s.Addrs()) == 0 && len(s.SupplyDenoms()) == 0 }

// String renders the non-zero entries deterministically.
func (s *Sheet) String() string {
	var b strings.Builder
	for _, a := range s.Addrs() {
		for _, d := range s.Denoms(a) {
			fmt.Fprintf(&b, "%s %s%s; ", a, signed(s.Delta[a][d]), d)
		}
	}
	for _, d := range s.SupplyDenoms() {
		fmt.Fprintf(&b, "supply %s%s; ", signed(s.Supply[d]), d)
	}
	return b.String()
}

func signed(v *big.Int) string {
	if v.Sign() >= 0 {
		return "+" + v.String()
	}
	return v.String()
}

// ExpectOnly checks that the sheet's non-zero entries are exactly want (addr -> denom ->
// delta, zero entries in want are ignored) and returns a description of the first
// difference, or "".
func (s *Sheet) ExpectOnly(want map[string]map[string]*big.Int) string {
	seen := map[string]bool{}
	var keys []string
	for a, m := range want {
		for d := range m {
			keys = append(keys, a+"|"+d)
		}
	}
	sort.Strings(keys)
	for _, k := range keys {
		p := strings.SplitN(k, "|", 2)
		w := want[p[0]][p[1]]
		g := s.Of(p[0], p[1])
		seen[k] = true
		if g.Cmp(w) != 0 {
			return fmt.Sprintf("account %s denom %s: moved %s, expected %s", p[0], p[1], signed(g), signed(w))
		}
	}
	for _, a := range s.Addrs() {
		for _, d := range s.Denoms(a) {
			if !seen[a+"|"+d] {
				return fmt.Sprintf("account %s denom %s: moved %s, expected nothing", a, d, signed(s.Delta[a][d]))
			}
		}
	}
	return ""
}

func attr(ev abci.Event, key string) (string, bool) {
	for _, a := range ev.Attributes {
		if a.Key == key {
			return a.Value, true
		}
	}
	return "", false
}

// movesOf turns bank events into movements. Only events emitted by the SDK bank keeper are
// read; irismod's own events are never trusted for accounting.
func movesOf(events []abci.Event) []Move {
	var out []Move
	for _, ev := range events {
		var kind, who string
		switch ev.Type {
		case "coin_spent":
			kind, who = "spent", "spender"
		case "coin_received":
			kind, who = "received", "receiver"
		case "coinbase":
			kind, who = "mint", "minter"
		case "burn":
			kind, who = "burn", "burner"
		default:
			continue
		}
		addr, _ := attr(ev, who)
		amt, _ := attr(ev, "amount")
		if amt == "" {
			continue
		}
		coins, err := sdk.ParseCoinsNormalized(amt)
		if err != nil {
			panic(fmt.Sprintf("harness: cannot parse bank event amount %q: %v", amt, err))
		}
		idx := -1
		if v, ok := attr(ev, "msg_index"); ok {
			if i, err := strconv.Atoi(v); err == nil {
				idx = i
			}
		}
		for _, c := range coins {
			out = append(out, Move{Kind: kind, Addr: addr, Denom: c.Denom, Amt: c.Amount.BigInt(), Msg: idx})
		}
	}
	return out
}

// SheetOf builds the sheet of a list of events.
func SheetOf(events []abci.Event) *Sheet {
	s := NewSheet()
	for _, mv := range movesOf(events) {
		s.apply(mv)
	}
	return s
}

// TransferSheet builds the sheet of only those bank transfers (the bank keeper's "transfer"
// events: one per send, naming both parties) in which at least one party is in `involving`.
// It separates one module's movements from those of other modules acting in the same begin
// or end block; mints and burns are not transfers and are left out.
func TransferSheet(events []abci.Event, involving map[string]bool) *Sheet {
	s := NewSheet()
	for _, ev := range events {
		if ev.Type != "transfer" {
			continue
		}
		from, _ := attr(ev, "sender")
		to, _ := attr(ev, "recipient")
		amt, _ := attr(ev, "amount")
		if amt == "" || !(involving[from] || involving[to]) {
			continue
		}
		coins, err := sdk.ParseCoinsNormalized(amt)
		if err != nil {
			panic(fmt.Sprintf("harness: cannot parse bank event amount %q: %v", amt, err))
		}
		for _, c := range coins {
			s.apply(Move{Kind: "spent", Addr: from, Denom: c.Denom, Amt: c.Amount.BigInt(), Msg: -1})
			s.apply(Move{Kind: "received", Addr: to, Denom: c.Denom, Amt: c.Amount.BigInt(), Msg: -1})
		}
	}
	return s
}

// SheetOfMsg builds the sheet of the events of one message of a tx.
func SheetOfMsg(events []abci.Event, msg int) *Sheet {
	s := NewSheet()
	for _, mv := range movesOf(events) {
		if mv.Msg == msg {
			s.apply(mv)
		}
	}
	return s
}

// Ledger mirrors the bank: every balance and supply, advanced movement by movement, so the
// state between two transactions of one block (and between two movements of one
// transaction) is known without instrumenting anything.
type Ledger struct {
	Bal    map[string]map[string]*big.Int
	Supply map[string]*big.Int
}

func NewLedger() *Ledger {
	return &Ledger{Bal: map[string]map[string]*big.Int{}, Supply: map[string]*big.Int{}}
}

func (l *Ledger) Get(addr, denom string) *big.Int {
	if m := l.Bal[addr]; m != nil {
		if v := m[denom]; v != nil {
			return new(big.Int).Set(v)
		}
	}
	return new(big.Int)
}

func (l *Ledger) GetSupply(denom string) *big.Int {
	if v := l.Supply[denom]; v != nil {
		return new(big.Int).Set(v)
	}
	return new(big.Int)
}

func (l *Ledger) Set(addr, denom string, v *big.Int) {
	m := l.Bal[addr]
	if m == nil {
		m = map[string]*big.Int{}
		l.Bal[addr] = m
	}
	m[denom] = new(big.Int).Set(v)
}

// Apply advances the ledger by one movement.
func (l *Ledger) Apply(mv Move) {
	switch mv.Kind {
	case "spent":
		l.Set(mv.Addr, mv.Denom, new(big.Int).Sub(l.Get(mv.Addr, mv.Denom), mv.Amt))
	case "received":
		l.Set(mv.Addr, mv.Denom, new(big.Int).Add(l.Get(mv.Addr, mv.Denom), mv.Amt))
	case "mint":
		l.Supply[mv.Denom] = new(big.Int).Add(l.GetSupply(mv.Denom), mv.Amt)
	case "burn":
		l.Supply[mv.Denom] = new(big.Int).Sub(l.GetSupply(mv.Denom), mv.Amt)
	}
}

// ApplySheet advances the ledger by all movements of a sheet.
func (l *Ledger) ApplySheet(s *Sheet) {
	for _, mv := range s.Moves {
		l.Apply(mv)
	}
}

// Denoms of addr with non-zero balance, sorted.
func (l *Ledger) Denoms(addr string) []string {
	var out []string
	for d, v := range l.Bal[addr] {
		if v.Sign() != 0 {
			out = append(out, d)
		}
	}
	sort.Strings(out)
	return out
}

// Want is an expected balance sheet under construction: addr -> denom -> delta.
type Want map[string]map[string]*big.Int

// Put adds v to the expected delta of (addr, denom).
func (m Want) Put(addr, denom string, v *big.Int) Want {
	if m[addr] == nil {
		m[addr] = map[string]*big.Int{}
	}
	if m[addr][denom] == nil {
		m[addr][denom] = new(big.Int)
	}
	m[addr][denom].Add(m[addr][denom], v)
	return m
}

// PutCoins adds (sign=+1) or subtracts (sign=-1) every coin.
func (m Want) PutCoins(addr string, coins sdk.Coins, sign int) Want {
	for _, c := range coins {
		v := c.Amount.BigInt()
		if sign < 0 {
			v = new(big.Int).Neg(v)
		}
		m.Put(addr, c.Denom, v)
	}
	return m
}

// Diff compares a sheet with the expectation: "" when they agree exactly.
func (m Want) Diff(s *Sheet) string { return s.ExpectOnly(m) }
