// Package engine is the deterministic chain simulator: one seed decides every choice.
package engine

import (
	"math/big"
	"math/bits"
)

// Rand is xoshiro256** seeded through splitmix64. It is the only source of choice in a
// simulated run; nothing in the harness reads another random source or the real clock.
type Rand struct {
	s     [4]uint64
	Draws uint64
}

func splitmix(x *uint64) uint64 {
	*x += 0x9e3779b97f4a7c15
	z := *x
	z = (z ^ (z >> 30)) * 0xbf58476d1ce4e5b9
	z = (z ^ (z >> 27)) * 0x94d049bb133111eb
	return z ^ (z >> 31)
}

// Mix derives a sub-seed from a base seed, a string and an index.
func Mix(seed uint64, tag string, idx uint64) uint64 {
	x := seed
	h := splitmix(&x)
	for i := 0; i < len(tag); i++ {
		x ^= uint64(tag[i]) * 0x100000001b3
		h ^= splitmix(&x)
	}
	x ^= idx * 0x9e3779b97f4a7c15
	h ^= splitmix(&x)
	return h
}

func NewRand(seed uint64) *Rand {
	r := &Rand{}
	x := seed
	for i := range r.s {
		r.s[i] = splitmix(&x)
	}
	return r
}

func (r *Rand) Uint64() uint64 {
	r.Draws++
	s := &r.s
	res := bits.RotateLeft64(s[1]*5, 7) * 9
	t := s[1] << 17
	s[2] ^= s[0]
	s[3] ^= s[1]
	s[1] ^= s[2]
	s[0] ^= s[3]
	s[2] ^= t
	s[3] = bits.RotateLeft64(s[3], 45)
	return res
}

// Intn returns a value in [0,n). n<=0 returns 0.
func (r *Rand) Intn(n int) int {
	if n <= 0 {
		return 0
	}
	return int(r.Uint64() % uint64(n))
}

// Int63n returns a value in [0,n).
func (r *Rand) Int63n(n int64) int64 {
	if n <= 0 {
		return 0
	}
	return int64(r.Uint64() % uint64(n))
}

// Range returns a value in [lo,hi].
func (r *Rand) Range(lo, hi int64) int64 {
	if hi <= lo {
		return lo
	}
	return lo + r.Int63n(hi-lo+1)
}

func (r *Rand) Float() float64 { return float64(r.Uint64()>>11) / (1 << 53) }

// Bool is true with probability p.
func (r *Rand) Bool(p float64) bool { return r.Float() < p }

// Weighted picks an index with probability proportional to w[i].
func (r *Rand) Weighted(w []int) int {
	t := 0
	for _, x := range w {
		t += x
	}
	if t <= 0 {
		return 0
	}
	k := r.Intn(t)
	for i, x := range w {
		if k < x {
			return i
		}
		k -= x
	}
	return len(w) - 1
}

// BigBelow returns a uniform value in [0,n).
func (r *Rand) BigBelow(n *big.Int) *big.Int {
	if n.Sign() <= 0 {
		return new(big.Int)
	}
	words := (n.BitLen() + 63) / 64
	v := new(big.Int)
	for i := 0; i < words+1; i++ {
		v.Lsh(v, 64)
		v.Or(v, new(big.Int).SetUint64(r.Uint64()))
	}
	return v.Mod(v, n)
}

// BigRange returns a uniform value in [lo,hi].
func (r *Rand) BigRange(lo, hi *big.Int) *big.Int {
	if hi.Cmp(lo) <= 0 {
		return new(big.Int).Set(lo)
	}
	d := new(big.Int).Sub(hi, lo)
	d.Add(d, big.NewInt(1))
	return d.Add(r.BigBelow(d), lo)
}

// BigLogUniform returns a value whose bit length is uniform in [1,maxBits]: magnitudes from
// single units up to 2^maxBits are equally likely.
func (r *Rand) BigLogUniform(maxBits int) *big.Int {
	b := 1 + r.Intn(maxBits)
	hi := new(big.Int).Lsh(big.NewInt(1), uint(b))
	lo := new(big.Int).Lsh(big.NewInt(1), uint(b-1))
	return r.BigRange(lo, hi.Sub(hi, big.NewInt(1)))
}

// Perm returns a random permutation of 0..n-1.
func (r *Rand) Perm(n int) []int {
	p := make([]int, n)
	for i := range p {
		p[i] = i
	}
	for i := n - 1; i > 0; i-- {
		j := r.Intn(i + 1)
		p[i], p[j] = p[j], p[i]
	}
	return p
}

// Bytes returns n pseudo-random bytes.
func (r *Rand) Bytes(n int) []byte {
	b := make([]byte, n)
	for i := 0; i < n; i += 8 {
		v := r.Uint64()
		for j := 0; j < 8 && i+j < n; j++ {
			b[i+j] = byte(v >> (8 * j))
		}
	}
	return b
}
