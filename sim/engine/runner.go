package engine

import (
	"bytes"
	"context"
	"crypto/sha256"
	"encoding/hex"
	"encoding/json"
	"fmt"
	"math/big"
	"os"
	"sort"
	"strings"
	"time"

	abci "github.com/cometbft/cometbft/abci/types"
	clienttx "github.com/cosmos/cosmos-sdk/client/tx"
	sdk "github.com/cosmos/cosmos-sdk/types"
	"github.com/cosmos/cosmos-sdk/types/tx/signing"
	authsigning "github.com/cosmos/cosmos-sdk/x/auth/signing"
	banktypes "github.com/cosmos/cosmos-sdk/x/bank/types"

	"mods.irisnet.org/simapp"
)

// Profile names a module mix and how the engine knobs are sampled for it.
type Profile struct {
	Name string
	Mods func() []Module
	// Tune adjusts the sampled engine configuration (block counts, rates) for the profile.
	Tune func(cfg *EngineConfig, rng *Rand)
	// Weights overrides the modules' share of generated operations in this profile.
	Weights map[string]int
	// Groups (swarm): in half of the generated runs one of these module groups, chosen from the
	// run's PRNG, gets six or thirty times its share of the operations, so that chains of events that
	// need many operations of a few modules (answers to a feed's requests, a pool's whole life)
	// also complete in runs shared by a dozen workloads.
	Groups [][]string
}

// Property ties a property id to the profile that explores it and to its evidence rules.
type Property struct {
	ID      string
	Profile string
	// NonTrivial decides from a run's counters whether the property's oracle made a
	// substantive comparison in that run.
	NonTrivial func(c map[string]int64) bool
	// Probes that must be non-zero over a whole batch, else the check is vacuous (exit 2).
	Probes []string
	Rule   string
}

var (
	profiles   = map[string]*Profile{}
	properties = map[string]*Property{}
)

func RegisterProfile(p *Profile)   { profiles[p.Name] = p }
func RegisterProperty(p *Property) { properties[p.ID] = p }
func GetProperty(id string) *Property {
	return properties[id]
}
func GetProfile(name string) *Profile { return profiles[name] }
func PropertyIDs() []string           { return SortedKeys(properties) }

// RunSpec selects one simulated run.
type RunSpec struct {
	Property string
	Seed     uint64
	Replay   *Schedule // non-nil: execute this schedule literally
	Long     bool      // thorough tier: longer runs
}

// RunResult is what one run reports.
type RunResult struct {
	Seed        uint64           `json:"seed"`
	Property    string           `json:"property"`
	Violations  []*Violation     `json:"violations,omitempty"`
	Counts      map[string]int64 `json:"counts"`
	Blocks      int64            `json:"blocks"`
	Txs         int64            `json:"txs"`
	SimNs       int64            `json:"sim_ns"`
	States      int              `json:"states"`
	Fingerprint string           `json:"fingerprint"`
	NonTrivial  bool             `json:"nontrivial"`
	Harness     string           `json:"harness_error,omitempty"`
	// AppDigest chains the app hash of every block the primary committed: equal seeds must
	// give equal digests in every process.
	AppDigest string    `json:"app_digest"`
	Schedule  *Schedule `json:"schedule,omitempty"`
	Ops       int       `json:"ops"`
	Log       []string  `json:"log,omitempty"`
}

const ampleGas = 30_000_000

// debugFail (env VERIF_DEBUG_FAIL=<substring of op kind>) prints rejected transactions of that kind.
var debugFail = os.Getenv("VERIF_DEBUG_FAIL")

// Run executes one simulated run. It must be called inside a synctest bubble so that the
// host clock is the simulator's.
func Run(spec RunSpec) (res *RunResult) {
	prop := properties[spec.Property]
	if prop == nil {
		return &RunResult{Seed: spec.Seed, Property: spec.Property, Harness: "unknown property " + spec.Property}
	}
	prof := profiles[prop.Profile]
	if spec.Replay != nil && spec.Replay.Profile != "" {
		prof = profiles[spec.Replay.Profile]
	}
	if prof == nil {
		return &RunResult{Seed: spec.Seed, Property: spec.Property, Harness: "unknown profile " + prop.Profile}
	}
	w := &World{
		Seed: spec.Seed, Labels: map[string]string{}, modIdx: map[string]Module{},
		violKey: map[string]bool{}, Counts: map[string]int64{}, States: map[[8]byte]struct{}{},
		gasMax: map[string]uint64{}, gasMin: map[string]uint64{}, denoms: map[string]*big.Int{}, Ledger: NewLedger(),
		Focus: spec.Property, Replay: spec.Replay != nil,
	}
	res = &RunResult{Seed: spec.Seed, Property: spec.Property}
	defer func() {
		if r := recover(); r != nil {
			if he, ok := r.(*HarnessError); ok {
				res.Harness = he.Msg
			} else {
				res.Harness = fmt.Sprintf("harness panic: %v", r)
				if p, ok := r.(error); ok {
					res.Harness = "harness panic: " + p.Error()
				}
				res.Harness += "\n" + stackOf()
			}
		}
		w.finish(res, prop)
	}()

	rng := NewRand(Mix(spec.Seed, "run", 0))
	w.weights = prof.Weights
	w.groups = prof.Groups
	w.Mods = prof.Mods()
	for _, m := range w.Mods {
		w.modIdx[m.Name()] = m
	}
	if spec.Replay != nil {
		w.Cfg = spec.Replay.Engine
		w.Sched = spec.Replay
		for _, m := range w.Mods {
			// (a schedule recorded before a module joined the profile has no configuration
			// for it: the module then runs with its zero configuration, i.e. does nothing)
			if raw := spec.Replay.ModCfg[m.Name()]; len(raw) > 0 {
				m.LoadConfig(w, raw)
			}
		}
	} else {
		w.Cfg = sampleEngine(rng, spec.Long)
		if prof.Tune != nil {
			prof.Tune(&w.Cfg, rng)
		}
		w.Sched = &Schedule{Version: 1, Property: spec.Property, Profile: prof.Name, Seed: spec.Seed,
			ModCfg: map[string]json.RawMessage{}}
		for _, m := range w.Mods {
			w.Cfg.Mods = append(w.Cfg.Mods, m.Name())
		}
	}
	for i := 0; i < w.Cfg.Actors; i++ {
		w.Actors = append(w.Actors, newActor(1, i)) // keys are fixed: schedules stay valid across seeds
	}
	if spec.Replay == nil {
		for _, m := range w.Mods {
			c := m.Configure(w, rng)
			bz, err := json.Marshal(c)
			if err != nil {
				Fatal("config of %s: %v", m.Name(), err)
			}
			w.Sched.ModCfg[m.Name()] = bz
			// install the configuration through the same path replay uses
			m.LoadConfig(w, bz)
		}
		if !w.Cfg.FaultFree {
			// drawn from a stream of its own: everything else about a seed's run is as it was
			// before this fault kind existed
			w.simRng = NewRand(Mix(spec.Seed, "simulate", 0))
			if w.simRng.Bool(0.5) {
				w.Cfg.PSimulate = 0.3 * w.simRng.Float()
			}
		}
		// (VERIF_FORCE_INITIAL: development aid, every run starts high; the registered checks never set it)
		if hr := NewRand(Mix(spec.Seed, "initial-height", 0)); hr.Bool(0.12) || os.Getenv("VERIF_FORCE_INITIAL") != "" {
			boundary := []int64{1 << 8, 1 << 8, 1 << 8, 1 << 16, 1 << 16, 1 << 32}[hr.Intn(6)]
			w.Cfg.InitialHeight = boundary - 3 - hr.Int63n(118)
		}
		w.Sched.Engine = w.Cfg
	}
	w.NeedDenom(sdk.DefaultBondDenom, new(big.Int).Lsh(big.NewInt(1), 100))
	for _, m := range w.Mods {
		m.Setup(w)
	}

	w.start()

	if spec.Replay != nil {
		for _, bp := range spec.Replay.Blocks {
			if !w.execBlock(bp) {
				break
			}
		}
	} else {
		w.generate(rng)
	}
	for _, m := range w.Mods {
		m.Final(w)
	}
	return res
}

func sampleEngine(rng *Rand, long bool) EngineConfig {
	c := EngineConfig{
		Actors:      6 + rng.Intn(5),
		MaxGas:      -1,
		GenesisUnix: 946684800 + rng.Range(-365*86400, 365*86400), // around the bubble's host "now"
		Blocks:      30 + rng.Intn(50),
		OpsPerBlock: 0.5 + 5*rng.Float(),
	}
	if rng.Bool(0.5) {
		// chain time close to the host clock, at every scale from seconds to a month, on
		// either side: durations measured against the host clock then straddle any threshold
		d := int64(1) << uint(rng.Intn(22))
		if rng.Bool(0.5) {
			d = -d
		}
		c.GenesisUnix = 946684800 + d
	}
	if long {
		c.Blocks = 80 + rng.Intn(220)
	}
	if rng.Bool(0.15) {
		c.MaxGas = 2_000_000 + rng.Int63n(6_000_000)
	}
	c.FaultFree = rng.Bool(0.25)
	if !c.FaultFree {
		c.PDrop = 0.1 * rng.Float()
		c.PDup = 0.1 * rng.Float()
		c.PDelay = 0.4 * rng.Float()
		if rng.Bool(0.6) {
			c.POOG = 0.06 * rng.Float()
		}
		if rng.Bool(0.5) {
			c.PRestart = 0.06 * rng.Float()
		}
		if rng.Bool(0.3) {
			c.PCrash = 0.04 * rng.Float()
		}
		if rng.Bool(0.5) {
			c.PFailTail = 0.04 * rng.Float()
		}
	}
	c.DeltaMode = []string{"const", "jitter", "jitter", "heavy", "heavy", "nano"}[rng.Intn(6)]
	c.OneTxBlocks = rng.Bool(0.1)
	return c
}

func (w *World) drawDelta(rng *Rand) int64 {
	const s = int64(time.Second)
	switch w.Cfg.DeltaMode {
	case "const":
		return 5 * s
	case "jitter":
		return rng.Range(1*s, 10*s)
	case "nano":
		if rng.Bool(0.9) {
			return 1
		}
		return rng.Range(1, s)
	default: // heavy: a halted chain resuming now and then
		switch {
		case rng.Bool(0.04):
			w.Hit("fault.clock_jump_days")
			return rng.Range(86400*s, 10*86400*s)
		case rng.Bool(0.08):
			w.Hit("fault.clock_jump_hours")
			return rng.Range(600*s, 6*3600*s)
		default:
			return rng.Range(1*s, 8*s)
		}
	}
}

// start builds the primary node, imports genesis and commits the first (empty) block.
func (w *World) start() {
	opts := w.NodeOpt
	if len(w.Actors) > 0 {
		opts.Governor = w.Governor().Addr.String()
	}
	hooks := w.postBuild
	prev := opts.PostBuild
	opts.PostBuild = func(n *Node) {
		if prev != nil {
			prev(n)
		}
		for _, h := range hooks {
			h(n)
		}
	}
	w.NodeOpt = opts
	n := NewNode("primary", opts)
	n.Primary = true
	w.Node = n
	spec := w.GenesisSpec()
	state := n.BuildGenesis(spec)
	w.GenesisState = state
	if err := n.InitChain(state, spec.Time, w.Base()+1, w.Cfg.MaxGas); err != nil {
		Fatal("InitChain of the run's own genesis failed: %v", err)
	}
	w.Time = spec.Time
	w.Height = w.Base()
	if w.Base() > 0 {
		w.Hit("chain.initial_height_above_one")
	}
	// mirror the genesis balances
	for _, a := range spec.Accounts {
		for _, c := range a.Coins {
			w.Ledger.Set(a.Addr.String(), c.Denom, c.Amount.BigInt())
		}
	}
	// first block: empty, commits genesis
	if !w.execBlock(&BlockPlan{DeltaNs: int64(time.Second), Phase: "genesis"}) {
		Fatal("genesis block failed")
	}
	w.syncLedgerFromBank()
	for _, a := range w.Actors {
		acc := n.App.AccountKeeper.GetAccount(n.Ctx(), a.Addr)
		if acc == nil {
			Fatal("actor %d has no account", a.Idx)
		}
		a.Num, a.Seq = acc.GetAccountNumber(), acc.GetSequence()
	}
	for _, m := range w.Mods {
		m.Started(w)
	}
}

// Governor is the actor whose address is the authority of the parameterised modules.
func (w *World) Governor() *Actor { return w.Actors[len(w.Actors)-1] }

// GenesisSpec builds the genesis description of this run.
func (w *World) GenesisSpec() GenesisSpec {
	spec := GenesisSpec{Time: time.Unix(w.Cfg.GenesisUnix, 0).UTC(), MaxGas: w.Cfg.MaxGas}
	for _, a := range w.Actors {
		var coins sdk.Coins
		for _, d := range SortedKeys(w.denoms) {
			coins = coins.Add(sdk.NewCoin(d, sdkIntFromBig(w.denoms[d])))
		}
		spec.Accounts = append(spec.Accounts, GenesisAccount{Addr: a.Addr, Coins: coins})
	}
	for _, m := range w.Mods {
		m := m
		spec.Mutators = append(spec.Mutators, func(n *Node, gs simapp.GenesisState) { m.Genesis(w, n, gs) })
	}
	return spec
}

// syncLedgerFromBank loads every balance and supply from the bank (after genesis).
func (w *World) syncLedgerFromBank() {
	l := NewLedger()
	ctx := w.Node.Ctx()
	w.Node.App.BankKeeper.IterateAllBalances(ctx, func(addr sdk.AccAddress, c sdk.Coin) bool {
		l.Set(addr.String(), c.Denom, c.Amount.BigInt())
		return false
	})
	w.Node.App.BankKeeper.IterateTotalSupply(ctx, func(c sdk.Coin) bool {
		l.Supply[c.Denom] = c.Amount.BigInt()
		return false
	})
	w.Ledger = l
}

// checkLedger compares the event-driven mirror with the bank's committed state: a module
// that moved value without the bank keeper, or a failed transaction that left a trace in
// the bank, shows up here.
func (w *World) checkLedger() {
	ctx := w.Node.Ctx()
	seen := map[string]bool{}
	var bad string
	w.Node.App.BankKeeper.IterateAllBalances(ctx, func(addr sdk.AccAddress, c sdk.Coin) bool {
		k := addr.String() + "|" + c.Denom
		seen[k] = true
		if w.Ledger.Get(addr.String(), c.Denom).Cmp(c.Amount.BigInt()) != 0 {
			bad = fmt.Sprintf("%s: bank %s, mirror %s", k, c.Amount, w.Ledger.Get(addr.String(), c.Denom))
			return true
		}
		return false
	})
	if bad == "" {
		for _, a := range SortedKeys(w.Ledger.Bal) {
			for _, d := range w.Ledger.Denoms(a) {
				if !seen[a+"|"+d] {
					bad = fmt.Sprintf("%s|%s: bank 0, mirror %s", a, d, w.Ledger.Get(a, d))
				}
			}
		}
	}
	if bad == "" {
		w.Node.App.BankKeeper.IterateTotalSupply(ctx, func(c sdk.Coin) bool {
			if w.Ledger.GetSupply(c.Denom).Cmp(c.Amount.BigInt()) != 0 {
				bad = fmt.Sprintf("supply %s: bank %s, mirror %s", c.Denom, c.Amount, w.Ledger.GetSupply(c.Denom))
				return true
			}
			return false
		})
	}
	if bad != "" {
		// The bank keeper reports every movement through events; a balance that changed
		// without one means an operation failed half way and left a trace (the SDK's
		// multi-coin send deducts coin by coin before it reports; outside a transaction -
		// in begin/end block - nothing rolls that back), or a failed transaction leaked.
		// Coins moved without an account of where to: the escrow / conservation clause of
		// whatever property the run is deciding is broken. Never seen on the unchanged tree.
		prop := w.Focus
		if prop == "" {
			prop = "ENGINE"
		}
		w.Violate(prop, "bank-trace-without-movement/"+accountClass(bad), "bank state and the movements reported by the bank keeper's events disagree after block %d: %s (a failed operation left a partial write behind)", w.Height, bad)
		w.syncLedgerFromBank()
	}
}

func sdkIntFromBig(b *big.Int) sdkInt { return newSdkInt(b) }

var moduleAccountNames = []string{"coinswap", "farm", "reward_collector", "htlc", "nft", "mt", "service_deposit_account",
	"service_request_account", "service_fee_collector", "token", "fee_collector", "distribution", "gov", "mint", "bonded_tokens_pool", "not_bonded_tokens_pool"}

// accountClass names the module account a mismatch description starts with, else "account".
func accountClass(desc string) string {
	for _, n := range moduleAccountNames {
		if strings.HasPrefix(desc, ModAddr(n)) {
			return n
		}
	}
	if strings.HasPrefix(desc, "supply ") {
		return "supply"
	}
	return "account"
}

// buildTx signs the plan's messages with the signer's current sequence.
func (w *World) buildTx(tp *TxPlan) ([]byte, error) {
	if len(tp.Ops) == 0 {
		return nil, fmt.Errorf("empty tx")
	}
	signer := w.A(tp.Ops[0].Actor)
	var msgs []sdk.Msg
	for _, op := range tp.Ops {
		if op.Mod == "engine" && op.Kind == "failtail" {
			// a message that is valid for the ante handler and fails at execution: the whole
			// transaction, including the messages before it, must roll back
			impossible := sdk.NewCoins(sdk.NewCoin(sdk.DefaultBondDenom, newSdkInt(new(big.Int).Lsh(big.NewInt(1), 250))))
			msgs = append(msgs, banktypes.NewMsgSend(signer.Addr, signer.Addr, impossible))
			continue
		}
		m := w.modIdx[op.Mod]
		if m == nil {
			return nil, fmt.Errorf("module %s not in this run", op.Mod)
		}
		w.curOp = op.ID
		msg, err := m.Build(w, op)
		if err != nil {
			return nil, err
		}
		msgs = append(msgs, msg)
	}
	gas := tp.Gas
	if gas == 0 {
		gas = ampleGas
		if w.Cfg.MaxGas > 0 && int64(gas) > w.Cfg.MaxGas {
			gas = uint64(w.Cfg.MaxGas)
		}
	}
	txc := w.Node.App.TxConfig()
	txb := txc.NewTxBuilder()
	if err := txb.SetMsgs(msgs...); err != nil {
		return nil, err
	}
	txb.SetGasLimit(gas)
	mode := signing.SignMode_SIGN_MODE_DIRECT
	sig := signing.SignatureV2{PubKey: signer.Priv.PubKey(),
		Data: &signing.SingleSignatureData{SignMode: mode}, Sequence: signer.Seq}
	if err := txb.SetSignatures(sig); err != nil {
		return nil, err
	}
	sd := authsigning.SignerData{Address: signer.Addr.String(), ChainID: ChainID,
		AccountNumber: signer.Num, Sequence: signer.Seq, PubKey: signer.Priv.PubKey()}
	sig, err := clienttx.SignWithPrivKey(context.Background(), mode, sd, txb, signer.Priv, txc, signer.Seq)
	if err != nil {
		return nil, err
	}
	if err := txb.SetSignatures(sig); err != nil {
		return nil, err
	}
	bz, err := txc.TxEncoder()(txb.GetTx())
	if err == nil && debugFail != "" {
		if _, derr := txc.TxDecoder()(bz); derr != nil {
			fmt.Printf("DEBUG-DECODE %s: %v\n", txKind(tp), derr)
		}
	}
	return bz, err
}

func splitPhases(events []abci.Event) (begin, end []abci.Event) {
	for _, ev := range events {
		mode, _ := attr(ev, "mode")
		if mode == "BeginBlock" {
			begin = append(begin, ev)
		} else {
			end = append(end, ev)
		}
	}
	return
}

// execBlock runs one block of the schedule on the primary node and feeds every observer.
// It returns false when the run cannot continue (a panic escaped FinalizeBlock).
func (w *World) execBlock(bp *BlockPlan) bool {
	n := w.Node
	crash := false
	for _, f := range bp.Faults {
		switch f.Kind {
		case "restart":
			n.Restart()
			w.Hit("fault.restart")
		case "crash_before_commit":
			crash = true
		}
	}
	if !w.Replay && bp.Phase != "genesis" {
		// recorded before it executes: a block whose execution panics is part of the schedule
		w.Sched.Blocks = append(w.Sched.Blocks, bp)
	}
	for _, m := range w.Mods {
		m.BeforeBlock(w, bp)
	}
	w.Height++
	w.Time = w.Time.Add(time.Duration(bp.DeltaNs))
	if w.Cfg.HostFollowsChain {
		// a validator executes a block when it is produced: its host clock reads about the
		// block's time. The simulator moves the (fake) host clock; nothing sleeps for real.
		if d := w.Time.Sub(time.Now()); d > 0 {
			time.Sleep(d)
			w.Hit("clock.host_synced_to_block_time")
		}
	}
	w.SimSpan += time.Duration(bp.DeltaNs)
	blk := &Block{Height: w.Height, Time: w.Time}
	var included []*TxPlan
	var sims [][]byte
	seqBefore := map[int]uint64{}
	for _, tp := range bp.Txs {
		if len(tp.Ops) == 0 {
			continue
		}
		signer := w.A(tp.Ops[0].Actor)
		bz, err := w.buildTx(tp)
		if err != nil {
			w.Hit("tx.unbuildable")
			continue
		}
		if _, ok := seqBefore[signer.Idx]; !ok {
			seqBefore[signer.Idx] = signer.Seq
		}
		signer.Seq++ // optimistic; re-synchronised after the block
		blk.Txs = append(blk.Txs, bz)
		included = append(included, tp)
		if tp.Sim {
			sims = append(sims, bz)
		}
	}
	for _, bz := range sims {
		// gas estimation on this node only: executes the messages on a discarded branch of
		// the check state; on correct code it leaves no trace anywhere
		ok, err := n.Simulate(bz)
		if err != nil {
			w.reportExecError(err, bp, included)
			return false
		}
		w.Hit("fault.simulated_tx")
		if ok {
			w.Hit("fault.simulated_tx_ok")
		}
	}
	for _, m := range w.Mods {
		if h, ok := m.(interface{ AfterSimulate(*World) }); ok && len(sims) > 0 {
			h.AfterSimulate(w)
		}
	}
	res, err := n.Exec(blk)
	if err != nil {
		w.reportExecError(err, bp, included)
		return false
	}
	if crash {
		// the node dies after executing the block and before committing it: nothing of the
		// block is durable; after the restart the block is executed again
		first := digestResponse(res)
		n.Restart()
		w.Hit("fault.crash_before_commit")
		res2, err2 := n.Exec(blk)
		if err2 != nil {
			w.reportExecError(err2, bp, included)
			return false
		}
		if second := digestResponse(res2); first != second {
			w.Violate("C11", "reexec-after-crash", "block %d executed again after a crash before commit gave a different result (%s vs %s)", w.Height, first, second)
		}
		res = res2
	}
	if len(res.TxResults) != len(blk.Txs) {
		Fatal("FinalizeBlock returned %d results for %d txs", len(res.TxResults), len(blk.Txs))
	}
	beginEv, endEv := splitPhases(res.Events)
	ph := &Phase{Name: "BeginBlock", Height: w.Height, Time: w.Time, Events: beginEv, Sheet: SheetOf(beginEv)}
	w.curOp = -1
	for _, m := range w.Mods {
		m.OnBeginBlock(w, ph)
	}
	w.Ledger.ApplySheet(ph.Sheet)
	for i, r := range res.TxResults {
		tp := included[i]
		h := sha256.Sum256(blk.Txs[i])
		tr := &TxRecord{Plan: tp, Height: w.Height, Index: i, Time: w.Time, Hash: h[:], Bytes: blk.Txs[i],
			Code: r.Code, Codespace: r.Codespace, Log: r.Log, GasWanted: r.GasWanted, GasUsed: r.GasUsed,
			Events: r.Events, Sheet: SheetOf(r.Events)}
		tr.Infra = r.Code != 0 && isInfraFailure(r.Code, r.Codespace, r.Log)
		if hasFailTail(tp) {
			if r.Code == 0 {
				Fatal("a transaction with a deliberately failing tail message was accepted")
			}
			tr.Infra = true
			w.Hit("fault.failing_tail_msg")
		}
		if r.Code == 0 {
			var md sdk.TxMsgData
			if err := md.Unmarshal(r.Data); err == nil {
				for _, a := range md.MsgResponses {
					tr.resp = append(tr.resp, a.Value)
				}
			}
		}
		w.noteTx(tr)
		seen := map[string]bool{}
		for _, op := range tp.Ops {
			if !seen[op.Mod] && op.Mod != "engine" {
				seen[op.Mod] = true
				w.curOp = op.ID
				w.modIdx[op.Mod].OnTx(w, tr)
			}
		}
		w.Ledger.ApplySheet(tr.Sheet)
	}
	w.curOp = -1
	ph = &Phase{Name: "EndBlock", Height: w.Height, Time: w.Time, Events: endEv, Sheet: SheetOf(endEv)}
	for _, m := range w.Mods {
		m.OnEndBlock(w, ph)
	}
	w.Ledger.ApplySheet(ph.Sheet)
	if err := n.Commit(blk); err != nil {
		w.reportExecError(err, bp, included)
		return false
	}
	w.Count("blocks", 1)
	{
		h := sha256.New()
		h.Write(w.appDigest[:])
		h.Write(res.AppHash)
		copy(w.appDigest[:], h.Sum(nil))
	}
	if w.Height > w.Base()+1 {
		w.checkLedger()
	}
	// re-synchronise sequences with the committed state
	ctx := n.Ctx()
	for _, idx := range sortedInts(seqBefore) {
		a := w.Actors[idx]
		if s, err := n.App.AccountKeeper.GetSequence(ctx, a.Addr); err == nil {
			a.Seq = s
		}
	}
	for _, m := range w.Mods {
		m.OnBlock(w, blk, res)
	}
	for _, m := range w.Mods {
		m.OnCommit(w)
	}
	for _, f := range bp.Faults {
		if f.Kind == "restart" || f.Kind == "crash_before_commit" {
			continue
		}
		for _, m := range w.Mods {
			if h, ok := m.(FaultHandler); ok {
				h.OnFault(w, f)
			}
		}
	}
	return true
}

func sortedInts(m map[int]uint64) []int {
	var out []int
	for k := range m {
		out = append(out, k)
	}
	sort.Ints(out)
	return out
}

func digestResponse(res *abci.ResponseFinalizeBlock) string {
	h := sha256.New()
	h.Write(res.AppHash)
	for _, r := range res.TxResults {
		fmt.Fprintf(h, "|%d|%s|%d|%d|", r.Code, r.Codespace, r.GasWanted, r.GasUsed)
		h.Write(r.Data)
	}
	return hex.EncodeToString(h.Sum(nil)[:8])
}

func (w *World) reportExecError(err error, bp *BlockPlan, txs []*TxPlan) {
	if p, ok := err.(*Panic); ok {
		mod := p.Module()
		if mod == "" {
			Fatal("panic without an irismod frame escaped %s at height %d: %s\n%s", p.Where, w.Height, p.Value, p.Stack)
		}
		w.Violate("C13", "panic/"+mod+"/"+p.Where+"/"+panicSite(p.Stack),
			"%s at height %d panicked in module %s: %s\n%s", p.Where, w.Height, mod, p.Value, trimStack(p.Stack))
		return
	}
	Fatal("ABCI call failed at height %d: %v", w.Height, err)
}

func (w *World) noteTx(tr *TxRecord) {
	w.TxTotal++
	kind := txKind(tr.Plan)
	if debugFail != "" && tr.Code != 0 && strings.Contains(kind, debugFail) {
		fmt.Printf("DEBUG-FAIL h=%d %s code=%s/%d gas=%d/%d log=%s args=%s\n", tr.Height, kind, tr.Codespace, tr.Code, tr.GasUsed, tr.GasWanted, tr.Log, tr.Plan.Ops[0].Args)
	}
	cls := "ok"
	switch {
	case tr.Code == 0:
		w.Count("tx.ok", 1)
		if tr.Plan.Gas == 0 {
			if uint64(tr.GasUsed) > w.gasMax[kind] {
				w.gasMax[kind] = uint64(tr.GasUsed)
			}
			if mn, ok := w.gasMin[kind]; !ok || uint64(tr.GasUsed) < mn {
				w.gasMin[kind] = uint64(tr.GasUsed)
			}
		}
	case tr.Infra:
		cls = "infra"
		w.Count("tx.infra_fail", 1)
		if tr.Plan.Gas != 0 && tr.Code == 11 {
			w.Hit("fault.out_of_gas")
		}
		if tr.Code == 11 && tr.Plan.Gas == 0 {
			w.Hit("fault.block_gas_exhausted")
		}
	default:
		cls = fmt.Sprintf("rej:%s:%d", tr.Codespace, tr.Code)
		w.Count("tx.rejected", 1)
		if tr.Code == 111222 {
			w.Hit("tx.handler_panic")
		}
	}
	if len(tr.Plan.Ops) > 1 {
		w.Hit("tx.multi_msg")
	}
	w.Count("op."+kind+"."+map[bool]string{true: "ok", false: "fail"}[tr.Code == 0], 1)
	w.mixFP(kind + "|" + cls)
}

func txKind(tp *TxPlan) string {
	if len(tp.Ops) == 1 {
		return tp.Ops[0].Mod + "." + tp.Ops[0].Kind
	}
	var b bytes.Buffer
	for i, op := range tp.Ops {
		if i > 0 {
			b.WriteByte('+')
		}
		b.WriteString(op.Mod + "." + op.Kind)
	}
	return b.String()
}

// generate drives the run in generation mode: main phase, quiesce, epilogue.
func (w *World) generate(rng *Rand) {
	pending := map[int64][]*TxPlan{}
	place := func(tp *TxPlan, at int64) {
		if at <= w.Height {
			at = w.Height + 1
		}
		pending[at] = append(pending[at], tp)
	}
	assign := func(tp *TxPlan) {
		for _, op := range tp.Ops {
			w.nextOp++
			op.ID = w.nextOp
		}
	}
	mainEnd := w.Height + int64(w.Cfg.Blocks)
	weights := make([]int, len(w.Mods))
	for i, m := range w.Mods {
		weights[i] = 10
		if wm, ok := m.(interface{ Weight() int }); ok {
			weights[i] = wm.Weight()
		}
		if v, ok := w.weights[m.Name()]; ok {
			weights[i] = v
		}
	}
	if len(w.groups) > 0 && rng.Bool(0.5) {
		g := w.groups[rng.Intn(len(w.groups))]
		factor := []int{6, 30}[rng.Intn(2)]
		for i, m := range w.Mods {
			for _, name := range g {
				if m.Name() == name {
					weights[i] *= factor
				}
			}
		}
		w.Hit("swarm.group." + g[0])
	}
	for w.Height < mainEnd {
		next := w.Height + 1
		bp := &BlockPlan{DeltaNs: w.drawDelta(rng), Phase: "main"}
		// new intents of this round
		k := int(w.Cfg.OpsPerBlock)
		if rng.Float() < w.Cfg.OpsPerBlock-float64(k) {
			k++
		}
		if w.Cfg.OneTxBlocks && k > 1 {
			k = 1
		}
		var burst []*TxPlan
		for i := 0; i < k || len(burst) > 0; i++ {
			var tp *TxPlan
			if len(burst) > 0 {
				tp, burst = burst[0], burst[1:]
				i--
			} else {
				m := w.Mods[rng.Weighted(weights)]
				tp = m.Gen(w, rng)
			}
			if tp == nil || len(tp.Ops) == 0 {
				continue
			}
			if len(tp.Also) > 0 {
				burst = append(burst, tp.Also...)
				tp.Also = nil
				w.Hit("transport.bursts")
			}
			assign(tp)
			if tp.At > 0 {
				tp.Note = "retimed"
				place(tp, tp.At)
				w.Hit("transport.retimed")
				continue
			}
			if rng.Bool(w.Cfg.PDrop) {
				w.Hit("fault.tx_dropped")
				continue
			}
			at := next
			if rng.Bool(w.Cfg.PDelay) {
				d := 1 + int64(rng.Intn(3))
				if rng.Bool(0.2) {
					d += int64(rng.Intn(20))
				}
				at += d
				tp.Note = fmt.Sprintf("delayed-by-%d", d)
				w.Hit("fault.tx_delayed")
			}
			place(tp, at)
			if rng.Bool(w.Cfg.PDup) {
				cp := cloneTx(tp)
				assign(cp)
				cp.Note = fmt.Sprintf("retry-of-%d", tp.Ops[0].ID)
				place(cp, at+int64(rng.Intn(4)))
				w.Hit("fault.tx_duplicated")
			}
		}
		txs := pending[next]
		delete(pending, next)
		// position within the block: shuffled
		if len(txs) > 1 {
			p := rng.Perm(len(txs))
			sh := make([]*TxPlan, len(txs))
			for i, j := range p {
				sh[i] = txs[j]
			}
			txs = sh
			w.Hit("transport.shuffled_blocks")
		}
		// doomed batches: two or three single-message transactions of one signer become one
		// transaction with a failing tail message - several messages execute against each
		// other's effects on a branch that is then discarded as a whole
		if w.Cfg.PFailTail > 0 && len(txs) > 1 {
			var merged []*TxPlan
			used := map[int]bool{}
			for i, tp := range txs {
				if used[i] {
					continue
				}
				// (NoOOG only exempts a plan from gas-limit injection: a rolled-back parameter
				// update or governor operation is as legitimate a history as any other)
				if len(tp.Ops) == 1 && tp.Gas == 0 && rng.Bool(5*w.Cfg.PFailTail) {
					for j := i + 1; j < len(txs) && len(tp.Ops) < 3; j++ {
						o := txs[j]
						if !used[j] && len(o.Ops) == 1 && o.Ops[0].Actor == tp.Ops[0].Actor && o.Ops[0].Mod != "engine" {
							tp.Ops = append(tp.Ops, o.Ops[0])
							used[j] = true
						}
					}
					if len(tp.Ops) > 1 {
						w.nextOp++
						tp.Ops = append(tp.Ops, &Op{ID: w.nextOp, Mod: "engine", Kind: "failtail", Actor: tp.Ops[0].Actor})
						tp.Note = "doomed-batch"
						w.Hit("fault.doomed_batch")
					}
				}
				merged = append(merged, tp)
			}
			txs = merged
		}
		for _, tp := range txs {
			if hasFailTail(tp) {
				continue
			}
			if w.Cfg.PFailTail > 0 && rng.Bool(w.Cfg.PFailTail) {
				w.nextOp++
				tp.Ops = append(tp.Ops, &Op{ID: w.nextOp, Mod: "engine", Kind: "failtail", Actor: tp.Ops[0].Actor})
				continue
			}
			if !tp.NoOOG && w.Cfg.POOG > 0 && rng.Bool(w.Cfg.POOG) {
				if mx, mn := w.gasMax[txKind(tp)], w.gasMin[txKind(tp)]; mx > 0 {
					// between a little above half of the cheapest accepted transaction of this
					// kind (the ante handler's share is about that much) and the dearest
					lo := mn*55/100 + 2000
					if lo < gasFloor {
						lo = gasFloor
					}
					if mx > lo+500 {
						tp.Gas = lo + uint64(rng.Int63n(int64(mx-lo)))
					}
				}
			}
		}
		if w.Cfg.PSimulate > 0 {
			for _, tp := range txs {
				if w.simRng.Bool(w.Cfg.PSimulate) {
					tp.Sim = true
				}
			}
		}
		bp.Txs = txs
		if w.Cfg.PRestart > 0 && rng.Bool(w.Cfg.PRestart) {
			bp.Faults = append(bp.Faults, Fault{Kind: "restart"})
		}
		if w.Cfg.PCrash > 0 && rng.Bool(w.Cfg.PCrash) {
			bp.Faults = append(bp.Faults, Fault{Kind: "crash_before_commit"})
		}
		for _, m := range w.Mods {
			if g, ok := m.(FaultGen); ok {
				bp.Faults = append(bp.Faults, g.GenFaults(w, rng)...)
			}
		}
		if !w.execBlock(bp) {
			return
		}
	}
	// quiesce: no new intents, no faults; already-submitted transactions still arrive, and
	// blocks advance until every timer the modules know of has fired
	for {
		maxDue := int64(0)
		for _, m := range w.Mods {
			if d := m.MaxDue(w); d > maxDue {
				maxDue = d
			}
		}
		for at := range pending {
			if at > maxDue {
				maxDue = at
			}
		}
		if w.Height > maxDue+1 || w.Height > mainEnd+400 {
			break
		}
		next := w.Height + 1
		bp := &BlockPlan{DeltaNs: 5 * int64(time.Second), Phase: "quiesce", Txs: pending[next]}
		delete(pending, next)
		if !w.execBlock(bp) {
			return
		}
	}
	// epilogue: the modules' closing actions
	var closing []*TxPlan
	for _, m := range w.Mods {
		closing = append(closing, m.Epilogue(w, rng)...)
	}
	for len(closing) > 0 {
		k := 1 + rng.Intn(4)
		if k > len(closing) {
			k = len(closing)
		}
		bp := &BlockPlan{DeltaNs: 5 * int64(time.Second), Phase: "epilogue"}
		for _, tp := range closing[:k] {
			assign(tp)
			bp.Txs = append(bp.Txs, tp)
		}
		closing = closing[k:]
		if !w.execBlock(bp) {
			return
		}
	}
	if !w.execBlock(&BlockPlan{DeltaNs: 5 * int64(time.Second), Phase: "epilogue"}) {
		return
	}
}

func hasFailTail(tp *TxPlan) bool {
	for _, op := range tp.Ops {
		if op.Mod == "engine" && op.Kind == "failtail" {
			return true
		}
	}
	return false
}

func cloneTx(tp *TxPlan) *TxPlan {
	cp := &TxPlan{Gas: tp.Gas, NoOOG: tp.NoOOG, Sim: tp.Sim}
	for _, op := range tp.Ops {
		o := *op
		cp.Ops = append(cp.Ops, &o)
	}
	return cp
}

// gasFloor is comfortably above what the ante handler consumes for the harness's
// single-signer transactions, so that an injected gas limit lets the tx reach the message
// handler and its sequence increment.
const gasFloor = 20_000

func (w *World) finish(res *RunResult, prop *Property) {
	res.Violations = w.Viol
	res.Counts = w.Counts
	res.Blocks = w.Counts["blocks"]
	res.Txs = w.TxTotal
	res.SimNs = int64(w.SimSpan)
	res.States = len(w.States)
	res.Fingerprint = hex.EncodeToString(w.fp[:8])
	res.AppDigest = hex.EncodeToString(w.appDigest[:12])
	res.Ops = w.Sched.NumOps()
	if prop.NonTrivial != nil {
		res.NonTrivial = prop.NonTrivial(w.Counts)
	}
	res.Schedule = w.Sched
}

// BankSendMsg is a helper for donations.
func BankSendMsg(from, to sdk.AccAddress, coins sdk.Coins) sdk.Msg {
	return banktypes.NewMsgSend(from, to, coins)
}
