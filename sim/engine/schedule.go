package engine

import (
	"crypto/sha256"
	"encoding/hex"
	"encoding/json"
	"fmt"
	"os"
)

// Op is one operation of one actor: serialisable, object references symbolic (labels), so
// that a schedule with steps removed is still executable.
type Op struct {
	ID    int             `json:"id"`
	Mod   string          `json:"mod"`
	Kind  string          `json:"kind"`
	Actor int             `json:"actor"`
	Args  json.RawMessage `json:"args,omitempty"`
}

// Decode unmarshals the op's arguments.
func (o *Op) Decode(v any) {
	if len(o.Args) == 0 {
		return
	}
	if err := json.Unmarshal(o.Args, v); err != nil {
		panic(fmt.Sprintf("harness: bad args of op %d %s/%s: %v", o.ID, o.Mod, o.Kind, err))
	}
}

// NewOp builds an op with JSON-encoded arguments.
func NewOp(mod, kind string, actor int, args any) *Op {
	o := &Op{Mod: mod, Kind: kind, Actor: actor}
	if args != nil {
		bz, err := json.Marshal(args)
		if err != nil {
			panic(err)
		}
		o.Args = bz
	}
	return o
}

// TxPlan is one transaction: one or more ops of the same signer (one message per op).
type TxPlan struct {
	Ops  []*Op  `json:"ops"`
	Gas  uint64 `json:"gas,omitempty"`  // 0 = ample
	Note string `json:"note,omitempty"` // provenance: retry-of, delayed-by, retimed
	// Sim: before the block executes, the primary node (only) runs this transaction through
	// baseapp's Simulate, as a client's gas estimation does: full message execution on a
	// branch of the check state that is then discarded
	Sim bool `json:"sim,omitempty"`
	// generation-time only
	At    int64 `json:"-"` // absolute height wanted (0: transport decides)
	NoOOG bool  `json:"-"`
	// Also: further transactions (of other signers) the same intent consists of; each goes
	// through the transport on its own, as if generated right after this one
	Also []*TxPlan `json:"-"`
}

// Tx1 wraps a single op into a plan.
func Tx1(op *Op) *TxPlan { return &TxPlan{Ops: []*Op{op}} }

// Fault is a node-level fault applied around one block.
type Fault struct {
	Kind string          `json:"kind"`
	Args json.RawMessage `json:"args,omitempty"`
}

// BlockPlan is one block of the schedule.
type BlockPlan struct {
	DeltaNs int64     `json:"dt_ns"`
	Txs     []*TxPlan `json:"txs,omitempty"`
	Faults  []Fault   `json:"faults,omitempty"`
	Phase   string    `json:"phase,omitempty"` // main | quiesce | epilogue
}

// EngineConfig is the materialised engine-level swarm configuration of a run.
type EngineConfig struct {
	Actors      int     `json:"actors"`
	MaxGas      int64   `json:"max_gas"`
	GenesisUnix int64   `json:"genesis_unix"`
	Blocks      int     `json:"blocks"`
	OpsPerBlock float64 `json:"ops_per_block"`
	PDrop       float64 `json:"p_drop"`
	PDup        float64 `json:"p_dup"`
	PDelay      float64 `json:"p_delay"`
	POOG        float64 `json:"p_oog"`
	PRestart    float64 `json:"p_restart"`
	PCrash      float64 `json:"p_crash"`
	PFailTail   float64 `json:"p_fail_tail"`
	PSimulate   float64 `json:"p_simulate,omitempty"`
	// InitialHeight: the chain's first block has this height (0 or 1: an ordinary new chain).
	// A chain restarted from an export keeps counting; heights just below 2^8, 2^16 and 2^32
	// make the run cross the values at which a byte of a big-endian height key rolls over.
	InitialHeight int64 `json:"initial_height,omitempty"`
	DeltaMode   string  `json:"delta_mode"`
	FaultFree   bool    `json:"fault_free"`
	OneTxBlocks bool    `json:"one_tx_blocks"`
	// HostFollowsChain: the primary's host clock is moved to each block's time before the
	// block executes (genesis time is then placed at or after the bubble's initial "now").
	HostFollowsChain bool `json:"host_follows_chain"`
	// HostStartSkewNs: how far the host clock is moved before the run starts.
	Mods []string `json:"mods"`
}

// ViolationRecord is what a replay must reproduce.
type ViolationRecord struct {
	Property string `json:"property"`
	Key      string `json:"key"`
	Detail   string `json:"detail"`
	Height   int64  `json:"height"`
}

// Schedule is a fully materialised run: replaying it draws nothing from any PRNG.
type Schedule struct {
	Version  int                        `json:"version"`
	Property string                     `json:"property"`
	Profile  string                     `json:"profile"`
	Seed     uint64                     `json:"seed"`
	Engine   EngineConfig               `json:"engine"`
	ModCfg   map[string]json.RawMessage `json:"module_config"`
	Blocks   []*BlockPlan               `json:"blocks"`
	Expect   *ViolationRecord           `json:"expect,omitempty"`
}

func (s *Schedule) Clone() *Schedule {
	bz, err := json.Marshal(s)
	if err != nil {
		panic(err)
	}
	var out Schedule
	if err := json.Unmarshal(bz, &out); err != nil {
		panic(err)
	}
	return &out
}

// NumOps counts the ops of the schedule.
func (s *Schedule) NumOps() int {
	n := 0
	for _, b := range s.Blocks {
		for _, t := range b.Txs {
			n += len(t.Ops)
		}
	}
	return n
}

// NumFaults counts node-level faults and gas limits.
func (s *Schedule) NumFaults() int {
	n := 0
	for _, b := range s.Blocks {
		n += len(b.Faults)
		for _, t := range b.Txs {
			if t.Gas != 0 {
				n++
			}
			if t.Sim {
				n++
			}
		}
	}
	return n
}

func (s *Schedule) Write(path string) error {
	bz, err := json.MarshalIndent(s, "", " ")
	if err != nil {
		return err
	}
	return os.WriteFile(path, bz, 0o644)
}

func ReadSchedule(path string) (*Schedule, error) {
	bz, err := os.ReadFile(path)
	if err != nil {
		return nil, err
	}
	var s Schedule
	if err := json.Unmarshal(bz, &s); err != nil {
		return nil, err
	}
	return &s, nil
}

// Hash identifies a schedule's content.
func (s *Schedule) Hash() string {
	bz, _ := json.Marshal(s.Blocks)
	h := sha256.Sum256(bz)
	return hex.EncodeToString(h[:8])
}
