package engine

import (
	"math/big"
	"regexp"
	"runtime/debug"
	"strings"

	sdkmath "cosmossdk.io/math"
)

type sdkInt = sdkmath.Int

func newSdkInt(b *big.Int) sdkmath.Int { return sdkmath.NewIntFromBigInt(b) }

// Int converts a big integer to the SDK's integer type.
func Int(b *big.Int) sdkmath.Int { return sdkmath.NewIntFromBigInt(b) }

func stackOf() string { return string(debug.Stack()) }

var siteRe = regexp.MustCompile(`mods\.irisnet\.org/modules/[^\s(]+`)

// panicSite names the first irismod function on a panic's stack.
func panicSite(stack string) string {
	m := siteRe.FindString(stack)
	if i := strings.LastIndex(m, "/"); i >= 0 {
		m = m[i+1:]
	}
	return m
}

func trimStack(stack string) string {
	lines := strings.Split(stack, "\n")
	if len(lines) > 60 {
		lines = lines[:60]
	}
	return strings.Join(lines, "\n")
}

// Catch runs f, turning a panic into a *Panic error.
func Catch(where string, f func() error) error { return catch(where, f) }

// PanicSite names the first irismod function on a panic's stack.
func PanicSite(stack string) string { return panicSite(stack) }
