//go:build go1.25

// Package devtest runs simulated runs from a module's own dev test.
package devtest

import (
	"fmt"
	"os"
	"sort"
	"strconv"
	"testing"
	"testing/synctest"
	"time"

	"verif/sim/engine"
)

func envInt(name string, def int) int {
	if v := os.Getenv(name); v != "" {
		if n, err := strconv.Atoi(v); err == nil {
			return n
		}
	}
	return def
}

// Bubble runs one run with the simulator owning the host clock.
func Bubble(t *testing.T, spec engine.RunSpec) (res *engine.RunResult) {
	defer func() {
		if r := recover(); r != nil {
			if res == nil {
				res = &engine.RunResult{Seed: spec.Seed, Property: spec.Property}
			}
			if res.Harness == "" {
				res.Harness = fmt.Sprintf("bubble: %v", r)
			}
		}
	}()
	synctest.Test(t, func(t *testing.T) { res = engine.Run(spec) })
	return res
}

// Run executes DEV_SEEDS (default n) runs of a property from base seed DEV_SEED and prints
// harness errors, violations (all properties, grouped by key) and the summed counters.
// DEV_LONG=1 selects thorough-tier run lengths. It fails the test on harness errors only.
func Run(t *testing.T, prop string, n int) {
	n = envInt("DEV_SEEDS", n)
	base := uint64(envInt("DEV_SEED", 1))
	long := os.Getenv("DEV_LONG") != ""
	counts := map[string]int64{}
	type vinfo struct {
		n      int
		seed   uint64
		detail string
		ops    int
	}
	viol := map[string]*vinfo{}
	start := time.Now()
	nontrivial, blocks, txs := 0, int64(0), int64(0)
	for i := 0; i < n; i++ {
		seed := engine.Mix(base, prop, uint64(i))
		res := Bubble(t, engine.RunSpec{Property: prop, Seed: seed, Long: long})
		if res.Harness != "" {
			t.Errorf("seed %d (index %d): HARNESS ERROR: %s", seed, i, res.Harness)
			if os.Getenv("DEV_KEEP") != "" && res.Schedule != nil {
				res.Schedule.Write(fmt.Sprintf("/tmp/dev-harness-%s-%d.json", prop, i))
			}
			continue
		}
		if res.NonTrivial {
			nontrivial++
		}
		blocks += res.Blocks
		txs += res.Txs
		for k, v := range res.Counts {
			counts[k] += v
		}
		for _, v := range res.Violations {
			vi := viol[v.Key]
			if vi == nil {
				vi = &vinfo{seed: seed, detail: v.Detail, ops: res.Ops}
				viol[v.Key] = vi
				if d := os.Getenv("DEV_KEEP"); d != "" && res.Schedule != nil {
					res.Schedule.Expect = &engine.ViolationRecord{Property: v.Property, Key: v.Key, Detail: v.Detail, Height: v.Height}
					res.Schedule.Write(fmt.Sprintf("/tmp/dev-viol-%s-%d.json", prop, len(viol)))
				}
			}
			vi.n++
		}
	}
	fmt.Printf("== %s: %d runs, %d non-trivial, %d blocks, %d txs, %.1fs\n", prop, n, nontrivial, blocks, txs, time.Since(start).Seconds())
	keys := make([]string, 0, len(viol))
	for k := range viol {
		keys = append(keys, k)
	}
	sort.Strings(keys)
	for _, k := range keys {
		v := viol[k]
		d := v.detail
		if len(d) > 1200 {
			d = d[:1200] + "..."
		}
		fmt.Printf("VIOLATION %s  (%d runs; first seed %d, %d ops)\n    %s\n", k, v.n, v.seed, v.ops, d)
	}
	ck := make([]string, 0, len(counts))
	for k := range counts {
		ck = append(ck, k)
	}
	sort.Strings(ck)
	for _, k := range ck {
		fmt.Printf("  %-50s %d\n", k, counts[k])
	}
	if p := engine.GetProperty(prop); p != nil {
		for _, pr := range p.Probes {
			if counts[pr] == 0 {
				fmt.Printf("PROBE STUCK AT ZERO: %s\n", pr)
			}
		}
	}
}

// Replay executes a recorded schedule file and prints what it found.
func Replay(t *testing.T, path string) {
	s, err := engine.ReadSchedule(path)
	if err != nil {
		t.Fatal(err)
	}
	res := Bubble(t, engine.RunSpec{Property: s.Property, Seed: s.Seed, Replay: s})
	if res.Harness != "" {
		t.Errorf("HARNESS ERROR: %s", res.Harness)
	}
	for _, v := range res.Violations {
		fmt.Printf("VIOLATION %s at height %d op %d\n    %s\n", v.Key, v.Height, v.OpID, v.Detail)
	}
}
