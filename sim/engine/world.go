package engine

import (
	"crypto/sha256"
	"encoding/binary"
	"encoding/json"
	"fmt"
	"math/big"
	"sort"
	"strings"
	"time"

	abci "github.com/cometbft/cometbft/abci/types"
	"github.com/cosmos/cosmos-sdk/crypto/keys/secp256k1"
	sdk "github.com/cosmos/cosmos-sdk/types"
	authtypes "github.com/cosmos/cosmos-sdk/x/auth/types"
	"github.com/cosmos/gogoproto/proto"

	"mods.irisnet.org/simapp"
)

// Actor is a simulated party with a key derived from the run seed.
type Actor struct {
	Idx  int
	Priv *secp256k1.PrivKey
	Addr sdk.AccAddress
	Seq  uint64
	Num  uint64
}

func (a *Actor) String() string { return a.Addr.String() }

// Module is one workload-and-oracle unit: it generates the operations of its actors, turns
// them into messages at inclusion time, and judges what the chain did with them against its
// own reference model. Embedding Base gives no-op defaults.
type Module interface {
	Name() string
	// Configure draws the module's per-run configuration (generation mode).
	Configure(w *World, rng *Rand) any
	// LoadConfig installs a recorded configuration (replay mode).
	LoadConfig(w *World, raw json.RawMessage)
	// Setup runs once, after Configure/LoadConfig and before genesis: declare denoms etc.
	Setup(w *World)
	Genesis(w *World, n *Node, gs simapp.GenesisState)
	// Started runs after the genesis block is committed.
	Started(w *World)
	Gen(w *World, rng *Rand) *TxPlan
	Build(w *World, op *Op) (sdk.Msg, error)
	BeforeBlock(w *World, bp *BlockPlan)
	OnBeginBlock(w *World, ph *Phase)
	OnTx(w *World, tx *TxRecord)
	OnEndBlock(w *World, ph *Phase)
	// OnBlock runs after the primary executed and committed the block.
	OnBlock(w *World, blk *Block, res *abci.ResponseFinalizeBlock)
	// OnCommit runs after commit: invariants over queries of the committed state.
	OnCommit(w *World)
	// MaxDue is the largest height at which something the module knows of falls due.
	MaxDue(w *World) int64
	Epilogue(w *World, rng *Rand) []*TxPlan
	Final(w *World)
}

// FaultGen is implemented by modules that inject node-level faults of their own kinds
// (exports, parameter experiments, ...): called once per generated block.
type FaultGen interface {
	GenFaults(w *World, rng *Rand) []Fault
}

// FaultHandler receives, after the block's commit, every fault of the block whose kind the
// engine itself does not implement.
type FaultHandler interface {
	OnFault(w *World, f Fault)
}

// KV is one named observation (a query and its rendered response).
type KV struct{ K, V string }

// Querier is implemented by workload modules that can render the queries about the durable
// user-visible objects they know of, against any node (source or re-imported chain).
type Querier interface {
	DurableQueries(w *World, n *Node) []KV
}

// Base provides no-op defaults for Module.
type Base struct{}

func (Base) Configure(*World, *Rand) any                         { return nil }
func (Base) LoadConfig(*World, json.RawMessage)                  {}
func (Base) Setup(*World)                                        {}
func (Base) Genesis(*World, *Node, simapp.GenesisState)          {}
func (Base) Started(*World)                                      {}
func (Base) Gen(*World, *Rand) *TxPlan                           { return nil }
func (Base) Build(*World, *Op) (sdk.Msg, error)                  { return nil, fmt.Errorf("no build") }
func (Base) BeforeBlock(*World, *BlockPlan)                      {}
func (Base) OnBeginBlock(*World, *Phase)                         {}
func (Base) OnTx(*World, *TxRecord)                              {}
func (Base) OnEndBlock(*World, *Phase)                           {}
func (Base) OnBlock(*World, *Block, *abci.ResponseFinalizeBlock) {}
func (Base) OnCommit(*World)                                     {}
func (Base) MaxDue(*World) int64                                 { return 0 }
func (Base) Epilogue(*World, *Rand) []*TxPlan                    { return nil }
func (Base) Final(*World)                                        {}

// Phase is the begin-block or end-block part of a block's execution.
type Phase struct {
	Name   string // BeginBlock | EndBlock
	Height int64
	Time   time.Time
	Events []abci.Event
	Sheet  *Sheet
}

// TxRecord is everything observable about one executed transaction.
type TxRecord struct {
	Plan      *TxPlan
	Height    int64
	Index     int
	Time      time.Time
	Hash      []byte // sha256 of the tx bytes
	Bytes     []byte
	Code      uint32
	Codespace string
	Log       string
	GasWanted int64
	GasUsed   int64
	Events    []abci.Event
	Sheet     *Sheet
	resp      [][]byte
	// Infra: rejected for a reason the harness injected (gas limit, block gas, sequence
	// cascade after such a failure); oracles treat it as "did not happen" and do not
	// compare its verdict.
	Infra bool
}

func (t *TxRecord) OK() bool { return t.Code == 0 }

// Resp decodes the i-th message response into out; false when absent.
func (t *TxRecord) Resp(i int, out proto.Message) bool {
	if i >= len(t.resp) {
		return false
	}
	return proto.Unmarshal(t.resp[i], out) == nil
}

// MsgSheet is the balance sheet of the i-th message.
func (t *TxRecord) MsgSheet(i int) *Sheet {
	if len(t.Plan.Ops) == 1 {
		return t.Sheet
	}
	return SheetOfMsg(t.Events, i)
}

// MsgEvents returns the events of message i.
func (t *TxRecord) MsgEvents(i int) []abci.Event {
	var out []abci.Event
	want := fmt.Sprint(i)
	for _, ev := range t.Events {
		if v, ok := attr(ev, "msg_index"); ok && v == want {
			out = append(out, ev)
		}
	}
	return out
}

// EventAttr finds the first attribute key of the first event of type typ among evs.
func EventAttr(evs []abci.Event, typ, key string) (string, bool) {
	for _, ev := range evs {
		if ev.Type == typ {
			if v, ok := attr(ev, key); ok {
				return v, true
			}
		}
	}
	return "", false
}

// Violation is one observed breach of a property.
type Violation struct {
	Property string `json:"property"`
	Key      string `json:"key"`
	Detail   string `json:"detail"`
	Height   int64  `json:"height"`
	OpID     int    `json:"op_id"`
}

// World is the state of one simulated run.
type World struct {
	Seed      uint64
	Cfg       EngineConfig
	Node      *Node
	Actors    []*Actor
	Ledger    *Ledger
	Height    int64
	Time      time.Time
	Labels    map[string]string
	Mods      []Module
	modIdx    map[string]Module
	Viol      []*Violation
	violKey   map[string]bool
	Counts    map[string]int64 // probes, fault counters, op outcome counters
	States    map[[8]byte]struct{}
	Sched     *Schedule
	Replay    bool
	nextOp    int
	simRng    *Rand
	weights   map[string]int
	groups    [][]string
	gasMax    map[string]uint64
	gasMin    map[string]uint64
	denoms    map[string]*big.Int // genesis funding per actor
	fp        [32]byte
	appDigest [32]byte
	curOp     int
	SimSpan   time.Duration
	TxTotal   int64
	NodeOpt   NodeOptions
	// PostBuild hooks that modules register (taps, registries)
	postBuild []func(n *Node)
	// FocusProperty: the property a run is deciding ("" = all)
	Focus string
	// GenesisState is the app state the run's chain was started from.
	GenesisState []byte
}

// Mod returns a module by name.
func (w *World) Mod(name string) Module { return w.modIdx[name] }

// NeedDenom declares a denom every actor is funded with at genesis.
func (w *World) NeedDenom(denom string, perActor *big.Int) {
	if cur, ok := w.denoms[denom]; !ok || cur.Cmp(perActor) < 0 {
		w.denoms[denom] = new(big.Int).Set(perActor)
	}
}

// OnPostBuild registers a hook run after every construction of a node's app object.
func (w *World) OnPostBuild(f func(n *Node)) { w.postBuild = append(w.postBuild, f) }

// Violate records a property violation (first occurrence per key).
func (w *World) Violate(prop, key, format string, a ...any) {
	full := prop + "/" + key
	if w.violKey[full] {
		return
	}
	w.violKey[full] = true
	w.Viol = append(w.Viol, &Violation{Property: prop, Key: full, Detail: fmt.Sprintf(format, a...),
		Height: w.Height, OpID: w.curOp})
}

// Base is the height before the chain's first block (0 for an ordinary new chain): heights
// that a workload places relative to the start of the chain are Base()+k.
func (w *World) Base() int64 {
	if w.Cfg.InitialHeight > 1 {
		return w.Cfg.InitialHeight - 1
	}
	return 0
}

// Count adds to a named counter (probe / fault / coverage counter).
func (w *World) Count(name string, n int64) { w.Counts[name] += n }

// Hit is Count(name, 1).
func (w *World) Hit(name string) { w.Counts[name]++ }

// State records an abstract state fingerprint (distinct-states measure).
func (w *World) State(parts ...any) {
	h := sha256.Sum256([]byte(fmt.Sprint(parts...)))
	var k [8]byte
	copy(k[:], h[:8])
	w.States[k] = struct{}{}
}

func (w *World) mixFP(s string) {
	h := sha256.New()
	h.Write(w.fp[:])
	h.Write([]byte(s))
	copy(w.fp[:], h.Sum(nil))
}

// Label binds a symbolic name to a concrete value.
func (w *World) Label(name, value string) { w.Labels[name] = value }

// Resolve looks a label up.
func (w *World) Resolve(name string) (string, bool) {
	v, ok := w.Labels[name]
	return v, ok
}

// A returns actor i (modulo the population).
func (w *World) A(i int) *Actor {
	if i < 0 {
		i = -i
	}
	return w.Actors[i%len(w.Actors)]
}

// ActorOf returns the actor owning addr, nil for non-actors.
func (w *World) ActorOf(addr string) *Actor {
	for _, a := range w.Actors {
		if a.Addr.String() == addr {
			return a
		}
	}
	return nil
}

// ModAddr is the address of a module account.
func ModAddr(name string) string { return authtypes.NewModuleAddress(name).String() }

// Bal reads the ledger mirror: the balance at the current point of execution.
func (w *World) Bal(addr, denom string) *big.Int { return w.Ledger.Get(addr, denom) }

func newActor(seed uint64, i int) *Actor {
	var buf [16]byte
	binary.BigEndian.PutUint64(buf[:8], seed)
	binary.BigEndian.PutUint64(buf[8:], uint64(i))
	h := sha256.Sum256(append([]byte("simchain actor"), buf[:]...))
	priv := &secp256k1.PrivKey{Key: h[:]}
	return &Actor{Idx: i, Priv: priv, Addr: sdk.AccAddress(priv.PubKey().Address())}
}

// SortedKeys returns the keys of a string-keyed map in order; the harness never ranges over
// a map where order can matter.
func SortedKeys[V any](m map[string]V) []string {
	out := make([]string, 0, len(m))
	for k := range m {
		out = append(out, k)
	}
	sort.Strings(out)
	return out
}

// HarnessError aborts a run for a reason that is the harness's own (never a violation).
type HarnessError struct{ Msg string }

func (e *HarnessError) Error() string { return "harness: " + e.Msg }

// Fatal aborts the run with a harness error.
func Fatal(format string, a ...any) { panic(&HarnessError{Msg: fmt.Sprintf(format, a...)}) }

// IsInfraFailure classifies tx failures the harness itself injected.
func isInfraFailure(code uint32, codespace, log string) bool {
	if codespace != "sdk" {
		return false
	}
	switch code {
	case 11: // out of gas (tx or block)
		return true
	case 32: // wrong sequence (cascade after an ante failure in the same block)
		return true
	}
	return strings.Contains(log, "out of gas")
}
