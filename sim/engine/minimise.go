package engine

import "time"

// Minimise shrinks a schedule by delta debugging while the same violation key reappears:
// whole blocks' contents, single transactions, single ops of multi-op transactions, node
// faults and gas limits are removed; empty trailing blocks are cut. Because object
// references are symbolic and rejected transactions are legal, every sub-schedule is
// executable.
func Minimise(s *Schedule, key string, budget time.Duration, run func(*Schedule) *RunResult) (*Schedule, *Violation, int) {
	start := time.Now()
	tries := 0
	find := func(c *Schedule) *Violation {
		tries++
		r := run(c)
		if r == nil || r.Harness != "" {
			return nil
		}
		for _, v := range r.Violations {
			if v.Key == key {
				return v
			}
		}
		return nil
	}
	best := s.Clone()
	bestV := find(best)
	if bestV == nil {
		return nil, nil, tries
	}
	out := func() bool { return time.Since(start) > budget }

	// 1. cut the tail after the violation height (blocks are heights: index+2)
	cut := func() {
		base := int64(0)
		if best.Engine.InitialHeight > 1 {
			base = best.Engine.InitialHeight - 1
		}
		h := int(bestV.Height-base) - 1 // block index (the chain's first height is the genesis block)
		if h >= 1 && h < len(best.Blocks) {
			c := best.Clone()
			c.Blocks = c.Blocks[:h]
			if v := find(c); v != nil {
				best, bestV = c, v
			}
		}
	}
	cut()

	// 2. ddmin over the flat list of transactions
	type ref struct{ b, t int }
	for chunk := 0; ; {
		var txs []ref
		for bi, b := range best.Blocks {
			for ti := range b.Txs {
				txs = append(txs, ref{bi, ti})
			}
		}
		if len(txs) == 0 || out() {
			break
		}
		if chunk == 0 || chunk > len(txs) {
			chunk = (len(txs) + 1) / 2
		}
		progressed := false
		for i := 0; i < len(txs) && !out(); i += chunk {
			end := i + chunk
			if end > len(txs) {
				end = len(txs)
			}
			drop := map[ref]bool{}
			for _, r := range txs[i:end] {
				drop[r] = true
			}
			c := best.Clone()
			for bi, b := range c.Blocks {
				var keep []*TxPlan
				for ti, t := range b.Txs {
					if !drop[ref{bi, ti}] {
						keep = append(keep, t)
					}
				}
				b.Txs = keep
			}
			if v := find(c); v != nil {
				best, bestV = c, v
				progressed = true
				break
			}
		}
		if progressed {
			continue
		}
		if chunk == 1 {
			break
		}
		chunk = (chunk + 1) / 2
	}
	cut()

	// 3. faults and gas limits, one at a time
	for bi := 0; bi < len(best.Blocks) && !out(); bi++ {
		for len(best.Blocks[bi].Faults) > 0 && !out() {
			c := best.Clone()
			c.Blocks[bi].Faults = c.Blocks[bi].Faults[1:]
			if v := find(c); v != nil {
				best, bestV = c, v
			} else {
				break
			}
		}
		for ti := range best.Blocks[bi].Txs {
			if best.Blocks[bi].Txs[ti].Gas != 0 && !out() {
				c := best.Clone()
				c.Blocks[bi].Txs[ti].Gas = 0
				if v := find(c); v != nil {
					best, bestV = c, v
				}
			}
			if best.Blocks[bi].Txs[ti].Sim && !out() {
				c := best.Clone()
				c.Blocks[bi].Txs[ti].Sim = false
				if v := find(c); v != nil {
					best, bestV = c, v
				}
			}
			for len(best.Blocks[bi].Txs[ti].Ops) > 1 && !out() {
				c := best.Clone()
				c.Blocks[bi].Txs[ti].Ops = c.Blocks[bi].Txs[ti].Ops[1:]
				if v := find(c); v != nil {
					best, bestV = c, v
				} else {
					break
				}
			}
		}
	}

	// 4. drop empty blocks (changes heights: only kept when the violation persists)
	for bi := len(best.Blocks) - 1; bi >= 0 && !out(); bi-- {
		b := best.Blocks[bi]
		if len(b.Txs) == 0 && len(b.Faults) == 0 {
			c := best.Clone()
			c.Blocks = append(c.Blocks[:bi], c.Blocks[bi+1:]...)
			if v := find(c); v != nil {
				best, bestV = c, v
			}
		}
	}
	// 5. simplify block time steps
	for bi := range best.Blocks {
		if out() {
			break
		}
		if best.Blocks[bi].DeltaNs != 5_000_000_000 {
			c := best.Clone()
			c.Blocks[bi].DeltaNs = 5_000_000_000
			if v := find(c); v != nil {
				best, bestV = c, v
			}
		}
	}
	return best, bestV, tries
}
