package amm

import "verif/sim/engine"

// Register installs the amm profile and the properties it decides.
func Register() {
	engine.RegisterProfile(&engine.Profile{
		Name: "amm",
		Mods: func() []engine.Module { return []engine.Module{New()} },
		Tune: func(c *engine.EngineConfig, r *engine.Rand) {
			c.OpsPerBlock = 1 + 6*r.Float()
		},
	})
	engine.RegisterProperty(&engine.Property{
		ID: "C01", Profile: "amm",
		NonTrivial: func(c map[string]int64) bool { return c["C01.leg_checks"] > 0 && c["C01.share_checks"] > 2 },
		Probes: []string{"C01.leg_checks", "C01.share_checks", "amm.swap_double_hop", "amm.one_sided_add",
			"amm.one_sided_remove", "amm.donation", "amm.huge_reserves", "amm.all_liquidity_removed"},
		Rule: "a run is non-trivial when at least one accepted swap leg was judged against the pricing rule and more than two accepted liquidity/swap/donation transactions were judged against the share-value inequality; distinct = different fingerprint of the executed (operation kind, outcome class) sequence",
	})
	engine.RegisterProperty(&engine.Property{
		ID: "C02", Profile: "amm",
		NonTrivial: func(c map[string]int64) bool { return c["C02.swap_checks"] > 0 && c["C02.liquidity_checks"] > 0 },
		Probes: []string{"C02.swap_checks", "C02.liquidity_checks", "C02.creation_fee_checks",
			"amm.swap_double_hop_other_recipient", "amm.swap_other_recipient", "amm.rejected_bound",
			"amm.rejected_deadline", "amm.bound_met_exactly", "amm.accepted_near_deadline"},
		Rule: "a run is non-trivial when at least one accepted swap and one accepted liquidity message had their full balance sheets compared; distinct = different fingerprint of the executed (operation kind, outcome class) sequence",
	})
}
