// Package amm is the coinswap workload and the oracles of C01 (value per share, pricing
// rule) and C02 (settlement balance sheet).
package amm

import (
	"encoding/json"
	"fmt"
	"math/big"
	"time"

	sdkmath "cosmossdk.io/math"
	sdk "github.com/cosmos/cosmos-sdk/types"
	authtypes "github.com/cosmos/cosmos-sdk/x/auth/types"

	cstypes "mods.irisnet.org/modules/coinswap/types"
	"mods.irisnet.org/simapp"

	"verif/sim/engine"
)

const (
	Name = "amm"
	Std  = "stake"
)

var e18 = new(big.Int).Exp(big.NewInt(10), big.NewInt(18), nil)

// Config is the per-run swarm configuration.
type Config struct {
	Denoms      []string `json:"denoms"`
	ScaleBits   []int    `json:"scale_bits"` // per pool: magnitude of reserves
	Fee         string   `json:"fee"`        // 18-decimal integers as strings
	UFee        string   `json:"ufee"`
	Tax         string   `json:"tax"`
	CreationFee string   `json:"creation_fee"`
	OtherRecip  float64  `json:"p_other_recipient"`
	TightBounds float64  `json:"p_tight_bounds"`
	NearDead    float64  `json:"p_near_deadline"`
	Donations   bool     `json:"donations"`
	ParamChange float64  `json:"p_param_change"`
}

type pool struct {
	Denom string
	Lpt   string
	Addr  string
}

type params struct {
	Fee, UFee, Tax *big.Int // scaled by 1e18
	CreationFee    *big.Int
}

// Module implements engine.Module.
type Module struct {
	engine.Base
	cfg    Config
	pools  map[string]*pool // by counterparty denom, known after creation was observed
	byAddr map[string]*pool
	par    params
	fresh  int
	// paramsTouched: a params op succeeded in the current block
	paramsTouched bool
	// modGifts: what accepted swaps delivered to the coinswap module account itself (named as
	// the recipient: legal, the keeper pays recipients without asking the bank's blocked list)
	modGifts map[string]*big.Int
}

func New() *Module { return &Module{pools: map[string]*pool{}, byAddr: map[string]*pool{}} }

func (m *Module) Name() string { return Name }

func decStr(r *engine.Rand, kind int) string {
	// returns an 18-decimal scaled integer in (0,1e18)
	switch kind {
	case 0:
		return "3000000000000000" // 0.003
	case 1:
		return "1" // 1e-18
	case 2:
		return new(big.Int).Sub(e18, big.NewInt(1)).String() // 1 - 1e-18
	case 3:
		return new(big.Int).Add(r.BigBelow(new(big.Int).Sub(e18, big.NewInt(2))), big.NewInt(1)).String()
	case 4:
		// short decimal
		v := big.NewInt(1 + r.Int63n(999))
		return v.Mul(v, new(big.Int).Exp(big.NewInt(10), big.NewInt(15), nil)).String()
	default:
		return new(big.Int).Add(r.BigBelow(new(big.Int).Exp(big.NewInt(10), big.NewInt(16), nil)), big.NewInt(1)).String()
	}
}

func (m *Module) Configure(w *engine.World, r *engine.Rand) any {
	all := []string{"aaa", "bbb", "ccc", "ddd", "eee", "fff", "ggg", "hhh", "iii", "jjj", "kkk", "lll", "mmm", "nnn"}
	n := 2 + r.Intn(3)
	if r.Bool(0.2) {
		// many pools: pool sequence numbers reach two digits
		n = 10 + r.Intn(5)
	}
	c := Config{Denoms: all[:n]}
	for i := 0; i < n; i++ {
		switch r.Intn(4) {
		case 0:
			c.ScaleBits = append(c.ScaleBits, 1+r.Intn(20))
		case 1:
			c.ScaleBits = append(c.ScaleBits, 20+r.Intn(60))
		case 2:
			c.ScaleBits = append(c.ScaleBits, 80+r.Intn(48))
		default:
			c.ScaleBits = append(c.ScaleBits, 1+r.Intn(127))
		}
	}
	c.Fee = decStr(r, r.Intn(6))
	switch r.Intn(4) {
	case 0:
		c.UFee = "0"
	case 1:
		c.UFee = "2000000000000000"
	default:
		c.UFee = decStr(r, 1+r.Intn(5))
	}
	c.Tax = decStr(r, 1+r.Intn(5))
	if r.Bool(0.3) {
		c.Tax = "400000000000000000"
	}
	c.CreationFee = new(big.Int).Add(r.BigLogUniform(40), big.NewInt(0)).String()
	c.OtherRecip = r.Float()
	c.TightBounds = 0.5 * r.Float()
	c.NearDead = 0.3 * r.Float()
	c.Donations = r.Bool(0.6)
	if r.Bool(0.4) {
		c.ParamChange = 0.05 * r.Float()
	}
	return c
}

func (m *Module) LoadConfig(w *engine.World, raw json.RawMessage) {
	if err := json.Unmarshal(raw, &m.cfg); err != nil {
		engine.Fatal("amm config: %v", err)
	}
	m.par = params{Fee: bigOf(m.cfg.Fee), UFee: bigOf(m.cfg.UFee), Tax: bigOf(m.cfg.Tax), CreationFee: bigOf(m.cfg.CreationFee)}
}

func bigOf(s string) *big.Int {
	v, ok := new(big.Int).SetString(s, 10)
	if !ok {
		engine.Fatal("bad integer %q", s)
	}
	return v
}

func (m *Module) Setup(w *engine.World) {
	per := new(big.Int).Lsh(big.NewInt(1), 140)
	for _, d := range m.cfg.Denoms {
		w.NeedDenom(d, per)
	}
	w.NeedDenom(Std, per)
	// ordinary bank denoms that merely look like liquidity denoms ("<word>-<n>")
	for _, d := range lookalikes {
		w.NeedDenom(d, new(big.Int).Lsh(big.NewInt(1), 80))
	}
}

var lookalikes = []string{"kitty-1", "kitty-2", "kitty-3", "lpx-1"}

func dec(v *big.Int) sdkmath.LegacyDec { return sdkmath.LegacyNewDecFromBigIntWithPrec(v, 18) }

func (m *Module) sdkParams(p params) cstypes.Params {
	return cstypes.Params{Fee: dec(p.Fee), UnilateralLiquidityFee: dec(p.UFee), TaxRate: dec(p.Tax),
		PoolCreationFee: sdk.NewCoin(Std, engine.Int(p.CreationFee))}
}

func (m *Module) Genesis(w *engine.World, n *engine.Node, gs simapp.GenesisState) {
	cdc := n.App.AppCodec()
	var g cstypes.GenesisState
	cdc.MustUnmarshalJSON(gs[cstypes.ModuleName], &g)
	g.Params = m.sdkParams(m.par)
	if err := g.Params.Validate(); err != nil {
		engine.Fatal("amm: generated invalid params: %v", err)
	}
	gs[cstypes.ModuleName] = cdc.MustMarshalJSON(&g)
}

// ---- operations ----------------------------------------------------------------------

type addArgs struct {
	Denom    string `json:"denom"`
	Std      string `json:"std"`
	MaxToken string `json:"max_token"`
	MinLiq   string `json:"min_liq"`
	Deadline int64  `json:"deadline"`
}
type removeArgs struct {
	Denom    string `json:"denom"`
	RawLpt   string `json:"raw_lpt,omitempty"` // name this bank denom instead of the pool's liquidity denom
	Liq      string `json:"liq"`
	MinToken string `json:"min_token"`
	MinStd   string `json:"min_std"`
	Deadline int64  `json:"deadline"`
}
type uaddArgs struct {
	Denom    string `json:"denom"`
	Token    string `json:"token"`
	Amt      string `json:"amt"`
	MinLiq   string `json:"min_liq"`
	Deadline int64  `json:"deadline"`
}
type uremoveArgs struct {
	Denom    string `json:"denom"`
	Target   string `json:"target"`
	MinAmt   string `json:"min_amt"`
	Liq      string `json:"liq"`
	Deadline int64  `json:"deadline"`
}
type swapArgs struct {
	In        string `json:"in"`
	InAmt     string `json:"in_amt"`
	Out       string `json:"out"`
	OutAmt    string `json:"out_amt"`
	Buy       bool   `json:"buy"`
	Recipient string `json:"recipient"`
	Deadline  int64  `json:"deadline"`
}
type donateArgs struct {
	Pool  string `json:"pool"`
	Denom string `json:"denom"`
	Amt   string `json:"amt"`
}
type paramArgs struct {
	Fee         string `json:"fee"`
	UFee        string `json:"ufee"`
	Tax         string `json:"tax"`
	CreationFee string `json:"creation_fee"`
	Authority   string `json:"authority"`
}

func (m *Module) deadline(w *engine.World, r *engine.Rand) int64 {
	if r.Bool(m.cfg.NearDead) {
		return w.Time.Unix() + r.Range(-3, 25)
	}
	return w.Time.Unix() + 86400*365*20
}

// amount draws an amount around a reference magnitude.
func amount(r *engine.Rand, ref *big.Int, bits int) *big.Int {
	switch r.Intn(6) {
	case 0:
		return big.NewInt(1 + r.Int63n(9))
	case 1:
		if ref.Sign() > 0 {
			// a fraction 2^-k of the reference
			k := uint(r.Intn(12))
			v := new(big.Int).Rsh(ref, k)
			if v.Sign() > 0 {
				return new(big.Int).Add(r.BigBelow(v), big.NewInt(1))
			}
		}
		return r.BigLogUniform(bits)
	case 2:
		if ref.Sign() > 0 {
			return new(big.Int).Add(r.BigBelow(new(big.Int).Lsh(ref, 1)), big.NewInt(1))
		}
		return r.BigLogUniform(bits)
	default:
		return r.BigLogUniform(bits)
	}
}

func (m *Module) bitsOf(denom string) int {
	for i, d := range m.cfg.Denoms {
		if d == denom {
			return m.cfg.ScaleBits[i]
		}
	}
	return 30
}

func (m *Module) reserves(w *engine.World, p *pool) (s, t, l *big.Int) {
	return w.Bal(p.Addr, Std), w.Bal(p.Addr, p.Denom), w.Ledger.GetSupply(p.Lpt)
}

func (m *Module) Gen(w *engine.World, r *engine.Rand) *engine.TxPlan {
	nAct := len(w.Actors) - 1 // the governor does not trade
	actor := r.Intn(nAct)
	denom := m.cfg.Denoms[r.Intn(len(m.cfg.Denoms))]
	p := m.pools[denom]
	bits := m.bitsOf(denom)
	kinds := []int{3, 1, 1, 1, 6, 0, 0} // add, remove, uadd, uremove, swap, donate, params
	if p == nil {
		kinds = []int{6, 0, 0, 0, 2, 0, 0}
	}
	if m.cfg.Donations && p != nil {
		kinds[5] = 1
	}
	if r.Bool(m.cfg.ParamChange) {
		return m.genParams(w, r)
	}
	choice := r.Weighted(kinds)
	if (choice == 1 || choice == 3) && p != nil && r.Bool(0.7) {
		// removals are mostly attempted by accounts that hold the pool's liquidity token
		var holders []int
		for i := 0; i < nAct; i++ {
			if w.Bal(w.A(i).Addr.String(), p.Lpt).Sign() > 0 {
				holders = append(holders, i)
			}
		}
		if len(holders) > 0 {
			actor = holders[r.Intn(len(holders))]
		}
	}
	switch choice {
	case 0:
		var sRef, tRef *big.Int = new(big.Int), new(big.Int)
		if p != nil {
			sRef, tRef, _ = m.reserves(w, p)
		}
		std := amount(r, sRef, bits)
		var maxTok *big.Int
		if p != nil && sRef.Sign() > 0 {
			need := new(big.Int).Mul(tRef, std)
			need.Quo(need, sRef).Add(need, big.NewInt(1))
			switch {
			case r.Bool(m.cfg.TightBounds):
				maxTok = new(big.Int).Add(need, big.NewInt(r.Range(-2, 2)))
			default:
				maxTok = new(big.Int).Add(need, amount(r, need, bits))
			}
			if maxTok.Sign() <= 0 {
				maxTok = big.NewInt(1)
			}
		} else {
			maxTok = amount(r, tRef, bits)
		}
		minLiq := big.NewInt(0)
		if r.Bool(0.3) {
			minLiq = amount(r, std, bits)
		}
		return engine.Tx1(engine.NewOp(Name, "add", actor, addArgs{Denom: denom, Std: std.String(),
			MaxToken: maxTok.String(), MinLiq: minLiq.String(), Deadline: m.deadline(w, r)}))
	case 1:
		if p == nil {
			return nil
		}
		have := w.Bal(w.A(actor).Addr.String(), p.Lpt)
		liq := amount(r, have, bits)
		if have.Sign() > 0 && r.Bool(0.3) {
			liq = have
		}
		_, _, l := m.reserves(w, p)
		if r.Bool(0.05) && l.Sign() > 0 {
			liq = l
		}
		minT, minS := big.NewInt(0), big.NewInt(0)
		if r.Bool(m.cfg.TightBounds) {
			s, t, l := m.reserves(w, p)
			if l.Sign() > 0 {
				minS = new(big.Int).Quo(new(big.Int).Mul(liq, s), l)
				minT = new(big.Int).Quo(new(big.Int).Mul(liq, t), l)
				minS.Add(minS, big.NewInt(r.Range(-1, 1)))
				minT.Add(minT, big.NewInt(r.Range(-1, 1)))
				if minS.Sign() < 0 {
					minS.SetInt64(0)
				}
				if minT.Sign() < 0 {
					minT.SetInt64(0)
				}
			}
		}
		ra := removeArgs{Denom: denom, Liq: liq.String(), MinToken: minT.String(), MinStd: minS.String(), Deadline: m.deadline(w, r)}
		if r.Bool(0.04) {
			ra.RawLpt = lookalikes[r.Intn(len(lookalikes))]
			ra.Liq = amount(r, big.NewInt(1000), 20).String()
			ra.MinToken, ra.MinStd = "0", "0"
		}
		return engine.Tx1(engine.NewOp(Name, "remove", actor, ra))
	case 2:
		if p == nil {
			return nil
		}
		tok := denom
		if r.Bool(0.5) {
			tok = Std
		}
		if r.Bool(0.03) {
			tok = "zzz"
		}
		if f := m.foreignDenom(r, denom); f != "" && r.Bool(0.06) {
			// a coin that is neither of the pool's two (the pool may hold some: a gift)
			tok = f
		}
		ref := w.Bal(p.Addr, tok)
		if tok != denom && tok != Std && ref.Sign() == 0 {
			ref = w.Bal(p.Addr, Std)
		}
		minLiq := big.NewInt(0)
		if r.Bool(0.2) {
			minLiq = amount(r, ref, bits)
		}
		return engine.Tx1(engine.NewOp(Name, "uadd", actor, uaddArgs{Denom: denom, Token: tok,
			Amt: amount(r, ref, bits).String(), MinLiq: minLiq.String(), Deadline: m.deadline(w, r)}))
	case 3:
		if p == nil {
			return nil
		}
		tok := denom
		if r.Bool(0.5) {
			tok = Std
		}
		if f := m.foreignDenom(r, denom); f != "" && r.Bool(0.05) {
			tok = f
		}
		have := w.Bal(w.A(actor).Addr.String(), p.Lpt)
		liq := amount(r, have, bits)
		if have.Sign() > 0 && r.Bool(0.3) {
			liq = have
		}
		minAmt := big.NewInt(1) // validation demands a positive minimum
		if r.Bool(0.2) {
			minAmt = amount(r, w.Bal(p.Addr, tok), bits)
		}
		return engine.Tx1(engine.NewOp(Name, "uremove", actor, uremoveArgs{Denom: denom, Target: tok,
			MinAmt: minAmt.String(), Liq: liq.String(), Deadline: m.deadline(w, r)}))
	case 4:
		return m.genSwap(w, r, actor)
	case 5:
		if p == nil {
			return nil
		}
		d := denom
		if r.Bool(0.5) {
			d = Std
		}
		ref := w.Bal(p.Addr, d)
		if f := m.foreignDenom(r, denom); f != "" && r.Bool(0.2) {
			d = f
			ref = big.NewInt(1000000)
		}
		return engine.Tx1(engine.NewOp(Name, "donate", actor, donateArgs{Pool: denom, Denom: d,
			Amt: amount(r, ref, bits).String()}))
	}
	return nil
}

// foreignDenom picks a coin the actors hold that is not one of the given pool's two.
func (m *Module) foreignDenom(r *engine.Rand, denom string) string {
	var c []string
	for _, d := range m.cfg.Denoms {
		if d != denom {
			c = append(c, d)
		}
	}
	c = append(c, lookalikes...)
	if len(c) == 0 {
		return ""
	}
	return c[r.Intn(len(c))]
}

func (m *Module) genParams(w *engine.World, r *engine.Rand) *engine.TxPlan {
	a := paramArgs{Fee: decStr(r, r.Intn(6)), UFee: decStr(r, 1+r.Intn(5)), Tax: decStr(r, 1+r.Intn(5)),
		CreationFee: r.BigLogUniform(40).String()}
	if r.Bool(0.2) {
		a.UFee = "0"
	}
	actor := w.Governor().Idx
	a.Authority = w.Governor().Addr.String()
	if r.Bool(0.2) {
		// a stranger tries, either honestly naming itself or naming the governor
		actor = r.Intn(len(w.Actors) - 1)
		if r.Bool(0.5) {
			a.Authority = w.A(actor).Addr.String()
		}
	}
	tp := engine.Tx1(engine.NewOp(Name, "params", actor, a))
	tp.NoOOG = true
	return tp
}

// quote: generator-side price estimates (only used to place bounds near the true price)
func quoteIn(x, rin, rout, fee *big.Int) *big.Int {
	if rin.Sign() <= 0 || rout.Sign() <= 0 {
		return new(big.Int)
	}
	d := new(big.Int).Sub(e18, fee)
	xf := new(big.Int).Mul(x, d)
	num := new(big.Int).Mul(xf, rout)
	den := new(big.Int).Add(new(big.Int).Mul(rin, e18), xf)
	return num.Quo(num, den)
}
func quoteOut(y, rin, rout, fee *big.Int) *big.Int {
	if rin.Sign() <= 0 || rout.Cmp(y) <= 0 {
		return new(big.Int)
	}
	d := new(big.Int).Sub(e18, fee)
	num := new(big.Int).Mul(new(big.Int).Mul(rin, y), e18)
	den := new(big.Int).Mul(new(big.Int).Sub(rout, y), d)
	if den.Sign() == 0 {
		return new(big.Int)
	}
	return num.Quo(num, den).Add(num, big.NewInt(1))
}

func (m *Module) poolOfPair(a, b string) *pool {
	if a == Std {
		return m.pools[b]
	}
	if b == Std {
		return m.pools[a]
	}
	return nil
}

func (m *Module) genSwap(w *engine.World, r *engine.Rand, actor int) *engine.TxPlan {
	ds := append([]string{Std}, m.cfg.Denoms...)
	in := ds[r.Intn(len(ds))]
	out := ds[r.Intn(len(ds))]
	for out == in && !r.Bool(0.02) {
		out = ds[r.Intn(len(ds))]
	}
	a := swapArgs{In: in, Out: out, Buy: r.Bool(0.5), Deadline: m.deadline(w, r)}
	a.Recipient = w.A(actor).Addr.String()
	if r.Bool(m.cfg.OtherRecip) {
		switch r.Intn(10) {
		case 0:
			m.fresh++
			a.Recipient = sdk.AccAddress([]byte(fmt.Sprintf("fresh-recipient-%06d", m.fresh))).String()
		case 1:
			a.Recipient = authtypes.NewModuleAddress(authtypes.FeeCollectorName).String()
		case 3:
			// the coinswap module account itself, once the module has used it (before that a
			// transfer would plant an ordinary account at its address: application wiring, see
			// DESIGN.md section 14)
			a.Recipient = w.A(actor + 1 + r.Intn(len(w.Actors)-2)).Addr.String()
			if len(m.pools) > 0 {
				a.Recipient = engine.ModAddr(cstypes.ModuleName)
			}
		case 2:
			// the reserve account of a pool that is not on the route (a legal, if odd, gift)
			var off []string
			for _, d := range m.cfg.Denoms {
				if p := m.pools[d]; p != nil && d != in && d != out {
					off = append(off, p.Addr)
				}
			}
			if len(off) > 0 {
				a.Recipient = off[r.Intn(len(off))]
			}
		default:
			a.Recipient = w.A(actor + 1 + r.Intn(len(w.Actors)-2)).Addr.String()
		}
	}
	// estimate the true price along the route to place bounds on both sides of it
	fee := m.par.Fee
	est := func(x *big.Int, buy bool) *big.Int {
		hop := func(i, o string, v *big.Int, buy bool) *big.Int {
			p := m.poolOfPair(i, o)
			if p == nil {
				return new(big.Int)
			}
			if buy {
				return quoteOut(v, w.Bal(p.Addr, i), w.Bal(p.Addr, o), fee)
			}
			return quoteIn(v, w.Bal(p.Addr, i), w.Bal(p.Addr, o), fee)
		}
		if in == Std || out == Std {
			return hop(in, out, x, buy)
		}
		if buy {
			return hop(in, Std, hop(Std, out, x, true), true)
		}
		return hop(Std, out, hop(in, Std, x, false), false)
	}
	bits := 30
	if in != Std {
		bits = m.bitsOf(in)
	} else if out != Std {
		bits = m.bitsOf(out)
	}
	bound := func(v *big.Int, up bool) *big.Int {
		if r.Bool(m.cfg.TightBounds) && v.Sign() > 0 {
			v = new(big.Int).Add(v, big.NewInt(r.Range(-2, 2)))
			if v.Sign() <= 0 {
				v = big.NewInt(1)
			}
			return v
		}
		if up {
			return new(big.Int).Add(new(big.Int).Lsh(v, 1), amount(r, v, bits))
		}
		return big.NewInt(1)
	}
	if a.Buy {
		ref := new(big.Int)
		if p := m.poolOfPair(firstNonStd(out, in), Std); p != nil {
			ref = w.Bal(p.Addr, out)
		}
		outAmt := amount(r, new(big.Int).Rsh(ref, 2), bits)
		a.OutAmt = outAmt.String()
		a.InAmt = bound(est(outAmt, true), true).String()
	} else {
		ref := new(big.Int)
		if p := m.poolOfPair(firstNonStd(in, out), Std); p != nil {
			ref = w.Bal(p.Addr, in)
		}
		inAmt := amount(r, ref, bits)
		a.InAmt = inAmt.String()
		a.OutAmt = bound(est(inAmt, false), false).String()
	}
	return engine.Tx1(engine.NewOp(Name, "swap", actor, a))
}

func firstNonStd(a, b string) string {
	if a != Std {
		return a
	}
	return b
}

func coin(denom, amt string) sdk.Coin { return sdk.Coin{Denom: denom, Amount: engine.Int(bigOf(amt))} }

func (m *Module) Build(w *engine.World, op *engine.Op) (sdk.Msg, error) {
	sender := w.A(op.Actor).Addr.String()
	switch op.Kind {
	case "add":
		var a addArgs
		op.Decode(&a)
		return &cstypes.MsgAddLiquidity{MaxToken: coin(a.Denom, a.MaxToken), ExactStandardAmt: engine.Int(bigOf(a.Std)),
			MinLiquidity: engine.Int(bigOf(a.MinLiq)), Deadline: a.Deadline, Sender: sender}, nil
	case "remove":
		var a removeArgs
		op.Decode(&a)
		if a.RawLpt != "" {
			return &cstypes.MsgRemoveLiquidity{WithdrawLiquidity: coin(a.RawLpt, a.Liq), MinToken: engine.Int(bigOf(a.MinToken)),
				MinStandardAmt: engine.Int(bigOf(a.MinStd)), Deadline: a.Deadline, Sender: sender}, nil
		}
		p := m.pools[a.Denom]
		if p == nil {
			return nil, fmt.Errorf("pool of %s unknown", a.Denom)
		}
		return &cstypes.MsgRemoveLiquidity{WithdrawLiquidity: coin(p.Lpt, a.Liq), MinToken: engine.Int(bigOf(a.MinToken)),
			MinStandardAmt: engine.Int(bigOf(a.MinStd)), Deadline: a.Deadline, Sender: sender}, nil
	case "uadd":
		var a uaddArgs
		op.Decode(&a)
		return &cstypes.MsgAddUnilateralLiquidity{CounterpartyDenom: a.Denom, ExactToken: coin(a.Token, a.Amt),
			MinLiquidity: engine.Int(bigOf(a.MinLiq)), Deadline: a.Deadline, Sender: sender}, nil
	case "uremove":
		var a uremoveArgs
		op.Decode(&a)
		return &cstypes.MsgRemoveUnilateralLiquidity{CounterpartyDenom: a.Denom, MinToken: coin(a.Target, a.MinAmt),
			ExactLiquidity: engine.Int(bigOf(a.Liq)), Deadline: a.Deadline, Sender: sender}, nil
	case "swap":
		var a swapArgs
		op.Decode(&a)
		return &cstypes.MsgSwapOrder{
			Input:    cstypes.Input{Address: sender, Coin: coin(a.In, a.InAmt)},
			Output:   cstypes.Output{Address: a.Recipient, Coin: coin(a.Out, a.OutAmt)},
			Deadline: a.Deadline, IsBuyOrder: a.Buy}, nil
	case "donate":
		var a donateArgs
		op.Decode(&a)
		p := m.pools[a.Pool]
		if p == nil {
			return nil, fmt.Errorf("pool of %s unknown", a.Pool)
		}
		to, _ := sdk.AccAddressFromBech32(p.Addr)
		return engine.BankSendMsg(w.A(op.Actor).Addr, to, sdk.NewCoins(coin(a.Denom, a.Amt))), nil
	case "params":
		var a paramArgs
		op.Decode(&a)
		return &cstypes.MsgUpdateParams{Authority: a.Authority, Params: m.sdkParams(params{Fee: bigOf(a.Fee),
			UFee: bigOf(a.UFee), Tax: bigOf(a.Tax), CreationFee: bigOf(a.CreationFee)})}, nil
	}
	return nil, fmt.Errorf("unknown op %s", op.Kind)
}

// ---- oracles -------------------------------------------------------------------------

func mul(a, b *big.Int) *big.Int { return new(big.Int).Mul(a, b) }
func add(a, b *big.Int) *big.Int { return new(big.Int).Add(a, b) }
func sub(a, b *big.Int) *big.Int { return new(big.Int).Sub(a, b) }
func neg(a *big.Int) *big.Int    { return new(big.Int).Neg(a) }

// legHolds: (Rin + (1-f)x)(Rout - y) >= Rin*Rout with f = fee/1e18, in integers.
func legHolds(rin, rout, x, y, fee *big.Int) bool {
	if y.Cmp(rout) > 0 {
		return false
	}
	lhs := mul(add(mul(rin, e18), mul(sub(e18, fee), x)), sub(rout, y))
	rhs := mul(mul(rin, rout), e18)
	return lhs.Cmp(rhs) >= 0
}

type touched struct {
	p          *pool
	s0, t0, l0 *big.Int
}

func (m *Module) OnTx(w *engine.World, tx *engine.TxRecord) {
	if len(tx.Plan.Ops) != 1 {
		return
	}
	op := tx.Plan.Ops[0]
	if op.Mod != Name {
		return
	}
	sh := tx.Sheet
	sender := w.A(op.Actor).Addr.String()
	fee := m.par.Fee
	if !tx.OK() {
		if !tx.Infra {
			m.noteRejection(w, op, tx)
		}
		return
	}
	// a pool created by this tx becomes known through its effects: the add response names
	// the liquidity denom
	if op.Kind == "add" {
		var a addArgs
		op.Decode(&a)
		if m.pools[a.Denom] == nil {
			var resp cstypes.MsgAddLiquidityResponse
			if tx.Resp(0, &resp) && resp.MintToken != nil {
				lpt := resp.MintToken.Denom
				p := &pool{Denom: a.Denom, Lpt: lpt, Addr: cstypes.GetReservePoolAddr(lpt).String()}
				// the address scheme is part of the module's public surface (anchored in the
				// property); the sheet must show the deposit arriving there
				m.pools[a.Denom] = p
				m.byAddr[p.Addr] = p
				m.checkAdd(w, op, tx, a, p, true)
				m.checkShare(w, tx, op.Kind, []touched{{p, new(big.Int), new(big.Int), new(big.Int)}})
				w.Hit("amm.pool_created")
				return
			}
		}
	}
	// pools touched by this tx, with their state before it
	var tch []touched
	for _, addr := range sh.Addrs() {
		if p := m.byAddr[addr]; p != nil {
			s, t, l := m.reserves(w, p)
			tch = append(tch, touched{p, s, t, l})
		}
	}
	switch op.Kind {
	case "add":
		var a addArgs
		op.Decode(&a)
		m.checkAdd(w, op, tx, a, m.pools[a.Denom], false)
	case "remove":
		var a removeArgs
		op.Decode(&a)
		m.checkRemove(w, op, tx, a)
	case "uadd":
		var a uaddArgs
		op.Decode(&a)
		m.checkUAdd(w, op, tx, a)
	case "uremove":
		var a uremoveArgs
		op.Decode(&a)
		m.checkURemove(w, op, tx, a)
	case "swap":
		var a swapArgs
		op.Decode(&a)
		m.checkSwap(w, op, tx, a, sender, fee)
	case "donate":
		w.Hit("amm.donation")
	case "params":
		var a paramArgs
		op.Decode(&a)
		if a.Authority != w.Governor().Addr.String() || op.Actor != w.Governor().Idx {
			w.Violate("C16", "authority/coinswap", "MsgUpdateParams signed by actor %d naming authority %s was accepted; the authority is %s", op.Actor, a.Authority, w.Governor().Addr)
		}
		m.par = params{Fee: bigOf(a.Fee), UFee: bigOf(a.UFee), Tax: bigOf(a.Tax), CreationFee: bigOf(a.CreationFee)}
		m.paramsTouched = true
		w.Hit("amm.params_changed")
	}
	m.checkShare(w, tx, op.Kind, tch)
}

func (m *Module) noteRejection(w *engine.World, op *engine.Op, tx *engine.TxRecord) {
	if tx.Codespace == cstypes.ModuleName {
		switch tx.Code {
		case cstypes.ErrConstraintNotMet.ABCICode():
			w.Hit("amm.rejected_bound")
		case cstypes.ErrInvalidDeadline.ABCICode():
			w.Hit("amm.rejected_deadline")
		}
	}
}

// checkShare is C01(a): reserves product per squared share supply never falls.
func (m *Module) checkShare(w *engine.World, tx *engine.TxRecord, kind string, tch []touched) {
	for _, t := range tch {
		s1 := add(t.s0, tx.Sheet.Of(t.p.Addr, Std))
		t1 := add(t.t0, tx.Sheet.Of(t.p.Addr, t.p.Denom))
		l1 := add(t.l0, tx.Sheet.SupplyOf(t.p.Lpt))
		if t.l0.Sign() <= 0 || l1.Sign() <= 0 {
			if l1.Sign() == 0 && t.l0.Sign() > 0 {
				w.Hit("amm.all_liquidity_removed")
			}
			continue
		}
		w.Hit("C01.share_checks")
		lhs := mul(mul(s1, t1), mul(t.l0, t.l0))
		rhs := mul(mul(t.s0, t.t0), mul(l1, l1))
		if lhs.Cmp(rhs) < 0 {
			w.Violate("C01", "share-value/"+kind, "pool %s: value per share fell in %s (op %d): reserves (%s,%s)->(%s,%s), liquidity %s->%s",
				t.p.Denom, kind, tx.Plan.Ops[0].ID, t.s0, t.t0, s1, t1, t.l0, l1)
		}
		if t.s0.BitLen() > 100 || t.t0.BitLen() > 100 {
			w.Hit("amm.huge_reserves")
		}
	}
}

func expect() map[string]map[string]*big.Int { return map[string]map[string]*big.Int{} }
func put(m map[string]map[string]*big.Int, addr, denom string, v *big.Int) {
	if m[addr] == nil {
		m[addr] = map[string]*big.Int{}
	}
	if m[addr][denom] == nil {
		m[addr][denom] = new(big.Int)
	}
	m[addr][denom].Add(m[addr][denom], v)
}

func (m *Module) deadlineOK(w *engine.World, tx *engine.TxRecord, kind string, deadline int64) {
	if tx.Time.After(time.Unix(deadline, 0)) {
		w.Violate("C02", "deadline/"+kind, "%s accepted at block time %s although its deadline %d (%s) had passed",
			kind, tx.Time.UTC(), deadline, time.Unix(deadline, 0).UTC())
	}
	if d := time.Unix(deadline, 0).Sub(tx.Time); d >= 0 && d < 30*time.Second {
		w.Hit("amm.accepted_near_deadline")
	}
}

func (m *Module) supplyOnly(w *engine.World, tx *engine.TxRecord, kind string, allowed map[string]bool) {
	for _, d := range tx.Sheet.SupplyDenoms() {
		if !allowed[d] {
			w.Violate("C02", "supply/"+kind, "%s changed the total supply of %s by %s", kind, d, tx.Sheet.SupplyOf(d))
		}
	}
}

func (m *Module) checkAdd(w *engine.World, op *engine.Op, tx *engine.TxRecord, a addArgs, p *pool, created bool) {
	sender := w.A(op.Actor).Addr.String()
	sh := tx.Sheet
	m.deadlineOK(w, tx, "add", a.Deadline)
	var resp cstypes.MsgAddLiquidityResponse
	if !tx.Resp(0, &resp) || resp.MintToken == nil || p == nil {
		w.Violate("C02", "response/add", "accepted add-liquidity without a mint-token response")
		return
	}
	minted := resp.MintToken.Amount.BigInt()
	if resp.MintToken.Denom != p.Lpt {
		w.Violate("C02", "response/add-denom", "add-liquidity to pool %s minted %s, the pool's liquidity denom is %s", a.Denom, resp.MintToken.Denom, p.Lpt)
	}
	w.Hit("C02.liquidity_checks")
	std := bigOf(a.Std)
	paidTok := neg(sh.Of(sender, a.Denom))
	if paidTok.Cmp(bigOf(a.MaxToken)) > 0 {
		w.Violate("C02", "bound/add-max-token", "add-liquidity took %s%s, stated maximum %s", paidTok, a.Denom, a.MaxToken)
	}
	if minted.Cmp(bigOf(a.MinLiq)) < 0 {
		w.Violate("C02", "bound/add-min-liquidity", "add-liquidity minted %s, stated minimum %s", minted, a.MinLiq)
	}
	ex := expect()
	put(ex, sender, Std, neg(std))
	put(ex, sender, a.Denom, neg(paidTok))
	put(ex, sender, p.Lpt, minted)
	put(ex, p.Addr, Std, std)
	put(ex, p.Addr, a.Denom, paidTok)
	allowed := map[string]bool{p.Lpt: true}
	if created {
		feeAmt := m.par.CreationFee
		taxPart := new(big.Int).Quo(mul(feeAmt, m.par.Tax), e18)
		put(ex, sender, Std, neg(feeAmt))
		put(ex, engine.ModAddr(authtypes.FeeCollectorName), Std, taxPart)
		burned := sub(feeAmt, taxPart)
		if sh.SupplyOf(Std).Cmp(neg(burned)) != 0 {
			w.Violate("C02", "creation-fee/burn", "pool creation burned %s%s, expected fee %s minus tax share %s", neg(sh.SupplyOf(Std)), Std, feeAmt, taxPart)
		}
		allowed[Std] = true
		w.Hit("C02.creation_fee_checks")
	}
	if sh.SupplyOf(p.Lpt).Cmp(minted) != 0 {
		w.Violate("C02", "lpt-supply/add", "add-liquidity reported %s minted, liquidity supply moved by %s", minted, sh.SupplyOf(p.Lpt))
	}
	if d := sh.ExpectOnly(ex); d != "" {
		w.Violate("C02", "balance-sheet/add", "add-liquidity (created=%v): %s; sheet: %s", created, d, sh)
	}
	m.supplyOnly(w, tx, "add", allowed)
}

func (m *Module) checkRemove(w *engine.World, op *engine.Op, tx *engine.TxRecord, a removeArgs) {
	sender := w.A(op.Actor).Addr.String()
	sh := tx.Sheet
	if a.RawLpt != "" {
		// "liquidity tokens are ... burned only against withdrawals ... no other coin's total
		// supply changes": a coin that is not a pool's liquidity token buys no withdrawal
		w.Violate("C02", "remove/foreign-denom-accepted", "remove-liquidity naming %s%s, which is not the liquidity token of any pool, was accepted; sheet: %s", a.Liq, a.RawLpt, sh)
		return
	}
	p := m.pools[a.Denom]
	m.deadlineOK(w, tx, "remove", a.Deadline)
	var resp cstypes.MsgRemoveLiquidityResponse
	if !tx.Resp(0, &resp) || p == nil {
		w.Violate("C02", "response/remove", "accepted remove-liquidity without response")
		return
	}
	w.Hit("C02.liquidity_checks")
	liq := bigOf(a.Liq)
	gotS, gotT := sh.Of(sender, Std), sh.Of(sender, a.Denom)
	if gotS.Cmp(bigOf(a.MinStd)) < 0 || gotT.Cmp(bigOf(a.MinToken)) < 0 {
		w.Violate("C02", "bound/remove-min", "remove-liquidity returned %s%s and %s%s, stated minima %s and %s", gotS, Std, gotT, a.Denom, a.MinStd, a.MinToken)
	}
	rc := sdk.NewCoins(resp.WithdrawCoins...)
	if rc.AmountOf(Std).BigInt().Cmp(gotS) != 0 || rc.AmountOf(a.Denom).BigInt().Cmp(gotT) != 0 {
		w.Violate("C02", "response/remove-amounts", "remove-liquidity reported %s, sender received %s%s and %s%s", rc, gotS, Std, gotT, a.Denom)
	}
	ex := expect()
	put(ex, sender, p.Lpt, neg(liq))
	put(ex, sender, Std, gotS)
	put(ex, sender, a.Denom, gotT)
	put(ex, p.Addr, Std, neg(gotS))
	put(ex, p.Addr, a.Denom, neg(gotT))
	if sh.SupplyOf(p.Lpt).Cmp(neg(liq)) != 0 {
		w.Violate("C02", "lpt-supply/remove", "remove-liquidity of %s burned %s", liq, neg(sh.SupplyOf(p.Lpt)))
	}
	if d := sh.ExpectOnly(ex); d != "" {
		w.Violate("C02", "balance-sheet/remove", "remove-liquidity: %s; sheet: %s", d, sh)
	}
	m.supplyOnly(w, tx, "remove", map[string]bool{p.Lpt: true})
}

func (m *Module) checkUAdd(w *engine.World, op *engine.Op, tx *engine.TxRecord, a uaddArgs) {
	sender := w.A(op.Actor).Addr.String()
	sh := tx.Sheet
	p := m.pools[a.Denom]
	m.deadlineOK(w, tx, "uadd", a.Deadline)
	var resp cstypes.MsgAddUnilateralLiquidityResponse
	if !tx.Resp(0, &resp) || resp.MintToken == nil || p == nil {
		w.Violate("C02", "response/uadd", "accepted one-sided add without response")
		return
	}
	w.Hit("C02.liquidity_checks")
	w.Hit("amm.one_sided_add")
	if a.Token != a.Denom && a.Token != Std {
		// "liquidity tokens are minted only against deposits": a pool's reserves are its two
		// coins; a third coin, whether the pool account happens to hold some or not, is no deposit
		w.Violate("C02", "lpt-minted/uadd/third-coin", "one-sided add of %s%s into the pool %s/%s was accepted and minted %s%s", a.Amt, a.Token, Std, a.Denom, resp.MintToken.Amount, p.Lpt)
	}
	minted := resp.MintToken.Amount.BigInt()
	if minted.Cmp(bigOf(a.MinLiq)) < 0 {
		w.Violate("C02", "bound/uadd-min-liquidity", "one-sided add minted %s, stated minimum %s", minted, a.MinLiq)
	}
	amt := bigOf(a.Amt)
	ex := expect()
	put(ex, sender, a.Token, neg(amt))
	put(ex, sender, p.Lpt, minted)
	put(ex, p.Addr, a.Token, amt)
	if sh.SupplyOf(p.Lpt).Cmp(minted) != 0 {
		w.Violate("C02", "lpt-supply/uadd", "one-sided add reported %s minted, supply moved by %s", minted, sh.SupplyOf(p.Lpt))
	}
	if d := sh.ExpectOnly(ex); d != "" {
		w.Violate("C02", "balance-sheet/uadd", "one-sided add: %s; sheet: %s", d, sh)
	}
	m.supplyOnly(w, tx, "uadd", map[string]bool{p.Lpt: true})
}

func (m *Module) checkURemove(w *engine.World, op *engine.Op, tx *engine.TxRecord, a uremoveArgs) {
	sender := w.A(op.Actor).Addr.String()
	sh := tx.Sheet
	p := m.pools[a.Denom]
	m.deadlineOK(w, tx, "uremove", a.Deadline)
	var resp cstypes.MsgRemoveUnilateralLiquidityResponse
	if !tx.Resp(0, &resp) || p == nil {
		w.Violate("C02", "response/uremove", "accepted one-sided remove without response")
		return
	}
	w.Hit("C02.liquidity_checks")
	w.Hit("amm.one_sided_remove")
	if a.Target != a.Denom && a.Target != Std {
		// "burned only against withdrawals": of the pool's own two coins
		w.Violate("C02", "lpt-burned/uremove/third-coin", "one-sided remove of %s liquidity from the pool %s/%s paying out in %s was accepted", a.Liq, Std, a.Denom, a.Target)
	}
	liq := bigOf(a.Liq)
	got := sh.Of(sender, a.Target)
	if got.Cmp(bigOf(a.MinAmt)) < 0 {
		w.Violate("C02", "bound/uremove-min", "one-sided remove returned %s%s, stated minimum %s", got, a.Target, a.MinAmt)
	}
	rc := sdk.NewCoins(resp.WithdrawCoins...)
	if rc.AmountOf(a.Target).BigInt().Cmp(got) != 0 {
		w.Violate("C02", "response/uremove-amounts", "one-sided remove reported %s, sender received %s%s", rc, got, a.Target)
	}
	ex := expect()
	put(ex, sender, p.Lpt, neg(liq))
	put(ex, sender, a.Target, got)
	put(ex, p.Addr, a.Target, neg(got))
	if sh.SupplyOf(p.Lpt).Cmp(neg(liq)) != 0 {
		w.Violate("C02", "lpt-supply/uremove", "one-sided remove of %s burned %s", liq, neg(sh.SupplyOf(p.Lpt)))
	}
	if d := sh.ExpectOnly(ex); d != "" {
		w.Violate("C02", "balance-sheet/uremove", "one-sided remove: %s; sheet: %s", d, sh)
	}
	m.supplyOnly(w, tx, "uremove", map[string]bool{p.Lpt: true})
}

func (m *Module) checkSwap(w *engine.World, op *engine.Op, tx *engine.TxRecord, a swapArgs, sender string, fee *big.Int) {
	sh := tx.Sheet
	m.deadlineOK(w, tx, "swap", a.Deadline)
	double := a.In != Std && a.Out != Std
	route := "single"
	if double {
		route = "double"
		w.Hit("amm.swap_double_hop")
	}
	rel := "self"
	if a.Recipient != sender {
		rel = "other"
		w.Hit("amm.swap_other_recipient")
		if double {
			w.Hit("amm.swap_double_hop_other_recipient")
		}
		for _, p := range m.pools {
			if p.Addr == a.Recipient {
				w.Hit("amm.swap_pool_recipient")
			}
		}
	}
	w.Hit("C02.swap_checks")
	// legs, in route order
	type leg struct {
		p       *pool
		in, out string
	}
	var legs []leg
	if double {
		legs = []leg{{m.pools[a.In], a.In, Std}, {m.pools[a.Out], Std, a.Out}}
	} else {
		legs = []leg{{m.poolOfPair(a.In, a.Out), a.In, a.Out}}
	}
	for _, l := range legs {
		if l.p == nil {
			w.Violate("C02", "swap/unknown-pool", "swap %s->%s accepted although the harness never saw its pool created", a.In, a.Out)
			return
		}
	}
	ex := expect()
	var xs, ys []*big.Int
	for _, l := range legs {
		x := sh.Of(l.p.Addr, l.in)       // what the pool received
		y := neg(sh.Of(l.p.Addr, l.out)) // what the pool paid
		xs, ys = append(xs, x), append(ys, y)
		put(ex, l.p.Addr, l.in, x)
		put(ex, l.p.Addr, l.out, neg(y))
		// C01(b): the pricing rule on this leg, on the reserves before the tx (each pool is
		// touched by exactly one leg)
		rin, rout := w.Bal(l.p.Addr, l.in), w.Bal(l.p.Addr, l.out)
		w.Hit("C01.leg_checks")
		if x.Sign() <= 0 || y.Sign() < 0 {
			w.Violate("C01", "leg/direction", "swap leg on pool %s moved %s in and %s out", l.p.Denom, x, y)
			continue
		}
		if !legHolds(rin, rout, x, y, fee) {
			w.Violate("C01", "leg/constant-product", "leg %s->%s on reserves (%s,%s) fee %s/1e18: paid %s received %s breaks (Rin+(1-f)x)(Rout-y) >= Rin*Rout",
				l.in, l.out, rin, rout, fee, x, y)
		}
		if !a.Buy {
			if legHolds(rin, rout, x, add(y, big.NewInt(1)), fee) {
				w.Violate("C01", "leg/exact-input-not-maximal", "leg %s->%s on reserves (%s,%s) fee %s/1e18: paid %s received %s, but %s would also satisfy the rule",
					l.in, l.out, rin, rout, fee, x, y, add(y, big.NewInt(1)))
			}
		} else if x.Cmp(big.NewInt(2)) >= 0 {
			if legHolds(rin, rout, sub(x, big.NewInt(2)), y, fee) {
				w.Violate("C01", "leg/exact-output-overpaid", "leg %s->%s on reserves (%s,%s) fee %s/1e18: paid %s for %s, but %s would already satisfy the rule (more than one unit above the minimum)",
					l.in, l.out, rin, rout, fee, x, y, sub(x, big.NewInt(2)))
			}
		}
	}
	sold, bought := xs[0], ys[len(ys)-1]
	if double && xs[1].Cmp(ys[0]) != 0 {
		w.Violate("C02", "swap/intermediate-mismatch", "routed swap: first pool paid %s%s, second pool received %s%s", ys[0], Std, xs[1], Std)
	}
	put(ex, sender, a.In, neg(sold))
	put(ex, a.Recipient, a.Out, bought)
	if a.Recipient == engine.ModAddr(cstypes.ModuleName) {
		if m.modGifts == nil {
			m.modGifts = map[string]*big.Int{}
		}
		if m.modGifts[a.Out] == nil {
			m.modGifts[a.Out] = new(big.Int)
		}
		m.modGifts[a.Out].Add(m.modGifts[a.Out], bought)
		w.Hit("amm.swap_module_account_recipient")
	}
	if a.Buy {
		if bought.Cmp(bigOf(a.OutAmt)) != 0 {
			w.Violate("C02", "swap/exact-output", "buy order for exactly %s%s delivered %s", a.OutAmt, a.Out, bought)
		}
		if sold.Cmp(bigOf(a.InAmt)) > 0 {
			w.Violate("C02", "bound/swap-max-paid", "buy order paid %s%s, stated maximum %s", sold, a.In, a.InAmt)
		}
		if sold.Cmp(bigOf(a.InAmt)) == 0 {
			w.Hit("amm.bound_met_exactly")
		}
	} else {
		if sold.Cmp(bigOf(a.InAmt)) != 0 {
			w.Violate("C02", "swap/exact-input", "sell order of exactly %s%s took %s", a.InAmt, a.In, sold)
		}
		if bought.Cmp(bigOf(a.OutAmt)) < 0 {
			w.Violate("C02", "bound/swap-min-received", "sell order received %s%s, stated minimum %s", bought, a.Out, a.OutAmt)
		}
		if bought.Cmp(bigOf(a.OutAmt)) == 0 {
			w.Hit("amm.bound_met_exactly")
		}
	}
	if d := sh.ExpectOnly(ex); d != "" {
		w.Violate("C02", fmt.Sprintf("balance-sheet/swap/%s/recipient-%s", route, rel),
			"swap %s%s -> %s (buy=%v, sender %s, recipient %s): %s; sheet: %s", a.InAmt, a.In, a.Out, a.Buy, sender, a.Recipient, d, sh)
	}
	m.supplyOnly(w, tx, "swap", map[string]bool{})
}

// OnCommit compares the model with the module's own queries.
func (m *Module) OnCommit(w *engine.World) {
	ctx := w.Node.Ctx()
	k := w.Node.K.Coinswap
	got := k.GetParams(ctx)
	want := m.sdkParams(m.par)
	if !got.Fee.Equal(want.Fee) || !got.UnilateralLiquidityFee.Equal(want.UnilateralLiquidityFee) ||
		!got.TaxRate.Equal(want.TaxRate) || !got.PoolCreationFee.IsEqual(want.PoolCreationFee) {
		w.Violate("C16", "params-drift/coinswap", "stored coinswap params %v differ from the last accepted authority update %v", got, want)
		m.par = params{Fee: got.Fee.BigInt(), UFee: got.UnilateralLiquidityFee.BigInt(), Tax: got.TaxRate.BigInt(),
			CreationFee: got.PoolCreationFee.Amount.BigInt()}
	}
	if err := got.Validate(); err != nil {
		w.Violate("C16", "invalid-stored/coinswap", "stored coinswap params fail the module's own validation: %v", err)
	}
	m.paramsTouched = false
	// the module account never keeps anything
	// (beyond what swaps named it as the recipient of: those coins are nobody's to take)
	modAcc := engine.ModAddr(cstypes.ModuleName)
	denoms := map[string]bool{}
	for _, d := range w.Ledger.Denoms(modAcc) {
		denoms[d] = true
	}
	for d := range m.modGifts {
		denoms[d] = true
	}
	for _, d := range engine.SortedKeys(denoms) {
		want := m.modGifts[d]
		if want == nil {
			want = new(big.Int)
		}
		if have := w.Ledger.Get(modAcc, d); have.Cmp(want) != 0 {
			w.Violate("C02", "module-account-residue", "coinswap module account holds %s%s after block %d; swaps that named it as their recipient delivered %s", have, d, w.Height, want)
		}
	}
	// pools known to the module and to the harness agree
	for _, p := range k.GetAllPools(ctx) {
		if mp := m.pools[p.CounterpartyDenom]; mp == nil || mp.Lpt != p.LptDenom {
			w.Violate("C02", "pool-registry", "module lists pool %s/%s that the harness did not see created", p.CounterpartyDenom, p.LptDenom)
		}
	}
	for _, d := range engine.SortedKeys(m.pools) {
		p := m.pools[d]
		s, t, l := m.reserves(w, p)
		w.State("amm", d, s.BitLen(), t.BitLen(), l.BitLen())
	}
}

// Pools exposes the liquidity denoms known so far (for the farm workload).
func (m *Module) Pools() []string {
	var out []string
	for _, d := range engine.SortedKeys(m.pools) {
		out = append(out, m.pools[d].Lpt)
	}
	return out
}

// DurableQueries renders the pool queries (C12).
func (m *Module) DurableQueries(w *engine.World, n *engine.Node) []engine.KV {
	var out []engine.KV
	ctx := n.Ctx()
	for _, d := range engine.SortedKeys(m.pools) {
		p := m.pools[d]
		res, err := n.K.Coinswap.LiquidityPool(ctx, &cstypes.QueryLiquidityPoolRequest{LptDenom: p.Lpt})
		v := ""
		if err != nil {
			v = "error: " + err.Error()
		} else {
			v = res.String()
		}
		out = append(out, engine.KV{K: "pool:" + p.Lpt, V: v})
	}
	return out
}
