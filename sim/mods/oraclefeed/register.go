package oraclefeed

import (
	"verif/sim/engine"
	servicemod "verif/sim/mods/service"
)

// Register installs the oraclefeed profile (service workload + feeds) and property C17.
func Register() {
	engine.RegisterProfile(&engine.Profile{
		Name: "oraclefeed",
		Mods: func() []engine.Module { return []engine.Module{servicemod.New(), New()} },
		Tune: func(c *engine.EngineConfig, r *engine.Rand) {
			c.OpsPerBlock = 3 + 6*r.Float()
			c.Blocks = 50 + r.Intn(60)
		},
	})
	engine.RegisterProperty(&engine.Property{
		ID: "C17", Profile: "oraclefeed",
		NonTrivial: func(c map[string]int64) bool {
			return c["C17.aggregate_checks"] > 0 && c["C17.state_index_checks"] > 0 && c["C17.history_checks"] > 0
		},
		Probes: []string{"C17.aggregate_checks", "C17.aggregate_checks_max", "C17.aggregate_checks_min",
			"C17.aggregate_checks_avg", "C17.history_checks", "C17.state_index_checks", "C17.authority_checks",
			"oraclefeed.batch_completed_by_last_response", "oraclefeed.batch_completed_at_expiry",
			"oraclefeed.batch_below_threshold", "oraclefeed.threshold_met_exactly",
			"oraclefeed.batch_several_valid_responses", "oraclefeed.batch_all_negative",
			"oraclefeed.batch_with_non_numeric", "oraclefeed.batch_with_failure_report",
			"oraclefeed.history_trimmed_on_insert", "oraclefeed.history_shrunk_below_stored",
			"oraclefeed.history_grown", "oraclefeed.stranger_attempt", "oraclefeed.auto_paused",
			"oraclefeed.start_ok", "oraclefeed.pause_ok", "oraclefeed.edit_ok",
			"oraclefeed.price_feed_created", "oraclefeed.exchange_rate_used",
			"oraclefeed.prefix_named_feeds_with_values", "oraclefeed.prefix_named_feeds_different_bounds",
			"oraclefeed.history_edit_rolled_back", "oraclefeed.threshold_raised_mid_batch_decides",
			"oraclefeed.threshold_lowered_mid_batch_decides"},
		Rule: "a run is non-trivial when at least one freshly stored feed value was compared with the exact aggregate of the responses the harness submitted, and the feed-value history and the feed state index were compared with the model after a block; distinct = different fingerprint of the executed (operation kind, outcome class) sequence",
	})
}
