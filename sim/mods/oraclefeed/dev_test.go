//go:build go1.25

//go:debug asynctimerchan=0
package oraclefeed

import (
	"fmt"
	"os"
	"testing"
	"time"

	"verif/sim/engine"
	"verif/sim/engine/devtest"
)

func TestDev(t *testing.T) {
	Register()
	if p := os.Getenv("DEV_REPLAY"); p != "" {
		devtest.Replay(t, p)
		return
	}
	if p := os.Getenv("DEV_MINIMISE"); p != "" {
		// shrink a schedule kept with DEV_KEEP=1 while its expected violation key reappears
		s, err := engine.ReadSchedule(p)
		if err != nil || s.Expect == nil {
			t.Fatalf("cannot minimise %s: %v", p, err)
		}
		run := func(c *engine.Schedule) *engine.RunResult {
			return devtest.Bubble(t, engine.RunSpec{Property: s.Property, Seed: s.Seed, Replay: c})
		}
		min, v, tries := engine.Minimise(s, s.Expect.Key, 90*time.Second, run)
		if v == nil {
			t.Fatalf("not reproduced: %s", s.Expect.Key)
		}
		min.Expect = &engine.ViolationRecord{Property: v.Property, Key: v.Key, Detail: v.Detail, Height: v.Height}
		out := p + ".min.json"
		min.Write(out)
		fmt.Printf("minimised %s: %d -> %d ops, %d blocks, %d tries; written to %s\n    %s\n", v.Key, s.NumOps(), min.NumOps(), len(min.Blocks), tries, out, v.Detail)
		return
	}
	prop := os.Getenv("DEV_PROP")
	if prop == "" {
		prop = "C17"
	}
	devtest.Run(t, prop, 20)
}
