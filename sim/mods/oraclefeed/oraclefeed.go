// Package oraclefeed is the oracle-module workload (feeds created, started, paused, edited on
// top of the service workload; providers answering with documents chosen here) and the oracle
// of C17: every completed batch that met its threshold appends exactly one value - the exact
// aggregate, 8 decimals, stamped with the block time; bounded history, newest first; the feed
// state index mirrors the request context; only the creator starts, pauses or edits.
//
// It also stages the price-feed scenario (a feed named "<denom>-<base>" whose newest value the
// service module reads as an exchange rate for bindings priced in <denom>).
package oraclefeed

import (
	"encoding/json"
	"fmt"
	"math/big"

	sdk "github.com/cosmos/cosmos-sdk/types"

	oracletypes "mods.irisnet.org/modules/oracle/types"

	"verif/sim/engine"
	servicemod "verif/sim/mods/service"
)

const (
	Name = "oraclefeed"
	Std  = servicemod.Std
	// PriceDenom is the second denom the service workload funds every actor with; the
	// price-feed scenario prices bindings in it.
	PriceDenom = "svcx"
)

// PriceFeedName follows the service module's convention for exchange-rate lookups:
// "<quote denom>-<base denom>".
var PriceFeedName = PriceDenom + "-" + Std

// Config is the per-run swarm configuration.
type Config struct {
	Salt         uint64  `json:"salt"`
	MaxFeeds     int     `json:"max_feeds"`
	PStranger    float64 `json:"p_stranger"`
	PBoundary    float64 `json:"p_boundary_targeting"`
	PDrain       float64 `json:"p_drain"`
	PNonNumeric  float64 `json:"p_non_numeric"`
	PMissing     float64 `json:"p_missing"`
	PErrResult   float64 `json:"p_error_result"`
	PSilent      float64 `json:"p_silent"`
	Classes      []int   `json:"class_weights"`
	SmallHistory float64 `json:"p_small_history"`
	PriceFeed    bool    `json:"price_feed"`
	PBadRate     float64 `json:"p_bad_rate"`
	PInvalid     float64 `json:"p_invalid_args"`
	PPrefixName  float64 `json:"p_prefix_name"`
	PThrFlip     float64 `json:"p_threshold_flip"`
	PRollback    float64 `json:"p_rolled_back_edit"`
	// order-sensitive aggregation (C11: "no outcome depends on ... map iteration order ... or on
	// floating-point"): averages over three or more large answers, where the order of a float64
	// summation shows in the eighth decimal
	PAvg         float64 `json:"p_avg,omitempty"`
	MinProviders int     `json:"min_providers,omitempty"`
}

// Module implements engine.Module.
type Module struct {
	engine.Base
	cfg Config

	feeds map[string]*feed
	ord   []string

	// observations of the current block, consumed in OnCommit
	edits  []editEvent
	resps  []respEvent
	msgs   map[string]bool // feeds whose state an accepted start/pause message changed this block
	below  map[string]bool // feeds one of whose batches completed below its threshold in this block
	thrMid map[string]bool // feeds one of whose batches completed after its threshold was edited mid-batch
	cbs    []servicemod.CallbackRecord

	// generator-side state
	nextFeed   int
	responders map[string]bool
	drained    map[int]bool
	pfPriced   map[string]int64 // binding key -> height at which a re-pricing was last attempted
	pricedSeen int
	horizon    int64
}

func New() *Module {
	return &Module{feeds: map[string]*feed{}, msgs: map[string]bool{}, below: map[string]bool{}, thrMid: map[string]bool{}, responders: map[string]bool{},
		drained: map[int]bool{}, pfPriced: map[string]int64{}}
}

func (m *Module) Name() string { return Name }

// Weight: the service workload needs the larger share (definitions, bindings, responses).
func (m *Module) Weight() int { return 4 }

func (m *Module) svc(w *engine.World) *servicemod.Module {
	s, _ := w.Mod(servicemod.Name).(*servicemod.Module)
	if s == nil {
		engine.Fatal("oraclefeed needs the service workload in the same profile")
	}
	return s
}

func (m *Module) Configure(w *engine.World, r *engine.Rand) any {
	c := Config{Salt: r.Uint64(), MaxFeeds: 2 + r.Intn(4)}
	c.PStranger = 0.3 * r.Float()
	c.PBoundary = 0.5 * r.Float()
	if r.Bool(0.6) {
		c.PDrain = 0.15 * r.Float()
	}
	c.PNonNumeric = []float64{0, 0, 0.05, 0.2}[r.Intn(4)]
	c.PMissing = []float64{0, 0, 0.05, 0.2}[r.Intn(4)]
	c.PErrResult = []float64{0, 0.05, 0.2}[r.Intn(3)]
	c.PSilent = []float64{0, 0.05, 0.25}[r.Intn(3)]
	c.Classes = make([]int, nClasses)
	// swarm: a random subset of the value classes is enabled per run
	for i := 0; i < clsRate; i++ {
		if r.Bool(0.6) {
			c.Classes[i] = 1 + r.Intn(4)
		}
	}
	if r.Bool(0.15) {
		c.Classes[clsBeyond] = 1
	}
	if r.Bool(0.3) {
		c.Classes[clsOrder] = 1 + r.Intn(3)
	}
	any := false
	for _, x := range c.Classes {
		any = any || x > 0
	}
	if !any {
		c.Classes[clsMixed] = 1
	}
	c.SmallHistory = 0.5 + 0.5*r.Float()
	c.PriceFeed = r.Bool(0.55)
	c.PBadRate = []float64{0, 0, 0.1, 0.3}[r.Intn(4)]
	c.PInvalid = 0.08 * r.Float()
	c.PPrefixName = []float64{0.3, 0.6, 0.9}[r.Intn(3)]
	c.PThrFlip = []float64{0.3, 1, 2}[r.Intn(3)]
	c.PRollback = []float64{0.3, 0.7, 1.5}[r.Intn(3)]
	if w.Focus == "C11" && r.Bool(0.7) {
		for i := range c.Classes {
			if c.Classes[i] > 1 {
				c.Classes[i] = 1
			}
		}
		c.Classes[clsHugePos] += 3
		c.Classes[clsHugeNeg] += 2
		c.Classes[clsOrder] += 20
		c.PAvg = 0.7
		c.MinProviders = 4
		c.PSilent, c.PErrResult = 0, 0
	}
	return c
}

func (m *Module) LoadConfig(w *engine.World, raw json.RawMessage) {
	if err := json.Unmarshal(raw, &m.cfg); err != nil {
		engine.Fatal("oraclefeed config: %v", err)
	}
	for len(m.cfg.Classes) < nClasses {
		m.cfg.Classes = append(m.cfg.Classes, 0)
	}
}

func (m *Module) Setup(w *engine.World) {
	w.NeedDenom(Std, new(big.Int).Lsh(big.NewInt(1), 120))
	w.NeedDenom(PriceDenom, new(big.Int).Lsh(big.NewInt(1), 80))
	m.svc(w).SubscribeCallbacks(func(w *engine.World, rec servicemod.CallbackRecord) {
		if rec.Module == oracletypes.ModuleName {
			m.cbs = append(m.cbs, rec)
		}
	})
}

// ---- operations ------------------------------------------------------------------------------------

type createArgs struct {
	Name      string   `json:"name"`
	Func      string   `json:"func"`
	Path      string   `json:"path"`
	History   uint64   `json:"history"`
	Service   string   `json:"service"`
	Providers []string `json:"providers"`
	Timeout   int64    `json:"timeout"`
	FeeCap    string   `json:"fee_cap"`
	Freq      uint64   `json:"freq"`
	Threshold uint32   `json:"threshold"`
	Desc      string   `json:"desc,omitempty"`
}

type nameArgs struct {
	Name string `json:"name"`
}

type editArgs struct {
	Name      string   `json:"name"`
	History   uint64   `json:"history,omitempty"`
	Providers []string `json:"providers,omitempty"`
	Timeout   int64    `json:"timeout,omitempty"`
	FeeCap    string   `json:"fee_cap,omitempty"`
	Freq      uint64   `json:"freq,omitempty"`
	Threshold uint32   `json:"threshold,omitempty"`
	Desc      string   `json:"desc,omitempty"`
}

type sendArgs struct {
	To  string `json:"to"`
	Amt string `json:"amt"`
}

func bigOf(s string) *big.Int {
	if s == "" {
		return new(big.Int)
	}
	v, ok := new(big.Int).SetString(s, 10)
	if !ok {
		engine.Fatal("oraclefeed: bad integer %q", s)
	}
	return v
}

func stake(amt string) sdk.Coins {
	v := bigOf(amt)
	if v.Sign() == 0 {
		return sdk.Coins{}
	}
	return sdk.NewCoins(sdk.NewCoin(Std, engine.Int(v)))
}

func (m *Module) Build(w *engine.World, op *engine.Op) (sdk.Msg, error) {
	sender := w.A(op.Actor).Addr.String()
	switch op.Kind {
	case "create":
		var a createArgs
		op.Decode(&a)
		return &oracletypes.MsgCreateFeed{FeedName: a.Name, LatestHistory: a.History, Description: a.Desc,
			Creator: sender, ServiceName: a.Service, Providers: a.Providers, Input: feedInput, Timeout: a.Timeout,
			ServiceFeeCap: stake(a.FeeCap), RepeatedFrequency: a.Freq, AggregateFunc: a.Func,
			ValueJsonPath: a.Path, ResponseThreshold: a.Threshold}, nil
	case "start":
		var a nameArgs
		op.Decode(&a)
		return &oracletypes.MsgStartFeed{FeedName: a.Name, Creator: sender}, nil
	case "pause":
		var a nameArgs
		op.Decode(&a)
		return &oracletypes.MsgPauseFeed{FeedName: a.Name, Creator: sender}, nil
	case "edit":
		var a editArgs
		op.Decode(&a)
		desc := a.Desc
		if desc == "" {
			desc = oracletypes.DoNotModify
		}
		return &oracletypes.MsgEditFeed{FeedName: a.Name, Description: desc, LatestHistory: a.History,
			Providers: a.Providers, Timeout: a.Timeout, ServiceFeeCap: stake(a.FeeCap), RepeatedFrequency: a.Freq,
			ResponseThreshold: a.Threshold, Creator: sender}, nil
	case "fail":
		// valid for the ante handler, fails at execution: sinks the whole transaction
		impossible := sdk.NewCoins(sdk.NewCoin(Std, engine.Int(new(big.Int).Lsh(big.NewInt(1), 250))))
		return engine.BankSendMsg(w.A(op.Actor).Addr, w.A(op.Actor).Addr, impossible), nil
	case "drain", "refill":
		var a sendArgs
		op.Decode(&a)
		to, err := sdk.AccAddressFromBech32(a.To)
		if err != nil {
			return nil, err
		}
		return engine.BankSendMsg(w.A(op.Actor).Addr, to, stake(a.Amt)), nil
	}
	return nil, fmt.Errorf("unknown op %s", op.Kind)
}
