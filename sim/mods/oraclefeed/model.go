package oraclefeed

import (
	"encoding/hex"
	"fmt"
	"sort"
	"strings"
	"time"

	abci "github.com/cometbft/cometbft/abci/types"
	"github.com/cosmos/cosmos-sdk/types/query"

	oracletypes "mods.irisnet.org/modules/oracle/types"
	svctypes "mods.irisnet.org/modules/service/types"

	"verif/sim/engine"
)

// ---- reference model ---------------------------------------------------------------------------------

type breq struct {
	ID       string
	Provider string
	Answered bool
	Output   string // "" = a failure report (no output): not a valid response
}

type batch struct {
	N          uint64
	Start, Exp int64
	Thr        uint32 // the feed's threshold when the batch was issued
	reqs       map[string]*breq
	ord        []string
	done       bool
}

type valEntry struct {
	at   time.Time
	seen string // the value string the chain showed when the entry appeared
}

type feed struct {
	Name, Func, Path string
	Service          string
	History          uint64
	Threshold        uint32
	Providers        []string
	Creator          string
	CreatorIdx       int
	CtxID            string // upper-case hex, learned from the feed query after the creating block
	Created          int64
	batches          map[uint64]*batch
	values           []*valEntry // newest first
	prev             []*valEntry // the history before this block's batch added its value
	lastStart        int64
	lastState        string
	reqSeen          int
}

type editEvent struct {
	idx  int
	name string
	a    editArgs
}

type respEvent struct {
	idx    int
	reqID  string
	output string
}

func (m *Module) feedOfCtx(id string) *feed {
	for _, n := range m.ord {
		if f := m.feeds[n]; f.CtxID != "" && f.CtxID == id {
			return f
		}
	}
	return nil
}

// ---- transactions ------------------------------------------------------------------------------------

func (m *Module) OnTx(w *engine.World, tx *engine.TxRecord) {
	// a transaction may carry ops of other modules (the engine's failing tail message, ops of
	// the service workload): only this module's ops are judged here
	for _, op := range tx.Plan.Ops {
		if op.Mod == Name {
			m.onOp(w, tx, op)
		}
	}
}

func (m *Module) onOp(w *engine.World, tx *engine.TxRecord, op *engine.Op) {
	signer := w.A(op.Actor).Addr.String()
	switch op.Kind {
	case "create":
		var a createArgs
		op.Decode(&a)
		if !tx.OK() {
			return
		}
		if m.feeds[a.Name] != nil {
			// a second feed under the same name would detach the first feed from its request
			// context: "the feed's running/paused state always mirrors its service request
			// context" could not hold for both
			w.Violate("C17", "create/existing-name-accepted", "create-feed %q accepted although a feed of that name exists", a.Name)
			return
		}
		f := &feed{Name: a.Name, Func: a.Func, Path: a.Path, Service: a.Service, History: a.History,
			Threshold: a.Threshold, Providers: append([]string{}, a.Providers...), Creator: signer,
			CreatorIdx: op.Actor, Created: tx.Height, batches: map[uint64]*batch{}}
		m.feeds[a.Name] = f
		m.ord = append(m.ord, a.Name)
		w.Hit("oraclefeed.feed_created")
		w.Hit("oraclefeed.func_" + a.Func)
		if a.Name == PriceFeedName {
			w.Hit("oraclefeed.price_feed_created")
		}
	case "start", "pause":
		var a nameArgs
		op.Decode(&a)
		f := m.feeds[a.Name]
		if f == nil || tx.Infra {
			return
		}
		if signer != f.Creator {
			w.Hit("oraclefeed.stranger_attempt")
		}
		if !tx.OK() {
			return
		}
		w.Hit("C17.authority_checks")
		// "only the feed's creator can start, pause or edit it"
		if signer != f.Creator {
			w.Violate("C17", "authority/"+op.Kind, "%s of feed %s by %s was accepted; its creator is %s", op.Kind, f.Name, signer, f.Creator)
		}
		m.msgs[f.Name] = true
		m.svc(w).NoteContextChanged(f.CtxID)
		w.Hit("oraclefeed." + op.Kind + "_ok")
	case "edit":
		var a editArgs
		op.Decode(&a)
		f := m.feeds[a.Name]
		if f == nil {
			return
		}
		if signer != f.Creator {
			w.Hit("oraclefeed.stranger_attempt")
		}
		if !tx.OK() {
			if len(tx.Plan.Ops) > 1 && signer == f.Creator {
				// the edit ran on a branch that a later message of the transaction sank: nothing
				// of it is in force ("the feed keeps only the newest latest-history values" keeps
				// meaning the committed bound)
				w.Hit("oraclefeed.edit_rolled_back")
				if a.History != 0 && a.History != f.History {
					w.Hit("oraclefeed.history_edit_rolled_back")
				}
			}
			return
		}
		w.Hit("C17.authority_checks")
		if signer != f.Creator {
			w.Violate("C17", "authority/edit", "edit of feed %s by %s was accepted; its creator is %s", f.Name, signer, f.Creator)
		}
		// the effect on the model is applied in OnCommit, in transaction order with the
		// responses of the same block
		m.edits = append(m.edits, editEvent{idx: tx.Index, name: a.Name, a: a})
		m.svc(w).NoteContextChanged(f.CtxID)
		w.Hit("oraclefeed.edit_ok")
	case "drain":
		if tx.OK() {
			w.Hit("oraclefeed.creator_drained")
		}
	}
}

// OnBlock reads the responses of the block back from its own transaction bytes: what was
// submitted, and whether it was accepted, is decided by nobody's bookkeeping but the block's.
func (m *Module) OnBlock(w *engine.World, blk *engine.Block, res *abci.ResponseFinalizeBlock) {
	dec := w.Node.App.TxConfig().TxDecoder()
	for i, bz := range blk.Txs {
		if i >= len(res.TxResults) || res.TxResults[i].Code != 0 {
			continue
		}
		tx, err := dec(bz)
		if err != nil {
			continue
		}
		for _, msg := range tx.GetMsgs() {
			if r, ok := msg.(*svctypes.MsgRespondService); ok {
				m.resps = append(m.resps, respEvent{idx: i, reqID: strings.ToUpper(r.RequestId), output: r.Output})
			}
		}
	}
}

// ---- after every block ---------------------------------------------------------------------------------

func (m *Module) applyEdit(w *engine.World, e editEvent) {
	f := m.feeds[e.name]
	if f == nil {
		return
	}
	if e.a.History > 0 {
		switch {
		case e.a.History < f.History:
			w.Hit("oraclefeed.history_shrunk")
			if uint64(len(f.values)) > e.a.History {
				w.Hit("oraclefeed.history_shrunk_below_stored")
			}
		case e.a.History > f.History:
			w.Hit("oraclefeed.history_grown")
		}
		f.History = e.a.History
		// "the feed keeps only the newest latest-history values"
		if uint64(len(f.values)) > f.History {
			f.values = f.values[:f.History]
		}
	}
	if e.a.Threshold > 0 {
		f.Threshold = e.a.Threshold
	}
	if len(e.a.Providers) > 0 {
		f.Providers = append([]string{}, e.a.Providers...)
	}
}

// pendingValue is the entry a completed batch must have produced in this block.
type pendingValue struct {
	ex        expectation
	fn        string
	outputs   []string
	batch     uint64
	inTx      bool
	thr       uint32
	uncertain bool // the property does not decide whether a value must exist
}

// complete judges a batch that finished in this block and returns what it must have appended.
func (m *Module) complete(w *engine.World, f *feed, b *batch, inTx bool) *pendingValue {
	b.done = true
	var outs []string
	answered := 0
	for _, id := range b.ord {
		if q := b.reqs[id]; q.Answered {
			answered++
			if q.Output != "" {
				outs = append(outs, q.Output)
			}
		}
	}
	w.Hit("oraclefeed.batches_completed")
	if inTx {
		w.Hit("oraclefeed.batch_completed_by_last_response")
	} else {
		w.Hit("oraclefeed.batch_completed_at_expiry")
	}
	if answered > len(outs) {
		w.Hit("oraclefeed.batch_with_failure_report")
	}
	// "each completed batch that met its response threshold": ITS threshold - the one the
	// batch was issued with. An edit of the feed's threshold accepted while the batch is open
	// concerns the batches issued afterwards.
	thr := b.Thr
	thrKnown := thr != 0
	if !thrKnown {
		thr = f.Threshold // batch first seen after the block that issued it
	}
	changed := thrKnown && b.Thr != f.Threshold
	meets := len(outs) >= int(thr) && len(outs) > 0
	if changed {
		w.Hit("oraclefeed.threshold_changed_mid_batch")
		m.thrMid[f.Name] = true
		// the valid responses lie between the two thresholds: the batch's own threshold and
		// the feed's current one disagree about it
		if meets != (len(outs) >= int(f.Threshold) && len(outs) > 0) {
			if meets {
				w.Hit("oraclefeed.threshold_raised_mid_batch_decides")
			} else {
				w.Hit("oraclefeed.threshold_lowered_mid_batch_decides")
			}
		}
	}
	if !meets {
		w.Hit("oraclefeed.batch_below_threshold")
		m.below[f.Name] = true
		return nil
	}
	pv := &pendingValue{fn: f.Func, outputs: outs, batch: b.N, inTx: inTx, thr: thr}
	pv.ex = expect(f.Func, f.Path, outs, int(thr))
	if !thrKnown && b.Thr != f.Threshold {
		pv.uncertain = true
	}
	if pv.ex.allowNone {
		pv.uncertain = true
	}
	if pv.ex.ambiguous {
		w.Hit("oraclefeed.batch_with_non_numeric")
	}
	if len(outs) == int(thr) {
		w.Hit("oraclefeed.threshold_met_exactly")
	}
	return pv
}

func (m *Module) OnCommit(w *engine.World) {
	h := w.Height
	ctx := w.Node.Ctx()
	ok := w.Node.K.Oracle
	svc := m.svc(w)

	// 1. feeds created in this block: their request context id is public through the feed query
	for _, n := range m.ord {
		f := m.feeds[n]
		if f.CtxID != "" {
			continue
		}
		res, err := ok.Feed(ctx, &oracletypes.QueryFeedRequest{FeedName: f.Name})
		if err != nil || res.Feed.Feed == nil {
			w.Violate("C17", "query/feed-missing", "feed %s was created by an accepted message at height %d but the feed query fails after block %d: %v", f.Name, f.Created, h, err)
			continue
		}
		f.CtxID = strings.ToUpper(res.Feed.Feed.RequestContextID)
		svc.TrackSchedule(f.CtxID)
		// responses to this feed's requests name the context by a label, so that a shrunk
		// schedule (in which the creating transaction, and with it the id, changed) still resolves
		label := "feed.ctx." + f.Name
		w.Label(label, f.CtxID)
		svc.SetContextLabel(f.CtxID, label)
	}

	// 2. this block's events in execution order: accepted edits and accepted responses
	type ev struct {
		idx  int
		edit *editEvent
		resp *respEvent
	}
	var evs []ev
	for i := range m.edits {
		evs = append(evs, ev{idx: m.edits[i].idx, edit: &m.edits[i]})
	}
	for i := range m.resps {
		evs = append(evs, ev{idx: m.resps[i].idx, resp: &m.resps[i]})
	}
	sort.SliceStable(evs, func(i, j int) bool { return evs[i].idx < evs[j].idx })
	m.edits, m.resps = nil, nil

	reqIdx := map[string]*feed{}
	for _, n := range m.ord {
		f := m.feeds[n]
		for _, b := range f.batches {
			if !b.done {
				for id := range b.reqs {
					reqIdx[id] = f
				}
			}
		}
	}
	newVal := map[string]*pendingValue{}
	edited := map[string]bool{}
	for _, e := range evs {
		if e.edit != nil {
			m.applyEdit(w, *e.edit)
			edited[e.edit.name] = true
			continue
		}
		f := reqIdx[e.resp.reqID]
		if f == nil {
			continue
		}
		for _, b := range f.batches {
			q := b.reqs[e.resp.reqID]
			if q == nil || b.done || q.Answered {
				continue
			}
			q.Answered, q.Output = true, e.resp.output
			all := true
			for _, id := range b.ord {
				all = all && b.reqs[id].Answered
			}
			if all {
				// the last outstanding answer completes the batch inside its transaction
				if pv := m.complete(w, f, b, true); pv != nil {
					m.addValue(w, f, newVal, pv)
				}
			}
		}
	}
	// 3. the end block: batches reaching their expiration height complete with what they have
	for _, n := range m.ord {
		f := m.feeds[n]
		for _, bn := range sortedBatches(f) {
			b := f.batches[bn]
			if !b.done && b.Exp <= h {
				if pv := m.complete(w, f, b, false); pv != nil {
					m.addValue(w, f, newVal, pv)
				}
			}
		}
	}
	// 4. batches issued by this end block
	for _, n := range m.ord {
		f := m.feeds[n]
		if f.CtxID == "" {
			continue
		}
		reqs := svc.Requests(f.CtxID)
		for _, q := range reqs[f.reqSeen:] {
			b := f.batches[q.Batch]
			if b == nil {
				b = &batch{N: q.Batch, Start: q.RequestHeight, Exp: q.ExpirationHeight, Thr: f.Threshold, reqs: map[string]*breq{}}
				f.batches[q.Batch] = b
				if q.RequestHeight > f.lastStart {
					f.lastStart = q.RequestHeight
				}
				w.Hit("oraclefeed.batches_issued")
				if q.RequestHeight != h {
					// seen late: the threshold it was issued with is not known to the model
					b.Thr = 0
				}
			}
			id := strings.ToUpper(q.ID)
			b.reqs[id] = &breq{ID: id, Provider: q.Provider}
			b.ord = append(b.ord, id)
			for _, c := range q.Fee {
				if c.Denom != Std {
					w.Hit("oraclefeed.exchange_rate_used")
				}
			}
		}
		f.reqSeen = len(reqs)
	}

	// 5. the feed-value query against the model. The callback records of the service workload's
	// tap (which response callbacks of the oracle module fired in this block, with or without
	// error) are diagnostics: they go into the messages and the counters, the verdict comes from
	// the query.
	for _, n := range m.ord {
		f := m.feeds[n]
		fired := 0
		for _, rec := range m.cbs {
			if rec.Kind != "response" || rec.ContextID != f.CtxID || rec.TxFailed {
				continue
			}
			if rec.Err == "" {
				fired++
				w.Hit("oraclefeed.callback_with_outputs")
			} else {
				w.Hit("oraclefeed.callback_with_error")
			}
		}
		pv := newVal[n]
		switch {
		case pv != nil && !pv.uncertain && fired == 0:
			w.Hit("oraclefeed.value_expected_but_no_callback")
		case pv == nil && fired > 0:
			w.Hit("oraclefeed.callback_but_no_value_expected")
		}
		m.checkValues(w, f, pv, edited[n], fired)
	}
	// 6. the state index against the request contexts
	m.checkStateIndex(w)
	m.notePriced(w, svc)
	m.msgs = map[string]bool{}
	m.below, m.thrMid = map[string]bool{}, map[string]bool{}
	m.cbs = nil

	nv := 0
	for _, n := range m.ord {
		nv += len(m.feeds[n].values)
	}
	// feeds whose names are in prefix relation, both holding values, with different bounds
	for _, a := range m.ord {
		for _, b := range m.ord {
			fa, fb := m.feeds[a], m.feeds[b]
			if a != b && strings.HasPrefix(b, a) && len(fa.values) > 0 && len(fb.values) > 0 {
				w.Hit("oraclefeed.prefix_named_feeds_with_values")
				if fa.History != fb.History {
					w.Hit("oraclefeed.prefix_named_feeds_different_bounds")
				}
			}
		}
	}
	w.State("oraclefeed", len(m.ord), nv, len(newVal))
}

func sortedBatches(f *feed) []uint64 {
	var out []uint64
	for n := range f.batches {
		out = append(out, n)
	}
	sort.Slice(out, func(i, j int) bool { return out[i] < out[j] })
	return out
}

// addValue puts the expected entry at the head of the model's history.
func (m *Module) addValue(w *engine.World, f *feed, newVal map[string]*pendingValue, pv *pendingValue) {
	if newVal[f.Name] != nil {
		// two batches of one feed cannot complete in one block (a batch is issued only after the
		// previous one expired); if the model thinks so it lost track: resynchronise
		pv.uncertain = true
	}
	newVal[f.Name] = pv
	if pv.uncertain {
		return
	}
	// "appends exactly one value ... and the feed keeps only the newest latest-history values,
	// newest first"
	f.prev = append([]*valEntry{}, f.values...)
	f.values = append([]*valEntry{{at: w.Time}}, f.values...)
	if uint64(len(f.values)) > f.History {
		f.values = f.values[:f.History]
		w.Hit("oraclefeed.history_trimmed_on_insert")
	}
}

func (m *Module) checkValues(w *engine.World, f *feed, pv *pendingValue, edited bool, fired int) {
	res, err := w.Node.K.Oracle.FeedValue(w.Node.Ctx(), &oracletypes.QueryFeedValueRequest{FeedName: f.Name})
	if err != nil {
		w.Violate("C17", "query/feed-value-failed", "feed-value query of %s failed after block %d: %v", f.Name, w.Height, err)
		return
	}
	chain := res.FeedValues
	w.Hit("C17.history_checks")
	what := "idle"
	switch {
	case pv != nil && edited:
		what = "batch-completed-and-edited"
	case pv != nil:
		what = "batch-completed"
	case m.below[f.Name] && edited:
		what = "batch-below-threshold-and-edited"
	case m.below[f.Name]:
		what = "batch-below-threshold"
	case edited:
		what = "edited"
	}
	if m.thrMid[f.Name] {
		what += "/threshold-edited-mid-batch"
	}
	// "the feed keeps only the newest latest-history values"
	if uint64(len(chain)) > f.History {
		w.Violate("C17", "history/exceeds-latest-history/"+what, "feed %s (latest history %d) lists %d values after block %d", f.Name, f.History, len(chain), w.Height)
	}
	// "newest first"
	for i := 1; i < len(chain); i++ {
		if chain[i].Timestamp.After(chain[i-1].Timestamp) {
			w.Violate("C17", "history/not-newest-first", "feed %s: value %d is stamped %s, value %d before it %s", f.Name, i, chain[i].Timestamp.UTC(), i-1, chain[i-1].Timestamp.UTC())
			break
		}
	}
	resync := func() {
		f.values = f.values[:0]
		for _, v := range chain {
			f.values = append(f.values, &valEntry{at: v.Timestamp, seen: v.Data})
		}
	}
	if pv != nil && pv.uncertain {
		// whether this batch had to produce a value is not decided by the property; if the
		// newest stored value carries this block's time it is the batch's and is judged
		if len(chain) > 0 && chain[0].Timestamp.Equal(w.Time) {
			m.judge(w, f, pv, chain[0].Data)
		}
		resync()
		return
	}
	// which of the listed values are new in this block? (block times strictly increase, so the
	// entries known before this block are told apart by their stamps)
	before := f.values
	if pv != nil {
		before = f.prev
	}
	known := map[int64]bool{}
	for _, e := range before {
		known[e.at.UnixNano()] = true
	}
	fresh := 0
	for _, v := range chain {
		if !known[v.Timestamp.UnixNano()] {
			fresh++
		}
	}
	if fresh > btoi(pv != nil) {
		// more new values than batches completed: do they belong to a feed whose name is in prefix
		// relation with this one? (the model of every feed is from before this block's comparison
		// only for the feeds compared earlier; stamps and value strings decide)
		foreign := ""
		for _, v := range chain {
			if known[v.Timestamp.UnixNano()] || (pv != nil && v.Timestamp.Equal(w.Time)) {
				continue
			}
			for _, on := range m.ord {
				o := m.feeds[on]
				if o == f || !(strings.HasPrefix(o.Name, f.Name) || strings.HasPrefix(f.Name, o.Name)) {
					continue
				}
				for _, e := range o.values {
					if e.at.Equal(v.Timestamp) && (e.seen == v.Data || e.seen == "") {
						foreign = o.Name
					}
				}
			}
		}
		if foreign != "" {
			// "the feed keeps only the newest latest-history values" - its own
			w.Violate("C17", "history/values-of-another-feed/prefix-related-name", "the feed-value query of %s lists %d values after block %d, among them values of feed %s (same stamps and values): %s",
				f.Name, len(chain), w.Height, foreign, renderValues(chain))
			resync()
			return
		}
	}
	switch {
	case pv != nil && fresh == 0:
		// "each completed batch that met its response threshold appends exactly one value"
		w.Violate("C17", "history/value-missing/"+what, "feed %s: batch %d completed in block %d with %d valid response(s), threshold %d when it was issued: no value was appended (the oracle module's response callback fired %d time(s) without error for this feed in this block); valid responses: %s",
			f.Name, pv.batch, w.Height, len(pv.outputs), pv.thr, fired, strings.Join(pv.outputs, " "))
		resync()
		return
	case pv == nil && fresh > 0:
		// conversely: nothing but a completed batch that met its threshold appends a value
		w.Violate("C17", "history/value-unexpected/"+what, "feed %s lists %d value(s) after block %d that were not there before, although no batch of it that met its threshold completed in this block (%s; the oracle module's response callback fired %d time(s) without error for this feed in this block)",
			f.Name, fresh, w.Height, what, fired)
		resync()
		return
	}
	if len(chain) != len(f.values) {
		rel := "fewer"
		if len(chain) > len(f.values) {
			rel = "more"
		}
		// "each completed batch that met its response threshold appends exactly one value"
		w.Violate("C17", "history/count/"+rel+"/"+what, "feed %s (latest history %d) lists %d values after block %d, the batches completed and the edits accepted so far give %d (%s; the oracle module's response callback fired %d time(s) without error for this feed in this block)",
			f.Name, f.History, len(chain), w.Height, len(f.values), what, fired)
		if pv != nil && len(chain) > 0 && chain[0].Timestamp.Equal(w.Time) {
			m.judge(w, f, pv, chain[0].Data)
		}
		resync()
		return
	}
	for i, v := range chain {
		e := f.values[i]
		if !v.Timestamp.Equal(e.at) {
			// "stamped with the block time"
			w.Violate("C17", "value/timestamp", "feed %s value %d is stamped %s, the block that completed its batch had time %s", f.Name, i, v.Timestamp.UTC(), e.at.UTC())
			e.at = v.Timestamp
		}
		if i == 0 && pv != nil {
			m.judge(w, f, pv, v.Data)
			e.seen = v.Data
			continue
		}
		if e.seen != v.Data {
			w.Violate("C17", "value/changed-after-store", "feed %s value %d stamped %s reads %q, it read %q when it was stored", f.Name, i, v.Timestamp.UTC(), v.Data, e.seen)
			e.seen = v.Data
		}
	}
}

func renderValues(vs []oracletypes.FeedValue) string {
	var b strings.Builder
	for i, v := range vs {
		if i == 8 {
			b.WriteString("...")
			break
		}
		d := v.Data
		if len(d) > 24 {
			d = d[:24] + ".."
		}
		fmt.Fprintf(&b, "%s@%s ", d, v.Timestamp.UTC().Format("15:04:05.000000000"))
	}
	return b.String()
}

// judge compares a freshly stored value with the exact aggregate of the valid responses.
func (m *Module) judge(w *engine.World, f *feed, pv *pendingValue, data string) {
	if strings.HasPrefix(pv.ex.shape, "all-negative") {
		w.Hit("oraclefeed.batch_all_negative")
	}
	if strings.Contains(pv.ex.shape, "beyond-float64") {
		w.Hit("oraclefeed.batch_beyond_float64")
	}
	if len(pv.outputs) > 1 {
		w.Hit("oraclefeed.batch_several_valid_responses")
	}
	if pv.fn == "avg" {
		distinct := map[string]bool{}
		for _, o := range pv.outputs {
			distinct[o] = true
		}
		if len(distinct) >= 3 {
			// the order of a float64 summation can show here (C11)
			w.Hit("oraclefeed.avg_batch_three_distinct_answers")
			if f.Name == PriceFeedName {
				w.Hit("oraclefeed.avg_batch_three_distinct_answers_price_feed")
			}
		}
		if pv.ex.orderSensitive {
			w.Hit("oraclefeed.avg_batch_order_sensitive")
		}
	}
	if pv.ex.ambiguous {
		// a valid response without a JSON number at the path: the property's sentence about the
		// aggregate does not say how it counts (ignored, zero, true = 1, "12.5" = 12.5 ...); only
		// the shape of the stored value is judged
		w.Hit("C17.format_only_checks")
		if !dec8Re.MatchString(data) {
			key := "aggregate/" + pv.fn + "/non-numeric-response/format"
			if strings.Contains(data, "Inf") || strings.Contains(data, "NaN") {
				// same family as the beyond-float64 finding: a literal outside the float64
				// range among the responses
				key = "aggregate/" + pv.fn + "/beyond-float64"
			}
			w.Violate("C17", key, "feed %s (%s of %q) batch %d stored %q, not a decimal with 8 fractional digits; valid responses: %s",
				f.Name, pv.fn, f.Path, pv.batch, data, strings.Join(pv.outputs, " "))
		}
		return
	}
	w.Hit("C17.aggregate_checks")
	w.Hit("C17.aggregate_checks_" + pv.fn)
	if okv, why := pv.ex.matches(data); !okv {
		var cs []string
		for _, c := range pv.ex.cands {
			cs = append(cs, ratStr(round8(c)))
		}
		// "the configured aggregate (max, min or average, 8 decimals) of the numeric field
		// extracted from the valid responses"
		w.Violate("C17", "aggregate/"+pv.fn+"/"+pv.ex.shape, "feed %s (%s of %q) batch %d stored %q: %s; exact aggregate(s) rounded to 8 decimals: %s; valid responses: %s",
			f.Name, pv.fn, f.Path, pv.batch, data, why, strings.Join(cs, " | "), strings.Join(pv.outputs, " "))
	}
}

// checkStateIndex: "The feed's running/paused state always mirrors its service request context".
func (m *Module) checkStateIndex(w *engine.World) {
	if len(m.ord) == 0 {
		return
	}
	ctx := w.Node.Ctx()
	ok := w.Node.K.Oracle
	list := func(state string) (map[string]bool, bool) {
		out := map[string]bool{}
		res, err := ok.Feeds(ctx, &oracletypes.QueryFeedsRequest{State: state, Pagination: &query.PageRequest{Limit: 100}})
		if err != nil {
			w.Violate("C17", "query/feeds-by-state-failed", "feeds query by state %s failed after block %d: %v", state, w.Height, err)
			return nil, false
		}
		for _, fc := range res.Feeds {
			if fc.Feed != nil {
				out[fc.Feed.FeedName] = true
			}
		}
		return out, true
	}
	running, ok1 := list("running")
	paused, ok2 := list("paused")
	if !ok1 || !ok2 {
		return
	}
	for _, n := range m.ord {
		f := m.feeds[n]
		if f.CtxID == "" {
			continue
		}
		id, err := hex.DecodeString(f.CtxID)
		if err != nil {
			continue
		}
		rc, found := w.Node.K.Service.GetRequestContext(ctx, id)
		if !found {
			w.Violate("C17", "state-index/context-gone", "feed %s: its request context %s does not exist after block %d", f.Name, f.CtxID, w.Height)
			continue
		}
		st := strings.ToLower(rc.State.String())
		cause := "steady"
		switch {
		case m.msgs[f.Name]:
			cause = "after-message"
		case f.lastState == "running" && st == "paused":
			cause = "after-automatic-pause"
			w.Hit("oraclefeed.auto_paused")
		case f.lastState != "" && f.lastState != st:
			cause = "after-unexplained-change"
		}
		f.lastState = st
		w.Hit("C17.state_index_checks")
		inR, inP := running[f.Name], paused[f.Name]
		var bad string
		switch st {
		case "running":
			if !inR || inP {
				bad = fmt.Sprintf("context running, feed in the running list: %v, in the paused list: %v", inR, inP)
			}
		case "paused":
			if inR || !inP {
				bad = fmt.Sprintf("context paused, feed in the running list: %v, in the paused list: %v", inR, inP)
			}
		default:
			bad = "context " + st
		}
		if bad != "" {
			w.Violate("C17", "state-index/"+st+"/"+cause, "feed %s after block %d (%s): %s", f.Name, w.Height, cause, bad)
		}
	}
}

// DurableQueries renders the feed and feed-value queries of every feed the workload knows (C12).
func (m *Module) DurableQueries(w *engine.World, n *engine.Node) []engine.KV {
	var out []engine.KV
	ctx := n.Ctx()
	for _, name := range engine.SortedKeys(m.feeds) {
		v := ""
		if res, err := n.K.Oracle.Feed(ctx, &oracletypes.QueryFeedRequest{FeedName: name}); err != nil {
			v = "error: " + err.Error()
		} else {
			v = res.Feed.String()
		}
		out = append(out, engine.KV{K: "feed:" + name, V: v})
		if res, err := n.K.Oracle.FeedValue(ctx, &oracletypes.QueryFeedValueRequest{FeedName: name}); err != nil {
			v = "error: " + err.Error()
		} else {
			var b strings.Builder
			for _, fv := range res.FeedValues {
				fmt.Fprintf(&b, "%s@%s;", fv.Data, fv.Timestamp.UTC().Format(time.RFC3339Nano))
			}
			v = b.String()
		}
		out = append(out, engine.KV{K: "feed-values:" + name, V: v})
	}
	return out
}
