package oraclefeed

import (
	"bytes"
	"encoding/json"
	"fmt"
	"math/big"
	"regexp"
	"strconv"
	"strings"

	"verif/sim/engine"
)

// ---- response documents ---------------------------------------------------------------------------
//
// The responder hands documents to the service workload's provider actors. Every choice is a
// pure function of (run salt, context id, batch, request id): the responder is called at
// generation time only, the documents travel in the operation, and the oracle later reads them
// back from the block's own transaction bytes.

const (
	okResult  = `{"code":200,"message":""}`
	errResult = `{"code":500,"message":"provider failed"}`
	feedInput = `{"header":{},"body":{}}`
)

// value classes of a batch (one class per batch, so that a batch never mixes huge values of
// opposite sign: float64 cancellation is not what the property is about)
const (
	clsSmallInt = iota
	clsNegative
	clsDecimals
	clsHugePos
	clsHugeNeg
	clsMixed
	clsZero
	clsTiny
	clsRate   // positive, few decimals: usable as an exchange rate
	clsBeyond // beyond the float64 range (only when the run enables it)
	clsOrder  // about 1e8..1e9 with eight or more decimals: the order of a float64 summation shows in the eighth decimal
	nClasses
)

var paths = []string{"v", "data.price", "arr.1"}

func digits(r *engine.Rand, n int) string {
	var b strings.Builder
	for i := 0; i < n; i++ {
		b.WriteByte(byte('0' + r.Intn(10)))
	}
	return b.String()
}

func trimInt(s string) string {
	s = strings.TrimLeft(s, "0")
	if s == "" {
		return "0"
	}
	return s
}

// literal draws a JSON number literal of the class.
func literal(cls int, r *engine.Rand) string {
	switch cls {
	case clsSmallInt:
		return strconv.FormatInt(r.Range(-9, 9), 10)
	case clsNegative:
		s := "-" + trimInt(digits(r, 1+r.Intn(7)))
		if s == "-0" {
			s = "-1"
		}
		if r.Bool(0.5) {
			s += "." + digits(r, 1+r.Intn(10))
		}
		return s
	case clsDecimals:
		return trimInt(digits(r, 1+r.Intn(3))) + "." + digits(r, 1+r.Intn(18))
	case clsHugePos, clsHugeNeg:
		sign := ""
		if cls == clsHugeNeg {
			sign = "-"
		}
		switch r.Intn(4) {
		case 0: // plain digits
			return sign + fmt.Sprintf("%d", 1+r.Intn(9)) + digits(r, 15+r.Intn(16))
		case 1: // exponent notation
			return sign + fmt.Sprintf("%d.%se%d", 1+r.Intn(9), digits(r, 1+r.Intn(6)), 15+r.Intn(16))
		case 2: // close to the top of the float64 range (the class keeps one sign: sums stay finite for few providers)
			return sign + fmt.Sprintf("%d.%se%d", 1+r.Intn(3), digits(r, 3), 290+r.Intn(10))
		default:
			return sign + fmt.Sprintf("%d", 1+r.Intn(9)) + digits(r, 15+r.Intn(8)) + "." + digits(r, 1+r.Intn(8))
		}
	case clsMixed:
		s := trimInt(digits(r, 1+r.Intn(6)))
		if r.Bool(0.7) {
			s += "." + digits(r, 1+r.Intn(12))
		}
		if r.Bool(0.5) {
			s = "-" + s
		}
		if r.Bool(0.1) {
			s = "0"
		}
		return s
	case clsZero:
		return []string{"0", "0.0", "-0", "0e5", "0.000"}[r.Intn(5)]
	case clsTiny:
		s := "0." + strings.Repeat("0", 8+r.Intn(6)) + fmt.Sprintf("%d", 1+r.Intn(9)) + digits(r, r.Intn(4))
		if r.Bool(0.5) {
			s = "-" + s
		}
		return s
	case clsRate:
		return fmt.Sprintf("%d.%s", r.Intn(3), digits(r, 1+r.Intn(6)))
	case clsOrder:
		return fmt.Sprintf("%d", 1+r.Intn(9)) + digits(r, 8+r.Intn(2)) + "." + digits(r, 8+r.Intn(3))
	case clsBeyond:
		if r.Bool(0.5) {
			return "-1e400"
		}
		return fmt.Sprintf("%de%d", 1+r.Intn(9), 310+r.Intn(100))
	}
	return "1"
}

// bodyFor renders a body object whose value at path is the given JSON fragment ("" = the
// field is missing).
func bodyFor(path, frag string, r *engine.Rand) string {
	if frag == "" {
		switch r.Intn(4) {
		case 0:
			return "" // no body at all
		case 1:
			return `{}`
		case 2:
			return `{"other":1,"data":7,"arr":[3]}` // the path runs into a scalar / a short array
		default:
			return `{"data":{"cost":2},"arr":[],"w":5}`
		}
	}
	switch path {
	case "v":
		return `{"v":` + frag + `}`
	case "data.price":
		return `{"data":{"price":` + frag + `,"unit":"x"}}`
	case "arr.1":
		return `{"arr":[7,` + frag + `]}`
	}
	return `{"` + path + `":` + frag + `}`
}

func outputDoc(body string) string {
	if body == "" {
		return `{"header":{}}`
	}
	return `{"header":{},"body":` + body + `}`
}

// ---- reading a value back out of a document (the oracle's own JSON walk) --------------------------

const (
	kNumber    = iota // a JSON number
	kNumString        // a JSON string holding a decimal number
	kOther            // anything else, or nothing at the path
)

type item struct {
	kind int
	num  *big.Rat
}

var numRe = regexp.MustCompile(`^-?(0|[1-9][0-9]*)(\.[0-9]+)?([eE][-+]?[0-9]+)?$`)

// extract walks body.<path> ("." separated; object keys and array indexes).
func extract(output, path string) item {
	dec := json.NewDecoder(bytes.NewReader([]byte(output)))
	dec.UseNumber()
	var doc any
	if err := dec.Decode(&doc); err != nil {
		return item{kind: kOther}
	}
	cur := doc
	for _, seg := range append([]string{"body"}, strings.Split(path, ".")...) {
		switch t := cur.(type) {
		case map[string]any:
			v, ok := t[seg]
			if !ok {
				return item{kind: kOther}
			}
			cur = v
		case []any:
			i, err := strconv.Atoi(seg)
			if err != nil || i < 0 || i >= len(t) {
				return item{kind: kOther}
			}
			cur = t[i]
		default:
			return item{kind: kOther}
		}
	}
	switch t := cur.(type) {
	case json.Number:
		if v, ok := ratOf(string(t)); ok {
			return item{kind: kNumber, num: v}
		}
	case string:
		if numRe.MatchString(t) {
			if v, ok := ratOf(t); ok {
				return item{kind: kNumString, num: v}
			}
		}
	}
	return item{kind: kOther}
}

// ratOf parses a decimal literal with optional exponent exactly.
func ratOf(s string) (*big.Rat, bool) {
	if !numRe.MatchString(s) {
		return nil, false
	}
	mant, exp := s, 0
	if i := strings.IndexAny(s, "eE"); i >= 0 {
		mant = s[:i]
		e, err := strconv.Atoi(s[i+1:])
		if err != nil || e > 100000 || e < -100000 {
			return nil, false
		}
		exp = e
	}
	v, ok := new(big.Rat).SetString(mant)
	if !ok {
		return nil, false
	}
	if exp != 0 {
		p := new(big.Int).Exp(big.NewInt(10), big.NewInt(int64(abs(exp))), nil)
		if exp > 0 {
			v.Mul(v, new(big.Rat).SetInt(p))
		} else {
			v.Quo(v, new(big.Rat).SetInt(p))
		}
	}
	return v, true
}

func abs(i int) int {
	if i < 0 {
		return -i
	}
	return i
}

// ---- exact aggregates ----------------------------------------------------------------------------

func aggregate(fn string, xs []*big.Rat) *big.Rat {
	out := new(big.Rat).Set(xs[0])
	switch fn {
	case "max":
		for _, x := range xs[1:] {
			if x.Cmp(out) > 0 {
				out.Set(x)
			}
		}
	case "min":
		for _, x := range xs[1:] {
			if x.Cmp(out) < 0 {
				out.Set(x)
			}
		}
	default: // avg
		for _, x := range xs[1:] {
			out.Add(out, x)
		}
		out.Quo(out, new(big.Rat).SetInt64(int64(len(xs))))
	}
	return out
}

var (
	e8     = new(big.Rat).SetInt(new(big.Int).Exp(big.NewInt(10), big.NewInt(8), nil))
	tolAbs = new(big.Rat).SetFrac(big.NewInt(1), new(big.Int).Exp(big.NewInt(10), big.NewInt(8), nil))
	tolRel = new(big.Rat).SetFrac(big.NewInt(1), new(big.Int).Exp(big.NewInt(10), big.NewInt(12), nil))
	// the largest finite float64, as an exact integer
	maxF64 = func() *big.Rat {
		v := new(big.Int).Lsh(big.NewInt(1), 1024)
		v.Sub(v, new(big.Int).Lsh(big.NewInt(1), 971))
		return new(big.Rat).SetInt(v)
	}()
)

// round8 rounds to 8 decimals, half away from zero.
func round8(v *big.Rat) *big.Rat {
	x := new(big.Rat).Mul(v, e8)
	neg := x.Sign() < 0
	if neg {
		x.Neg(x)
	}
	x.Add(x, big.NewRat(1, 2))
	q := new(big.Int).Quo(x.Num(), x.Denom())
	out := new(big.Rat).SetFrac(q, e8.Num())
	if neg {
		out.Neg(out)
	}
	return out
}

// within: |got - round8(want)| <= 1e-8 + 1e-12*|want|  (the tolerance the design fixes: the
// property states 8 decimals, the module computes in float64).
func within(got, want *big.Rat) bool {
	d := new(big.Rat).Sub(got, round8(want))
	d.Abs(d)
	tol := new(big.Rat).Abs(want)
	tol.Mul(tol, tolRel).Add(tol, tolAbs)
	return d.Cmp(tol) <= 0
}

var dec8Re = regexp.MustCompile(`^-?[0-9]+\.[0-9]{8}$`)

// expectation is what a completed batch that met its threshold must have appended.
type expectation struct {
	cands     []*big.Rat // acceptable exact aggregates (one when every response was numeric)
	allowNone bool       // no value is acceptable as well (the property is silent on this case)
	ambiguous bool
	shape     string
	// orderSensitive (probe only): an average whose float64 summation gives another
	// 8-decimal result in another order of the same answers
	orderSensitive bool
}

// floatOrderSensitive reports whether summing the values as float64 in different orders and
// dividing by their number gives different 8-decimal strings.
func floatOrderSensitive(xs []*big.Rat) bool {
	if len(xs) < 3 || len(xs) > 6 {
		return false
	}
	fs := make([]float64, len(xs))
	for i, x := range xs {
		fs[i], _ = x.Float64()
	}
	seen := map[string]bool{}
	var rec func(k int)
	rec = func(k int) {
		if k == len(fs) {
			t := 0.0
			for _, f := range fs {
				t += f
			}
			seen[strconv.FormatFloat(t/float64(len(fs)), 'f', 8, 64)] = true
			return
		}
		for i := k; i < len(fs); i++ {
			fs[k], fs[i] = fs[i], fs[k]
			rec(k + 1)
			fs[k], fs[i] = fs[i], fs[k]
		}
	}
	rec(0)
	return len(seen) > 1
}

// expect computes the acceptable aggregates of a set of valid outputs.
//
// "the configured aggregate (max, min or average, 8 decimals) of the numeric field extracted
// from the valid responses": when every valid response carries a JSON number at the path the
// aggregate is determined. A response without a number there (missing, text, a number inside
// a string) is not covered by that sentence; the oracle then accepts every reading - such a
// response ignored, or counted as zero; a numeric string read as its number or not.
func expect(fn string, path string, outputs []string, threshold int) expectation {
	var items []item
	allNum := true
	for _, o := range outputs {
		it := extract(o, path)
		items = append(items, it)
		if it.kind != kNumber {
			allNum = false
		}
	}
	shapeOf := func(xs []*big.Rat) string {
		neg, pos, zero, beyond := 0, 0, 0, false
		for _, x := range xs {
			switch x.Sign() {
			case -1:
				neg++
			case 1:
				pos++
			default:
				zero++
			}
			if new(big.Rat).Abs(x).Cmp(maxF64) > 0 {
				beyond = true
			}
		}
		s := "mixed-signs"
		if beyond {
			// one shape whatever the signs: the defect class is the magnitude
			return "beyond-float64"
		}
		switch {
		case neg == len(xs):
			s = "all-negative"
		case pos == len(xs):
			s = "all-positive"
		case zero == len(xs):
			s = "all-zero"
		case pos == 0:
			s = "negative-and-zero"
		case neg == 0:
			s = "positive-and-zero"
		}
		return s
	}
	if allNum {
		var xs []*big.Rat
		for _, it := range items {
			xs = append(xs, it.num)
		}
		return expectation{cands: []*big.Rat{aggregate(fn, xs)}, shape: shapeOf(xs), orderSensitive: fn == "avg" && floatOrderSensitive(xs)}
	}
	ex := expectation{ambiguous: true, shape: "non-numeric-response"}
	for _, strAsNum := range []bool{true, false} {
		for _, otherAsZero := range []bool{true, false} {
			var xs []*big.Rat
			for _, it := range items {
				switch {
				case it.kind == kNumber, it.kind == kNumString && strAsNum:
					xs = append(xs, it.num)
				case otherAsZero:
					xs = append(xs, new(big.Rat))
				}
			}
			if len(xs) < threshold || len(xs) == 0 {
				ex.allowNone = true
			}
			if len(xs) > 0 {
				ex.cands = append(ex.cands, aggregate(fn, xs))
			}
		}
	}
	return ex
}

// matches reports whether a stored value string satisfies the expectation; why names the
// failed clause.
func (e expectation) matches(data string) (ok bool, why string) {
	if !dec8Re.MatchString(data) {
		return false, "not a decimal with 8 fractional digits"
	}
	got, _ := new(big.Rat).SetString(data)
	for _, c := range e.cands {
		if within(got, c) {
			return true, ""
		}
	}
	return false, "differs from the exact aggregate by more than 1e-8 + 1e-12*|v|"
}

func ratStr(v *big.Rat) string {
	s := v.FloatString(8)
	if len(s) > 60 {
		return new(big.Float).SetPrec(128).SetRat(v).Text('e', 20)
	}
	return s
}
