package oraclefeed

import (
	"math/big"

	svctypes "mods.irisnet.org/modules/service/types"

	"verif/sim/engine"
	servicemod "verif/sim/mods/service"
)

// The price-feed scenario. The service module prices a binding whose pricing is in a denom
// other than its base denom through an exchange rate: it asks the oracle module for the newest
// value of the feed named "<denom>-<base>". This workload creates that feed (PriceFeedName),
// has providers answer it with usable (and, per run, sometimes unusable) rates, and then has
// bindings of the service workload re-priced in that denom, so that feeds and the service
// workload's own consumers call them.
//
// The re-pricing is an operation OF THE SERVICE WORKLOAD (servicemod.UpdatePricingOp): its Build
// and its OnTx handle it, so its model learns the new pricing the ordinary way; in addition
// servicemod.OfferPriceDenom lets its own generator price a share of its bindings that way.

func (m *Module) genPriced(w *engine.World, r *engine.Rand, svc *servicemod.Module) *engine.TxPlan {
	par := svc.Params()
	if par.Restricted {
		return nil // only the base denom is accepted for pricing in this run (unless the governor changes it)
	}
	rate := m.curRate()
	if rate != nil {
		svc.OfferPriceDenom(PriceDenom)
	}
	if rate == nil && !r.Bool(0.1) {
		return nil // no usable rate yet (sometimes tried anyway: must be refused)
	}
	type cand struct {
		s string
		p servicemod.ProviderInfo
	}
	var cs []cand
	priced := 0
	for _, s := range svc.Services(w) {
		for _, p := range s.Providers {
			if p.Denom != Std {
				priced++
				continue
			}
			if p.Actor < 0 || w.ActorOf(p.Owner) == nil {
				continue
			}
			if last, ok := m.pfPriced[s.Name+"|"+p.Addr]; ok && w.Height < last+12 {
				continue
			}
			cs = append(cs, cand{s.Name, p})
		}
	}
	if len(cs) == 0 || priced >= 2 {
		return nil
	}
	c := cs[r.Intn(len(cs))]
	m.pfPriced[c.s+"|"+c.p.Addr] = w.Height
	price := big.NewInt(1 + r.Int63n(50))
	if r.Bool(0.2) {
		price = amount(r, 16)
	}
	// a generous top-up: price * (rate rounded up + 1) * multiple, and the flat minimum
	up := big.NewInt(4)
	if rate != nil {
		up = new(big.Int).Quo(rate.Num(), rate.Denom())
		up.Add(up, big.NewInt(2))
	}
	dep := new(big.Int).Mul(price, up)
	dep.Mul(dep, big.NewInt(par.MinDepositMultiple))
	if par.MinDeposit != "" {
		dep.Add(dep, bigOf(par.MinDeposit))
	}
	pr := servicemod.Pricing{Denom: PriceDenom, Price: price.String()}
	return engine.Tx1(servicemod.UpdatePricingOp(w.ActorOf(c.p.Owner).Idx, c.s, c.p.Actor, dep.String(), pr))
}

// OnEndBlock counts the uses of the exchange rate: a consumer charged in the priced denom, or
// the service module reporting that it found no rate.
func (m *Module) OnEndBlock(w *engine.World, ph *engine.Phase) {
	if ph.Sheet.Of(engine.ModAddr(svctypes.RequestAccName), PriceDenom).Sign() > 0 {
		w.Hit("oraclefeed.exchange_rate_used")
		w.Hit("oraclefeed.batch_charged_in_priced_denom")
	}
	for _, ev := range ph.Events {
		if ev.Type == svctypes.EventTypeNoExchangeRate {
			w.Hit("oraclefeed.no_exchange_rate")
		}
	}
}

// notePriced counts bindings that were accepted with a pricing in the feed's denom (the
// minimum deposit of such a binding is computed through the exchange rate).
func (m *Module) notePriced(w *engine.World, svc *servicemod.Module) {
	n := 0
	for _, s := range svc.Services(w) {
		for _, p := range s.Providers {
			if p.Denom == PriceDenom {
				n++
			}
		}
	}
	for ; m.pricedSeen < n; m.pricedSeen++ {
		w.Hit("oraclefeed.exchange_rate_used")
		w.Hit("oraclefeed.binding_priced_in_feed_denom")
	}
}
