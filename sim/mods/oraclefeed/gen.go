package oraclefeed

import (
	"fmt"
	"math/big"
	"regexp"

	"verif/sim/engine"
	servicemod "verif/sim/mods/service"
)

// ---- the responder (documents for the service workload's provider actors) --------------------------

func (m *Module) ensureResponders(w *engine.World, svc *servicemod.Module) {
	for _, s := range svc.Services(w) {
		if !m.responders[s.Name] {
			m.responders[s.Name] = true
			svc.RegisterResponder(s.Name, m.respond)
		}
	}
}

var junk = []string{`"abc"`, `true`, `null`, `{"x":1}`, `"12.5"`, `[1]`, `"-3"`, `""`, `"1e3"`, `false`}

// respond chooses the answer to one request. Pure function of (salt, context, batch, request).
func (m *Module) respond(w *engine.World, req *servicemod.Request) (output, result string, ok bool) {
	r := engine.NewRand(engine.Mix(m.cfg.Salt, req.ID, 1))
	f := m.feedOfCtx(req.ContextID)
	if f == nil {
		// a context of the service workload itself: an ordinary answer
		if r.Bool(0.1) {
			return "", errResult, true
		}
		return outputDoc(`{"v":` + literal(clsSmallInt, r) + `}`), okResult, true
	}
	if r.Bool(m.cfg.PSilent) {
		return "", "", false
	}
	if r.Bool(m.cfg.PErrResult) {
		return "", errResult, true
	}
	br := engine.NewRand(engine.Mix(m.cfg.Salt, req.ContextID, req.Batch))
	cls := br.Weighted(m.cfg.Classes)
	if f.Name == PriceFeedName {
		cls = clsRate
		if br.Bool(m.cfg.PBadRate) {
			cls = []int{clsNegative, clsZero}[br.Intn(2)] // a value the service module cannot use as a rate
		}
	}
	frag := literal(cls, r)
	switch {
	case r.Bool(m.cfg.PMissing):
		frag = ""
	case r.Bool(m.cfg.PNonNumeric):
		frag = junk[r.Intn(len(junk))]
	}
	return outputDoc(bodyFor(f.Path, frag, r)), okResult, true
}

// ---- generation -------------------------------------------------------------------------------------

func stranger(w *engine.World, r *engine.Rand, who int) int {
	n := len(w.Actors) - 1
	return (who + 1 + r.Intn(n-1)) % n
}

func (m *Module) ctxInfo(svc *servicemod.Module, id string) *servicemod.ContextInfo {
	if id == "" {
		return nil
	}
	for _, c := range svc.Contexts() {
		if c.ID == id {
			return c
		}
	}
	return nil
}

func (m *Module) Gen(w *engine.World, r *engine.Rand) *engine.TxPlan {
	svc := m.svc(w)
	m.ensureResponders(w, svc)
	var running, paused []*feed
	for _, n := range m.ord {
		f := m.feeds[n]
		if c := m.ctxInfo(svc, f.CtxID); c != nil {
			if c.State == "running" {
				running = append(running, f)
			} else if c.State == "paused" {
				paused = append(paused, f)
			}
		}
	}
	wt := make([]int, 9)
	if len(m.ord) < m.cfg.MaxFeeds+btoi(m.cfg.PriceFeed) {
		wt[0] = 12
		if len(m.ord) == 0 {
			wt[0] = 40
		}
	} else if r.Bool(0.05) {
		wt[0] = 1
	}
	if len(paused) > 0 {
		wt[1] = 6 + 6*len(paused)
	} else if len(running) > 0 {
		wt[1] = 1 // start of a running feed: must be refused, nothing may change
	}
	if len(running) > 0 {
		wt[2] = 3
		wt[3] = 6
	} else if len(paused) > 0 {
		wt[2] = 1
		wt[3] = 3
	}
	if m.cfg.PDrain > 0 && len(running) > 0 && r.Bool(m.cfg.PDrain*3) {
		wt[4] = 6
	}
	if len(m.drained) > 0 {
		wt[5] = 3
	}
	if m.cfg.PriceFeed && m.feeds[PriceFeedName] != nil {
		wt[6] = 6
	}
	all := append(append([]*feed{}, running...), paused...)
	if flips := m.flipCandidates(w, running); len(flips) > 0 {
		wt[7] = int(6 * m.cfg.PThrFlip)
	}
	if len(all) > 0 {
		wt[8] = int(3 * m.cfg.PRollback)
	}
	for try := 0; try < 3; try++ {
		var tp *engine.TxPlan
		switch r.Weighted(wt) {
		case 0:
			tp = m.genCreate(w, r, svc)
		case 1:
			tp = m.genStateOp(w, r, svc, "start", paused, running)
		case 2:
			tp = m.genStateOp(w, r, svc, "pause", running, paused)
		case 3:
			tp = m.genEdit(w, r, svc, append(append([]*feed{}, running...), paused...))
		case 4:
			tp = m.genDrain(w, r, running)
		case 5:
			tp = m.genRefill(w, r)
		case 6:
			tp = m.genPriced(w, r, svc)
		case 7:
			tp = m.genThresholdFlip(w, r, running)
		case 8:
			tp = m.genRolledBackEdit(w, r, all)
		}
		if tp != nil {
			return tp
		}
	}
	return nil
}

func btoi(b bool) int {
	if b {
		return 1
	}
	return 0
}

func amount(r *engine.Rand, bits int) *big.Int {
	if bits < 1 {
		bits = 1
	}
	return r.BigLogUniform(bits)
}

// pickProviders draws 1..4 bound providers of a service (mostly available ones) and returns
// them with the largest price (in the base denom, generator guidance) and promised response time.
func pickProviders(r *engine.Rand, si servicemod.ServiceInfo, rate *big.Rat, atLeast int) (provs []string, maxPrice *big.Int, maxQ uint64) {
	cands := si.Providers
	if r.Bool(0.85) {
		var av []servicemod.ProviderInfo
		for _, p := range cands {
			if p.Available {
				av = append(av, p)
			}
		}
		if len(av) > 0 {
			cands = av
		}
	}
	maxPrice = new(big.Int)
	if len(cands) == 0 {
		return nil, maxPrice, 0
	}
	k := 1 + r.Intn(len(cands))
	if k > 4 {
		k = 1 + r.Intn(4)
	}
	if k == 1 && len(cands) >= 2 && r.Bool(0.6) {
		k = 2 // thresholds 1 and 2 are both meaningful with two providers
	}
	if k < atLeast && len(cands) >= atLeast {
		k = atLeast
	}
	for _, i := range r.Perm(len(cands))[:k] {
		p := cands[i]
		provs = append(provs, p.Addr)
		price := bigOf(p.Price)
		if p.Denom != Std && rate != nil {
			x := new(big.Rat).Mul(new(big.Rat).SetInt(price), rate)
			price = new(big.Int).Quo(x.Num(), x.Denom())
			price.Add(price, big.NewInt(1))
		}
		if price.Cmp(maxPrice) > 0 {
			maxPrice = price
		}
		if p.QoS > maxQ {
			maxQ = p.QoS
		}
	}
	return provs, maxPrice, maxQ
}

func (m *Module) curRate() *big.Rat {
	if f := m.feeds[PriceFeedName]; f != nil && len(f.values) > 0 {
		// (a rate beyond anything the price feed's providers answer is not used for guidance)
		if v, ok := new(big.Rat).SetString(f.values[0].seen); ok && v.Sign() > 0 && v.Cmp(big.NewRat(1000, 1)) < 0 {
			return v
		}
	}
	return nil
}

func (m *Module) timing(r *engine.Rand, svc *servicemod.Module, maxQ uint64) (timeout int64, freq uint64) {
	maxT := svc.Params().MaxRequestTimeout
	if maxT < 1 {
		maxT = 1
	}
	lim := maxT
	if lim > 8 {
		lim = 8
	}
	timeout = 1 + r.Int63n(lim)
	if t2 := 1 + r.Int63n(lim); t2 > timeout && r.Bool(0.7) {
		timeout = t2 // mostly leave the providers a few blocks
	}
	if int64(maxQ) <= maxT && int64(maxQ) > timeout && (maxQ <= 8 || r.Bool(0.2)) && r.Bool(0.85) {
		timeout = int64(maxQ) // long enough for every chosen provider's promised response time
	}
	freq = uint64(timeout + r.Range(0, 4))
	return
}

func (m *Module) genCreate(w *engine.World, r *engine.Rand, svc *servicemod.Module) *engine.TxPlan {
	var svcs []servicemod.ServiceInfo
	for _, s := range svc.Services(w) {
		if len(s.Providers) > 0 {
			svcs = append(svcs, s)
		}
	}
	if len(svcs) == 0 {
		return nil
	}
	si := svcs[r.Intn(len(svcs))]
	provs, maxPrice, maxQ := pickProviders(r, si, m.curRate(), m.cfg.MinProviders)
	if len(provs) == 0 {
		return nil
	}
	a := createArgs{Service: si.Name, Providers: provs, Desc: "simchain feed"}
	m.nextFeed++
	a.Name = fmt.Sprintf("feed%d", m.nextFeed)
	related := ""
	if len(m.ord) > 0 && r.Bool(m.cfg.PPrefixName) {
		// names in prefix relation ("eth" / "ethusd", "feed1" / "feed10"): the values of one
		// feed must never be taken for the other's
		other := m.ord[r.Intn(len(m.ord))]
		cand := ""
		if r.Bool(0.65) || len(other) < 2 {
			cand = other + string("0a_x/-Z9"[r.Intn(8)])
			if r.Bool(0.3) {
				cand += string("0usd"[r.Intn(4)])
			}
		} else {
			cand = other[:1+r.Intn(len(other)-1)]
		}
		if m.feeds[cand] == nil && nameRe.MatchString(cand) {
			a.Name, related = cand, other
		}
	}
	if m.cfg.PriceFeed && m.feeds[PriceFeedName] == nil && (m.nextFeed == 1 || r.Bool(0.5)) {
		a.Name = PriceFeedName
	} else if len(m.ord) > 0 && r.Bool(m.cfg.PInvalid) {
		a.Name = m.ord[r.Intn(len(m.ord))] // an existing name: must be refused
	}
	a.Func = []string{"max", "min", "avg"}[r.Intn(3)]
	if m.cfg.PAvg > 0 && r.Bool(m.cfg.PAvg) {
		a.Func = "avg"
	}
	a.Path = paths[r.Intn(len(paths))]
	a.Threshold = uint32(1 + r.Intn(len(provs)))
	if r.Bool(0.4) {
		a.Threshold = 1
	}
	a.Timeout, a.Freq = m.timing(r, svc, maxQ)
	a.FeeCap = new(big.Int).Add(maxPrice, amount(r, 1+maxPrice.BitLen())).String()
	if r.Bool(0.08) {
		a.FeeCap = maxPrice.String() // tight: exactly the dearest price
	}
	if bigOf(a.FeeCap).Sign() == 0 {
		a.FeeCap = "1"
	}
	switch {
	case r.Bool(m.cfg.SmallHistory):
		a.History = uint64(1 + r.Intn(4))
	case r.Bool(0.3):
		a.History = 100
	default:
		a.History = uint64(1 + r.Intn(100))
	}
	if o := m.feeds[related]; o != nil && a.Name != PriceFeedName && o.History == a.History {
		// the two histories have different bounds
		a.History = a.History%100 + 1
	}
	if r.Bool(m.cfg.PInvalid) {
		switch r.Intn(6) {
		case 0:
			a.History = 0
		case 1:
			a.History = 101
		case 2:
			a.Threshold = uint32(len(provs) + 1)
		case 3:
			a.Threshold = 0
		case 4:
			a.Func = "sum"
		case 5:
			if a.Timeout > 1 {
				a.Freq = uint64(a.Timeout - 1)
			}
		}
	}
	return engine.Tx1(engine.NewOp(Name, "create", r.Intn(len(w.Actors)-1), a))
}

// retime places an operation around the feed's next batch boundary.
func (m *Module) retime(w *engine.World, r *engine.Rand, svc *servicemod.Module, f *feed, tp *engine.TxPlan) {
	if !r.Bool(m.cfg.PBoundary) || f.lastStart == 0 {
		return
	}
	c := m.ctxInfo(svc, f.CtxID)
	if c == nil {
		return
	}
	if at := f.lastStart + int64(c.Frequency) + r.Range(-1, 1); at > w.Height {
		tp.At = at
	}
}

func (m *Module) genStateOp(w *engine.World, r *engine.Rand, svc *servicemod.Module, kind string, pref, other []*feed) *engine.TxPlan {
	var f *feed
	switch {
	case len(pref) > 0 && (len(other) == 0 || r.Bool(0.92)):
		f = pref[r.Intn(len(pref))]
	case len(other) > 0:
		f = other[r.Intn(len(other))]
	default:
		return nil
	}
	actor := f.CreatorIdx
	if r.Bool(m.cfg.PStranger) {
		actor = stranger(w, r, actor)
	}
	tp := engine.Tx1(engine.NewOp(Name, kind, actor, nameArgs{Name: f.Name}))
	m.retime(w, r, svc, f, tp)
	return tp
}

func (m *Module) genEdit(w *engine.World, r *engine.Rand, svc *servicemod.Module, fs []*feed) *engine.TxPlan {
	if len(fs) == 0 {
		return nil
	}
	f := fs[r.Intn(len(fs))]
	a := editArgs{Name: f.Name}
	var si *servicemod.ServiceInfo
	for _, s := range svc.Services(w) {
		if s.Name == f.Service {
			s := s
			si = &s
		}
	}
	hist := func() {
		n := uint64(len(f.values))
		switch r.Intn(5) {
		case 0:
			a.History = 1
		case 1: // below what is stored now: the oldest must go at once
			if n > 1 {
				a.History = 1 + uint64(r.Intn(int(n-1)))
			} else {
				a.History = 1 + uint64(r.Intn(3))
			}
		case 2:
			a.History = f.History + uint64(1+r.Intn(4))
		case 3:
			a.History = 100
		default:
			a.History = uint64(1 + r.Intn(6))
		}
		if a.History > 100 {
			a.History = 100
		}
	}
	switch r.Intn(7) {
	case 0, 1, 2:
		hist()
	case 3:
		a.Threshold = uint32(1 + r.Intn(len(f.Providers)))
	case 4:
		if si != nil {
			provs, maxPrice, _ := pickProviders(r, *si, m.curRate(), m.cfg.MinProviders)
			a.Providers = provs
			if len(provs) > 0 {
				a.Threshold = uint32(1 + r.Intn(len(provs)))
				if r.Bool(0.7) {
					a.FeeCap = new(big.Int).Add(maxPrice, amount(r, 1+maxPrice.BitLen())).String()
				}
			}
		}
	case 5:
		a.Timeout, a.Freq = m.timing(r, svc, 0)
	default:
		hist()
		a.Threshold = uint32(1 + r.Intn(len(f.Providers)))
		a.Desc = "edited"
	}
	if r.Bool(m.cfg.PInvalid) {
		switch r.Intn(3) {
		case 0:
			a.History = 101
		case 1:
			a.Threshold = uint32(len(f.Providers) + 1 + len(a.Providers))
		case 2:
			a.Timeout, a.Freq = 3, 2
		}
	}
	actor := f.CreatorIdx
	if r.Bool(m.cfg.PStranger) {
		actor = stranger(w, r, actor)
	}
	tp := engine.Tx1(engine.NewOp(Name, "edit", actor, a))
	m.retime(w, r, svc, f, tp)
	return tp
}

var nameRe = regexp.MustCompile(`^[a-zA-Z][a-zA-Z0-9/_-]*$`)

// flipCandidates: running feeds with at least two providers and a batch in flight that is
// still open in the next block.
func (m *Module) flipCandidates(w *engine.World, running []*feed) []*feed {
	var out []*feed
	for _, f := range running {
		if len(f.Providers) < 2 {
			continue
		}
		for _, b := range f.batches {
			if !b.done && b.Exp >= w.Height+1 && len(b.ord) >= 2 {
				out = append(out, f)
				break
			}
		}
	}
	return out
}

// genThresholdFlip edits the threshold of a feed while one of its batches is in flight, up or
// down: the open batch keeps the threshold it was issued with.
func (m *Module) genThresholdFlip(w *engine.World, r *engine.Rand, running []*feed) *engine.TxPlan {
	cands := m.flipCandidates(w, running)
	if len(cands) == 0 {
		return nil
	}
	f := cands[r.Intn(len(cands))]
	n := uint32(len(f.Providers))
	thr := f.Threshold
	switch {
	case thr <= 1:
		thr = 2 + uint32(r.Intn(int(n-1)))
	case thr >= n:
		thr = 1 + uint32(r.Intn(int(n-1)))
	case r.Bool(0.5):
		thr++
	default:
		thr--
	}
	tp := engine.Tx1(engine.NewOp(Name, "edit", f.CreatorIdx, editArgs{Name: f.Name, Threshold: thr}))
	tp.At = w.Height + 1 // lands inside the open batch
	return tp
}

// genRolledBackEdit sends an edit of the latest-history bound together with a message that
// fails at execution: the whole transaction rolls back and the committed bound stays in force.
func (m *Module) genRolledBackEdit(w *engine.World, r *engine.Rand, fs []*feed) *engine.TxPlan {
	if len(fs) == 0 {
		return nil
	}
	f := fs[r.Intn(len(fs))]
	a := editArgs{Name: f.Name}
	switch {
	case f.History > 1 && r.Bool(0.5):
		a.History = 1 + uint64(r.Intn(int(f.History-1))) // smaller
	default:
		a.History = f.History + uint64(1+r.Intn(5)) // larger
		if a.History > 100 {
			a.History = 100
		}
	}
	if r.Bool(0.3) {
		a.Threshold = uint32(1 + r.Intn(len(f.Providers)))
	}
	return &engine.TxPlan{Ops: []*engine.Op{
		engine.NewOp(Name, "edit", f.CreatorIdx, a),
		engine.NewOp(Name, "fail", f.CreatorIdx, nil),
	}}
}

// genDrain empties a feed creator's pocket so that the next batch cannot be paid for.
func (m *Module) genDrain(w *engine.World, r *engine.Rand, running []*feed) *engine.TxPlan {
	if len(running) == 0 {
		return nil
	}
	f := running[r.Intn(len(running))]
	who := f.CreatorIdx
	bal := w.Bal(w.A(who).Addr.String(), Std)
	keep := new(big.Int)
	if r.Bool(0.5) {
		keep = amount(r, 20) // perhaps enough for one more batch, perhaps not
	}
	amt := new(big.Int).Sub(bal, keep)
	if amt.Sign() <= 0 {
		return nil
	}
	m.drained[who] = true
	return engine.Tx1(engine.NewOp(Name, "drain", who, sendArgs{To: w.Governor().Addr.String(), Amt: amt.String()}))
}

func (m *Module) genRefill(w *engine.World, r *engine.Rand) *engine.TxPlan {
	for i := 0; i < len(w.Actors)-1; i++ {
		if m.drained[i] {
			delete(m.drained, i)
			tp := engine.Tx1(engine.NewOp(Name, "refill", w.Governor().Idx, sendArgs{To: w.A(i).Addr.String(),
				Amt: new(big.Int).Lsh(big.NewInt(1), 100).String()}))
			tp.NoOOG = true
			return tp
		}
	}
	return nil
}

// ---- quiesce and epilogue ---------------------------------------------------------------------------

// MaxDue: the batches in flight when the main phase ends (feeds repeat for ever; computed once).
func (m *Module) MaxDue(w *engine.World) int64 {
	if m.horizon == 0 {
		hz := w.Height
		for _, n := range m.ord {
			for _, b := range m.feeds[n].batches {
				if !b.done && b.Exp > hz {
					hz = b.Exp
				}
			}
		}
		if hz > w.Height+40 {
			hz = w.Height + 40
		}
		m.horizon = hz
	}
	return m.horizon
}

// Epilogue: every creator pauses its feed (the index must follow).
func (m *Module) Epilogue(w *engine.World, r *engine.Rand) []*engine.TxPlan {
	var out []*engine.TxPlan
	for _, n := range m.ord {
		f := m.feeds[n]
		out = append(out, engine.Tx1(engine.NewOp(Name, "pause", f.CreatorIdx, nameArgs{Name: f.Name})))
	}
	return out
}
