package htlc

import (
	"encoding/hex"
	"fmt"
	"math/big"
	"sort"
	"strings"
	"time"

	abci "github.com/cometbft/cometbft/abci/types"

	htlctypes "mods.irisnet.org/modules/htlc/types"

	"verif/sim/engine"
)

// contract states and kinds of the reference model
const (
	stOpen = iota
	stCompleted
	stRefunded
)
const (
	dirPlain = iota
	dirIn
	dirOut
)

var stateName = []string{"open", "completed", "refunded"}
var dirName = []string{"plain", "incoming", "outgoing"}

type exit struct {
	Kind   string // claim | refund
	Height int64
}

// contract is the model's record of one hash-time-locked contract.
type contract struct {
	ID        string
	Sender    string
	To        string
	Amount    coins
	HashLock  string // lower-case hex
	Timestamp uint64
	Expiry    int64
	Transfer  bool
	Dir       int
	State     int
	Secret    string // of the accepted claim
	Created   int64
	Closed    int64
	Exits     []exit
	Epoch     int // version of the asset's parameters at creation (cross-chain only)
}

func (c *contract) denom() string { return c.Amount[0].D }

// assetPar is the parsed parameter set of one asset.
type assetPar struct {
	Cfg                   AssetCfg
	Limit, TimeLimit, Fee *big.Int
	Min, Max              *big.Int
	TimeLimited, Active   bool
	Period                int64
}

func parsePar(a AssetCfg) assetPar {
	return assetPar{Cfg: a, Limit: bigOf(a.Limit), TimeLimit: bigOf(a.TimeLimit), Fee: bigOf(a.Fee), Min: bigOf(a.MinSwap),
		Max: bigOf(a.MaxSwap), TimeLimited: a.TimeLimited, Active: a.Active, Period: a.PeriodNs}
}

// assetModel is the model's view of one cross-chain asset.
type assetModel struct {
	Par       assetPar
	Supported bool     // present in the parameter set in force
	HasRecord bool     // the module keeps a supply record (from genesis, or from the first block begin after the asset was added)
	Cur       *big.Int // initial supply + completed incoming - completed outgoing
	Epoch     int      // counts changes of this asset's parameters
	// limit windows, recomputed from the block times alone
	Elapsed      int64    // time accumulated since the window opened
	WinCompleted *big.Int // amount completed by incoming transfers in the current window and epoch
	WinClean     bool     // the current window opened within the current epoch
	WinActive    bool     // something was completed in the current window
	// Allowed: what current+incoming may at most be in the current epoch
	Allowed *big.Int
	// PhaseUnknown: the asset was just added (or added back) to the parameter set. The
	// property says nothing about limit windows of an asset that is not supported, so where in
	// its window the asset starts is taken from the first record the module shows after the
	// next block begin; from then on the windows are recomputed from the block times alone.
	PhaseUnknown int // 2: just (re-)added, 1: the block begin after that has run, 0: known
}

func newAssetModel(a AssetCfg) *assetModel {
	return &assetModel{Par: parsePar(a), Supported: true, Cur: new(big.Int), WinCompleted: new(big.Int), Allowed: new(big.Int)}
}

// openSums: Σ amounts of the model-open incoming and outgoing transfers of denom.
func (m *Module) openSums(denom string) (in, out *big.Int) {
	in, out = new(big.Int), new(big.Int)
	for _, c := range m.open {
		if c.Transfer && c.denom() == denom {
			if c.Dir == dirIn {
				in.Add(in, c.Amount[0].A)
			} else {
				out.Add(out, c.Amount[0].A)
			}
		}
	}
	return
}

func (m *Module) cfgOf(denom string) *AssetCfg {
	for i := range m.par {
		if m.par[i].Denom == denom {
			return &m.par[i]
		}
	}
	return nil
}

func addTo(mm map[string]*big.Int, d string, v *big.Int) {
	if mm[d] == nil {
		mm[d] = new(big.Int)
	}
	mm[d].Add(mm[d], v)
}

func neg(v *big.Int) *big.Int { return new(big.Int).Neg(v) }

// ---- transactions ----------------------------------------------------------------------

func (m *Module) OnTx(w *engine.World, tx *engine.TxRecord) {
	single := len(tx.Plan.Ops) == 1
	if !single {
		if tx.OK() {
			w.Hit("htlc.multi_msg_ok")
		} else if !tx.Infra {
			// nothing of a failed transaction may remain: the model is not touched, and the
			// block-boundary comparisons (contracts, escrow, counters, queue) see any trace
			w.Hit("htlc.multi_msg_failed")
		}
	}
	for i, op := range tx.Plan.Ops {
		if op.Mod != Name {
			continue
		}
		sheet := tx.MsgSheet(i)
		switch {
		case strings.HasPrefix(op.Kind, "create"):
			m.onCreate(w, tx, op, i, sheet, single)
		case strings.HasPrefix(op.Kind, "claim"):
			m.onClaim(w, tx, op, i, sheet, single)
		case strings.HasPrefix(op.Kind, "params"):
			m.onParams(w, tx, op, single)
		case op.Kind == "donate":
			if tx.OK() {
				var a donateArgs
				op.Decode(&a)
				addTo(m.donations, a.Denom, bigOf(a.Amt))
				w.Hit("htlc.donation")
			}
		}
	}
}

func (m *Module) supplyOnly(w *engine.World, sheet *engine.Sheet, what string, want map[string]*big.Int) {
	seen := map[string]bool{}
	for _, d := range sheet.SupplyDenoms() {
		seen[d] = true
		exp := want[d]
		if exp == nil {
			exp = new(big.Int)
		}
		if sheet.SupplyOf(d).Cmp(exp) != 0 {
			w.Violate("C03", "supply/"+what, "%s changed the supply of %s by %s, expected %s", what, d, sheet.SupplyOf(d), exp)
		}
	}
	for d, v := range want {
		if !seen[d] && v.Sign() != 0 {
			w.Violate("C03", "supply/"+what, "%s left the supply of %s unchanged, expected %s", what, d, v)
		}
	}
}

func (m *Module) onCreate(w *engine.World, tx *engine.TxRecord, op *engine.Op, i int, sheet *engine.Sheet, single bool) {
	var a createArgs
	op.Decode(&a)
	sender := w.A(op.Actor).Addr
	id := a.id(sender)
	existing := m.contracts[id]
	if !tx.OK() {
		if tx.Infra || !single {
			return
		}
		if existing != nil {
			w.Hit("htlc.dup_create_" + stateName[existing.State])
		}
		if tx.Codespace == htlctypes.ModuleName {
			switch tx.Code {
			case htlctypes.ErrExceedsSupplyLimit.ABCICode():
				w.Hit("htlc.limit_rejected_total")
			case htlctypes.ErrExceedsTimeBasedSupplyLimit.ABCICode():
				w.Hit("htlc.limit_rejected_time")
			case htlctypes.ErrExceedsAvailableSupply.ABCICode():
				w.Hit("htlc.out_rejected_available")
			case htlctypes.ErrAssetNotActive.ABCICode():
				w.Hit("htlc.rejected_inactive")
			case htlctypes.ErrInvalidAccount.ABCICode():
				w.Hit("htlc.rejected_direction")
			case htlctypes.ErrInvalidTimestamp.ABCICode():
				w.Hit("htlc.rejected_timestamp")
			case htlctypes.ErrInvalidTimeLock.ABCICode():
				w.Hit("htlc.rejected_timelock")
			case htlctypes.ErrInvalidAmount.ABCICode(), htlctypes.ErrInsufficientAmount.ABCICode():
				w.Hit("htlc.rejected_amount")
			}
		}
		return
	}
	// ---- accepted ----
	w.Hit("C03.create_checks")
	if existing != nil {
		// "creation of a contract whose id already exists is rejected and moves nothing"
		w.Violate("C03", "create-verdict/duplicate-accepted/"+stateName[existing.State],
			"creation of contract %s accepted at height %d although it exists since height %d (state %s); sheet: %s",
			id, tx.Height, existing.Created, stateName[existing.State], sheet)
		if existing.State == stOpen {
			delete(m.open, id)
		}
	}
	var resp htlctypes.MsgCreateHTLCResponse
	if !tx.Resp(i, &resp) {
		w.Violate("C03", "response/create", "accepted creation without a response")
	} else if strings.ToUpper(resp.Id) != id {
		w.Violate("C03", "id/response-mismatch", "creation reported id %s, sha256(hashlock||sender||to||amount) is %s", resp.Id, id)
	}
	amt := toCoins(a.Amount)
	c := &contract{ID: id, Sender: sender.String(), To: a.To, Amount: amt, HashLock: strings.ToLower(a.HashLock),
		Timestamp: a.Timestamp, Expiry: tx.Height + int64(a.TimeLock), Transfer: a.Transfer, State: stOpen, Created: tx.Height}
	var am *assetModel
	if a.Transfer {
		// direction rule: the asset's deputy as sender = incoming, otherwise outgoing (towards
		// the deputy)
		c.Dir = dirOut
		if len(amt) == 1 {
			am = m.assets[amt[0].D]
		}
		if am == nil || !am.Supported {
			w.Violate("C04", "create/unsupported-asset", "cross-chain creation of %s accepted although the parameter set in force has no such asset", amt)
		} else {
			c.Epoch = am.Epoch
			if c.Sender == am.Par.Cfg.Deputy {
				c.Dir = dirIn
			}
		}
	}
	want := engine.Want{}
	if c.Dir != dirIn {
		// "escrow transfer only for outgoing" (and ordinary contracts); incoming transfers lock nothing here
		for _, cn := range amt {
			want.Put(c.Sender, cn.D, neg(cn.A))
			want.Put(escrow, cn.D, cn.A)
		}
	}
	if c.Dir != dirIn {
		m.escrowLive = true
	}
	if d := want.Diff(sheet); d != "" {
		w.Violate("C03", "balance-sheet/create/"+dirName[c.Dir], "creation of %s contract %s (%s from %s to %s): %s; sheet: %s",
			dirName[c.Dir], id, amt, c.Sender, c.To, d, sheet)
	}
	m.supplyOnly(w, sheet, "create", nil)
	if c.Dir == dirIn && am != nil {
		// "while the asset's parameters are unchanged current plus incoming never exceeds its
		// total limit": the sum only ever rises through an incoming creation
		in, _ := m.openSums(amt[0].D)
		sum := new(big.Int).Add(am.Cur, in)
		sum.Add(sum, amt[0].A)
		w.Hit("C04.limit_checks")
		if sum.Cmp(am.Par.Limit) > 0 {
			w.Violate("C04", "limit/total/create-incoming", "incoming creation of %s accepted: current %s + incoming %s + %s = %s exceeds the limit %s",
				amt, am.Cur, in, amt[0].A, sum, am.Par.Limit)
		}
	}
	m.contracts[id] = c
	m.open[id] = c
	m.touched[id] = true
	if existing == nil {
		m.order = append(m.order, id)
	}
	w.Hit("htlc." + dirName[c.Dir] + "_created")
	if len(amt) > 1 {
		w.Hit("htlc.plain_multicoin")
	}
	if a.TimeLock > 1000 {
		w.Hit("htlc.far_lock")
	}
}

func hashFits(secretHex string, c *contract) bool {
	sb, err := hex.DecodeString(secretHex)
	if err != nil {
		return false
	}
	return hex.EncodeToString(hashLockOf(sb, c.Timestamp)) == c.HashLock
}

func (m *Module) onClaim(w *engine.World, tx *engine.TxRecord, op *engine.Op, i int, sheet *engine.Sheet, single bool) {
	var a claimArgs
	op.Decode(&a)
	id := strings.ToUpper(a.ID)
	if len(m.seen) < 4000 {
		m.seen = append(m.seen, seenSecret{id, a.Secret})
	}
	c := m.contracts[id]
	// the model's verdict: "to the designated recipient if and only if a claim presents the
	// preimage of the hash lock (bound to the contract's timestamp) while the contract is still
	// open"; "a claim with a wrong secret, a second claim, a claim after refund ... is rejected"
	reason := ""
	switch {
	case c == nil:
		reason = "unknown-id"
	case c.State == stCompleted:
		reason = "second-claim"
	case c.State == stRefunded:
		reason = "after-refund"
	case !hashFits(a.Secret, c):
		reason = "wrong-secret"
	}
	fits := c != nil && hashFits(a.Secret, c)
	if c != nil && fits {
		switch tx.Height - c.Expiry {
		case -1:
			w.Hit("htlc.claim_at_expiry_minus_1")
		case 0:
			w.Hit("htlc.claim_at_expiry")
		case 1:
			w.Hit("htlc.claim_at_expiry_plus_1")
		}
	}
	if !tx.OK() {
		if tx.Infra || !single {
			return
		}
		w.Hit("C03.claim_verdicts")
		if reason == "" {
			scope := "params-unchanged"
			if tx.Code == 111222 {
				// the handler panicked (recovered by baseapp)
				scope = "handler-panic"
				w.Hit("htlc.claim_handler_panic")
			} else if c.Transfer {
				if am := m.assets[c.denom()]; am == nil || am.Epoch != c.Epoch || !am.Supported {
					// the asset's parameters were changed by the authority while the transfer
					// was open; the shape of the case is the limit that now refuses the claim
					scope = "asset-params-changed/" + claimRefusal(tx)
				}
			}
			w.Violate("C03", "claim-verdict/rejected/"+dirName[c.Dir]+"/"+scope,
				"claim of open %s contract %s with the right secret rejected at height %d (expiry %d): %s/%d %s",
				dirName[c.Dir], id, tx.Height, c.Expiry, tx.Codespace, tx.Code, firstLine(tx.Log))
			return
		}
		switch reason {
		case "wrong-secret":
			w.Hit("htlc.wrong_secret_rejected")
		case "second-claim":
			w.Hit("htlc.second_claim_rejected")
		case "after-refund":
			w.Hit("htlc.claim_after_refund_rejected")
			if fits && tx.Height == c.Expiry {
				w.Hit("htlc.claim_at_expiry_rejected")
			}
		case "unknown-id":
			w.Hit("htlc.claim_unknown_rejected")
		}
		return
	}
	// ---- accepted ----
	w.Hit("C03.claim_verdicts")
	if reason != "" {
		dn := "unknown"
		if c != nil {
			dn = dirName[c.Dir]
		}
		w.Violate("C03", "claim-verdict/accepted/"+reason+"/"+dn, "claim of contract %s with secret %s accepted at height %d: %s; sheet: %s",
			id, a.Secret, tx.Height, describe(c), sheet)
	}
	if c == nil {
		return
	}
	w.Hit("C03.claim_checks")
	want := engine.Want{}
	supply := map[string]*big.Int{}
	switch c.Dir {
	case dirPlain:
		for _, cn := range c.Amount {
			want.Put(escrow, cn.D, neg(cn.A))
			want.Put(c.To, cn.D, cn.A)
		}
	case dirIn:
		// "mint on incoming claim": minted to the designated recipient, escrow untouched
		want.Put(c.To, c.denom(), c.Amount[0].A)
		supply[c.denom()] = c.Amount[0].A
	case dirOut:
		// "burn on outgoing claim": burned out of the escrow
		want.Put(escrow, c.denom(), neg(c.Amount[0].A))
		supply[c.denom()] = neg(c.Amount[0].A)
	}
	if d := want.Diff(sheet); d != "" {
		w.Violate("C03", "balance-sheet/claim/"+dirName[c.Dir], "claim of %s contract %s (%s, sender %s, recipient %s, claimed by %s): %s; sheet: %s",
			dirName[c.Dir], id, c.Amount, c.Sender, c.To, w.A(op.Actor).Addr, d, sheet)
	}
	m.supplyOnly(w, sheet, "claim", supply)
	// an observed exit: the accepted claim
	c.Exits = append(c.Exits, exit{"claim", tx.Height})
	m.touched[id] = true
	if c.State != stOpen {
		return
	}
	c.State, c.Secret, c.Closed = stCompleted, strings.ToLower(a.Secret), tx.Height
	delete(m.open, id)
	m.escrowLive = true
	if c.To == escrow && c.Dir != dirOut {
		// the designated recipient is the escrow account itself (this application does not
		// block it): the funds were paid out to it, for the escrow equation they are a
		// donation the scenario made
		for _, cn := range c.Amount {
			addTo(m.donations, cn.D, cn.A)
		}
		w.Hit("htlc.recipient_is_escrow")
	}
	w.Hit("htlc." + dirName[c.Dir] + "_claimed")
	if op.Actor == m.cfg.Eve && strings.HasPrefix(a.Why, "eve") {
		w.Hit("htlc.eve_claim_ok")
	}
	if w.A(op.Actor).Addr.String() != c.To {
		w.Hit("htlc.claimed_by_third_party")
	}
	if c.Transfer {
		if am := m.assets[c.denom()]; am != nil {
			if c.Dir == dirIn {
				am.Cur.Add(am.Cur, c.Amount[0].A)
				am.WinCompleted.Add(am.WinCompleted, c.Amount[0].A)
				am.WinActive = true
				// "nor the amount completed within one limit period its time-based limit"
				if am.Supported && am.Par.TimeLimited {
					w.Hit("C04.window_checks")
					if am.WinCompleted.Cmp(am.Par.TimeLimit) > 0 {
						w.Violate("C04", "limit/time-based/claim-incoming", "asset %s: %s completed within one limit window (period %dns, %dns into it) exceeds the time-based limit %s",
							c.denom(), am.WinCompleted, am.Par.Period, am.Elapsed, am.Par.TimeLimit)
					}
				}
			} else {
				am.Cur.Sub(am.Cur, c.Amount[0].A)
			}
		}
	}
}

// firstLine keeps a transaction log deterministic: a recovered handler panic appends a stack
// trace with goroutine numbers and pointer values.
func firstLine(s string) string {
	if i := strings.IndexByte(s, '\n'); i >= 0 {
		return s[:i]
	}
	return s
}

func claimRefusal(tx *engine.TxRecord) string {
	if tx.Codespace == htlctypes.ModuleName {
		switch tx.Code {
		case htlctypes.ErrAssetNotSupported.ABCICode():
			return "asset-removed"
		case htlctypes.ErrExceedsSupplyLimit.ABCICode():
			return "total-limit"
		case htlctypes.ErrExceedsTimeBasedSupplyLimit.ABCICode():
			return "time-based-limit"
		}
	}
	return "other"
}

func describe(c *contract) string {
	if c == nil {
		return "no such contract was ever created"
	}
	return fmt.Sprintf("%s contract, state %s, hash lock %s, timestamp %d, created %d, expiry %d, closed %d",
		dirName[c.Dir], stateName[c.State], c.HashLock, c.Timestamp, c.Created, c.Expiry, c.Closed)
}

func (m *Module) onParams(w *engine.World, tx *engine.TxRecord, op *engine.Op, single bool) {
	var a paramArgs
	op.Decode(&a)
	gov := w.Governor()
	stranger := a.Authority != gov.Addr.String() || op.Actor != gov.Idx
	if !tx.OK() {
		if stranger && !tx.Infra {
			w.Hit("htlc.params_stranger_rejected")
		}
		if a.Why == "invalid" && !tx.Infra {
			w.Hit("htlc.params_invalid_rejected")
		}
		return
	}
	if stranger {
		w.Violate("C16", "authority/htlc", "MsgUpdateParams signed by actor %d naming authority %s was accepted; the authority is %s", op.Actor, a.Authority, gov.Addr)
	}
	m.installParams(w, a.Assets)
	w.Hit("htlc.params_changed")
	w.Hit("htlc.params_" + a.Why)
}

// installParams makes a parameter set the one in force and opens a new epoch for every asset
// whose parameters changed.
func (m *Module) installParams(w *engine.World, next []AssetCfg) {
	now := map[string]bool{}
	for _, a := range next {
		now[a.Denom] = true
		am := m.assets[a.Denom]
		if am == nil {
			am = newAssetModel(a)
			am.Epoch = 1
			am.Allowed = new(big.Int).Set(am.Par.Limit)
			am.PhaseUnknown = 2
			m.assets[a.Denom] = am
			continue
		}
		if am.Supported && am.Par.Cfg == a {
			continue
		}
		if !am.Supported {
			am.PhaseUnknown = 2
		}
		am.Par = parsePar(a)
		am.Supported = true
		m.newEpoch(am, a.Denom)
	}
	for _, d := range engine.SortedKeys(m.assets) {
		if am := m.assets[d]; am.Supported && !now[d] {
			am.Supported = false
			m.newEpoch(am, d)
		}
	}
	m.par = append([]AssetCfg{}, next...)
}

func (m *Module) newEpoch(am *assetModel, denom string) {
	am.Epoch++
	am.WinCompleted = new(big.Int)
	am.WinClean = false
	in, _ := m.openSums(denom)
	sum := new(big.Int).Add(am.Cur, in)
	am.Allowed = new(big.Int).Set(am.Par.Limit)
	if sum.Cmp(am.Allowed) > 0 {
		am.Allowed = sum
	}
}

// ---- block begin -----------------------------------------------------------------------

// SetGenesisPrevTime tells the model that the genesis carries another previous block time
// than the genesis time (a genesis that leaves the field unset carries the zero time); it
// has no effect once the first block began.
func (m *Module) SetGenesisPrevTime(t time.Time) {
	if !m.begun {
		m.prevTime = t
	}
}

func (m *Module) OnBeginBlock(w *engine.World, ph *engine.Phase) {
	// time.Time.Sub saturates, as it does in the module
	delta := int64(ph.Time.Sub(m.prevTime))
	m.prevTime = ph.Time
	m.begun = true
	m.touched = map[string]bool{}

	// "otherwise back to the sender in the first block whose height equals the expiration height"
	var due []*contract
	for _, id := range m.order {
		if c := m.open[id]; c != nil && c.Expiry == ph.Height {
			due = append(due, c)
		}
	}
	want := engine.Want{}
	escrowWant := map[string]*big.Int{}
	dueIDs := map[string]bool{}
	for _, c := range due {
		dueIDs[c.ID] = true
		if c.Dir != dirIn {
			for _, cn := range c.Amount {
				want.Put(escrow, cn.D, neg(cn.A))
				want.Put(c.Sender, cn.D, cn.A)
				addTo(escrowWant, cn.D, neg(cn.A))
			}
		}
		c.State, c.Closed = stRefunded, ph.Height
		delete(m.open, c.ID)
		m.touched[c.ID] = true
		w.Hit("htlc." + dirName[c.Dir] + "_refunded")
	}
	if len(due) > 0 {
		w.Hit("C03.refund_checks")
	}
	if len(due) >= 2 {
		w.Hit("htlc.multi_expiry_height")
		if len(due) > 100 {
			w.Hit("htlc.over_100_due_in_one_block")
		}
	}
	if len(w.Mods) == 1 {
		// alone on the chain: the whole begin-block sheet is the refunds, nothing else
		if d := want.Diff(ph.Sheet); d != "" {
			w.Violate("C03", "begin-block/balance-sheet", "block %d: %d contracts fall due (%s): %s; sheet: %s", ph.Height, len(due), idsOf(due), d, ph.Sheet)
		}
	} else {
		for _, d := range unionKeys(escrowWant, ph.Sheet.Delta[escrow]) {
			exp := escrowWant[d]
			if exp == nil {
				exp = new(big.Int)
			}
			if ph.Sheet.Of(escrow, d).Cmp(exp) != 0 {
				w.Violate("C03", "begin-block/balance-sheet", "block %d: escrow moved %s%s at block begin, the contracts falling due (%s) amount to %s", ph.Height, ph.Sheet.Of(escrow, d), d, idsOf(due), exp)
			}
		}
	}
	for _, d := range ph.Sheet.SupplyDenoms() {
		if m.assets[d] != nil {
			w.Violate("C03", "begin-block/supply", "block %d: the supply of %s moved by %s at block begin", ph.Height, d, ph.Sheet.SupplyOf(d))
		}
	}
	// refund events: exactly the contracts falling due, each once
	got := map[string]int{}
	for _, id := range refundEvents(ph.Events) {
		got[id]++
	}
	for _, id := range engine.SortedKeys(got) {
		// an observed exit: the module reports the refund (the sheet above says what moved)
		if c := m.contracts[id]; c != nil {
			for n := 0; n < got[id]; n++ {
				c.Exits = append(c.Exits, exit{"refund", ph.Height})
			}
			m.touched[id] = true
		}
		if !dueIDs[id] {
			w.Violate("C03", "begin-block/refund-event/unexpected", "block %d refunded contract %s: %s", ph.Height, id, describe(m.contracts[id]))
		} else if got[id] != 1 {
			w.Violate("C03", "begin-block/refund-event/repeated", "block %d refunded contract %s %d times", ph.Height, id, got[id])
		}
	}
	for _, c := range due {
		if got[c.ID] == 0 {
			// the property does not speak of events: whether the refund happened is decided by
			// the balance sheet above and by the contract's state after the block
			w.Hit("htlc.refund_without_event")
			c.Exits = append(c.Exits, exit{"refund", ph.Height})
		}
	}

	// limit windows: "a window closes at the first block at which the time accumulated since
	// the window opened reaches the period"
	for _, d := range engine.SortedKeys(m.assets) {
		am := m.assets[d]
		if !am.Supported {
			continue
		}
		am.HasRecord = true
		if am.PhaseUnknown > 0 {
			am.PhaseUnknown = 1
			continue
		}
		am.Elapsed += delta
		if am.Par.TimeLimited && am.Elapsed < am.Par.Period {
			continue
		}
		if am.Par.TimeLimited {
			w.Hit("htlc.window_reset")
			if am.WinActive {
				w.Hit("htlc.window_reset_with_activity")
			}
			if am.Elapsed == am.Par.Period {
				w.Hit("htlc.window_reset_exact")
			}
			if delta >= am.Par.Period && delta > 1 {
				w.Hit("htlc.window_single_delta")
			}
		}
		am.Elapsed = 0
		am.WinCompleted = new(big.Int)
		am.WinClean = true
		am.WinActive = false
	}
}

func idsOf(cs []*contract) string {
	var s []string
	for _, c := range cs {
		s = append(s, c.ID[:8]+"/"+dirName[c.Dir])
	}
	return strings.Join(s, ",")
}

func unionKeys(a, b map[string]*big.Int) []string {
	set := map[string]bool{}
	for k := range a {
		set[k] = true
	}
	for k := range b {
		set[k] = true
	}
	out := make([]string, 0, len(set))
	for k := range set {
		out = append(out, k)
	}
	sort.Strings(out)
	return out
}

func refundEvents(evs []abci.Event) []string {
	var out []string
	for _, ev := range evs {
		if ev.Type != htlctypes.EventTypeRefundHTLC {
			continue
		}
		for _, at := range ev.Attributes {
			if at.Key == htlctypes.AttributeKeyID {
				out = append(out, strings.ToUpper(at.Value))
			}
		}
	}
	return out
}
