package htlc

import "verif/sim/engine"

// Register installs the htlc profile and the properties it decides.
func Register() {
	engine.RegisterProfile(&engine.Profile{
		Name: "htlc",
		Mods: func() []engine.Module { return []engine.Module{New()} },
		Tune: func(c *engine.EngineConfig, r *engine.Rand) {
			// 3-5 ordinary users + 1-2 deputies + the eavesdropper + the governor
			c.Actors = 7 + r.Intn(3)
			// the shortest time lock is 50 blocks: most runs must outlive it in the main phase
			if c.Blocks < 70 && r.Bool(0.85) {
				c.Blocks = 70 + r.Intn(50)
			}
			c.OpsPerBlock = 0.8 + 3.2*r.Float()
			// the limit windows need every kind of block-time sequence; the constant one makes
			// increments sum exactly to a period
			c.DeltaMode = []string{"const", "const", "jitter", "jitter", "heavy", "heavy", "nano"}[r.Intn(7)]
		},
	})
	engine.RegisterProperty(&engine.Property{
		ID: "C03", Profile: "htlc",
		NonTrivial: func(c map[string]int64) bool {
			return c["C03.claim_checks"] > 0 && c["C03.refund_checks"] > 0 && c["C03.claim_verdicts"] > 2
		},
		Probes: []string{"C03.create_checks", "C03.claim_checks", "C03.claim_verdicts", "C03.refund_checks", "C03.state_checks", "C03.final_checks",
			"htlc.claim_at_expiry_minus_1", "htlc.claim_at_expiry", "htlc.claim_at_expiry_plus_1", "htlc.claim_at_expiry_rejected",
			"htlc.multi_expiry_height", "htlc.wrong_secret_rejected", "htlc.second_claim_rejected", "htlc.claim_after_refund_rejected",
			"htlc.eve_claim_ok", "htlc.claimed_by_third_party", "htlc.dup_create_open", "htlc.dup_create_completed", "htlc.dup_create_refunded",
			"htlc.plain_created", "htlc.plain_claimed", "htlc.plain_refunded", "htlc.incoming_created", "htlc.incoming_claimed",
			"htlc.incoming_refunded", "htlc.outgoing_created", "htlc.outgoing_claimed", "htlc.outgoing_refunded", "htlc.plain_multicoin",
			"C13.htlc_queue_checks"},
		Rule: "a run is non-trivial when at least one accepted claim had its balance sheet compared, at least one block begin with contracts falling due had its refunds compared, and more than two claim verdicts (accepted or rejected) were compared with the model's; distinct = different fingerprint of the executed (operation kind, outcome class) sequence",
	})
	engine.RegisterProperty(&engine.Property{
		ID: "C04", Profile: "htlc",
		NonTrivial: func(c map[string]int64) bool {
			return c["C04.counter_checks"] > 0 && c["htlc.incoming_claimed"] > 0 && c["C04.escrow_checks"] > 0 &&
				c["htlc.incoming_created"]+c["htlc.outgoing_created"] > 2
		},
		Probes: []string{"C04.escrow_checks", "C04.counter_checks", "C04.supply_checks", "C04.limit_checks", "C04.window_checks",
			"htlc.incoming_claimed", "htlc.incoming_refunded", "htlc.outgoing_claimed", "htlc.outgoing_refunded",
			"htlc.window_reset", "htlc.window_reset_with_activity", "htlc.window_reset_exact", "htlc.window_single_delta",
			"htlc.limit_rejected_total", "htlc.limit_rejected_time", "htlc.out_rejected_available",
			"htlc.params_changed", "htlc.params_stranger_rejected", "htlc.params_invalid_rejected",
			"htlc.params_toggle-time-limited", "htlc.params_period", "htlc.params_lower-limit", "htlc.params_deputy"},
		Rule: "a run is non-trivial when the asset counters were compared with the model after at least one block, at least one incoming transfer completed (so current supply and bank supply moved), and more than two cross-chain transfers were created; distinct = different fingerprint of the executed (operation kind, outcome class) sequence",
	})
}
