// Package htlc is the HTLC workload and the oracles of C03 (locked funds leave escrow exactly
// once), C04 (escrow balance and cross-chain supply counters match the open contracts), and
// the HTLC part of C13's queue hygiene (QueueCheck).
//
// Files: htlc.go (configuration, genesis, generator, message building), model.go (reference
// model and the per-transaction / begin-block oracles), checks.go (block-boundary and
// end-of-history oracles, QueueCheck).
package htlc

import (
	"crypto/sha256"
	"encoding/binary"
	"encoding/hex"
	"encoding/json"
	"fmt"
	"math/big"
	"sort"
	"strings"
	"time"

	sdk "github.com/cosmos/cosmos-sdk/types"

	htlctypes "mods.irisnet.org/modules/htlc/types"
	"mods.irisnet.org/simapp"

	"verif/sim/engine"
)

const Name = "htlc"

// The message-level bounds of a time lock in blocks ("time locks across the valid range").
// They are only used by the generator to aim at / around the valid range; no oracle depends
// on them.
const (
	genMinLock = 50
	genMaxLock = 34560
)

// AssetCfg is one cross-chain asset's parameter set, amounts as decimal strings.
type AssetCfg struct {
	Denom       string `json:"denom"`
	Deputy      string `json:"deputy"` // bech32
	Limit       string `json:"limit"`
	TimeLimited bool   `json:"time_limited"`
	PeriodNs    int64  `json:"period_ns"`
	TimeLimit   string `json:"time_limit"`
	Active      bool   `json:"active"`
	Fee         string `json:"fee"`
	MinSwap     string `json:"min_swap"`
	MaxSwap     string `json:"max_swap"`
	MinLock     uint64 `json:"min_lock"`
	MaxLock     uint64 `json:"max_lock"`
}

// GenesisAsset is an asset configured at genesis; Prefund > 0 funds every actor with that
// many coins and records the funded total as the asset's current supply.
type GenesisAsset struct {
	AssetCfg
	Prefund string `json:"prefund"`
	Bits    int    `json:"bits"` // magnitude of swap amounts
}

// Config is the per-run swarm configuration.
type Config struct {
	Deputies    []int          `json:"deputies"` // actor indices
	Eve         int            `json:"eve"`
	Users       []int          `json:"users"`
	Assets      []GenesisAsset `json:"assets"`
	Spare       []GenesisAsset `json:"spare"` // assets the governor may add later
	PlainDenoms []string       `json:"plain_denoms"`
	PlainBits   int            `json:"plain_bits"`
	Periods     []int64        `json:"periods"` // menu of time-limit periods for param updates

	PMinLock   float64 `json:"p_min_lock"`
	PCluster   float64 `json:"p_cluster"`
	PRetime    float64 `json:"p_retime_claim"`
	PAbandon   float64 `json:"p_abandon"`
	PReuse     float64 `json:"p_reuse_secret"`
	PTsZero    float64 `json:"p_timestamp_zero"`
	PMultiCoin float64 `json:"p_multi_coin"`
	PParam     float64 `json:"p_param_change"`
	PStranger  float64 `json:"p_param_stranger"`
	PHarsh     float64 `json:"p_param_harsh"` // removal / lowering below the booked supply
	Donations  bool    `json:"donations"`
	// EarlyDonate: a donation may reach the escrow address before the module ever used it
	// (rare arm: in this application wiring that bricks the module, see NOTES.md)
	EarlyDonate bool    `json:"early_donate"`
	Weights     []int   `json:"weights"`
	LimitTight  bool    `json:"limit_tight"`
	ClaimEager  float64 `json:"claim_eager"`
	PEveOther   float64 `json:"p_eve_other"`
	PFarLock    float64 `json:"p_far_lock"`
	PBadLock    float64 `json:"p_bad_lock"`
	PUnbound    float64 `json:"p_unbound"`
	POddAmount  float64 `json:"p_odd_amount"`
	PLateClaim  float64 `json:"p_late_claim"`
	PMultiOp    float64 `json:"p_multi_op"`
	// Burst: once in the run, this many ordinary contracts are created in one block with one
	// time lock, so that more than a hundred fall due in the same block
	Burst int `json:"burst,omitempty"`
	GenesisUnix int64   `json:"genesis_unix"`
}

// coin / coins: the model's own amounts (sorted by denom, unique, positive).
type coin struct {
	D string
	A *big.Int
}
type coins []coin

func (cs coins) String() string {
	var parts []string
	for _, c := range cs {
		parts = append(parts, c.A.String()+c.D)
	}
	return strings.Join(parts, ",")
}

func (cs coins) sdk() sdk.Coins {
	out := make(sdk.Coins, 0, len(cs))
	for _, c := range cs {
		out = append(out, sdk.Coin{Denom: c.D, Amount: engine.Int(c.A)})
	}
	return out
}

type argCoin struct {
	Denom string `json:"denom"`
	Amt   string `json:"amt"`
}

func toCoins(in []argCoin) coins {
	out := make(coins, 0, len(in))
	for _, c := range in {
		out = append(out, coin{c.Denom, bigOf(c.Amt)})
	}
	sort.Slice(out, func(i, j int) bool { return out[i].D < out[j].D })
	return out
}

func bigOf(s string) *big.Int {
	v, ok := new(big.Int).SetString(s, 10)
	if !ok {
		engine.Fatal("htlc: bad integer %q", s)
	}
	return v
}

func addr(s string) sdk.AccAddress {
	a, err := sdk.AccAddressFromBech32(s)
	if err != nil {
		engine.Fatal("htlc: bad address %q: %v", s, err)
	}
	return a
}

// hashLockOf is the model's own hash-lock function: SHA-256 over the secret followed, when
// the contract carries a non-zero timestamp, by the timestamp as 8 big-endian bytes
// ("the preimage of the hash lock (bound to the contract's timestamp)").
func hashLockOf(secret []byte, timestamp uint64) []byte {
	h := sha256.New()
	h.Write(secret)
	if timestamp > 0 {
		var b [8]byte
		binary.BigEndian.PutUint64(b[:], timestamp)
		h.Write(b[:])
	}
	return h.Sum(nil)
}

// contractID is the model's own id function: SHA-256 over hash lock, sender, recipient and
// the amount's canonical string ("id = sha256(hashlock||sender||to||amount)").
func contractID(hashLock []byte, sender, to sdk.AccAddress, amt coins) string {
	h := sha256.New()
	h.Write(hashLock)
	h.Write(sender)
	h.Write(to)
	h.Write([]byte(amt.String()))
	return strings.ToUpper(hex.EncodeToString(h.Sum(nil)))
}

// ---- operations ------------------------------------------------------------------------

type createArgs struct {
	To        string    `json:"to"`
	Amount    []argCoin `json:"amount"`
	HashLock  string    `json:"hash_lock"`
	Timestamp uint64    `json:"timestamp"`
	TimeLock  uint64    `json:"time_lock"`
	Transfer  bool      `json:"transfer"`
	RecvOther string    `json:"recv_other,omitempty"`
	SendOther string    `json:"send_other,omitempty"`
	Why       string    `json:"why,omitempty"`
}

func (a createArgs) id(sender sdk.AccAddress) string {
	hl, err := hex.DecodeString(a.HashLock)
	if err != nil {
		return ""
	}
	return contractID(hl, sender, addr(a.To), toCoins(a.Amount))
}

type claimArgs struct {
	ID     string `json:"id"`
	Secret string `json:"secret"`
	Why    string `json:"why,omitempty"`
}

type paramArgs struct {
	Assets    []AssetCfg `json:"assets"`
	Authority string     `json:"authority"`
	Why       string     `json:"why,omitempty"`
}

type donateArgs struct {
	Denom string `json:"denom"`
	Amt   string `json:"amt"`
}

// bookEntry is generation-side memory: what an actor remembers about a contract it proposed.
// Oracles never read it.
type bookEntry struct {
	ID      string
	Secret  string
	Sender  int
	Args    createArgs
	Abandon bool
	Claims  int
}

type seenSecret struct{ ID, Secret string }

// Module implements engine.Module.
type Module struct {
	engine.Base
	cfg Config

	// reference model (model.go)
	contracts map[string]*contract
	order     []string // ids in creation order
	open      map[string]*contract
	assets    map[string]*assetModel
	par       []AssetCfg // last accepted parameter set, in message order
	donations map[string]*big.Int
	prevTime  time.Time
	begun     bool
	burstDone bool
	touched   map[string]bool // ids whose model state changed in the current block
	started   bool
	// escrowLive: the module itself has used its account (an accepted escrowing creation or
	// an accepted mint), so the address holds a module account
	escrowLive bool

	// generation-side memory
	book     []*bookEntry
	bookByID map[string]*bookEntry
	seen     []seenSecret
	cluster  int64 // expiry height several creations are being forced onto
	removed  []AssetCfg
	fresh    int
}

func New() *Module {
	return &Module{
		contracts: map[string]*contract{}, open: map[string]*contract{}, assets: map[string]*assetModel{},
		donations: map[string]*big.Int{}, touched: map[string]bool{}, bookByID: map[string]*bookEntry{},
	}
}

func (m *Module) Name() string { return Name }

var escrow = engine.ModAddr(htlctypes.ModuleName)

// ---- configuration ---------------------------------------------------------------------

func pow2(n int) *big.Int { return new(big.Int).Lsh(big.NewInt(1), uint(n)) }

func (m *Module) periodMenu(w *engine.World, r *engine.Rand) []int64 {
	const s = int64(time.Second)
	blocks := int64(w.Cfg.Blocks)
	var avg int64
	switch w.Cfg.DeltaMode {
	case "const":
		avg = 5 * s
	case "jitter":
		avg = 11 * s / 2
	case "nano":
		avg = s / 20
	default:
		avg = 9 * s / 2
	}
	span := blocks * avg
	menu := []int64{1, span/16 + 1, span/6 + 1, span/3 + 1, span * 4}
	switch w.Cfg.DeltaMode {
	case "const":
		// the block-time increments sum exactly to these periods
		menu = append(menu, 5*s, 10*s, 25*s, 50*s, 100*s)
	case "nano":
		menu = append(menu, 2, 10, s/2, s)
	case "heavy":
		menu = append(menu, 3600*s, 86400*s, 3*86400*s)
	default:
		menu = append(menu, 7*s, 30*s, 61*s)
	}
	// a few random ones
	for i := 0; i < 3; i++ {
		menu = append(menu, 1+r.Int63n(span+1))
	}
	return menu
}

func (m *Module) drawAsset(w *engine.World, r *engine.Rand, denom string, deputies []int, periods []int64, tight bool, prefundable bool) GenesisAsset {
	var bits int
	switch r.Intn(4) {
	case 0:
		bits = 4 + r.Intn(12)
	case 1:
		bits = 16 + r.Intn(40)
	case 2:
		bits = 60 + r.Intn(60)
	default:
		bits = 4 + r.Intn(116)
	}
	maxSwap := new(big.Int).Add(r.BigBelow(pow2(bits)), pow2(bits-1))
	minSwap := big.NewInt(1)
	if r.Bool(0.5) {
		minSwap = new(big.Int).Add(r.BigBelow(new(big.Int).Rsh(maxSwap, 3)), big.NewInt(1))
	}
	fee := big.NewInt(0)
	if r.Bool(0.6) {
		fee = r.BigBelow(new(big.Int).Add(new(big.Int).Rsh(maxSwap, 3), big.NewInt(1)))
	}
	a := GenesisAsset{Bits: bits, Prefund: "0"}
	a.Denom = denom
	a.Deputy = w.A(deputies[r.Intn(len(deputies))]).Addr.String()
	a.Active = !r.Bool(0.08)
	a.Fee, a.MinSwap, a.MaxSwap = fee.String(), minSwap.String(), maxSwap.String()
	a.MinLock = genMinLock
	if r.Bool(0.3) {
		a.MinLock = genMinLock + uint64(r.Intn(10))
	}
	a.MaxLock = genMaxLock
	if r.Bool(0.4) {
		a.MaxLock = a.MinLock + uint64(r.Intn(40))
	}
	c0 := new(big.Int)
	if prefundable && r.Bool(0.5) {
		per := new(big.Int).Mul(maxSwap, big.NewInt(1+r.Int63n(8)))
		a.Prefund = per.String()
		c0.Mul(per, big.NewInt(int64(len(w.Actors))))
	}
	// total limit: tight (a handful of maximal swaps above the initial supply) or roomy
	var room *big.Int
	if tight {
		room = new(big.Int).Mul(maxSwap, big.NewInt(1+r.Int63n(12)))
	} else {
		room = new(big.Int).Mul(maxSwap, big.NewInt(50+r.Int63n(1000)))
	}
	limit := new(big.Int).Add(c0, room)
	a.Limit = limit.String()
	a.TimeLimited = r.Bool(0.65)
	a.PeriodNs = periods[r.Intn(len(periods))]
	tl := new(big.Int).Mul(maxSwap, big.NewInt(1+r.Int63n(6)))
	if r.Bool(0.15) {
		tl = new(big.Int).Set(maxSwap)
	}
	if tl.Cmp(limit) > 0 {
		tl.Set(limit)
	}
	a.TimeLimit = tl.String()
	return a
}

func (m *Module) Configure(w *engine.World, r *engine.Rand) any {
	n := len(w.Actors) - 1 // the governor plays no other role
	c := Config{GenesisUnix: w.Cfg.GenesisUnix}
	nDep := 1 + r.Intn(2)
	if n < 5 {
		nDep = 1
	}
	for i := 0; i < nDep; i++ {
		c.Deputies = append(c.Deputies, i)
	}
	c.Eve = nDep
	for i := nDep + 1; i < n; i++ {
		c.Users = append(c.Users, i)
	}
	c.Periods = m.periodMenu(w, r)
	c.LimitTight = r.Bool(0.5)
	denoms := []string{"htltaaa", "htltbbb", "htltccc", "htltddd"}
	nAssets := 1 + r.Intn(3)
	for i := 0; i < nAssets; i++ {
		c.Assets = append(c.Assets, m.drawAsset(w, r, denoms[i], c.Deputies, c.Periods, c.LimitTight && r.Bool(0.8), true))
	}
	if r.Bool(0.5) {
		c.Spare = append(c.Spare, m.drawAsset(w, r, denoms[nAssets], c.Deputies, c.Periods, c.LimitTight, false))
	}
	c.PlainDenoms = []string{"xaa", "xbb", "xcc"}[:1+r.Intn(3)]
	switch r.Intn(3) {
	case 0:
		c.PlainBits = 3 + r.Intn(20)
	case 1:
		c.PlainBits = 20 + r.Intn(60)
	default:
		c.PlainBits = 3 + r.Intn(117)
	}
	c.PMinLock = 0.5 + 0.45*r.Float()
	c.PCluster = 0.5 * r.Float()
	c.PRetime = 0.2 + 0.5*r.Float()
	c.PAbandon = 0.15 + 0.45*r.Float()
	c.PReuse = 0.3 * r.Float()
	c.PTsZero = 0.5 * r.Float()
	c.PMultiCoin = 0.7 * r.Float()
	if r.Bool(0.75) {
		c.PParam = 0.01 + 0.06*r.Float()
	}
	c.PStranger = 0.15 + 0.2*r.Float()
	if r.Bool(0.4) {
		c.PHarsh = 0.3 * r.Float()
	}
	// off, see DESIGN.md section 14 ("application wiring"): module addresses are blocked as
	// recipients in a production application
	_ = r.Bool(0.5)
	c.Donations = false
	// Never on: a plain transfer to a module address that the module has not used yet leaves
	// an ordinary account there and every later module-account operation aborts. That is a
	// property of the application wiring (which addresses the bank blocks), which the
	// harness owns, not of the module under test; see DESIGN.md section 14.
	_ = r.Bool(0.1)
	c.EarlyDonate = false
	// create_plain, create_in, create_out, create_adv, claim, claim_adv, donate
	c.Weights = []int{3 + r.Intn(6), 3 + r.Intn(6), 2 + r.Intn(5), 1 + r.Intn(3), 6 + r.Intn(8), 1 + r.Intn(5), 0}
	if c.Donations {
		c.Weights[6] = 1
	}
	c.ClaimEager = r.Float()
	c.PEveOther = 0.5 * r.Float()
	c.PFarLock = 0.06 * r.Float()
	c.PBadLock = 0.05 * r.Float()
	c.PUnbound = 0.08 * r.Float()
	c.POddAmount = 0.15 * r.Float()
	c.PLateClaim = 0.15 * r.Float()
	c.PMultiOp = 0.1 * r.Float()
	// (a stream of its own: a seed's run is otherwise what it was before this arm existed)
	if br := engine.NewRand(engine.Mix(w.Sched.Seed, "htlc-burst", 0)); br.Bool(0.06) {
		c.Burst = 101 + br.Intn(40)
	}
	return c
}

// genBurst: Burst ordinary contracts of small amounts, created by several senders in large
// transactions of one block, all with the same time lock.
func (m *Module) genBurst(w *engine.World, r *engine.Rand) *engine.TxPlan {
	m.burstDone = true
	if len(m.cfg.PlainDenoms) == 0 {
		return nil
	}
	nAct := len(w.Actors) - 1
	per := 26 + r.Intn(9)
	lock := uint64(genMinLock + r.Intn(6))
	at := w.Height + 1
	var first *engine.TxPlan
	left := m.cfg.Burst
	for s := 0; left > 0; s++ {
		sender := s % nAct
		tp := &engine.TxPlan{At: at, NoOOG: true}
		for k := 0; k < per && left > 0; k++ {
			a := createArgs{Why: "plain", To: w.A((sender + 1 + r.Intn(nAct-1)) % nAct).Addr.String(), TimeLock: lock}
			a.Amount = []argCoin{{m.cfg.PlainDenoms[r.Intn(len(m.cfg.PlainDenoms))], fmt.Sprint(1 + r.Intn(50))}}
			secret := hexOf(r.Bytes(32))
			sb, _ := hex.DecodeString(secret)
			if r.Bool(0.5) {
				a.Timestamp = uint64(w.Time.Unix() + r.Range(-1000, 1000))
			}
			a.HashLock = hexOf(hashLockOf(sb, a.Timestamp))
			tp.Ops = append(tp.Ops, engine.NewOp(Name, "create_plain", sender, a))
			m.remember(sender, a, secret, w, r)
			left--
		}
		if first == nil {
			first = tp
		} else {
			first.Also = append(first.Also, tp)
		}
	}
	w.Hit("htlc.expiry_burst_planned")
	return first
}

func (m *Module) LoadConfig(w *engine.World, raw json.RawMessage) {
	if err := json.Unmarshal(raw, &m.cfg); err != nil {
		engine.Fatal("htlc config: %v", err)
	}
	m.par = nil
	for _, a := range m.cfg.Assets {
		m.par = append(m.par, a.AssetCfg)
	}
}

func (m *Module) Setup(w *engine.World) {
	per := pow2(m.cfg.PlainBits + 8)
	for _, d := range m.cfg.PlainDenoms {
		w.NeedDenom(d, per)
	}
	for _, a := range m.cfg.Assets {
		if p := bigOf(a.Prefund); p.Sign() > 0 {
			w.NeedDenom(a.Denom, p)
		}
	}
}

func sdkAsset(a AssetCfg) htlctypes.AssetParam {
	return htlctypes.AssetParam{
		Denom: a.Denom,
		SupplyLimit: htlctypes.SupplyLimit{Limit: engine.Int(bigOf(a.Limit)), TimeLimited: a.TimeLimited,
			TimePeriod: time.Duration(a.PeriodNs), TimeBasedLimit: engine.Int(bigOf(a.TimeLimit))},
		Active: a.Active, DeputyAddress: a.Deputy, FixedFee: engine.Int(bigOf(a.Fee)),
		MinSwapAmount: engine.Int(bigOf(a.MinSwap)), MaxSwapAmount: engine.Int(bigOf(a.MaxSwap)),
		MinBlockLock: a.MinLock, MaxBlockLock: a.MaxLock,
	}
}

func cfgOfSDK(a htlctypes.AssetParam) AssetCfg {
	return AssetCfg{Denom: a.Denom, Deputy: a.DeputyAddress, Limit: a.SupplyLimit.Limit.String(),
		TimeLimited: a.SupplyLimit.TimeLimited, PeriodNs: int64(a.SupplyLimit.TimePeriod),
		TimeLimit: a.SupplyLimit.TimeBasedLimit.String(), Active: a.Active, Fee: a.FixedFee.String(),
		MinSwap: a.MinSwapAmount.String(), MaxSwap: a.MaxSwapAmount.String(), MinLock: a.MinBlockLock, MaxLock: a.MaxBlockLock}
}

func sdkParams(as []AssetCfg) htlctypes.Params {
	p := htlctypes.Params{AssetParams: []htlctypes.AssetParam{}}
	for _, a := range as {
		p.AssetParams = append(p.AssetParams, sdkAsset(a))
	}
	return p
}

func (m *Module) Genesis(w *engine.World, n *engine.Node, gs simapp.GenesisState) {
	cdc := n.App.AppCodec()
	var g htlctypes.GenesisState
	cdc.MustUnmarshalJSON(gs[htlctypes.ModuleName], &g)
	g.Params = sdkParams(m.par)
	if err := g.Params.Validate(); err != nil {
		engine.Fatal("htlc: generated invalid genesis params: %v", err)
	}
	g.Supplies = nil
	zero := func(d string) sdk.Coin { return sdk.Coin{Denom: d, Amount: engine.Int(new(big.Int))} }
	for _, a := range m.cfg.Assets {
		c0 := new(big.Int).Mul(bigOf(a.Prefund), big.NewInt(int64(len(w.Actors))))
		g.Supplies = append(g.Supplies, htlctypes.AssetSupply{IncomingSupply: zero(a.Denom), OutgoingSupply: zero(a.Denom),
			CurrentSupply: sdk.Coin{Denom: a.Denom, Amount: engine.Int(c0)}, TimeLimitedCurrentSupply: zero(a.Denom)})
	}
	// the module's default is the host clock at process start (types/params_legacy.go); a
	// real genesis file states the time
	g.PreviousBlockTime = time.Unix(m.cfg.GenesisUnix, 0).UTC()
	gs[htlctypes.ModuleName] = cdc.MustMarshalJSON(&g)

	// reference model: initial state (once: a second genesis build must not reset it)
	if m.started {
		return
	}
	m.started = true
	m.prevTime = time.Unix(m.cfg.GenesisUnix, 0).UTC()
	m.assets = map[string]*assetModel{}
	for _, a := range m.cfg.Assets {
		c0 := new(big.Int).Mul(bigOf(a.Prefund), big.NewInt(int64(len(w.Actors))))
		am := newAssetModel(a.AssetCfg)
		am.Cur = c0
		am.HasRecord = true
		am.Allowed = new(big.Int).Set(am.Par.Limit)
		m.assets[a.Denom] = am
	}
}

// ---- generator -------------------------------------------------------------------------

func (m *Module) bits(denom string) int {
	for _, a := range m.cfg.Assets {
		if a.Denom == denom {
			return a.Bits
		}
	}
	for _, a := range m.cfg.Spare {
		if a.Denom == denom {
			return a.Bits
		}
	}
	return m.cfg.PlainBits
}

func hexOf(b []byte) string { return hex.EncodeToString(b) }

func (m *Module) anyActor(w *engine.World, r *engine.Rand) int { return r.Intn(len(w.Actors) - 1) }

func (m *Module) user(r *engine.Rand) int { return m.cfg.Users[r.Intn(len(m.cfg.Users))] }

func (m *Module) drawLock(w *engine.World, r *engine.Rand, lo, hi uint64) uint64 {
	switch {
	case r.Bool(m.cfg.PBadLock):
		return []uint64{genMinLock - 1, genMaxLock + 1, 0, lo - 1, hi + 1}[r.Intn(5)]
	case r.Bool(m.cfg.PMinLock):
		return lo
	case r.Bool(m.cfg.PFarLock):
		return uint64(r.Range(1000, genMaxLock))
	default:
		v := lo + uint64(r.Intn(30))
		if v > hi {
			v = hi
		}
		return v
	}
}

// newSecret draws a secret; with some probability an already used one (its owner reuses it).
func (m *Module) newSecret(r *engine.Rand, sender int) string {
	if len(m.book) > 0 && r.Bool(m.cfg.PReuse) {
		return m.book[r.Intn(len(m.book))].Secret
	}
	return hexOf(r.Bytes(32))
}

func (m *Module) remember(sender int, a createArgs, secret string, w *engine.World, r *engine.Rand) {
	id := a.id(w.A(sender).Addr)
	if m.bookByID[id] != nil {
		return
	}
	e := &bookEntry{ID: id, Secret: secret, Sender: sender, Args: a, Abandon: r.Bool(m.cfg.PAbandon)}
	m.book = append(m.book, e)
	m.bookByID[id] = e
}

// place applies the clustering of expiry heights: several creations retimed so that their
// expiry heights coincide.
func (m *Module) place(w *engine.World, r *engine.Rand, tp *engine.TxPlan, a *createArgs, lo, hi uint64) {
	if !r.Bool(m.cfg.PCluster) {
		return
	}
	next := w.Height + 1
	if m.cluster < next+int64(lo) || r.Bool(0.1) {
		m.cluster = next + int64(lo) + int64(r.Intn(8))
	}
	at := next + int64(r.Intn(3))
	lock := m.cluster - at
	if lock < int64(lo) || lock > int64(hi) {
		at = next
		lock = m.cluster - at
	}
	if lock < int64(lo) || lock > int64(hi) {
		return
	}
	a.TimeLock = uint64(lock)
	tp.At = at
}

func (m *Module) genCreatePlain(w *engine.World, r *engine.Rand) *engine.TxPlan {
	sender := m.anyActor(w, r)
	to := m.anyActor(w, r)
	a := createArgs{Why: "plain"}
	a.To = w.A(to).Addr.String()
	switch {
	case r.Bool(0.03):
		m.fresh++
		a.To = sdk.AccAddress([]byte(fmt.Sprintf("fresh-htlc-to-%06d", m.fresh))).String()
	case r.Bool(0.02):
		a.To = escrow // the module account itself
	}
	// amount: one or several coins out of the plain denoms and the asset denoms the sender holds
	pool := append([]string{}, m.cfg.PlainDenoms...)
	for _, as := range m.par {
		if w.Bal(w.A(sender).Addr.String(), as.Denom).Sign() > 0 {
			pool = append(pool, as.Denom)
		}
	}
	k := 1
	if r.Bool(m.cfg.PMultiCoin) {
		k = 1 + r.Intn(len(pool))
	}
	perm := r.Perm(len(pool))
	for _, j := range perm[:k] {
		d := pool[j]
		amt := r.BigLogUniform(m.bits(d))
		if have := w.Bal(w.A(sender).Addr.String(), d); have.Sign() > 0 && r.Bool(0.15) {
			amt = new(big.Int).Add(r.BigBelow(have), big.NewInt(1))
		}
		a.Amount = append(a.Amount, argCoin{d, amt.String()})
	}
	sort.Slice(a.Amount, func(i, j int) bool { return a.Amount[i].Denom < a.Amount[j].Denom })
	secret := m.newSecret(r, sender)
	sb, _ := hex.DecodeString(secret)
	if !r.Bool(m.cfg.PTsZero) {
		a.Timestamp = uint64(w.Time.Unix() + r.Range(-100000, 100000))
		if r.Bool(0.1) {
			a.Timestamp = r.Uint64()
		}
	}
	a.HashLock = hexOf(hashLockOf(sb, a.Timestamp))
	if a.Timestamp > 0 && r.Bool(m.cfg.PUnbound) {
		// the creator forgot the binding: the hash lock commits to the secret alone although
		// the contract carries a timestamp; the secret is then not the preimage
		a.HashLock = hexOf(hashLockOf(sb, 0))
		a.Why = "plain-unbound"
	}
	a.TimeLock = m.drawLock(w, r, genMinLock, genMaxLock)
	tp := engine.Tx1(engine.NewOp(Name, "create_plain", sender, a))
	m.place(w, r, tp, &a, genMinLock, genMaxLock)
	tp.Ops[0] = engine.NewOp(Name, "create_plain", sender, a)
	m.remember(sender, a, secret, w, r)
	if r.Bool(m.cfg.PMultiOp) {
		// a second message of the same signer in the same transaction: the whole transaction
		// stands or falls together
		id := a.id(w.A(sender).Addr)
		switch ids := m.openIDs(); {
		case r.Bool(0.35):
			// claims the contract the first message creates
			tp.Ops = append(tp.Ops, engine.NewOp(Name, "claim", sender, claimArgs{ID: id, Secret: secret, Why: "same-tx"}))
			m.bookByID[id].Claims++
		case len(ids) > 0 && r.Bool(0.5):
			// a doomed tail: wrong secret on some open contract
			tp.Ops = append(tp.Ops, engine.NewOp(Name, "claim_adv", sender, claimArgs{ID: ids[r.Intn(len(ids))], Secret: hexOf(r.Bytes(32)), Why: "doomed-tail"}))
		case len(ids) > 0:
			if b := m.bookByID[ids[r.Intn(len(ids))]]; b != nil {
				tp.Ops = append(tp.Ops, engine.NewOp(Name, "claim", sender, claimArgs{ID: b.ID, Secret: b.Secret, Why: "tail"}))
				b.Claims++
			}
		}
	}
	return tp
}

func (m *Module) pickAsset(r *engine.Rand) *AssetCfg {
	if len(m.par) == 0 {
		return nil
	}
	a := m.par[r.Intn(len(m.par))]
	for try := 0; try < 3 && !a.Active; try++ {
		// mostly the assets that are open for business
		a = m.par[r.Intn(len(m.par))]
	}
	return &a
}

func (m *Module) swapAmount(r *engine.Rand, as *AssetCfg, lo *big.Int) *big.Int {
	maxS := bigOf(as.MaxSwap)
	if lo.Cmp(maxS) > 0 {
		lo = maxS
	}
	switch {
	case r.Bool(m.cfg.POddAmount):
		// around the edges of the admissible range, both sides
		switch r.Intn(4) {
		case 0:
			return new(big.Int).Add(maxS, big.NewInt(1))
		case 1:
			v := new(big.Int).Sub(lo, big.NewInt(1))
			if v.Sign() <= 0 {
				v.SetInt64(1)
			}
			return v
		case 2:
			return new(big.Int).Set(lo)
		default:
			return new(big.Int).Set(maxS)
		}
	case r.Bool(0.3):
		return new(big.Int).Set(maxS)
	default:
		return r.BigRange(lo, maxS)
	}
}

func (m *Module) genCreateIn(w *engine.World, r *engine.Rand) *engine.TxPlan {
	as := m.pickAsset(r)
	if as == nil {
		return nil
	}
	dep := w.ActorOf(as.Deputy)
	if dep == nil {
		return nil
	}
	a := createArgs{Why: "in", Transfer: true, To: w.A(m.user(r)).Addr.String(),
		SendOther: "other-chain-sender", RecvOther: "other-chain-deputy"}
	if r.Bool(0.1) {
		a.To = w.A(m.anyActor(w, r)).Addr.String()
	}
	a.Amount = []argCoin{{as.Denom, m.swapAmount(r, as, bigOf(as.MinSwap)).String()}}
	secret := m.newSecret(r, dep.Idx)
	sb, _ := hex.DecodeString(secret)
	a.Timestamp = uint64(w.Time.Unix() + r.Range(-120, 300))
	if r.Bool(0.04) {
		a.Timestamp = uint64(w.Time.Unix() + []int64{-901, -899, 1799, 1801, 0}[r.Intn(5)])
	}
	a.HashLock = hexOf(hashLockOf(sb, a.Timestamp))
	a.TimeLock = m.drawLock(w, r, genMinLock, genMaxLock)
	tp := engine.Tx1(engine.NewOp(Name, "create_in", dep.Idx, a))
	m.place(w, r, tp, &a, genMinLock, genMaxLock)
	tp.Ops[0] = engine.NewOp(Name, "create_in", dep.Idx, a)
	m.remember(dep.Idx, a, secret, w, r)
	return tp
}

func (m *Module) genCreateOut(w *engine.World, r *engine.Rand) *engine.TxPlan {
	// prefer an asset some user holds
	var as *AssetCfg
	sender := -1
	for try := 0; try < 6 && sender < 0; try++ {
		as = m.pickAsset(r)
		if as == nil {
			return nil
		}
		u := m.anyActor(w, r)
		if w.A(u).Addr.String() != as.Deputy && w.Bal(w.A(u).Addr.String(), as.Denom).Sign() > 0 {
			sender = u
		}
	}
	if sender < 0 {
		return nil
	}
	have := w.Bal(w.A(sender).Addr.String(), as.Denom)
	a := createArgs{Why: "out", Transfer: true, To: as.Deputy, RecvOther: "other-chain-user", SendOther: "other-chain-deputy"}
	lo := new(big.Int).Add(bigOf(as.MinSwap), bigOf(as.Fee))
	amt := m.swapAmount(r, as, lo)
	if amt.Cmp(have) > 0 && !r.Bool(0.05) {
		amt = have
	}
	a.Amount = []argCoin{{as.Denom, amt.String()}}
	secret := m.newSecret(r, sender)
	sb, _ := hex.DecodeString(secret)
	a.Timestamp = uint64(w.Time.Unix() + r.Range(-120, 300))
	a.HashLock = hexOf(hashLockOf(sb, a.Timestamp))
	a.TimeLock = m.drawLock(w, r, as.MinLock, as.MaxLock)
	tp := engine.Tx1(engine.NewOp(Name, "create_out", sender, a))
	m.place(w, r, tp, &a, as.MinLock, as.MaxLock)
	tp.Ops[0] = engine.NewOp(Name, "create_out", sender, a)
	m.remember(sender, a, secret, w, r)
	return tp
}

// genCreateAdv: duplicates of remembered contracts in whatever state they are in, and
// cross-chain creations that break a direction rule.
func (m *Module) genCreateAdv(w *engine.World, r *engine.Rand) *engine.TxPlan {
	if len(m.book) > 0 && r.Bool(0.7) {
		// duplicate: prefer a state not yet well covered
		var e *bookEntry
		want := r.Intn(3)
		for try := 0; try < 8; try++ {
			c := m.book[r.Intn(len(m.book))]
			e = c
			if mc := m.contracts[c.ID]; mc != nil && mc.State == want {
				break
			}
		}
		a := e.Args
		a.Why = "dup"
		if r.Bool(0.5) {
			// timestamp and time lock do not enter the id
			a.TimeLock = genMinLock + uint64(r.Intn(20))
		}
		return engine.Tx1(engine.NewOp(Name, "create_adv", e.Sender, a))
	}
	as := m.pickAsset(r)
	if as == nil {
		return nil
	}
	a := createArgs{Why: "odd", Transfer: true}
	sender := m.user(r)
	a.To = w.A(m.user(r)).Addr.String() // neither side is the deputy
	switch r.Intn(4) {
	case 0:
		if dep := w.ActorOf(as.Deputy); dep != nil {
			sender, a.To = dep.Idx, as.Deputy // deputy to itself
		}
	case 1:
		// an unsupported denom under the transfer flag
		a.Amount = []argCoin{{m.cfg.PlainDenoms[0], "5"}}
		a.To = as.Deputy
	}
	if a.Amount == nil {
		a.Amount = []argCoin{{as.Denom, m.swapAmount(r, as, bigOf(as.MinSwap)).String()}}
	}
	secret := hexOf(r.Bytes(32))
	sb, _ := hex.DecodeString(secret)
	a.Timestamp = uint64(w.Time.Unix())
	a.HashLock = hexOf(hashLockOf(sb, a.Timestamp))
	a.TimeLock = genMinLock
	m.remember(sender, a, secret, w, r)
	return engine.Tx1(engine.NewOp(Name, "create_adv", sender, a))
}

func (m *Module) openIDs() []string {
	ids := make([]string, 0, len(m.open))
	for _, id := range m.order {
		if c := m.open[id]; c != nil {
			ids = append(ids, id)
		}
	}
	return ids
}

func (m *Module) retime(w *engine.World, r *engine.Rand, tp *engine.TxPlan, c *contract) {
	if c == nil || !r.Bool(m.cfg.PRetime) {
		return
	}
	at := c.Expiry + []int64{-1, -1, 0, 0, 1}[r.Intn(5)]
	if at > w.Height {
		tp.At = at
	}
}

func (m *Module) genClaim(w *engine.World, r *engine.Rand) *engine.TxPlan {
	if len(m.book) == 0 {
		return nil
	}
	var e *bookEntry
	if r.Bool(m.cfg.PLateClaim) {
		// any remembered contract: second claims, claims after refund, claims before creation
		e = m.book[r.Intn(len(m.book))]
	} else {
		ids := m.openIDs()
		var cand []*bookEntry
		for _, id := range ids {
			if b := m.bookByID[id]; b != nil && !b.Abandon && (b.Claims == 0 || r.Bool(0.1)) {
				cand = append(cand, b)
			}
		}
		if len(cand) == 0 {
			return nil
		}
		e = cand[r.Intn(len(cand))]
		// eager claimers take the oldest first
		if r.Bool(m.cfg.ClaimEager) {
			e = cand[0]
		}
	}
	e.Claims++
	claimer := m.anyActor(w, r)
	if to := w.ActorOf(e.Args.To); to != nil && r.Bool(0.7) {
		claimer = to.Idx
	}
	tp := engine.Tx1(engine.NewOp(Name, "claim", claimer, claimArgs{ID: e.ID, Secret: e.Secret, Why: "right"}))
	m.retime(w, r, tp, m.contracts[e.ID])
	return tp
}

func (m *Module) genClaimAdv(w *engine.World, r *engine.Rand) *engine.TxPlan {
	ids := m.openIDs()
	eve := m.cfg.Eve
	if len(m.seen) > 0 && r.Bool(0.6) {
		s := m.seen[r.Intn(len(m.seen))]
		sb, err := hex.DecodeString(s.Secret)
		if err != nil {
			return nil
		}
		// the eavesdropper tries a secret it saw on every open contract it could open: hash
		// lock and timestamp are public
		var fits []string
		for _, id := range ids {
			c := m.open[id]
			if hexOf(hashLockOf(sb, c.Timestamp)) == c.HashLock {
				fits = append(fits, id)
			}
		}
		switch {
		case len(fits) > 0 && !r.Bool(m.cfg.PEveOther):
			id := fits[r.Intn(len(fits))]
			tp := engine.Tx1(engine.NewOp(Name, "claim_adv", eve, claimArgs{ID: id, Secret: s.Secret, Why: "eve-fits"}))
			m.retime(w, r, tp, m.contracts[id])
			return tp
		case len(ids) > 0 && r.Bool(0.5):
			// the seen secret on somebody else's contract
			id := ids[r.Intn(len(ids))]
			return engine.Tx1(engine.NewOp(Name, "claim_adv", eve, claimArgs{ID: id, Secret: s.Secret, Why: "eve-other"}))
		default:
			// plain replay of what it saw
			return engine.Tx1(engine.NewOp(Name, "claim_adv", eve, claimArgs{ID: s.ID, Secret: s.Secret, Why: "eve-replay"}))
		}
	}
	if len(ids) == 0 {
		return nil
	}
	id := ids[r.Intn(len(ids))]
	c := m.open[id]
	secret := hexOf(r.Bytes(32))
	why := "wrong-random"
	if b := m.bookByID[id]; b != nil && r.Bool(0.4) {
		// nearly right: one bit flipped
		sb, _ := hex.DecodeString(b.Secret)
		if len(sb) == 32 {
			sb[r.Intn(32)] ^= 1 << uint(r.Intn(8))
			secret, why = hexOf(sb), "wrong-bitflip"
		}
	} else if r.Bool(0.3) {
		// the hash lock itself offered as the secret
		secret, why = c.HashLock, "wrong-hashlock"
	}
	actor := eve
	if r.Bool(0.3) {
		actor = m.anyActor(w, r)
	}
	tp := engine.Tx1(engine.NewOp(Name, "claim_adv", actor, claimArgs{ID: id, Secret: strings.ToLower(secret), Why: why}))
	m.retime(w, r, tp, c)
	return tp
}

func (m *Module) genDonate(w *engine.World, r *engine.Rand) *engine.TxPlan {
	pool := append([]string{}, m.cfg.PlainDenoms...)
	for _, a := range m.par {
		pool = append(pool, a.Denom)
	}
	d := pool[r.Intn(len(pool))]
	actor := m.anyActor(w, r)
	have := w.Bal(w.A(actor).Addr.String(), d)
	if have.Sign() == 0 {
		return nil
	}
	amt := r.BigLogUniform(m.bits(d))
	if amt.Cmp(have) > 0 {
		amt = have
	}
	return engine.Tx1(engine.NewOp(Name, "donate", actor, donateArgs{Denom: d, Amt: amt.String()}))
}

func (m *Module) bookedSupply(denom string) *big.Int {
	am := m.assets[denom]
	if am == nil {
		return new(big.Int)
	}
	in, _ := m.openSums(denom)
	return new(big.Int).Add(am.Cur, in)
}

func (m *Module) genParams(w *engine.World, r *engine.Rand) *engine.TxPlan {
	next := append([]AssetCfg{}, m.par...)
	why := ""
	pick := func() int { return r.Intn(len(next)) }
	kind := r.Intn(12)
	if len(next) == 0 {
		kind = 10
	}
	reactivate := -1
	for i := range next {
		if !next[i].Active && r.Bool(0.6) {
			reactivate = i
		}
	}
	if reactivate >= 0 {
		kind = 5
	}
	switch kind {
	case 0:
		i := pick()
		l := bigOf(next[i].Limit)
		next[i].Limit = new(big.Int).Add(l, new(big.Int).Mul(bigOf(next[i].MaxSwap), big.NewInt(1+r.Int63n(20)))).String()
		why = "raise-limit"
	case 1:
		i := pick()
		booked := m.bookedSupply(next[i].Denom)
		l := new(big.Int).Add(booked, new(big.Int).Mul(bigOf(next[i].MaxSwap), big.NewInt(r.Int63n(4))))
		why = "lower-limit"
		if r.Bool(m.cfg.PHarsh) {
			// below what is already booked: a valid parameter set all the same
			l = r.BigBelow(new(big.Int).Add(booked, big.NewInt(1)))
			why = "lower-limit-below-booked"
		}
		next[i].Limit = l.String()
		if bigOf(next[i].TimeLimit).Cmp(l) > 0 {
			next[i].TimeLimit = l.String()
		}
	case 2:
		i := pick()
		next[i].TimeLimited = !next[i].TimeLimited
		why = "toggle-time-limited"
	case 3:
		i := pick()
		next[i].PeriodNs = m.cfg.Periods[r.Intn(len(m.cfg.Periods))]
		why = "period"
	case 4:
		i := pick()
		tl := new(big.Int).Mul(bigOf(next[i].MaxSwap), big.NewInt(1+r.Int63n(6)))
		if r.Bool(0.2) {
			tl = r.BigBelow(new(big.Int).Add(bigOf(next[i].MaxSwap), big.NewInt(1)))
		}
		if tl.Cmp(bigOf(next[i].Limit)) > 0 {
			tl = bigOf(next[i].Limit)
		}
		next[i].TimeLimit = tl.String()
		why = "time-limit"
	case 5:
		i := pick()
		if reactivate >= 0 {
			i = reactivate
		}
		next[i].Active = !next[i].Active
		why = "toggle-active"
	case 6:
		i := pick()
		d := m.cfg.Deputies[r.Intn(len(m.cfg.Deputies))]
		if r.Bool(0.15) {
			d = m.user(r)
		}
		next[i].Deputy = w.A(d).Addr.String()
		why = "deputy"
	case 7:
		i := pick()
		next[i].Fee = r.BigBelow(new(big.Int).Add(new(big.Int).Rsh(bigOf(next[i].MaxSwap), 2), big.NewInt(1))).String()
		why = "fee"
	case 8:
		i := pick()
		mx := new(big.Int).Add(r.BigBelow(pow2(m.bits(next[i].Denom))), big.NewInt(1))
		mn := new(big.Int).Add(r.BigBelow(mx), big.NewInt(1))
		if r.Bool(0.5) {
			mn = big.NewInt(1)
		}
		next[i].MinSwap, next[i].MaxSwap = mn.String(), mx.String()
		why = "swap-range"
	case 9:
		i := pick()
		next[i].MinLock = genMinLock + uint64(r.Intn(12))
		next[i].MaxLock = next[i].MinLock + uint64(r.Intn(60))
		if r.Bool(0.3) {
			next[i].MaxLock = genMaxLock
		}
		why = "lock-range"
	case 10:
		// add a spare asset or bring a removed one back
		var cand []AssetCfg
		for _, s := range m.cfg.Spare {
			cand = append(cand, s.AssetCfg)
		}
		cand = append(cand, m.removed...)
		var add *AssetCfg
		for _, c := range cand {
			found := false
			for _, n := range next {
				if n.Denom == c.Denom {
					found = true
				}
			}
			if !found {
				cc := c
				add = &cc
				break
			}
		}
		if add == nil {
			return nil
		}
		next = append(next, *add)
		why = "add-asset"
	case 11:
		if !r.Bool(m.cfg.PHarsh) || len(next) == 0 {
			// an invalid set: must be refused whoever sends it
			i := pick()
			switch r.Intn(4) {
			case 0:
				next[i].TimeLimit = new(big.Int).Add(bigOf(next[i].Limit), big.NewInt(1)).String()
			case 1:
				next[i].MinLock = genMinLock - 1
			case 2:
				next[i].MinSwap = "0"
			default:
				next[i].Limit = "-1"
			}
			why = "invalid"
		} else {
			i := pick()
			m.removed = append(m.removed, next[i])
			next = append(next[:i], next[i+1:]...)
			why = "remove-asset"
		}
	}
	a := paramArgs{Assets: next, Why: why, Authority: w.Governor().Addr.String()}
	actor := w.Governor().Idx
	kindName := "params"
	if r.Bool(m.cfg.PStranger) {
		// a stranger tries, honestly naming itself or naming the governor
		actor = m.anyActor(w, r)
		kindName = "params_adv"
		if r.Bool(0.5) {
			a.Authority = w.A(actor).Addr.String()
		}
	} else if why == "invalid" {
		kindName = "params_adv"
	}
	tp := engine.Tx1(engine.NewOp(Name, kindName, actor, a))
	tp.NoOOG = true
	return tp
}

func (m *Module) Gen(w *engine.World, r *engine.Rand) *engine.TxPlan {
	if m.cfg.Burst > 0 && !m.burstDone && w.Height >= w.Base()+4 {
		return m.genBurst(w, r)
	}
	if r.Bool(m.cfg.PParam) {
		return m.genParams(w, r)
	}
	switch r.Weighted(m.cfg.Weights) {
	case 0:
		return m.genCreatePlain(w, r)
	case 1:
		return m.genCreateIn(w, r)
	case 2:
		return m.genCreateOut(w, r)
	case 3:
		return m.genCreateAdv(w, r)
	case 4:
		return m.genClaim(w, r)
	case 5:
		return m.genClaimAdv(w, r)
	case 6:
		return m.genDonate(w, r)
	}
	return nil
}

func (m *Module) Build(w *engine.World, op *engine.Op) (sdk.Msg, error) {
	sender := w.A(op.Actor).Addr.String()
	switch {
	case strings.HasPrefix(op.Kind, "create"):
		var a createArgs
		op.Decode(&a)
		return &htlctypes.MsgCreateHTLC{Sender: sender, To: a.To, ReceiverOnOtherChain: a.RecvOther,
			SenderOnOtherChain: a.SendOther, Amount: toCoins(a.Amount).sdk(), HashLock: a.HashLock,
			Timestamp: a.Timestamp, TimeLock: a.TimeLock, Transfer: a.Transfer}, nil
	case strings.HasPrefix(op.Kind, "claim"):
		var a claimArgs
		op.Decode(&a)
		return &htlctypes.MsgClaimHTLC{Sender: sender, Id: a.ID, Secret: a.Secret}, nil
	case strings.HasPrefix(op.Kind, "params"):
		var a paramArgs
		op.Decode(&a)
		return &htlctypes.MsgUpdateParams{Authority: a.Authority, Params: sdkParams(a.Assets)}, nil
	case op.Kind == "donate":
		var a donateArgs
		op.Decode(&a)
		if !m.escrowLive && !m.cfg.EarlyDonate {
			return nil, fmt.Errorf("escrow account not in use yet")
		}
		return engine.BankSendMsg(w.A(op.Actor).Addr, addr(escrow),
			sdk.NewCoins(sdk.Coin{Denom: a.Denom, Amount: engine.Int(bigOf(a.Amt))})), nil
	}
	return nil, fmt.Errorf("unknown op %s", op.Kind)
}

// MaxDue: the largest expiry height of an open contract that lies within reach of the run
// (contracts locked for thousands of blocks are judged as "still open" at the end).
func (m *Module) MaxDue(w *engine.World) int64 {
	var mx int64
	for _, c := range m.open {
		if c.Expiry-c.Created <= 200 && c.Expiry > mx {
			mx = c.Expiry
		}
	}
	return mx
}

// Epilogue: the far-locked contracts that are still open are claimed with their secrets.
func (m *Module) Epilogue(w *engine.World, r *engine.Rand) []*engine.TxPlan {
	var out []*engine.TxPlan
	for _, id := range m.openIDs() {
		if b := m.bookByID[id]; b != nil && r.Bool(0.7) {
			out = append(out, engine.Tx1(engine.NewOp(Name, "claim", m.anyActor(w, r), claimArgs{ID: id, Secret: b.Secret, Why: "epilogue"})))
		}
	}
	return out
}
