package htlc

import (
	"encoding/binary"
	"encoding/hex"
	"fmt"
	"math/big"
	"sort"
	"strings"

	storetypes "cosmossdk.io/store/types"
	tmbytes "github.com/cometbft/cometbft/libs/bytes"
	sdk "github.com/cosmos/cosmos-sdk/types"

	htlctypes "mods.irisnet.org/modules/htlc/types"

	"verif/sim/engine"
)

func (m *Module) OnCommit(w *engine.World) {
	ctx := w.Node.Ctx()
	k := w.Node.K.HTLC

	// ---- parameters (C16): stored = last accepted authority update, and valid -------------
	got := k.GetParams(ctx)
	same := len(got.AssetParams) == len(m.par)
	if same {
		for i, a := range got.AssetParams {
			if cfgOfSDK(a) != m.par[i] {
				same = false
			}
		}
	}
	if !same {
		w.Violate("C16", "params-drift/htlc", "stored htlc params %v differ from the last accepted authority update %v", got, m.par)
		var next []AssetCfg
		for _, a := range got.AssetParams {
			next = append(next, cfgOfSDK(a))
		}
		m.installParams(w, next)
	}
	if err := got.Validate(); err != nil {
		w.Violate("C16", "invalid-stored/htlc", "stored htlc params fail the module's own validation: %v", err)
	}

	m.checkStates(w, ctx)
	m.checkEscrow(w, ctx)
	m.checkAssets(w, ctx)
	QueueCheck(w)

	var n [3][3]int
	for _, c := range m.contracts {
		n[c.Dir][c.State]++
	}
	w.State("htlc", n, len(m.par))
}

// checkStates is C03(d): "a contract's state only ever goes open->completed or
// open->refunded" — the module's record of every contract equals the model's after every
// block, and the module knows no contract the model did not see created.
func (m *Module) checkStates(w *engine.World, ctx sdk.Context) {
	k := w.Node.K.HTLC
	seen := 0
	k.IterateHTLCs(ctx, func(idb tmbytes.HexBytes, h htlctypes.HTLC) bool {
		id := strings.ToUpper(idb.String())
		c := m.contracts[id]
		if c == nil {
			w.Violate("C03", "state/unknown-contract", "the module stores contract %s (state %s, sender %s, amount %s) that no accepted creation produced", id, h.State, h.Sender, h.Amount)
			return false
		}
		seen++
		w.Hit("C03.state_checks")
		wantState := []htlctypes.HTLCState{htlctypes.Open, htlctypes.Completed, htlctypes.Refunded}[c.State]
		if h.State != wantState {
			w.Violate("C03", fmt.Sprintf("state/%s-is-%s/%s", stateName[c.State], strings.ToLower(h.State.String()), dirName[c.Dir]),
				"after block %d contract %s is %s in the module; model: %s, exits %v", w.Height, id, h.State, describe(c), c.Exits)
			// reported; follow the module from here so that one defect is not reported under
			// every later comparison as well
			m.adoptState(c, h)
		}
		wantDir := []htlctypes.SwapDirection{htlctypes.None, htlctypes.Incoming, htlctypes.Outgoing}[c.Dir]
		if strings.ToUpper(h.Id) != id || h.Sender != c.Sender || h.To != c.To || h.Amount.String() != c.Amount.String() ||
			strings.ToLower(h.HashLock) != c.HashLock || h.Timestamp != c.Timestamp || int64(h.ExpirationHeight) != c.Expiry ||
			h.Transfer != c.Transfer || h.Direction != wantDir {
			w.Violate("C03", "state/record-mismatch/"+dirName[c.Dir], "contract %s stored as %v; model: sender %s to %s amount %s, %s", id, h, c.Sender, c.To, c.Amount, describe(c))
		}
		switch c.State {
		case stCompleted:
			if strings.ToLower(h.Secret) != c.Secret || int64(h.ClosedBlock) != c.Closed {
				w.Violate("C03", "state/closing-data/completed", "completed contract %s stores secret %s closed at %d; it was claimed with %s at height %d", id, h.Secret, h.ClosedBlock, c.Secret, c.Closed)
			}
		case stRefunded:
			if h.Secret != "" || int64(h.ClosedBlock) != c.Closed {
				w.Violate("C03", "state/closing-data/refunded", "refunded contract %s stores secret %q closed at %d; it expired at height %d", id, h.Secret, h.ClosedBlock, c.Closed)
			}
		default:
			if h.Secret != "" || h.ClosedBlock != 0 {
				w.Violate("C03", "state/closing-data/open", "open contract %s stores secret %q closed at %d", id, h.Secret, h.ClosedBlock)
			}
		}
		return false
	})
	if seen != len(m.contracts) {
		for _, id := range m.order {
			if _, found := k.GetHTLC(ctx, mustHex(id)); !found {
				w.Violate("C03", "state/contract-missing", "contract %s (%s) is not stored by the module after block %d", id, describe(m.contracts[id]), w.Height)
				break
			}
		}
	}
	// the query surface agrees with the store for the contracts touched in this block
	for _, id := range engine.SortedKeys(m.touched) {
		c := m.contracts[id]
		if c == nil {
			continue
		}
		res, err := k.HTLC(ctx, &htlctypes.QueryHTLCRequest{Id: id})
		if err != nil || res.Htlc == nil {
			w.Violate("C03", "state/query-failed", "HTLC query for %s failed: %v", id, err)
			continue
		}
		wantState := []htlctypes.HTLCState{htlctypes.Open, htlctypes.Completed, htlctypes.Refunded}[c.State]
		if res.Htlc.State != wantState {
			w.Violate("C03", "state/query-state", "HTLC query reports %s for contract %s; model: %s", res.Htlc.State, id, describe(c))
		}
	}
}

// adoptState makes the model follow the module after a reported state mismatch.
func (m *Module) adoptState(c *contract, h htlctypes.HTLC) {
	switch h.State {
	case htlctypes.Open:
		c.State = stOpen
		m.open[c.ID] = c
	case htlctypes.Completed:
		c.State, c.Secret, c.Closed = stCompleted, strings.ToLower(h.Secret), int64(h.ClosedBlock)
		delete(m.open, c.ID)
	case htlctypes.Refunded:
		c.State, c.Secret, c.Closed = stRefunded, "", int64(h.ClosedBlock)
		delete(m.open, c.ID)
	}
}

func mustHex(s string) []byte {
	b, err := hex.DecodeString(s)
	if err != nil {
		engine.Fatal("htlc: bad hex %q", s)
	}
	return b
}

// checkEscrow is C04's first sentence: "At every block boundary the HTLC escrow account holds
// exactly the sum of the amounts of all open ordinary contracts and open outgoing cross-chain
// transfers" (what the harness itself donated to the account is subtracted).
func (m *Module) checkEscrow(w *engine.World, ctx sdk.Context) {
	want := map[string]*big.Int{}
	for _, c := range m.open {
		if c.Dir == dirIn {
			continue
		}
		for _, cn := range c.Amount {
			addTo(want, cn.D, cn.A)
		}
	}
	have := map[string]*big.Int{}
	for _, c := range w.Node.App.BankKeeper.GetAllBalances(ctx, addr(escrow)) {
		have[c.Denom] = c.Amount.BigInt()
	}
	w.Hit("C04.escrow_checks")
	for _, d := range unionKeys(unionMap(want, m.donations), have) {
		h, wv, don := have[d], want[d], m.donations[d]
		if h == nil {
			h = new(big.Int)
		}
		if wv == nil {
			wv = new(big.Int)
		}
		if don == nil {
			don = new(big.Int)
		}
		if new(big.Int).Sub(h, don).Cmp(wv) != 0 {
			w.Violate("C04", "escrow/"+escrowShape(h, don, wv), "after block %d the escrow holds %s%s (of which %s donated by the harness); open ordinary + outgoing contracts amount to %s",
				w.Height, h, d, don, wv)
		}
	}
}

func escrowShape(h, don, want *big.Int) string {
	if new(big.Int).Sub(h, don).Cmp(want) > 0 {
		return "surplus"
	}
	return "shortfall"
}

func unionMap(a, b map[string]*big.Int) map[string]*big.Int {
	out := map[string]*big.Int{}
	for k, v := range a {
		out[k] = v
	}
	for k, v := range b {
		if out[k] == nil {
			out[k] = v
		}
	}
	return out
}

// checkAssets: counters, bank supply and limits per asset.
func (m *Module) checkAssets(w *engine.World, ctx sdk.Context) {
	k := w.Node.K.HTLC
	res, err := k.AssetSupplies(ctx, &htlctypes.QueryAssetSuppliesRequest{})
	if err != nil {
		w.Violate("C04", "counters/query-failed", "AssetSupplies query failed: %v", err)
		return
	}
	recs := map[string]htlctypes.AssetSupply{}
	for _, s := range res.AssetSupplies {
		recs[s.CurrentSupply.Denom] = s
		if m.assets[s.CurrentSupply.Denom] == nil {
			w.Violate("C04", "counters/unknown-asset", "the module keeps a supply record for %s, which was never an asset", s.CurrentSupply.Denom)
		}
	}
	for _, d := range engine.SortedKeys(m.assets) {
		am := m.assets[d]
		rec, ok := recs[d]
		if !ok {
			if am.HasRecord {
				w.Violate("C04", "counters/record-missing", "no supply record for asset %s after block %d", d, w.Height)
			}
			continue
		}
		sfx := ""
		if !am.Supported {
			sfx = "/removed-asset"
		}
		in, out := m.openSums(d)
		w.Hit("C04.counter_checks")
		// "the recorded incoming and outgoing totals equal the sums over open transfers of that direction"
		if rec.IncomingSupply.Amount.BigInt().Cmp(in) != 0 {
			w.Violate("C04", "counters/incoming"+sfx, "asset %s after block %d: recorded incoming %s, open incoming transfers amount to %s", d, w.Height, rec.IncomingSupply.Amount, in)
		}
		if rec.OutgoingSupply.Amount.BigInt().Cmp(out) != 0 {
			w.Violate("C04", "counters/outgoing"+sfx, "asset %s after block %d: recorded outgoing %s, open outgoing transfers amount to %s", d, w.Height, rec.OutgoingSupply.Amount, out)
		}
		// "the recorded current supply equals coins minted by completed incoming transfers minus
		// coins burned by completed outgoing ones"
		if rec.CurrentSupply.Amount.BigInt().Cmp(am.Cur) != 0 {
			w.Violate("C04", "counters/current"+sfx, "asset %s after block %d: recorded current supply %s, initial + completed incoming - completed outgoing = %s", d, w.Height, rec.CurrentSupply.Amount, am.Cur)
			am.Cur = rec.CurrentSupply.Amount.BigInt() // reported; follow the module from here
		}
		// "(which is the denom's whole bank supply when the asset enters the chain only this way)":
		// in this scenario every asset denom exists only as its initial supply (booked as current
		// supply at genesis) plus what transfers mint and burn
		bank := w.Node.App.BankKeeper.GetSupply(ctx, d).Amount.BigInt()
		w.Hit("C04.supply_checks")
		if bank.Cmp(am.Cur) != 0 || bank.Cmp(rec.CurrentSupply.Amount.BigInt()) != 0 {
			w.Violate("C04", "bank-supply"+sfx, "asset %s after block %d: bank supply %s, recorded current supply %s, model %s", d, w.Height, bank, rec.CurrentSupply.Amount, am.Cur)
		}
		if !am.Supported {
			continue
		}
		// "while the asset's parameters are unchanged current plus incoming never exceeds its total limit"
		sum := new(big.Int).Add(rec.CurrentSupply.Amount.BigInt(), rec.IncomingSupply.Amount.BigInt())
		w.Hit("C04.limit_checks")
		if sum.Cmp(am.Allowed) > 0 {
			w.Violate("C04", "limit/total/boundary", "asset %s after block %d: current %s + incoming %s exceeds %s (limit %s; the sum when these parameters came into force was not larger)",
				d, w.Height, rec.CurrentSupply.Amount, rec.IncomingSupply.Amount, am.Allowed, am.Par.Limit)
		}
		// ratchet: once the sum is back under what it was, it may not return
		am.Allowed = new(big.Int).Set(am.Par.Limit)
		if sum.Cmp(am.Allowed) > 0 {
			am.Allowed = sum
		}
		// the module's own account of the current window agrees with the model's windows: the
		// time accumulated in the window, and (for a window opened under the parameters in
		// force) the amount completed in it
		if am.PhaseUnknown > 0 {
			if am.PhaseUnknown == 1 {
				// first record after the block begin that followed the asset's (re-)addition
				am.Elapsed, am.PhaseUnknown, am.WinClean = int64(rec.TimeElapsed), 0, false
				w.Hit("htlc.window_phase_adopted")
			}
			continue
		}
		w.Hit("C04.window_checks")
		if int64(rec.TimeElapsed) != am.Elapsed {
			w.Violate("C04", "window/elapsed", "asset %s after block %d (period %dns, time-limited %v): the module is %dns into its limit window, the block times put it %dns into it",
				d, w.Height, am.Par.Period, am.Par.TimeLimited, int64(rec.TimeElapsed), am.Elapsed)
		}
		if am.Par.TimeLimited && am.WinClean && rec.TimeLimitedCurrentSupply.Amount.BigInt().Cmp(am.WinCompleted) != 0 {
			w.Violate("C04", "window/completed-amount", "asset %s after block %d: the module counts %s completed in the current limit window, incoming transfers completed since it opened amount to %s",
				d, w.Height, rec.TimeLimitedCurrentSupply.Amount, am.WinCompleted)
		}
		if am.Par.TimeLimited && rec.TimeLimitedCurrentSupply.Amount.BigInt().Cmp(am.Par.TimeLimit) > 0 && am.WinClean {
			w.Violate("C04", "limit/time-based/boundary", "asset %s after block %d: %s completed in the current limit window, time-based limit %s", d, w.Height, rec.TimeLimitedCurrentSupply.Amount, am.Par.TimeLimit)
		}
	}
}

// QueueCheck is C13's queue hygiene for HTLC, by raw iteration over the expiry queue with the
// module's exported key prefix: the queue is exactly {(expiry, id) | contract open}, and
// nothing sits at a height that has already passed.
func QueueCheck(w *engine.World) {
	m, ok := w.Mod(Name).(*Module)
	if !ok || m == nil {
		return
	}
	ctx := w.Node.Ctx()
	store := ctx.KVStore(w.Node.App.GetKey(htlctypes.StoreKey))
	it := storetypes.KVStorePrefixIterator(store, htlctypes.HTLCExpiredQueueKey)
	defer it.Close()
	inQueue := map[string]int64{}
	w.Hit("C13.htlc_queue_checks")
	for ; it.Valid(); it.Next() {
		key := it.Key()
		if len(key) < 9 {
			w.Violate("C13", "queue/htlc/malformed-key", "expiry queue key %x is shorter than prefix+height", key)
			continue
		}
		h := int64(binary.BigEndian.Uint64(key[1:9]))
		id := strings.ToUpper(fmt.Sprintf("%x", key[9:]))
		if h <= w.Height {
			w.Violate("C13", "queue/htlc/stale-entry", "after block %d the expiry queue still holds (%d, %s): %s", w.Height, h, id, describe(m.contracts[id]))
		}
		c := m.open[id]
		switch {
		case c == nil:
			w.Violate("C13", "queue/htlc/entry-not-open", "after block %d the expiry queue holds (%d, %s) but the contract is not open: %s", w.Height, h, id, describe(m.contracts[id]))
		case c.Expiry != h:
			w.Violate("C13", "queue/htlc/wrong-height", "the expiry queue holds contract %s at height %d, it expires at %d", id, h, c.Expiry)
		}
		if _, dup := inQueue[id]; dup {
			w.Violate("C13", "queue/htlc/duplicate-entry", "contract %s is queued twice", id)
		}
		inQueue[id] = h
	}
	ids := make([]string, 0, len(m.open))
	for id := range m.open {
		ids = append(ids, id)
	}
	sort.Strings(ids)
	for _, id := range ids {
		if _, ok := inQueue[id]; !ok {
			w.Violate("C13", "queue/htlc/open-not-queued", "after block %d open contract %s (expiry %d) has no expiry queue entry", w.Height, id, m.open[id].Expiry)
		}
	}
}

// Final is C03(e): over the executed history every contract that was claimed or whose
// expiration height has passed left escrow exactly once, every other contract not at all,
// and what left equals what entered (per denom, over the closed contracts).
func (m *Module) Final(w *engine.World) {
	closedIn := map[string]*big.Int{}
	closedOut := map[string]*big.Int{}
	for _, id := range m.order {
		c := m.contracts[id]
		w.Hit("C03.final_checks")
		due := c.Expiry <= w.Height
		switch {
		case len(c.Exits) > 1:
			w.Violate("C03", "history/exits-more-than-once/"+dirName[c.Dir], "contract %s left escrow %d times: %v (%s)", id, len(c.Exits), c.Exits, describe(c))
		case len(c.Exits) == 0 && (due || c.State != stOpen):
			w.Violate("C03", "history/no-exit/"+dirName[c.Dir], "contract %s never left escrow although %s; history ended at height %d", id, describe(c), w.Height)
		case len(c.Exits) == 1 && c.State == stOpen:
			w.Violate("C03", "history/exit-while-open/"+dirName[c.Dir], "contract %s left escrow (%v) and is still open", id, c.Exits)
		}
		if c.Dir == dirIn {
			continue
		}
		for _, cn := range c.Amount {
			if c.State != stOpen {
				addTo(closedIn, cn.D, cn.A)
			}
			for range c.Exits {
				addTo(closedOut, cn.D, cn.A)
			}
		}
	}
	for _, d := range unionKeys(closedIn, closedOut) {
		i, o := closedIn[d], closedOut[d]
		if i == nil {
			i = new(big.Int)
		}
		if o == nil {
			o = new(big.Int)
		}
		if i.Cmp(o) != 0 {
			w.Violate("C03", "history/conservation", "over the whole history closed contracts locked %s%s and %s%s left escrow", i, d, o, d)
		}
	}
}
