//go:build go1.25

//go:debug asynctimerchan=0
package htlc

import (
	"os"
	"testing"

	"verif/sim/engine/devtest"
)

func TestDev(t *testing.T) {
	Register()
	if p := os.Getenv("DEV_REPLAY"); p != "" {
		devtest.Replay(t, p)
		return
	}
	prop := os.Getenv("DEV_PROP")
	if prop == "" {
		prop = "C03"
	}
	devtest.Run(t, prop, 20)
}
