//go:build go1.25

//go:debug asynctimerchan=0
package mt

import (
	"fmt"
	"os"
	"strings"
	"testing"

	"verif/sim/engine"
	"verif/sim/engine/devtest"
)

func TestDev(t *testing.T) {
	Register()
	if p := os.Getenv("DEV_REPLAY"); p != "" {
		devtest.Replay(t, p)
		return
	}
	prop := os.Getenv("DEV_PROP")
	if prop == "" {
		prop = "C15"
	}
	devtest.Run(t, prop, 20)
}

// TestReplayRoundTrip: a generated run and the literal replay of its recorded schedule (no
// PRNG) must execute the same history and reach the same oracle counters.
func TestReplayRoundTrip(t *testing.T) {
	Register()
	for i := 0; i < 6; i++ {
		seed := engine.Mix(4242, "C15", uint64(i))
		a := devtest.Bubble(t, engine.RunSpec{Property: "C15", Seed: seed})
		if a.Harness != "" {
			t.Fatalf("seed %d: %s", seed, a.Harness)
		}
		b := devtest.Bubble(t, engine.RunSpec{Property: "C15", Seed: seed, Replay: a.Schedule.Clone()})
		if b.Harness != "" {
			t.Fatalf("replay of seed %d: %s", seed, b.Harness)
		}
		if a.Fingerprint != b.Fingerprint || a.Txs != b.Txs || len(a.Violations) != len(b.Violations) {
			t.Errorf("seed %d: run %s/%d txs/%d violations, replay %s/%d txs/%d violations", seed, a.Fingerprint, a.Txs, len(a.Violations), b.Fingerprint, b.Txs, len(b.Violations))
		}
		for k, v := range a.Counts {
			if (strings.HasPrefix(k, "C15.") || strings.HasPrefix(k, Name+".") || strings.HasPrefix(k, "op.")) && b.Counts[k] != v {
				t.Errorf("seed %d: counter %s: run %d, replay %d", seed, k, v, b.Counts[k])
			}
		}
		fmt.Printf("seed %d: %d txs, fingerprint %s, replay agrees\n", seed, a.Txs, a.Fingerprint)
	}
}
