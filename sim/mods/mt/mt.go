// Package mt is the multi-token workload and the oracle of C15 (Σ balances = supply, exact
// movements, no wrap-around, class-owner authority, generated ids never reused).
package mt

import (
	"bytes"
	"encoding/json"
	"fmt"
	"math/big"
	"strings"

	sdk "github.com/cosmos/cosmos-sdk/types"
	"github.com/cosmos/cosmos-sdk/types/query"

	mttypes "mods.irisnet.org/modules/mt/types"

	"verif/sim/engine"
)

const (
	Name = "mt"
	Prop = "C15"
	// keep: metadata value of an edit that leaves the stored metadata as it is
	keep = "[do-not-modify]"
)

var (
	maxU64 = new(big.Int).SetUint64(^uint64(0))
	two63  = new(big.Int).Lsh(big.NewInt(1), 63)
	one    = big.NewInt(1)
)

// Config is the per-run swarm configuration.
type Config struct {
	MaxClasses int     `json:"max_classes"`
	MaxTokens  int     `json:"max_tokens_per_class"`
	PRightful  float64 `json:"p_rightful"`
	PSelf      float64 `json:"p_self"`
	PFresh     float64 `json:"p_fresh_recipient"`
	PDefault   float64 `json:"p_default_recipient"` // mint without naming a recipient
	PUnknown   float64 `json:"p_unknown_object"`
	PHuge      float64 `json:"p_huge_first_mint"` // first mint of a token near the type's limit
	AmtWeights []int   `json:"amount_weights"`
	Weights    []int   `json:"weights"` // issue, mint-new, mint-more, edit, transfer, burn, handover
}

// ---- reference model -------------------------------------------------------------------

type mtoken struct {
	ID     string
	Label  string
	Supply *big.Int
	Data   []byte
	Bal    map[string]*big.Int
}

type mclass struct {
	ID     string
	Label  string
	Owner  string
	Prev   []string
	Tokens map[string]*mtoken // by real id
	order  []string           // token ids in creation order
}

// Module implements engine.Module.
type Module struct {
	engine.Base
	cfg        Config
	classes    map[string]*mclass // by real id
	byLabel    map[string]*mclass
	tokByLabel map[string]*mtoken
	tokClass   map[string]*mclass // token label -> its class
	order      []string           // class labels in creation order
	seenClass  map[string]bool
	seenToken  map[string]bool
	fresh      []string
}

func New() *Module {
	return &Module{classes: map[string]*mclass{}, byLabel: map[string]*mclass{}, tokByLabel: map[string]*mtoken{},
		tokClass: map[string]*mclass{}, seenClass: map[string]bool{}, seenToken: map[string]bool{}}
}

func (m *Module) Name() string { return Name }

func (m *Module) Configure(w *engine.World, r *engine.Rand) any {
	c := Config{
		MaxClasses: 1 + r.Intn(4),
		MaxTokens:  1 + r.Intn(4),
		PRightful:  0.4 + 0.5*r.Float(),
		PSelf:      0.3 * r.Float(),
		PFresh:     0.15 * r.Float(),
		PDefault:   0.5 * r.Float(),
		PUnknown:   0.08 * r.Float(),
		PHuge:      r.Float(),
	}
	// amount kinds: 0, 1, 2^63, 2^64-1, all held, held+1, held-1, room left, room+1, log-uniform, below held
	c.AmtWeights = []int{r.Intn(2), 1 + r.Intn(3), 1 + r.Intn(3), 1 + r.Intn(3), 1 + r.Intn(4), 1 + r.Intn(4), r.Intn(3),
		1 + r.Intn(4), 1 + r.Intn(4), 1 + r.Intn(6), 2 + r.Intn(8)}
	c.Weights = []int{1, 2 + r.Intn(3), 2 + r.Intn(5), 1 + r.Intn(3), 4 + r.Intn(8), 2 + r.Intn(5), r.Intn(3)}
	if r.Bool(0.7) && c.Weights[6] == 0 {
		c.Weights[6] = 1
	}
	return c
}

func (m *Module) LoadConfig(w *engine.World, raw json.RawMessage) {
	if err := json.Unmarshal(raw, &m.cfg); err != nil {
		engine.Fatal("mt config: %v", err)
	}
	if mttypes.DoNotModify != keep {
		engine.Fatal("mt: the message format's keep-value is %q, the harness assumes %q", mttypes.DoNotModify, keep)
	}
	for len(m.cfg.Weights) < 7 {
		m.cfg.Weights = append(m.cfg.Weights, 1)
	}
	for len(m.cfg.AmtWeights) < 11 {
		m.cfg.AmtWeights = append(m.cfg.AmtWeights, 1)
	}
	for i := 0; i < 3; i++ {
		m.fresh = append(m.fresh, sdk.AccAddress([]byte(fmt.Sprintf("mt-fresh-holder-%04d", i))).String())
	}
}

// ---- operations ------------------------------------------------------------------------

// Args serves every op kind. Class / Token are labels ("c<op id>", "t<op id>": the class or
// token created by that op); a label starting with "!" is a literal id (never generated).
type Args struct {
	Class     string `json:"class,omitempty"`
	Token     string `json:"token,omitempty"` // mint: "" = create a new token
	Amount    string `json:"amount,omitempty"`
	Data      string `json:"data,omitempty"`
	Name      string `json:"name,omitempty"`
	Recipient string `json:"recipient,omitempty"` // mint: "" = the module's default (the sender)
}

func bigOf(s string) *big.Int {
	if s == "" {
		return new(big.Int)
	}
	v, ok := new(big.Int).SetString(s, 10)
	if !ok {
		engine.Fatal("bad integer %q", s)
	}
	return v
}

func clamp(v *big.Int) *big.Int {
	if v.Sign() < 0 {
		return new(big.Int)
	}
	if v.Cmp(maxU64) > 0 {
		return new(big.Int).Set(maxU64)
	}
	return v
}

// amount draws a message amount (always representable in 64 bits) around the held balance
// and the room left below the type's limit.
func (m *Module) amount(r *engine.Rand, held, supply *big.Int) *big.Int {
	k := r.Weighted(m.cfg.AmtWeights)
	if k == 0 {
		// zero: refused before the ante handler (no sequence increment, so the signer's later
		// transactions of the block are lost too) - kept rare
		return new(big.Int)
	}
	v := m.amountOf(r, k, held, supply)
	if v.Sign() == 0 {
		return big.NewInt(1)
	}
	return v
}

func (m *Module) amountOf(r *engine.Rand, k int, held, supply *big.Int) *big.Int {
	room := new(big.Int).Sub(maxU64, supply)
	switch k {
	case 0:
		return new(big.Int)
	case 1:
		return big.NewInt(1)
	case 2:
		return new(big.Int).Set(two63)
	case 3:
		return new(big.Int).Set(maxU64)
	case 4:
		return clamp(new(big.Int).Set(held))
	case 5:
		return clamp(new(big.Int).Add(held, one))
	case 6:
		return clamp(new(big.Int).Sub(held, one))
	case 7:
		return clamp(room)
	case 8:
		return clamp(new(big.Int).Add(room, one))
	case 9:
		return clamp(r.BigLogUniform(64))
	default:
		if held.Sign() > 0 {
			return new(big.Int).Add(r.BigBelow(held), one)
		}
		return clamp(r.BigLogUniform(64))
	}
}

func (m *Module) actorIdx(w *engine.World, addr string) (int, bool) {
	if a := w.ActorOf(addr); a != nil && a.Idx != w.Governor().Idx {
		return a.Idx, true
	}
	return 0, false
}

func (m *Module) recipient(w *engine.World, r *engine.Rand, sender int) string {
	nAct := len(w.Actors) - 1
	switch {
	case r.Bool(m.cfg.PSelf):
		return w.A(sender).Addr.String()
	case r.Bool(m.cfg.PFresh):
		return m.fresh[r.Intn(len(m.fresh))]
	default:
		return w.A(r.Intn(nAct)).Addr.String()
	}
}

// classOwnerOrNot: the sender of a class-owner-only operation.
func (m *Module) classOwnerOrNot(w *engine.World, r *engine.Rand, c *mclass) int {
	nAct := len(w.Actors) - 1
	if a, ok := m.actorIdx(w, c.Owner); ok && r.Bool(m.cfg.PRightful) {
		return a
	}
	if len(c.Prev) > 0 && r.Bool(0.5) {
		if a, ok := m.actorIdx(w, c.Prev[len(c.Prev)-1]); ok {
			return a
		}
	}
	return r.Intn(nAct)
}

// holderOrNot: the sender of a transfer or burn; mostly somebody who holds the token.
func (m *Module) holderOrNot(w *engine.World, r *engine.Rand, t *mtoken) int {
	nAct := len(w.Actors) - 1
	if r.Bool(0.5 + m.cfg.PRightful/2) {
		var hs []int
		for _, h := range engine.SortedKeys(t.Bal) {
			if a, ok := m.actorIdx(w, h); ok && t.Bal[h].Sign() > 0 {
				hs = append(hs, a)
			}
		}
		if len(hs) > 0 {
			return hs[r.Intn(len(hs))]
		}
	}
	return r.Intn(nAct)
}

func bal(t *mtoken, addr string) *big.Int {
	if v := t.Bal[addr]; v != nil {
		return v
	}
	return new(big.Int)
}

var datas = []string{"", "d1", "d2", `{"k":1}`, "\x00\x01bin/é"}

func (m *Module) Gen(w *engine.World, r *engine.Rand) *engine.TxPlan {
	nAct := len(w.Actors) - 1
	if len(m.order) == 0 || (len(m.order) < m.cfg.MaxClasses && r.Bool(0.15)) {
		return engine.Tx1(engine.NewOp(Name, "issue", r.Intn(nAct), Args{Name: fmt.Sprintf("class %d", r.Intn(3)), Data: datas[r.Intn(len(datas))]}))
	}
	c := m.byLabel[m.order[r.Intn(len(m.order))]]
	classLabel := c.Label
	var t *mtoken
	if len(c.order) > 0 {
		t = c.Tokens[c.order[r.Intn(len(c.order))]]
	}
	tokLabel := "!00ff00ff"
	if t != nil {
		tokLabel = t.Label
	}
	if r.Bool(m.cfg.PUnknown) {
		switch r.Intn(3) {
		case 0:
			classLabel = "!0123456789abcdef" // a class id nobody was given
		case 1:
			tokLabel = "!00ff00ff" // a token id nobody was given
		default:
			// a token of another class
			o := m.byLabel[m.order[r.Intn(len(m.order))]]
			if len(o.order) > 0 {
				tokLabel = o.Tokens[o.order[r.Intn(len(o.order))]].Label
			}
		}
	}
	kind := r.Weighted(m.cfg.Weights)
	if kind == 0 && len(m.order) >= m.cfg.MaxClasses && !r.Bool(0.05) {
		kind = 4
	}
	if t == nil && kind >= 2 && kind <= 5 {
		kind = 1
	}
	if kind == 1 && len(c.order) >= m.cfg.MaxTokens && t != nil {
		kind = 2
	}
	switch kind {
	case 0:
		return engine.Tx1(engine.NewOp(Name, "issue", r.Intn(nAct), Args{Name: fmt.Sprintf("class %d", r.Intn(3)), Data: datas[r.Intn(len(datas))]}))
	case 1: // mint a new token
		actor := m.classOwnerOrNot(w, r, c)
		var amt *big.Int
		if r.Bool(m.cfg.PHuge) {
			// start near the limit so that later mints overflow and transfers move huge amounts
			amt = new(big.Int).Sub(maxU64, big.NewInt(r.Int63n(4)))
			if r.Bool(0.3) {
				amt = new(big.Int).Set(two63)
			}
		} else {
			amt = m.amount(r, new(big.Int), new(big.Int))
		}
		a := Args{Class: classLabel, Amount: amt.String(), Data: datas[r.Intn(len(datas))]}
		if !r.Bool(m.cfg.PDefault) {
			a.Recipient = m.recipient(w, r, actor)
		}
		return engine.Tx1(engine.NewOp(Name, "mint", actor, a))
	case 2: // mint more of an existing token
		actor := m.classOwnerOrNot(w, r, c)
		a := Args{Class: classLabel, Token: tokLabel}
		if !r.Bool(m.cfg.PDefault) {
			a.Recipient = m.recipient(w, r, actor)
		}
		to := a.Recipient
		if to == "" {
			to = w.A(actor).Addr.String()
		}
		a.Amount = m.amount(r, bal(t, to), t.Supply).String()
		return engine.Tx1(engine.NewOp(Name, "mint", actor, a))
	case 3: // edit
		d := datas[r.Intn(len(datas))]
		if r.Bool(0.25) {
			d = keep
		}
		return engine.Tx1(engine.NewOp(Name, "edit", m.classOwnerOrNot(w, r, c), Args{Class: classLabel, Token: tokLabel, Data: d}))
	case 4: // transfer
		actor := m.holderOrNot(w, r, t)
		a := Args{Class: classLabel, Token: tokLabel, Recipient: m.recipient(w, r, actor)}
		a.Amount = m.amount(r, bal(t, w.A(actor).Addr.String()), t.Supply).String()
		return engine.Tx1(engine.NewOp(Name, "transfer", actor, a))
	case 5: // burn
		actor := m.holderOrNot(w, r, t)
		a := Args{Class: classLabel, Token: tokLabel}
		a.Amount = m.amount(r, bal(t, w.A(actor).Addr.String()), t.Supply).String()
		return engine.Tx1(engine.NewOp(Name, "burn", actor, a))
	default: // class handover
		actor := m.classOwnerOrNot(w, r, c)
		to := w.A(r.Intn(nAct)).Addr.String()
		return engine.Tx1(engine.NewOp(Name, "handover", actor, Args{Class: classLabel, Recipient: to}))
	}
}

func (m *Module) resolve(w *engine.World, label string) (string, error) {
	if strings.HasPrefix(label, "!") {
		return label[1:], nil
	}
	if v, ok := w.Resolve("mt/" + label); ok {
		return v, nil
	}
	return "", fmt.Errorf("%s not created (yet)", label)
}

func (m *Module) Build(w *engine.World, op *engine.Op) (sdk.Msg, error) {
	sender := w.A(op.Actor).Addr.String()
	var a Args
	op.Decode(&a)
	if op.Kind == "issue" {
		return &mttypes.MsgIssueDenom{Name: a.Name, Data: []byte(a.Data), Sender: sender}, nil
	}
	classID, err := m.resolve(w, a.Class)
	if err != nil {
		return nil, err
	}
	tokID := ""
	if a.Token != "" {
		if tokID, err = m.resolve(w, a.Token); err != nil {
			return nil, err
		}
	}
	amt := bigOf(a.Amount)
	if !amt.IsUint64() {
		return nil, fmt.Errorf("amount %s does not fit the message field", amt)
	}
	switch op.Kind {
	case "mint":
		msg := &mttypes.MsgMintMT{Id: tokID, DenomId: classID, Amount: amt.Uint64(), Sender: sender, Recipient: a.Recipient}
		if tokID == "" {
			msg.Data = []byte(a.Data)
		}
		return msg, nil
	case "edit":
		return &mttypes.MsgEditMT{Id: tokID, DenomId: classID, Data: []byte(a.Data), Sender: sender}, nil
	case "transfer":
		return &mttypes.MsgTransferMT{Id: tokID, DenomId: classID, Amount: amt.Uint64(), Sender: sender, Recipient: a.Recipient}, nil
	case "burn":
		return &mttypes.MsgBurnMT{Id: tokID, DenomId: classID, Amount: amt.Uint64(), Sender: sender}, nil
	case "handover":
		return &mttypes.MsgTransferDenom{Id: classID, Sender: sender, Recipient: a.Recipient}, nil
	}
	return nil, fmt.Errorf("unknown op %s", op.Kind)
}

// ---- oracle: verdicts ------------------------------------------------------------------

type verdict int

const (
	either verdict = iota
	mustAccept
	mustReject
)

// lookup resolves the op's labels against the reference model (nil = no such object).
func (m *Module) lookup(a Args) (c *mclass, t *mtoken) {
	if !strings.HasPrefix(a.Class, "!") {
		c = m.byLabel[a.Class]
	}
	if c != nil && a.Token != "" && !strings.HasPrefix(a.Token, "!") {
		if tt := m.tokByLabel[a.Token]; tt != nil && c.Tokens[tt.ID] == tt {
			t = tt
		}
	}
	return
}

// judge decides, from the reference model alone, what the property says about a message.
func (m *Module) judge(kind, sender string, a Args) (verdict, string) {
	c, t := m.lookup(a)
	amt := bigOf(a.Amount)
	switch kind {
	case "issue":
		return mustAccept, "issue"
	case "handover":
		// "Only the owner of a class can ... hand the class over"
		if c == nil {
			return mustReject, "unknown-class"
		}
		if c.Owner != sender {
			return mustReject, "not-class-owner"
		}
		return mustAccept, "class-owner"
	case "mint", "edit":
		// "Only the owner of a class can create or mint its tokens, edit their metadata"
		if c == nil {
			return mustReject, "unknown-class"
		}
		if c.Owner != sender {
			return mustReject, "not-class-owner"
		}
		if kind == "edit" {
			if t == nil {
				return mustReject, "unknown-token"
			}
			return mustAccept, "class-owner"
		}
		if a.Token != "" && t == nil {
			// minting "more" of an id the module never generated for this class would
			// create a token outside "generated class and token ids"
			return mustReject, "unknown-token"
		}
		if amt.Sign() == 0 {
			return either, "zero-amount"
		}
		if t != nil {
			// "no balance or supply ever wraps around"
			if new(big.Int).Add(t.Supply, amt).Cmp(maxU64) > 0 {
				return mustReject, "supply-overflow"
			}
		}
		return mustAccept, "class-owner"
	case "transfer", "burn":
		// "transfers ... require the sender to hold it"; burns reduce the burner's balance
		held := new(big.Int)
		if t != nil {
			held = bal(t, sender)
		}
		if amt.Sign() == 0 {
			return either, "zero-amount"
		}
		if held.Cmp(amt) < 0 {
			if t == nil {
				return mustReject, "unknown-token"
			}
			return mustReject, "insufficient-balance"
		}
		return mustAccept, "holder"
	}
	return either, "?"
}

func (m *Module) OnTx(w *engine.World, tx *engine.TxRecord) {
	// an injected failure (gas limit, block gas, a failing tail message appended by the
	// transport) "did not happen"; that it left no trace is what OnCommit compares
	if tx.Infra {
		return
	}
	if len(tx.Plan.Ops) != 1 || tx.Plan.Ops[0].Mod != Name {
		return
	}
	op := tx.Plan.Ops[0]
	sender := w.A(op.Actor).Addr.String()
	var a Args
	op.Decode(&a)
	v, why := m.judge(op.Kind, sender, a)
	w.Hit("C15.verdict_checks")
	if !tx.OK() {
		if v == mustAccept {
			w.Violate(Prop, "refused/"+op.Kind+"/"+why, "%s by %s (op %d, args %s) is rightful by the reference model (%s; %s) but was rejected: %s/%d %s",
				op.Kind, sender, op.ID, op.Args, why, m.describe(a, sender), tx.Codespace, tx.Code, tx.Log)
		}
		if v == mustReject {
			m.probeRejected(w, op.Kind, why, sender, a)
		}
		return
	}
	if v == mustReject {
		w.Violate(Prop, "accepted/"+op.Kind+"/"+why, "%s by %s (op %d, args %s) was accepted although the reference model forbids it (%s); model: %s",
			op.Kind, sender, op.ID, op.Args, why, m.describe(a, sender))
	}
	m.apply(w, tx, op, sender, a)
}

func (m *Module) describe(a Args, sender string) string {
	c, t := m.lookup(a)
	if c == nil {
		return "class unknown"
	}
	s := fmt.Sprintf("class %s owner %s", c.ID, c.Owner)
	if t != nil {
		s += fmt.Sprintf("; token %s supply %s, sender holds %s", t.ID, t.Supply, bal(t, sender))
		if a.Recipient != "" {
			s += fmt.Sprintf(", recipient holds %s", bal(t, a.Recipient))
		}
	} else if a.Token != "" {
		s += "; token " + a.Token + " unknown in this class"
	}
	return s
}

func (m *Module) probeRejected(w *engine.World, kind, why, sender string, a Args) {
	switch kind + "/" + why {
	case "mint/not-class-owner":
		w.Hit("mt.stranger_mint_rejected")
	case "edit/not-class-owner":
		w.Hit("mt.stranger_edit_rejected")
	case "handover/not-class-owner":
		w.Hit("mt.stranger_handover_rejected")
	case "mint/supply-overflow":
		w.Hit("mt.overflowing_mint_rejected")
		_, t := m.lookup(a)
		if t != nil && new(big.Int).Add(t.Supply, bigOf(a.Amount)).Cmp(new(big.Int).Add(maxU64, one)) == 0 {
			w.Hit("mt.overflow_by_one_rejected")
		}
	case "transfer/insufficient-balance":
		w.Hit("mt.overdrawn_transfer_rejected")
	case "burn/insufficient-balance":
		w.Hit("mt.overdrawn_burn_rejected")
	case "transfer/unknown-token", "burn/unknown-token", "mint/unknown-token", "edit/unknown-token":
		w.Hit("mt.op_on_unknown_token_rejected")
	}
	if why == "insufficient-balance" {
		_, t := m.lookup(a)
		if t != nil && new(big.Int).Add(bal(t, sender), one).Cmp(bigOf(a.Amount)) == 0 {
			w.Hit("mt.underflow_by_one_rejected")
		}
	}
	if why == "not-class-owner" {
		if c, _ := m.lookup(a); c != nil {
			for _, p := range c.Prev {
				if p == sender {
					w.Hit("mt.former_owner_rejected")
					break
				}
			}
		}
	}
}

func attrOf(tx *engine.TxRecord, typ, key string) (string, bool) {
	return engine.EventAttr(tx.Events, typ, key)
}

// apply drives the reference model with an accepted message.
func (m *Module) apply(w *engine.World, tx *engine.TxRecord, op *engine.Op, sender string, a Args) {
	c, t := m.lookup(a)
	amt := bigOf(a.Amount)
	switch op.Kind {
	case "issue":
		id, ok := attrOf(tx, mttypes.EventTypeIssueDenom, mttypes.AttributeKeyDenomID)
		if !ok || id == "" {
			w.Violate(Prop, "issue/id-not-reported", "accepted class creation (op %d) reports no class id in its events", op.ID)
			return
		}
		// "generated class and token ids are never reused"
		w.Hit("C15.id_checks")
		if m.seenClass[id] {
			w.Violate(Prop, "id-reuse/class", "class creation (op %d by %s) was given id %s, which an earlier class of this run already has", op.ID, sender, id)
			return
		}
		m.seenClass[id] = true
		label := fmt.Sprintf("c%d", op.ID)
		nc := &mclass{ID: id, Label: label, Owner: sender, Tokens: map[string]*mtoken{}}
		m.classes[id] = nc
		m.byLabel[label] = nc
		m.order = append(m.order, label)
		w.Label("mt/"+label, id)
		w.Hit("mt.class_issued")
	case "handover":
		if c == nil {
			return
		}
		if a.Recipient != c.Owner {
			c.Prev = append(c.Prev, c.Owner)
		}
		c.Owner = a.Recipient
		w.Hit("mt.handover")
	case "edit":
		if t == nil {
			return
		}
		if a.Data != keep {
			t.Data = []byte(a.Data)
		} else {
			w.Hit("mt.edit_keep")
		}
		w.Hit("mt.edited")
	case "mint":
		if c == nil {
			return
		}
		to := a.Recipient
		if to == "" {
			to = sender
			w.Hit("mt.mint_default_recipient")
		}
		if a.Token == "" {
			id, ok := attrOf(tx, mttypes.EventTypeMintMT, mttypes.AttributeKeyMTID)
			if !ok || id == "" {
				w.Violate(Prop, "mint/id-not-reported", "accepted creation of a token (op %d) reports no token id in its events", op.ID)
				return
			}
			w.Hit("C15.id_checks")
			if m.seenToken[id] {
				w.Violate(Prop, "id-reuse/token", "token creation (op %d in class %s) was given id %s, which an earlier token of this run already has", op.ID, c.ID, id)
				return
			}
			m.seenToken[id] = true
			label := fmt.Sprintf("t%d", op.ID)
			nt := &mtoken{ID: id, Label: label, Supply: new(big.Int).Set(amt), Data: []byte(a.Data), Bal: map[string]*big.Int{to: new(big.Int).Set(amt)}}
			c.Tokens[id] = nt
			c.order = append(c.order, id)
			m.tokByLabel[label] = nt
			m.tokClass[label] = c
			w.Label("mt/"+label, id)
			w.Hit("mt.token_created")
			if amt.Cmp(two63) >= 0 {
				w.Hit("mt.huge_amount_moved")
			}
			return
		}
		if t == nil {
			return
		}
		t.Supply = new(big.Int).Add(t.Supply, amt)
		t.Bal[to] = new(big.Int).Add(bal(t, to), amt)
		w.Hit("mt.minted_more")
		if t.Supply.Cmp(maxU64) == 0 {
			w.Hit("mt.supply_at_limit")
		}
		if to != sender {
			w.Hit("mt.mint_to_other")
		}
	case "transfer":
		if t == nil {
			return
		}
		// "transfers move exactly the stated amount from sender to recipient"
		t.Bal[sender] = new(big.Int).Sub(bal(t, sender), amt)
		t.Bal[a.Recipient] = new(big.Int).Add(bal(t, a.Recipient), amt)
		w.Hit("mt.transferred")
		if a.Recipient == sender {
			w.Hit("mt.transfer_to_self")
		}
		if t.Bal[sender].Sign() == 0 {
			w.Hit("mt.transfer_of_everything")
		}
		if amt.Cmp(two63) >= 0 {
			w.Hit("mt.huge_amount_moved")
		}
	case "burn":
		if t == nil {
			return
		}
		// "burns reduce the burner's balance and the supply by the same amount"
		t.Bal[sender] = new(big.Int).Sub(bal(t, sender), amt)
		t.Supply = new(big.Int).Sub(t.Supply, amt)
		w.Hit("mt.burned")
		if t.Supply.Sign() == 0 {
			w.Hit("mt.burned_to_zero_supply")
		}
	}
}

// ---- oracle: queries vs model ----------------------------------------------------------

func u(v uint64) *big.Int { return new(big.Int).SetUint64(v) }

func (m *Module) OnCommit(w *engine.World) {
	if len(m.classes) == 0 {
		return
	}
	ctx := w.Node.Ctx()
	k := w.Node.K.MT
	// every balance the module stores, whoever holds it: the exported state
	stored := map[string]map[string]*big.Int{} // class/token -> holder -> amount
	for _, o := range k.ExportGenesisState(ctx).Owners {
		for _, d := range o.Denoms {
			for _, b := range d.Balances {
				key := d.DenomId + "/" + b.MtId
				if stored[key] == nil {
					stored[key] = map[string]*big.Int{}
				}
				if stored[key][o.Address] == nil {
					stored[key][o.Address] = new(big.Int)
				}
				stored[key][o.Address].Add(stored[key][o.Address], u(b.Amount))
			}
		}
	}
	known := map[string]bool{}
	for _, label := range m.order {
		c := m.byLabel[label]
		w.Hit("C15.query_checks")
		dr, err := k.Denom(ctx, &mttypes.QueryDenomRequest{DenomId: c.ID})
		if err != nil || dr.Denom == nil {
			w.Violate(Prop, "query/class-missing", "class %s was created (owner %s) but the class query fails: %v", c.ID, c.Owner, err)
			continue
		}
		if dr.Denom.Owner != c.Owner {
			w.Violate(Prop, "query/class-owner", "class %s: reported owner %s, by the accepted creation/handover messages %s", c.ID, dr.Denom.Owner, c.Owner)
		}
		// the class's tokens
		listed := map[string]mttypes.MT{}
		var next []byte
		for page := 0; page < 1000; page++ {
			mr, err := k.MTs(ctx, &mttypes.QueryMTsRequest{DenomId: c.ID, Pagination: &query.PageRequest{Key: next, Limit: 100}})
			if err != nil {
				w.Violate(Prop, "query/tokens-fails", "token list query of class %s fails: %v", c.ID, err)
				break
			}
			for _, x := range mr.Mts {
				listed[x.Id] = x
			}
			if mr.Pagination == nil || len(mr.Pagination.NextKey) == 0 {
				break
			}
			next = mr.Pagination.NextKey
		}
		for _, id := range engine.SortedKeys(listed) {
			if c.Tokens[id] == nil {
				w.Violate(Prop, "query/token-unexpected", "class %s lists token %s (supply %d) which no accepted message created", c.ID, id, listed[id].Supply)
			}
		}
		for _, id := range c.order {
			t := c.Tokens[id]
			key := c.ID + "/" + id
			known[key] = true
			x, ok := listed[id]
			if !ok {
				w.Violate(Prop, "query/token-missing", "class %s: token %s (supply %s) is not listed", c.ID, id, t.Supply)
				continue
			}
			w.Hit("C15.supply_checks")
			// "any stored ... supply != model value (a wrap-around) is a violation"
			sr, err := k.MTSupply(ctx, &mttypes.QueryMTSupplyRequest{DenomId: c.ID, MtId: id})
			if err != nil {
				w.Violate(Prop, "query/supply-fails", "supply query of %s fails: %v", key, err)
				continue
			}
			if u(sr.Amount).Cmp(t.Supply) != 0 {
				w.Violate(Prop, "supply/vs-model", "token %s: reported supply %d, by the accepted mints and burns %s", key, sr.Amount, t.Supply)
			}
			if x.Supply != sr.Amount {
				w.Violate(Prop, "supply/list-vs-query", "token %s: the token list says supply %d, the supply query %d", key, x.Supply, sr.Amount)
			}
			if !bytes.Equal(x.Data, t.Data) {
				w.Violate(Prop, "query/token-metadata", "token %s: reported metadata %q, by the accepted creation/edit messages of the class owner %q", key, x.Data, t.Data)
			}
			// "the sum of all holders' balances equals its recorded supply"
			sum := new(big.Int)
			for _, h := range engine.SortedKeys(stored[key]) {
				sum.Add(sum, stored[key][h])
				if stored[key][h].Cmp(bal(t, h)) != 0 {
					w.Violate(Prop, "balance/vs-model", "token %s: %s's stored balance %s, by the accepted messages %s", key, h, stored[key][h], bal(t, h))
				}
			}
			for _, h := range engine.SortedKeys(t.Bal) {
				if stored[key][h] == nil && t.Bal[h].Sign() != 0 {
					w.Violate(Prop, "balance/vs-model", "token %s: %s has no stored balance, by the accepted messages %s", key, h, t.Bal[h])
				}
			}
			if sum.Cmp(u(sr.Amount)) != 0 {
				w.Violate(Prop, "supply/vs-balances", "token %s: reported supply %d, sum of all stored balances %s (%d holders)", key, sr.Amount, sum, len(stored[key]))
			}
		}
		// the balance query agrees with the model for every party the model knows
		holders := map[string]bool{}
		for _, id := range c.order {
			for h := range c.Tokens[id].Bal {
				holders[h] = true
			}
		}
		for _, h := range engine.SortedKeys(holders) {
			got := map[string]*big.Int{}
			var next []byte
			for page := 0; page < 1000; page++ {
				br, err := k.Balances(ctx, &mttypes.QueryBalancesRequest{Owner: h, DenomId: c.ID, Pagination: &query.PageRequest{Key: next, Limit: 100}})
				if err != nil {
					w.Violate(Prop, "query/balances-fails", "balance query of %s in class %s fails: %v", h, c.ID, err)
					break
				}
				for _, b := range br.Balance {
					got[b.MtId] = u(b.Amount)
				}
				if br.Pagination == nil || len(br.Pagination.NextKey) == 0 {
					break
				}
				next = br.Pagination.NextKey
			}
			for _, id := range c.order {
				g := got[id]
				if g == nil {
					g = new(big.Int)
				}
				if g.Cmp(bal(c.Tokens[id], h)) != 0 {
					w.Violate(Prop, "balance/query-vs-model", "token %s/%s: balance query of %s says %s, by the accepted messages %s", c.ID, id, h, g, bal(c.Tokens[id], h))
				}
			}
		}
		oi, _ := m.actorIdx(w, c.Owner)
		for _, id := range c.order {
			t := c.Tokens[id]
			w.State("mt", label, oi, t.Label, t.Supply.BitLen(), len(t.Bal))
		}
	}
	// balances of tokens no accepted message created
	for _, key := range engine.SortedKeys(stored) {
		if known[key] {
			continue
		}
		for _, h := range engine.SortedKeys(stored[key]) {
			if stored[key][h].Sign() != 0 {
				w.Violate(Prop, "balance/of-unknown-token", "%s holds %s of %s, a token no accepted message created", h, stored[key][h], key)
			}
		}
	}
}
