package mt

import "verif/sim/engine"

// Register installs the mt profile and the property it decides.
func Register() {
	engine.RegisterProfile(&engine.Profile{
		Name: "mt",
		Mods: func() []engine.Module { return []engine.Module{New()} },
		Tune: func(c *engine.EngineConfig, r *engine.Rand) {
			c.OpsPerBlock = 1.5 + 5*r.Float()
		},
	})
	engine.RegisterProperty(&engine.Property{
		ID: "C15", Profile: "mt",
		NonTrivial: func(c map[string]int64) bool {
			moved := c["mt.transferred"] + c["mt.burned"] + c["mt.minted_more"]
			refused := c["mt.overdrawn_transfer_rejected"] + c["mt.overdrawn_burn_rejected"] + c["mt.overflowing_mint_rejected"] +
				c["mt.stranger_mint_rejected"] + c["mt.stranger_edit_rejected"] + c["mt.stranger_handover_rejected"]
			return c["C15.verdict_checks"] > 10 && c["C15.supply_checks"] > 0 && moved > 1 && refused > 0
		},
		Probes: []string{"C15.verdict_checks", "C15.query_checks", "C15.supply_checks", "C15.id_checks",
			"mt.token_created", "mt.minted_more", "mt.mint_to_other", "mt.mint_default_recipient", "mt.edited", "mt.edit_keep",
			"mt.transferred", "mt.transfer_to_self", "mt.transfer_of_everything", "mt.burned", "mt.burned_to_zero_supply",
			"mt.handover", "mt.huge_amount_moved", "mt.supply_at_limit",
			"mt.overflowing_mint_rejected", "mt.overflow_by_one_rejected", "mt.overdrawn_transfer_rejected", "mt.overdrawn_burn_rejected",
			"mt.underflow_by_one_rejected", "mt.stranger_mint_rejected", "mt.stranger_edit_rejected", "mt.stranger_handover_rejected",
			"mt.former_owner_rejected", "mt.op_on_unknown_token_rejected"},
		Rule: "a run is non-trivial when more than ten messages had their outcome compared with the reference ledger's verdict, at least one of them refused for lack of balance, overflow or lack of authority, more than one accepted mint-more / transfer / burn moved amounts, and stored supplies and balances were compared with the ledger at least once; distinct = different fingerprint of the executed (operation kind, outcome class) sequence",
	})
}
