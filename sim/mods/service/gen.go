package servicemod

import (
	"encoding/hex"
	"fmt"
	"math/big"
	"time"

	sdk "github.com/cosmos/cosmos-sdk/types"
	authtypes "github.com/cosmos/cosmos-sdk/x/auth/types"

	svctypes "mods.irisnet.org/modules/service/types"

	"verif/sim/engine"
)

// ---- operation arguments -------------------------------------------------------------------------

type defineArgs struct {
	Name string `json:"name"`
}

type bindArgs struct {
	Service  string  `json:"service"`
	Provider int     `json:"provider"` // actor index
	Deposit  string  `json:"deposit"`
	Pr       Pricing `json:"pricing"`
	QoS      uint64  `json:"qos"`
}

type updBindArgs struct {
	Service  string   `json:"service"`
	Provider int      `json:"provider"`
	Deposit  string   `json:"deposit,omitempty"`
	Pr       *Pricing `json:"pricing,omitempty"`
	QoS      uint64   `json:"qos,omitempty"`
}

type bindRefArgs struct {
	Service  string `json:"service"`
	Provider int    `json:"provider"`
	Deposit  string `json:"deposit,omitempty"` // enable only
}

type setWithdrawArgs struct {
	Addr string `json:"addr"`
}

type withdrawArgs struct {
	Provider string `json:"provider"` // address; "" = all providers of the owner
}

type callArgs struct {
	Service   string   `json:"service"`
	Providers []string `json:"providers"`
	Input     string   `json:"input"`
	FeeCap    string   `json:"fee_cap"`
	Timeout   int64    `json:"timeout"`
	Repeated  bool     `json:"repeated"`
	Freq      uint64   `json:"freq"`
	Total     int64    `json:"total"`
}

type respondArgs struct {
	Ctx    string `json:"ctx"` // label of the creating call op, or the raw context id
	Batch  uint64 `json:"batch"`
	Prov   string `json:"prov"` // the provider the request is addressed to
	Output string `json:"output"`
	Result string `json:"result"`
	Custom bool   `json:"custom,omitempty"` // documents supplied by a registered responder
}

type ctxArgs struct {
	Ctx       string   `json:"ctx"`
	Providers []string `json:"providers,omitempty"`
	FeeCap    string   `json:"fee_cap,omitempty"`
	Timeout   int64    `json:"timeout,omitempty"`
	Freq      uint64   `json:"freq,omitempty"`
	Total     int64    `json:"total,omitempty"`
}

type sendArgs struct {
	To  string `json:"to"`
	Amt string `json:"amt"`
}

type paramArgs struct {
	P         ParamSet `json:"p"`
	Authority string   `json:"authority"`
}

const (
	okResult  = `{"code":200,"message":""}`
	errResult = `{"code":500,"message":"provider failed"}`
	okOutput  = `{"header":{},"body":{}}`
	okInput   = `{"header":{},"body":{}}`
	schemas   = `{"input":{"type":"object"},"output":{"type":"object"}}`
)

func ctxLabel(opID int) string { return fmt.Sprintf("svc.ctx.%d", opID) }

// resolveCtx turns a context reference (label or raw id) into the context id.
func (m *Module) resolveCtx(w *engine.World, ref string) (string, bool) {
	if v, ok := w.Resolve(ref); ok {
		return v, true
	}
	if len(ref) == svctypes.ContextIDLen {
		if _, err := hex.DecodeString(ref); err == nil {
			return ref, true
		}
	}
	return "", false
}

func (m *Module) ctxRef(c *rctx) string {
	if c.Label != "" {
		return c.Label
	}
	return c.ID
}

// ---- helpers -------------------------------------------------------------------------------------

func (m *Module) amount(r *engine.Rand, bits int) *big.Int {
	if bits < 1 {
		bits = 1
	}
	if r.Bool(0.15) {
		return big.NewInt(1 + r.Int63n(9))
	}
	return r.BigLogUniform(bits)
}

func discStr(r *engine.Rand) string {
	switch r.Intn(5) {
	case 0:
		return "500000000000000000"
	case 1:
		return "900000000000000000"
	case 2:
		return "100000000000000000"
	case 3:
		return new(big.Int).Add(r.BigBelow(new(big.Int).Sub(e18, big.NewInt(1))), big.NewInt(1)).String()
	default:
		v := big.NewInt(1 + r.Int63n(99))
		return v.Mul(v, new(big.Int).Exp(big.NewInt(10), big.NewInt(16), nil)).String()
	}
}

func (m *Module) genPricing(w *engine.World, r *engine.Rand) Pricing {
	p := Pricing{Denom: Std, Price: m.amount(r, m.cfg.PriceBits).String()}
	if m.cfg.ZeroPrice && r.Bool(0.3) {
		p.Price = "0"
	}
	if len(m.altDenoms) > 0 && r.Bool(0.35) {
		p.Denom = m.altDenoms[r.Intn(len(m.altDenoms))]
	}
	now := w.Time.Unix()
	if r.Bool(m.cfg.PPromoTime) {
		switch r.Intn(4) {
		case 0: // in force for the whole run
			p.ByTime = []PromoTime{{Start: now - 1000, End: now + 400*86400, Disc: discStr(r)}}
		case 1: // starts soon, ends soon
			s := now + r.Range(1, 120)
			p.ByTime = []PromoTime{{Start: s, End: s + r.Range(5, 600), Disc: discStr(r)}}
		case 2: // already over
			p.ByTime = []PromoTime{{Start: now - 5000, End: now - r.Range(1, 4000), Disc: discStr(r)}}
		default: // two consecutive windows
			s := now - r.Range(0, 60)
			mid := s + r.Range(10, 300)
			p.ByTime = []PromoTime{{Start: s, End: mid, Disc: discStr(r)}, {Start: mid + r.Range(0, 100), End: mid + 100 + r.Range(1, 100000), Disc: discStr(r)}}
		}
	}
	if r.Bool(m.cfg.PPromoVol) {
		v := uint64(1 + r.Intn(3))
		p.ByVol = []PromoVol{{Vol: v, Disc: discStr(r)}}
		if r.Bool(0.5) {
			p.ByVol = append(p.ByVol, PromoVol{Vol: v + uint64(1+r.Intn(4)), Disc: discStr(r)})
		}
	}
	return p
}

func (m *Module) boundOf(service string) []*binding {
	var out []*binding
	for _, k := range m.bindOrd {
		if b := m.bindings[k]; b.Service == service {
			out = append(out, b)
		}
	}
	return out
}

func (m *Module) liveCtxs(own bool) []*rctx {
	var out []*rctx
	for _, id := range m.ctxOrd {
		c := m.ctxs[id]
		if c.Removed || (own && c.Foreign) {
			continue
		}
		out = append(out, c)
	}
	return out
}

func (m *Module) activeReqs() []*request {
	var out []*request
	for _, id := range m.reqOrd {
		if r := m.reqs[id]; r.State == reqActive {
			out = append(out, r)
		}
	}
	return out
}

func (m *Module) doneReqs(state int) []*request {
	var out []*request
	for _, id := range m.reqOrd {
		if r := m.reqs[id]; r.State == state {
			out = append(out, r)
		}
	}
	if len(out) > 12 {
		out = out[len(out)-12:]
	}
	return out
}

// stranger picks an actor other than who (never the governor).
func stranger(w *engine.World, r *engine.Rand, who int) int {
	n := len(w.Actors) - 1
	return (who + 1 + r.Intn(n-1)) % n
}

// AllowEarlyDonation lets the workload send coins to a service module account before the
// chain created it. Under the repository's app config (these accounts are not on the bank's
// blocked list) that plants a plain account at the module address and the next end block
// panics in GetModuleAccount ("account is not a module account") - see NOTES.md. Off by
// default: the run dies there and checks nothing else.
var AllowEarlyDonation = false

func (m *Module) isModuleAccount(w *engine.World, addr string) bool {
	a, err := sdk.AccAddressFromBech32(addr)
	if err != nil {
		return false
	}
	_, ok := w.Node.App.AccountKeeper.GetAccount(w.Node.Ctx(), a).(sdk.ModuleAccountI)
	return ok
}

// ---- generation ----------------------------------------------------------------------------------

func (m *Module) Gen(w *engine.World, r *engine.Rand) *engine.TxPlan {
	if r.Bool(m.cfg.PParam) {
		return m.genParams(w, r)
	}
	var undefined []string
	inFlight := func(k string) bool { h, ok := m.pending[k]; return ok && w.Height < h+6 }
	for _, s := range m.svcs {
		if !m.defs[s] && !inFlight("def|"+s) {
			undefined = append(undefined, s)
		}
	}
	type pair struct {
		s    string
		slot int
	}
	var unbound []pair
	for _, s := range m.svcs {
		if !m.defs[s] {
			continue
		}
		for i, sl := range m.cfg.Slots {
			if k := bkey(s, m.addr(w, sl.Actor)); m.bindings[k] == nil && !inFlight("bind|"+k) {
				unbound = append(unbound, pair{s, i})
			}
		}
	}
	nb := len(m.bindOrd)
	active := m.activeReqs()
	done := len(m.reqOrd) - len(active)
	ctxs := m.liveCtxs(true)
	var disabled, anyEarned int
	for _, k := range m.bindOrd {
		if !m.bindings[k].Available {
			disabled++
		}
	}
	for _, p := range engine.SortedKeys(m.earned) {
		if !m.earned[p].isZero() {
			anyEarned++
		}
	}
	wt := make([]int, 16)
	if len(undefined) > 0 {
		wt[0] = 40
	} else if r.Bool(0.4) {
		wt[0] = 1
	}
	if len(unbound) > 0 {
		wt[1] = 10 + 10*len(unbound)
		if nb >= 2 && float64(nb) >= m.cfg.BindRate*float64(len(m.svcs)*len(m.cfg.Slots)) {
			wt[1] = 3
		}
	} else if nb > 0 {
		wt[1] = 1
	}
	if nb > 0 {
		wt[2] = 16
		if len(ctxs) > 6 {
			wt[2] = 6
		}
		wt[4] = 3
		wt[5] = 2
		wt[8] = 2
	}
	if len(active) > 0 {
		wt[3] = 8 * len(active)
		if wt[3] > 40 {
			wt[3] = 40
		}
	}
	if done > 0 {
		wt[3] += 3
	}
	if disabled > 0 {
		wt[6] = 4 + 5*disabled
		wt[7] = 5
	}
	if anyEarned > 0 {
		wt[9] = 4
	}
	if len(ctxs) > 0 {
		wt[10], wt[11], wt[12], wt[13] = 3, 3, 1, 3
	}
	if m.cfg.PDrain > 0 && nb > 0 {
		wt[14] = 1
		if r.Bool(m.cfg.PDrain * 10) {
			wt[14] = 6
		}
	}
	if m.cfg.Donations && nb > 0 {
		wt[15] = 1
	}
	for try := 0; try < 3; try++ {
		var tp *engine.TxPlan
		switch r.Weighted(wt) {
		case 0:
			name := "svc-zz"
			if len(undefined) > 0 {
				name = undefined[r.Intn(len(undefined))]
				m.pending["def|"+name] = w.Height
			} else if len(m.svcs) > 0 && r.Bool(0.4) {
				name = m.svcs[r.Intn(len(m.svcs))] // defined already: must be refused
			} else {
				m.fresh++
				name = fmt.Sprintf("svc-extra-%d", m.fresh)
			}
			tp = engine.Tx1(engine.NewOp(Name, "define", r.Intn(len(w.Actors)-1), defineArgs{Name: name}))
		case 1:
			if len(unbound) > 0 {
				p := unbound[r.Intn(len(unbound))]
				m.pending["bind|"+bkey(p.s, m.addr(w, m.cfg.Slots[p.slot].Actor))] = w.Height
				tp = m.genBind(w, r, p.s, m.cfg.Slots[p.slot])
			} else if len(m.svcs) > 0 {
				tp = m.genBind(w, r, m.svcs[r.Intn(len(m.svcs))], m.cfg.Slots[r.Intn(len(m.cfg.Slots))])
			}
		case 2:
			tp = m.genCall(w, r)
		case 3:
			tp = m.genRespond(w, r, active)
		case 4:
			tp = m.genUpdateBinding(w, r)
		case 5, 6, 7:
			tp = m.genBindingState(w, r, []string{"disable", "enable", "refund"}[r.Weighted(wt[5:8])])
		case 8:
			tp = m.genSetWithdraw(w, r)
		case 9:
			tp = m.genWithdraw(w, r)
		case 10:
			tp = m.genCtxOp(w, r, "pause", ctxs)
		case 11:
			tp = m.genCtxOp(w, r, "start", ctxs)
		case 12:
			tp = m.genCtxOp(w, r, "kill", ctxs)
		case 13:
			tp = m.genCtxOp(w, r, "update_ctx", ctxs)
		case 14:
			tp = m.genDrain(w, r, ctxs)
		case 15:
			acc := []string{reqAcc, depAcc, colAcc}[r.Intn(3)]
			if !AllowEarlyDonation && !m.isModuleAccount(w, acc) {
				break
			}
			tp = engine.Tx1(engine.NewOp(Name, "donate", r.Intn(len(w.Actors)-1), sendArgs{To: acc, Amt: m.amount(r, 30).String()}))
		}
		if tp != nil {
			return tp
		}
	}
	return nil
}

func (m *Module) genBind(w *engine.World, r *engine.Rand, service string, sl Slot) *engine.TxPlan {
	pr := m.genPricing(w, r)
	if r.Bool(m.cfg.ForeignBind) {
		// needs an exchange rate; without a price feed it must be refused - unless the price
		// is zero, which needs no rate to pass the deposit rule
		pr.Denom = AltDenom
		if r.Bool(0.4) {
			pr.Price = "0"
		}
	}
	need := m.minDepositOf(bigOf(pr.Price))
	if pr.Denom != Std {
		need.Mul(need, big.NewInt(8)) // the exchange rate is the feed's business: be generous
	}
	dep := new(big.Int).Set(need)
	switch r.Intn(10) {
	case 0: // exactly the minimum: the first slash disables the binding
	case 1: // below the minimum
		if dep.Sign() > 0 {
			dep = r.BigBelow(dep)
		}
	case 2, 3:
		dep.Add(dep, m.amount(r, 1+dep.BitLen()))
	default: // comfortable: survives several slashes
		dep.Mul(dep, big.NewInt(2+r.Int63n(6))).Add(dep, m.amount(r, 10))
	}
	if dep.Sign() == 0 && r.Bool(0.7) {
		dep = m.amount(r, 20)
	}
	qos := m.genQoS(r)
	owner := sl.Owner
	if r.Bool(m.cfg.PStranger * 0.3) {
		owner = stranger(w, r, owner) // someone else tries to take the provider under its wing
	}
	return engine.Tx1(engine.NewOp(Name, "bind", owner, bindArgs{Service: service, Provider: sl.Actor,
		Deposit: dep.String(), Pr: pr, QoS: qos}))
}

// genQoS: mostly within the timeouts this run's consumers use, sometimes up to the maximum
// request timeout, rarely beyond it (must be refused).
func (m *Module) genQoS(r *engine.Rand) uint64 {
	maxQ := m.par.MaxRequestTimeout
	qos := uint64(1 + r.Int63n(maxQ))
	if r.Bool(0.8) && m.cfg.MaxTimeout >= 1 {
		qos = uint64(1 + r.Int63n(m.cfg.MaxTimeout))
		if int64(qos) > maxQ {
			qos = uint64(maxQ)
		}
	}
	if r.Bool(0.03) {
		qos = uint64(maxQ) + 1 + uint64(r.Intn(5))
	}
	return qos
}

func (m *Module) pickBinding(r *engine.Rand, filter func(*binding) bool) *binding {
	var c []*binding
	for _, k := range m.bindOrd {
		if b := m.bindings[k]; filter == nil || filter(b) {
			c = append(c, b)
		}
	}
	if len(c) == 0 {
		return nil
	}
	return c[r.Intn(len(c))]
}

func (m *Module) ownerActor(w *engine.World, r *engine.Rand, b *binding) int {
	o := w.ActorOf(b.Owner)
	if o == nil {
		return 0
	}
	if r.Bool(m.cfg.PStranger) {
		return stranger(w, r, o.Idx)
	}
	return o.Idx
}

func (m *Module) genUpdateBinding(w *engine.World, r *engine.Rand) *engine.TxPlan {
	b := m.pickBinding(r, nil)
	if b == nil {
		return nil
	}
	a := updBindArgs{Service: b.Service, Provider: w.ActorOf(b.Provider).Idx}
	switch r.Intn(4) {
	case 0:
		a.Deposit = m.amount(r, 1+b.Deposit.BitLen()).String()
	case 1:
		pr := m.genPricing(w, r)
		a.Pr = &pr
		// usually top the deposit up to what the new price needs
		need := m.minDepositOf(bigOf(pr.Price))
		if pr.Denom != Std {
			need.Mul(need, big.NewInt(8))
		}
		if need.Cmp(b.Deposit) > 0 && r.Bool(0.8) {
			a.Deposit = new(big.Int).Sub(need, b.Deposit).String()
		}
	case 2:
		a.QoS = m.genQoS(r)
	default:
		pr := m.genPricing(w, r)
		a.Pr = &pr
		a.Deposit = new(big.Int).Add(m.minDepositOf(bigOf(pr.Price)), big.NewInt(1)).String()
		a.QoS = m.genQoS(r)
	}
	return engine.Tx1(engine.NewOp(Name, "update_binding", m.ownerActor(w, r, b), a))
}

func (m *Module) genBindingState(w *engine.World, r *engine.Rand, kind string) *engine.TxPlan {
	var b *binding
	switch kind {
	case "disable":
		b = m.pickBinding(r, func(b *binding) bool { return b.Available || r.Bool(0.1) })
	case "refund":
		// mostly when the waiting time after disabling has passed, sometimes too early
		wait := time.Duration(m.par.ArbitrationNs) + time.Duration(m.par.ComplaintNs)
		b = m.pickBinding(r, func(b *binding) bool {
			return !b.Available && b.Deposit.Sign() > 0 && (!w.Time.Before(b.DisabledAt.Add(wait)) || r.Bool(0.03))
		})
		if b == nil && r.Bool(0.04) {
			b = m.pickBinding(r, nil) // out of the blue: available binding, or nothing left to refund
		}
	default:
		b = m.pickBinding(r, func(b *binding) bool { return !b.Available || r.Bool(0.05) })
	}
	if b == nil {
		return nil
	}
	a := bindRefArgs{Service: b.Service, Provider: w.ActorOf(b.Provider).Idx}
	if kind == "enable" && r.Bool(0.85) {
		need := m.minDepositOf(bigOf(b.Pr.Price))
		if r.Bool(0.7) {
			need.Mul(need, big.NewInt(2+r.Int63n(5))) // room for a few slashes
		}
		if need.Cmp(b.Deposit) > 0 {
			a.Deposit = new(big.Int).Sub(need, b.Deposit).String()
		} else if r.Bool(0.3) {
			a.Deposit = m.amount(r, 20).String()
		}
	}
	return engine.Tx1(engine.NewOp(Name, kind, m.ownerActor(w, r, b), a))
}

func (m *Module) owners(w *engine.World) []int {
	seen := map[int]bool{}
	var out []int
	for _, sl := range m.cfg.Slots {
		if !seen[sl.Owner] {
			seen[sl.Owner] = true
			out = append(out, sl.Owner)
		}
	}
	return out
}

func (m *Module) genSetWithdraw(w *engine.World, r *engine.Rand) *engine.TxPlan {
	os := m.owners(w)
	owner := os[r.Intn(len(os))]
	var to string
	switch r.Intn(8) {
	case 0:
		to = m.addr(w, owner)
	case 1:
		to = reqAcc // legal: the earnings then stay in the escrow as a gift
	case 2:
		to = engine.ModAddr(authtypes.FeeCollectorName) // blocked: must be refused
	case 3:
		m.fresh++
		to = sdk.AccAddress([]byte(fmt.Sprintf("svc-withdraw-addr-%03d", m.fresh%1000))).String()
	default:
		to = m.addr(w, stranger(w, r, owner))
	}
	return engine.Tx1(engine.NewOp(Name, "set_withdraw", owner, setWithdrawArgs{Addr: to}))
}

func (m *Module) genWithdraw(w *engine.World, r *engine.Rand) *engine.TxPlan {
	os := m.owners(w)
	owner := os[r.Intn(len(os))]
	// prefer an owner with something to withdraw
	for _, o := range os {
		for _, sl := range m.cfg.Slots {
			if sl.Owner == o && !m.earn(m.addr(w, sl.Actor)).isZero() && r.Bool(0.5) {
				owner = o
			}
		}
	}
	var mine []string
	for _, sl := range m.cfg.Slots {
		if sl.Owner == owner {
			mine = append(mine, m.addr(w, sl.Actor))
		}
	}
	a := withdrawArgs{}
	switch {
	case r.Bool(0.15):
		a.Provider = "" // every provider of the owner at once
	case r.Bool(0.08):
		a.Provider = m.addr(w, m.cfg.Slots[r.Intn(len(m.cfg.Slots))].Actor) // maybe someone else's
	default:
		a.Provider = mine[r.Intn(len(mine))]
		for _, p := range mine {
			if !m.earn(p).isZero() && r.Bool(0.6) {
				a.Provider = p
			}
		}
	}
	actor := owner
	if r.Bool(m.cfg.PStranger) {
		actor = stranger(w, r, owner)
	}
	return engine.Tx1(engine.NewOp(Name, "withdraw", actor, a))
}

func (m *Module) genCall(w *engine.World, r *engine.Rand) *engine.TxPlan {
	var svcs []string
	for _, s := range m.svcs {
		if len(m.boundOf(s)) > 0 {
			svcs = append(svcs, s)
		}
	}
	if len(svcs) == 0 {
		return nil
	}
	s := svcs[r.Intn(len(svcs))]
	bs := m.boundOf(s)
	if r.Bool(0.8) { // mostly ask providers that are open for business
		var av []*binding
		for _, b := range bs {
			if b.Available {
				av = append(av, b)
			}
		}
		if len(av) > 0 {
			bs = av
		}
	}
	a := callArgs{Service: s, Input: okInput}
	maxPrice := new(big.Int)
	var maxQ uint64
	perm := r.Perm(len(bs))
	k := 1 + r.Intn(len(bs))
	for _, i := range perm[:k] {
		a.Providers = append(a.Providers, bs[i].Provider)
		if p := bigOf(bs[i].Pr.Price); p.Cmp(maxPrice) > 0 {
			maxPrice = p
		}
		if bs[i].QoS > maxQ {
			maxQ = bs[i].QoS
		}
	}
	if r.Bool(0.1) { // someone who never bound the service
		extra := m.addr(w, r.Intn(len(w.Actors)-1))
		dup := false
		for _, p := range a.Providers {
			dup = dup || p == extra
		}
		if !dup {
			a.Providers = append(a.Providers, extra)
		}
	}
	switch r.Intn(8) {
	case 0: // tight: exactly the dearest price
		a.FeeCap = maxPrice.String()
	case 1: // below some or all prices
		a.FeeCap = r.BigBelow(new(big.Int).Add(maxPrice, big.NewInt(1))).String()
	default:
		a.FeeCap = new(big.Int).Add(maxPrice, m.amount(r, 1+maxPrice.BitLen())).String()
	}
	if bigOf(a.FeeCap).Sign() == 0 {
		a.FeeCap = "1"
	}
	maxT := m.cfg.MaxTimeout
	if maxT > m.par.MaxRequestTimeout {
		maxT = m.par.MaxRequestTimeout
	}
	if maxT < 1 {
		maxT = 1
	}
	a.Timeout = 1 + r.Int63n(maxT)
	if int64(maxQ) <= m.par.MaxRequestTimeout && int64(maxQ) > a.Timeout && (int64(maxQ) <= maxT+3 || r.Bool(0.15)) && r.Bool(0.8) {
		a.Timeout = int64(maxQ) // long enough for every chosen provider's promised response time
	}
	if r.Bool(0.03) {
		a.Timeout = m.par.MaxRequestTimeout + 1 + r.Int63n(3)
	}
	if r.Bool(m.cfg.PRepeated) {
		a.Repeated = true
		switch r.Intn(4) {
		case 0:
			a.Freq = 0 // defaults to the timeout
		case 1:
			a.Freq = uint64(a.Timeout)
		default:
			a.Freq = uint64(a.Timeout + r.Range(1, 6))
		}
		if r.Bool(0.03) && a.Timeout > 1 {
			a.Freq = uint64(a.Timeout - 1) // invalid
		}
		a.Total = 1 + r.Int63n(5)
		if r.Bool(0.12) {
			a.Total = -1
		}
	}
	consumer := r.Intn(len(w.Actors) - 1)
	tp := engine.Tx1(engine.NewOp(Name, "call", consumer, a))
	if a.Repeated && m.cfg.PCluster > 0 && r.Bool(m.cfg.PCluster) {
		// the same consumer opens two or three contexts with the same rhythm in one block: from
		// then on their batches fall due together and draw on one balance
		tp.At = w.Height + 1
		for i := 1 + r.Intn(2); i > 0; i-- {
			also := engine.Tx1(engine.NewOp(Name, "call", consumer, a))
			also.At = tp.At
			tp.Also = append(tp.Also, also)
		}
		w.Hit("svc.call_cluster")
	}
	return tp
}

func (m *Module) respondOp(w *engine.World, rq *request, signer int, custom bool, output, result string) *engine.Op {
	c := m.ctxs[rq.Ctx]
	ref := rq.Ctx
	if c != nil {
		ref = m.ctxRef(c)
	}
	return engine.NewOp(Name, "respond", signer, respondArgs{Ctx: ref, Batch: rq.Batch, Prov: rq.Provider,
		Output: output, Result: result, Custom: custom})
}

func (m *Module) genRespond(w *engine.World, r *engine.Rand, active []*request) *engine.TxPlan {
	// adversarial shapes first: a second answer, an answer after expiry
	if r.Bool(m.cfg.PDupResp) {
		if done := m.doneReqs(reqAnswered); len(done) > 0 {
			rq := done[r.Intn(len(done))]
			if a := w.ActorOf(rq.Provider); a != nil {
				return engine.Tx1(m.respondOp(w, rq, a.Idx, false, okOutput, okResult))
			}
		}
	}
	if r.Bool(m.cfg.PLateResp) {
		if done := m.doneReqs(reqExpired); len(done) > 0 {
			rq := done[r.Intn(len(done))]
			if a := w.ActorOf(rq.Provider); a != nil {
				return engine.Tx1(m.respondOp(w, rq, a.Idx, false, okOutput, okResult))
			}
		}
	}
	if len(active) == 0 {
		return nil
	}
	rq := active[r.Intn(len(active))]
	pa := w.ActorOf(rq.Provider)
	if pa == nil {
		return nil
	}
	if r.Bool(m.cfg.PWrongProv) {
		return engine.Tx1(m.respondOp(w, rq, stranger(w, r, pa.Idx), false, okOutput, okResult))
	}
	if sl := m.slotOfActor(pa.Idx); sl != nil && !r.Bool(sl.Answer) {
		return nil // this provider lets it pass
	}
	output, result, custom := okOutput, okResult, false
	if f := m.responders[rq.Service]; f != nil {
		o, res, ok := f(w, rq.export())
		if !ok {
			return nil
		}
		output, result, custom = o, res, true
	} else if r.Bool(0.1) {
		output, result = "", errResult // a failure report is a response too
	}
	op := m.respondOp(w, rq, pa.Idx, custom, output, result)
	tp := engine.Tx1(op)
	if m.cfg.PBurst > 0 && r.Bool(m.cfg.PBurst) {
		// the other providers of the same batch answer as well, each in its own transaction
		for _, sib := range active {
			if sib == rq || sib.Ctx != rq.Ctx || sib.Batch != rq.Batch {
				continue
			}
			sa := w.ActorOf(sib.Provider)
			if sa == nil {
				continue
			}
			so, sr, sc := okOutput, okResult, false
			if f := m.responders[sib.Service]; f != nil {
				o, res, ok := f(w, sib.export())
				if !ok {
					continue
				}
				so, sr, sc = o, res, true
			}
			tp.Also = append(tp.Also, engine.Tx1(m.respondOp(w, sib, sa.Idx, sc, so, sr)))
		}
		if len(tp.Also) > 0 {
			w.Hit("svc.batch_answered_in_a_burst")
			return tp
		}
	}
	switch {
	case r.Bool(m.cfg.PEdgeResp):
		tp.At = rq.ExpH // the last block in which the answer is still in time
	case r.Bool(m.cfg.PLateResp):
		tp.At = rq.ExpH + 1 + r.Int63n(2)
	case r.Bool(m.cfg.MultiMsg):
		// the same answer twice in one transaction: the second must sink the whole tx
		tp.Ops = append(tp.Ops, m.respondOp(w, rq, pa.Idx, custom, output, result))
	}
	return tp
}

func (m *Module) genCtxOp(w *engine.World, r *engine.Rand, kind string, ctxs []*rctx) *engine.TxPlan {
	if len(ctxs) == 0 {
		return nil
	}
	var pref []*rctx
	for _, c := range ctxs {
		switch kind {
		case "pause":
			if c.State == ctxRunning && c.Repeated {
				pref = append(pref, c)
			}
		case "start":
			if c.State == ctxPaused {
				pref = append(pref, c)
			}
		default:
			if c.Repeated && c.State != ctxKilled {
				pref = append(pref, c)
			}
		}
	}
	c := ctxs[r.Intn(len(ctxs))]
	if len(pref) > 0 && r.Bool(0.9) {
		c = pref[r.Intn(len(pref))]
	} else if kind == "start" || kind == "kill" {
		if r.Bool(0.7) {
			return nil
		}
	}
	actor := 0
	if a := w.ActorOf(c.Consumer); a != nil {
		actor = a.Idx
	}
	if r.Bool(m.cfg.PStranger) {
		actor = stranger(w, r, actor)
	}
	a := ctxArgs{Ctx: m.ctxRef(c)}
	if kind == "update_ctx" {
		switch r.Intn(5) {
		case 0:
			a.FeeCap = new(big.Int).Add(c.FeeCap, m.amount(r, 1+c.FeeCap.BitLen())).String()
		case 1:
			a.Total = int64(c.Batch) + r.Range(0, 4)
			if r.Bool(0.1) {
				a.Total = -1
			}
		case 2:
			a.Freq = c.Freq + uint64(r.Range(0, 5))
		case 3:
			t := 1 + r.Int63n(m.par.MaxRequestTimeout)
			if uint64(t) > c.Freq && r.Bool(0.8) {
				a.Freq = uint64(t) + uint64(r.Intn(3))
			}
			a.Timeout = t
		default:
			bs := m.boundOf(c.Service)
			if len(bs) > 0 {
				for _, i := range r.Perm(len(bs))[:1+r.Intn(len(bs))] {
					a.Providers = append(a.Providers, bs[i].Provider)
				}
			}
		}
	}
	tp := engine.Tx1(engine.NewOp(Name, kind, actor, a))
	if c.Repeated && c.Batch > 0 && r.Bool(m.cfg.PBoundary) {
		// around the next batch boundary: the block before, the block itself, the block after
		if at := c.BatchStart + int64(c.Freq) + r.Range(-1, 1); at > w.Height {
			tp.At = at
		}
	}
	return tp
}

func (m *Module) genDrain(w *engine.World, r *engine.Rand, ctxs []*rctx) *engine.TxPlan {
	gov := w.Governor()
	// give a drained consumer its money back now and then
	if len(m.drained) > 0 && r.Bool(0.35) {
		for i := 0; i < len(w.Actors)-1; i++ {
			if m.drained[i] {
				tp := engine.Tx1(engine.NewOp(Name, "refill", gov.Idx, sendArgs{To: m.addr(w, i),
					Amt: new(big.Int).Lsh(big.NewInt(1), 100).String()}))
				tp.NoOOG = true
				return tp
			}
		}
	}
	var cands []int
	for _, c := range ctxs {
		if c.Repeated && c.State == ctxRunning {
			if a := w.ActorOf(c.Consumer); a != nil {
				cands = append(cands, a.Idx)
			}
		}
	}
	if len(cands) == 0 {
		return nil
	}
	who := cands[r.Intn(len(cands))]
	bal := w.Bal(m.addr(w, who), Std)
	keep := m.amount(r, m.cfg.PriceBits) // about one price: the next batch may or may not be affordable
	if r.Bool(0.4) {
		keep = new(big.Int)
	}
	amt := new(big.Int).Sub(bal, keep)
	if amt.Sign() <= 0 {
		return nil
	}
	return engine.Tx1(engine.NewOp(Name, "drain", who, sendArgs{To: gov.Addr.String(), Amt: amt.String()}))
}

func (m *Module) genParams(w *engine.World, r *engine.Rand) *engine.TxPlan {
	a := paramArgs{P: sampleParams(r), Authority: w.Governor().Addr.String()}
	if r.Bool(0.5) {
		// keep time limits and the request timeout workable most of the time
		a.P.MaxRequestTimeout = m.par.MaxRequestTimeout
	}
	actor := w.Governor().Idx
	if r.Bool(0.25) {
		actor = r.Intn(len(w.Actors) - 1)
		if r.Bool(0.5) {
			a.Authority = w.A(actor).Addr.String()
		}
	}
	tp := engine.Tx1(engine.NewOp(Name, "params", actor, a))
	tp.NoOOG = true
	return tp
}

// ---- build ---------------------------------------------------------------------------------------

func stake(amt string) sdk.Coins {
	v := bigOf(amt)
	if v.Sign() == 0 {
		return sdk.Coins{}
	}
	return sdk.NewCoins(sdk.NewCoin(Std, engine.Int(v)))
}

func (m *Module) Build(w *engine.World, op *engine.Op) (sdk.Msg, error) {
	sender := w.A(op.Actor).Addr.String()
	switch op.Kind {
	case "define":
		var a defineArgs
		op.Decode(&a)
		return &svctypes.MsgDefineService{Name: a.Name, Description: "simchain", Tags: []string{"sim"},
			Author: sender, AuthorDescription: "actor", Schemas: schemas}, nil
	case "bind":
		var a bindArgs
		op.Decode(&a)
		dep := stake(a.Deposit)
		if dep.Empty() {
			dep = sdk.Coins{sdk.NewCoin(Std, engine.Int(new(big.Int)))}
		}
		return &svctypes.MsgBindService{ServiceName: a.Service, Provider: m.addr(w, a.Provider), Deposit: dep,
			Pricing: a.Pr.JSON(), QoS: a.QoS, Options: "{}", Owner: sender}, nil
	case "update_binding":
		var a updBindArgs
		op.Decode(&a)
		msg := &svctypes.MsgUpdateServiceBinding{ServiceName: a.Service, Provider: m.addr(w, a.Provider),
			Deposit: stake(a.Deposit), QoS: a.QoS, Owner: sender}
		if a.Pr != nil {
			msg.Pricing = a.Pr.JSON()
		}
		return msg, nil
	case "disable":
		var a bindRefArgs
		op.Decode(&a)
		return &svctypes.MsgDisableServiceBinding{ServiceName: a.Service, Provider: m.addr(w, a.Provider), Owner: sender}, nil
	case "enable":
		var a bindRefArgs
		op.Decode(&a)
		return &svctypes.MsgEnableServiceBinding{ServiceName: a.Service, Provider: m.addr(w, a.Provider),
			Deposit: stake(a.Deposit), Owner: sender}, nil
	case "refund":
		var a bindRefArgs
		op.Decode(&a)
		return &svctypes.MsgRefundServiceDeposit{ServiceName: a.Service, Provider: m.addr(w, a.Provider), Owner: sender}, nil
	case "set_withdraw":
		var a setWithdrawArgs
		op.Decode(&a)
		return &svctypes.MsgSetWithdrawAddress{Owner: sender, WithdrawAddress: a.Addr}, nil
	case "withdraw":
		var a withdrawArgs
		op.Decode(&a)
		return &svctypes.MsgWithdrawEarnedFees{Owner: sender, Provider: a.Provider}, nil
	case "call":
		var a callArgs
		op.Decode(&a)
		return &svctypes.MsgCallService{ServiceName: a.Service, Providers: a.Providers, Consumer: sender, Input: a.Input,
			ServiceFeeCap: stake(a.FeeCap), Timeout: a.Timeout, Repeated: a.Repeated, RepeatedFrequency: a.Freq,
			RepeatedTotal: a.Total}, nil
	case "respond":
		var a respondArgs
		op.Decode(&a)
		id, ok := m.resolveCtx(w, a.Ctx)
		if !ok {
			return nil, fmt.Errorf("context %s unknown", a.Ctx)
		}
		rid, ok := m.reqIdx[rkey(id, a.Batch, a.Prov)]
		if !ok {
			return nil, fmt.Errorf("request (%s, batch %d, provider %s) unknown", a.Ctx, a.Batch, a.Prov)
		}
		m.built[op.ID] = rid
		return &svctypes.MsgRespondService{RequestId: rid, Provider: sender, Result: a.Result, Output: a.Output}, nil
	case "pause", "start", "kill", "update_ctx":
		var a ctxArgs
		op.Decode(&a)
		id, ok := m.resolveCtx(w, a.Ctx)
		if !ok {
			return nil, fmt.Errorf("context %s unknown", a.Ctx)
		}
		switch op.Kind {
		case "pause":
			return &svctypes.MsgPauseRequestContext{RequestContextId: id, Consumer: sender}, nil
		case "start":
			return &svctypes.MsgStartRequestContext{RequestContextId: id, Consumer: sender}, nil
		case "kill":
			return &svctypes.MsgKillRequestContext{RequestContextId: id, Consumer: sender}, nil
		}
		return &svctypes.MsgUpdateRequestContext{RequestContextId: id, Providers: a.Providers, Consumer: sender,
			ServiceFeeCap: stake(a.FeeCap), Timeout: a.Timeout, RepeatedFrequency: a.Freq, RepeatedTotal: a.Total}, nil
	case "drain", "refill", "donate":
		var a sendArgs
		op.Decode(&a)
		to, err := sdk.AccAddressFromBech32(a.To)
		if err != nil {
			return nil, err
		}
		return engine.BankSendMsg(w.A(op.Actor).Addr, to, stake(a.Amt)), nil
	case "params":
		var a paramArgs
		op.Decode(&a)
		return &svctypes.MsgUpdateParams{Authority: a.Authority, Params: a.P.sdk()}, nil
	}
	return nil, fmt.Errorf("unknown op %s", op.Kind)
}

// ---- quiesce and epilogue ------------------------------------------------------------------------

// MaxDue: the expiry of everything that is in flight when the main phase ends, and the next
// few batches of bounded repeated contexts. Computed once: contexts that repeat for ever
// would otherwise keep the quiesce phase alive.
func (m *Module) MaxDue(w *engine.World) int64 {
	if m.horizon == 0 {
		hz := w.Height
		for _, rq := range m.activeReqs() {
			if rq.ExpH > hz {
				hz = rq.ExpH
			}
		}
		for _, c := range m.liveCtxs(false) {
			if c.BatchExp > hz {
				hz = c.BatchExp
			}
			if c.Repeated && c.State == ctxRunning && c.Total > 0 && int64(c.Batch) < c.Total {
				left := c.Total - int64(c.Batch)
				if left > 3 {
					left = 3
				}
				if d := c.BatchStart + left*int64(c.Freq) + c.Timeout; d > hz {
					hz = d
				}
			}
		}
		if hz > w.Height+60 {
			hz = w.Height + 60
		}
		m.horizon = hz
	}
	return m.horizon
}

// Epilogue: every owner collects what its providers earned.
func (m *Module) Epilogue(w *engine.World, r *engine.Rand) []*engine.TxPlan {
	var out []*engine.TxPlan
	for _, sl := range m.cfg.Slots {
		p := m.addr(w, sl.Actor)
		if m.ownerOf[p] == "" {
			continue
		}
		if o := w.ActorOf(m.ownerOf[p]); o != nil {
			out = append(out, engine.Tx1(engine.NewOp(Name, "withdraw", o.Idx, withdrawArgs{Provider: p})))
		}
	}
	return out
}
