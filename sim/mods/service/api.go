package servicemod

import (
	"fmt"

	svctypes "mods.irisnet.org/modules/service/types"

	"verif/sim/engine"
)

// This file is the API offered to workload modules built on top of this one (oracle feeds,
// random). Obtain the module with  w.Mod("service").(*servicemod.Module).

// ProviderInfo describes one binding as far as accepted transactions say.
type ProviderInfo struct {
	Addr      string // provider address (an actor of the run)
	Actor     int    // index of that actor
	Owner     string
	Available bool
	Price     string // base price, amount only
	Denom     string // price denom
	QoS       uint64
}

// ServiceInfo is a defined service and its bound providers.
type ServiceInfo struct {
	Name      string
	Providers []ProviderInfo
}

// Services lists the services defined so far and their bound providers (sorted, stable).
func (m *Module) Services(w *engine.World) []ServiceInfo {
	var out []ServiceInfo
	for _, s := range engine.SortedKeys(m.defs) {
		si := ServiceInfo{Name: s}
		for _, k := range m.bindOrd {
			b := m.bindings[k]
			if b.Service != s {
				continue
			}
			pi := ProviderInfo{Addr: b.Provider, Actor: -1, Owner: b.Owner, Available: b.Available,
				Price: b.Pr.Price, Denom: b.Pr.Denom, QoS: b.QoS}
			if a := w.ActorOf(b.Provider); a != nil {
				pi.Actor = a.Idx
			}
			si.Providers = append(si.Providers, pi)
		}
		out = append(out, si)
	}
	return out
}

// Params returns the service parameters in force according to the accepted updates.
func (m *Module) Params() ParamSet { return m.par }

// ContextInfo is the exported view of a request context.
type ContextInfo struct {
	ID        string
	Module    string // owning module ("" = an ordinary consumer's context)
	Consumer  string
	Service   string
	Providers []string
	Timeout   int64
	Repeated  bool
	Frequency uint64
	Total     int64
	Batch     uint64
	State     string // running | paused | completed
	Removed   bool
	Foreign   bool // not created by this module's own call operation
	// the current (latest) batch: the height it started at and the height it expires at
	BatchStart   int64
	BatchExpires int64
}

func (c *rctx) export() *ContextInfo {
	return &ContextInfo{ID: c.ID, Module: c.Module, Consumer: c.Consumer, Service: c.Service,
		Providers: append([]string{}, c.Providers...), Timeout: c.Timeout, Repeated: c.Repeated,
		Frequency: c.Freq, Total: c.Total, Batch: c.Batch, State: ctxStateName[c.State],
		Removed: c.Removed, Foreign: c.Foreign, BatchStart: c.BatchStart, BatchExpires: c.BatchExp}
}

// Contexts lists every request context seen so far, in order of first sight. Contexts
// created by other modules' messages (feeds, random requests) are discovered from the
// committed state after every block and appear here with Foreign = true.
func (m *Module) Contexts() []*ContextInfo {
	var out []*ContextInfo
	for _, id := range m.ctxOrd {
		out = append(out, m.ctxs[id].export())
	}
	return out
}

// OnContext subscribes to the discovery of contexts this module did not create itself; f
// runs in OnCommit of the block in which the context first shows up in the committed state.
func (m *Module) OnContext(f func(w *engine.World, c *ContextInfo)) { m.ctxSubs = append(m.ctxSubs, f) }

// Responder decides the answer to a request of a given service: the output and result
// documents; ok = false means "this provider stays silent".  It is called at generation time
// only (the chosen documents are stored in the operation), with the run's generator-side
// state; it must be deterministic and must not draw from any PRNG of its own.
type Responder func(w *engine.World, req *Request) (output, result string, ok bool)

// RegisterResponder makes this module's provider actors answer the requests of serviceName
// with the documents f supplies. Requests of every context of that service are answered this
// way, whoever created the context. Acceptance of such a response is not predicted by the
// C08 oracle (the documents are the caller's), only "accepted => addressed provider and
// active" and all accounting rules are checked.
func (m *Module) RegisterResponder(serviceName string, f Responder) { m.responders[serviceName] = f }

// Requests lists the requests of a context (all batches seen), in creation order.
func (m *Module) Requests(contextID string) []*Request {
	var out []*Request
	for _, id := range m.reqOrd {
		if r := m.reqs[id]; r.Ctx == contextID {
			out = append(out, r.export())
		}
	}
	return out
}

// CallbackRecords returns the committed history of module-callback invocations: records of
// a block executed but never committed (crash before commit) are not part of it.
func (m *Module) CallbackRecords() []CallbackRecord { return m.tapRecords }

// SubscribeCallbacks delivers every committed callback record, in execution order, during
// OnCommit of its block (before the subscriber's own OnCommit when that module is listed
// after this one in the profile).
func (m *Module) SubscribeCallbacks(f func(w *engine.World, rec CallbackRecord)) {
	m.tapSubs = append(m.tapSubs, f)
}

// NoteContextChanged tells the schedule oracle that the settings or the state of a context
// changed through another module's message (edit / pause / start of a feed): the
// "unmodified, running" premise of the frequency rule is void until the next batch.
func (m *Module) NoteContextChanged(contextID string) {
	if c := m.ctxs[contextID]; c != nil {
		c.Clean = false
	}
}

// TrackSchedule switches the frequency / total rules on for a module-owned context; the
// caller promises to report every change with NoteContextChanged.
func (m *Module) TrackSchedule(contextID string) {
	if c := m.ctxs[contextID]; c != nil {
		c.NoSched = false
	}
}

// AddService adds a service to the ones this module's generator binds, calls and answers.
// Call it right after New(), in the profile's module constructor (it is part of the profile,
// not of the recorded configuration, so generation and replay agree). predefined = true
// means the definition is put into the service genesis by the caller: no define operation is
// sent for it and it counts as defined from the start.
func (m *Module) AddService(name string, predefined bool) {
	m.extraSvcs = append(m.extraSvcs, extraSvc{Name: name, Predefined: predefined})
}

// OfferPriceDenom tells the generator that bindings priced in denom have a chance to be
// accepted now (an exchange-rate feed "<denom>-stake" exists): a share of the new bindings
// and pricing updates will then use it. Every actor holds AltDenom ("svcx") from genesis.
// Generator guidance only; the model copes with any price denom at any time.
func (m *Module) OfferPriceDenom(denom string) {
	for _, d := range m.altDenoms {
		if d == denom {
			return
		}
	}
	m.altDenoms = append(m.altDenoms, denom)
}

// BindOp builds a bind-service operation that this module builds, judges and models like its
// own: owner and provider are actor indices, deposit an amount of the base denom.
func BindOp(owner int, service string, provider int, deposit string, pr Pricing, qos uint64) *engine.Op {
	return engine.NewOp(Name, "bind", owner, bindArgs{Service: service, Provider: provider, Deposit: deposit, Pr: pr, QoS: qos})
}

// UpdatePricingOp builds an update-binding operation that replaces the pricing (and adds
// deposit when deposit != "").
func UpdatePricingOp(owner int, service string, provider int, deposit string, pr Pricing) *engine.Op {
	return engine.NewOp(Name, "update_binding", owner, updBindArgs{Service: service, Provider: provider, Deposit: deposit, Pr: &pr})
}

// CallOp builds a call-service operation (an ordinary consumer's request context) handled by
// this module. providers are addresses; feeCap an amount of the base denom.
func CallOp(consumer int, service string, providers []string, feeCap string, timeout int64, repeated bool, freq uint64, total int64) *engine.Op {
	return engine.NewOp(Name, "call", consumer, callArgs{Service: service, Providers: providers, Input: okInput,
		FeeCap: feeCap, Timeout: timeout, Repeated: repeated, Freq: freq, Total: total})
}

// ContextOfCall returns the context id created by a CallOp / call operation with the given
// op id, once its transaction was accepted.
func (m *Module) ContextOfCall(w *engine.World, opID int) (string, bool) { return w.Resolve(ctxLabel(opID)) }

// SetContextLabel gives a context this module did not create a symbolic name: operations
// generated from then on (responses to its requests) refer to it by the label instead of the
// raw id, so a schedule with earlier transactions removed (which changes the id: it is a hash
// of the creating transaction's bytes) still resolves. The caller binds the label itself with
// w.Label(label, contextID), in generation and replay alike.
func (m *Module) SetContextLabel(contextID, label string) {
	if c := m.ctxs[contextID]; c != nil && c.Label == "" {
		c.Label = label
	}
}

// DurableQueries renders the queries about the objects that an export / import round trip
// must preserve in either export variant (C12): parameters, definitions, bindings, withdraw
// addresses. (Request contexts, requests and tallies are deliberately left out: the module's
// zero-height preparation pauses, refunds and drops them by design.)
func (m *Module) DurableQueries(w *engine.World, n *engine.Node) []engine.KV {
	ctx := n.Ctx()
	k := n.K.Service
	var out []engine.KV
	render := func(key string, v fmt.Stringer, err error) {
		s := ""
		if err != nil {
			s = "error: " + err.Error()
		} else {
			s = v.String()
		}
		out = append(out, engine.KV{K: key, V: s})
	}
	p, err := k.Params(ctx, &svctypes.QueryParamsRequest{})
	render("params", p, err)
	for _, d := range engine.SortedKeys(m.defs) {
		r, err := k.Definition(ctx, &svctypes.QueryDefinitionRequest{ServiceName: d})
		render("definition:"+d, r, err)
	}
	for _, bk := range m.bindOrd {
		b := m.bindings[bk]
		r, err := k.Binding(ctx, &svctypes.QueryBindingRequest{ServiceName: b.Service, Provider: b.Provider})
		render("binding:"+bk, r, err)
	}
	for _, o := range engine.SortedKeys(m.withdraw) {
		r, err := k.WithdrawAddress(ctx, &svctypes.QueryWithdrawAddressRequest{Owner: o})
		render("withdraw-address:"+o, r, err)
	}
	return out
}
