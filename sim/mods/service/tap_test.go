//go:build go1.25

package servicemod

import (
	"fmt"
	"math/big"
	"os"
	"testing"

	sdk "github.com/cosmos/cosmos-sdk/types"

	oracletypes "mods.irisnet.org/modules/oracle/types"

	"verif/sim/engine"
	"verif/sim/engine/devtest"
)

// feedProbe is a test-only consumer of this package's API: it creates one oracle feed named
// "svcx-stake" over a service of the service workload (a module-owned, repeated request
// context), lets the workload's providers answer it through a registered responder, offers
// the svcx price denom to the workload once the feed exists, and checks through the callback
// tap that the oracle module's response callback fires exactly once per batch - across
// node restarts and crashes before commit.
type feedProbe struct {
	engine.Base
	svc      *Module
	service  string
	feedCtx  string
	created  bool
	started  bool
	inFlight int64
	perBatch int
	stateCbs int
}

func (p *feedProbe) Name() string { return "feedprobe" }
func (p *feedProbe) Weight() int  { return 2 }

func (p *feedProbe) Setup(w *engine.World) {
	p.svc = w.Mod(Name).(*Module)
	p.svc.OnContext(func(w *engine.World, c *ContextInfo) {
		if c.Module == "oracle" {
			p.feedCtx = c.ID
			w.Hit("probe.feed_context_seen")
		}
	})
	p.svc.SubscribeCallbacks(func(w *engine.World, rec CallbackRecord) {
		if rec.ContextID != p.feedCtx || rec.TxFailed {
			return
		}
		if rec.Kind == "response" {
			p.perBatch++
			w.Hit("probe.response_callbacks")
			if rec.Err == "" {
				w.Hit("probe.response_callbacks_with_outputs")
			}
		} else {
			p.stateCbs++
			w.Hit("probe.state_callbacks")
		}
	})
}

type feedArgs struct {
	Service   string   `json:"service"`
	Providers []string `json:"providers"`
}

func (p *feedProbe) Gen(w *engine.World, r *engine.Rand) *engine.TxPlan {
	switch {
	case !p.created:
		if w.Height < p.inFlight+5 {
			return nil
		}
		for _, s := range p.svc.Services(w) {
			var provs []string
			for _, pi := range s.Providers {
				if pi.Available && pi.Denom == Std && len(provs) < 2 {
					provs = append(provs, pi.Addr)
				}
			}
			if len(provs) > 0 {
				p.inFlight = w.Height
				return engine.Tx1(engine.NewOp("feedprobe", "create_feed", 0, feedArgs{Service: s.Name, Providers: provs}))
			}
		}
		return nil
	case !p.started:
		if w.Height < p.inFlight+3 {
			return nil
		}
		p.inFlight = w.Height
		return engine.Tx1(engine.NewOp("feedprobe", "start_feed", 0, nil))
	default:
		if r.Bool(0.1) {
			return engine.Tx1(engine.NewOp("feedprobe", []string{"pause_feed", "start_feed"}[r.Intn(2)], 0, nil))
		}
	}
	return nil
}

func (p *feedProbe) Build(w *engine.World, op *engine.Op) (sdk.Msg, error) {
	creator := w.A(op.Actor).Addr.String()
	switch op.Kind {
	case "create_feed":
		var a feedArgs
		op.Decode(&a)
		return &oracletypes.MsgCreateFeed{FeedName: AltDenom + "-" + Std, LatestHistory: 5, Description: "probe", Creator: creator,
			ServiceName: a.Service, Providers: a.Providers, Input: okInput, Timeout: 2,
			ServiceFeeCap:     sdk.NewCoins(sdk.NewCoin(Std, engine.Int(new(big.Int).Lsh(big.NewInt(1), 90)))),
			RepeatedFrequency: 3, AggregateFunc: "avg", ValueJsonPath: "last", ResponseThreshold: 1}, nil
	case "start_feed":
		return &oracletypes.MsgStartFeed{FeedName: AltDenom + "-" + Std, Creator: creator}, nil
	case "pause_feed":
		return &oracletypes.MsgPauseFeed{FeedName: AltDenom + "-" + Std, Creator: creator}, nil
	}
	return nil, fmt.Errorf("unknown op %s", op.Kind)
}

func (p *feedProbe) OnTx(w *engine.World, tx *engine.TxRecord) {
	op := tx.Plan.Ops[0]
	if !tx.OK() {
		return
	}
	switch op.Kind {
	case "create_feed":
		var a feedArgs
		op.Decode(&a)
		p.created, p.service = true, a.Service
		p.svc.RegisterResponder(a.Service, func(w *engine.World, req *Request) (string, string, bool) {
			return `{"header":{},"body":{"last":"2.5"}}`, okResult, true
		})
		p.svc.OfferPriceDenom(AltDenom)
		w.Hit("probe.feed_created")
	case "start_feed":
		p.started = true
		p.svc.NoteContextChanged(p.feedCtx)
		w.Hit("probe.feed_started")
	case "pause_feed":
		p.svc.NoteContextChanged(p.feedCtx)
		w.Hit("probe.feed_paused")
	}
}

// Final: "a registered module callback fires exactly once per batch".
func (p *feedProbe) Final(w *engine.World) {
	w.Count("probe.durable_queries", int64(len(p.svc.DurableQueries(w, w.Node))))
	for _, c := range p.svc.Contexts() {
		if c.ID != p.feedCtx {
			continue
		}
		lo, hi := int(c.Batch), int(c.Batch)
		if c.Batch > 0 && c.BatchExpires > w.Height {
			lo-- // the last batch is still in flight: its callback may or may not have fired yet
		}
		if p.perBatch < lo || p.perBatch > hi {
			w.Violate("T08", "tap/callbacks-per-batch", "feed context %s issued %d batches (last expires %d, history ends %d); the tap saw %d response callbacks",
				c.ID, c.Batch, c.BatchExpires, w.Height, p.perBatch)
		}
		w.Count("probe.feed_batches", int64(c.Batch))
	}
}

func registerTapProbe() {
	engine.RegisterProfile(&engine.Profile{
		Name: "service-tap",
		Mods: func() []engine.Module { return []engine.Module{New(), &feedProbe{}} },
		Tune: func(c *engine.EngineConfig, r *engine.Rand) {
			c.OpsPerBlock = 2 + 4*r.Float()
			c.Blocks = 50 + r.Intn(50)
		},
	})
	engine.RegisterProperty(&engine.Property{
		ID: "T08", Profile: "service-tap",
		NonTrivial: func(c map[string]int64) bool { return c["probe.response_callbacks"] > 0 },
		Probes: []string{"probe.feed_created", "probe.feed_started", "probe.response_callbacks",
			"probe.response_callbacks_with_outputs", "svc.tap_records", "svc.foreign_context_adopted", "fault.restart"},
		Rule: "test-only",
	})
}

// TestTap exercises the API for modules built on this one (DEV_SEEDS, DEV_SEED as for TestDev).
func TestTap(t *testing.T) {
	Register()
	registerTapProbe()
	if p := os.Getenv("DEV_REPLAY"); p != "" {
		devtest.Replay(t, p)
		return
	}
	if p := os.Getenv("DEV_MIN"); p != "" {
		minimise(t, p)
		return
	}
	devtest.Run(t, "T08", 20)
}
