//go:build go1.25

//go:debug asynctimerchan=0
package servicemod

import (
	"encoding/json"
	"fmt"
	"os"
	"sort"
	"testing"
	"time"

	"verif/sim/engine"
	"verif/sim/engine/devtest"
)

// minimise shrinks a kept violation schedule (DEV_MIN=<file>) for its expected key, prints
// the remaining operations and every violation key met on the way (an oracle that is not
// sound on sub-schedules shows up here as a key the full run never had).
func minimise(t *testing.T, path string) {
	s, err := engine.ReadSchedule(path)
	if err != nil || s.Expect == nil {
		t.Fatalf("cannot use %s: %v", path, err)
	}
	seen := map[string]string{}
	run := func(c *engine.Schedule) *engine.RunResult {
		r := devtest.Bubble(t, engine.RunSpec{Property: c.Property, Seed: c.Seed, Replay: c})
		if r.Harness != "" {
			fmt.Printf("HARNESS ERROR on a sub-schedule: %s\n", r.Harness)
		}
		for _, v := range r.Violations {
			if _, ok := seen[v.Key]; !ok {
				seen[v.Key] = v.Detail
			}
		}
		return r
	}
	min, v, tries := engine.Minimise(s, s.Expect.Key, 10*time.Minute, run)
	if min == nil {
		t.Fatalf("violation %s not reproduced", s.Expect.Key)
	}
	fmt.Printf("== minimised %s in %d tries: %d blocks, %d ops, %d faults\n   %s\n", s.Expect.Key, tries, len(min.Blocks), min.NumOps(), min.NumFaults(), v.Detail)
	for i, b := range min.Blocks {
		for _, tx := range b.Txs {
			for _, op := range tx.Ops {
				fmt.Printf("   h=%d dt=%s actor %d %s.%s %s\n", i+2, time.Duration(b.DeltaNs), op.Actor, op.Mod, op.Kind, op.Args)
			}
		}
	}
	cfg, _ := json.Marshal(min.ModCfg)
	fmt.Printf("   config: %s\n", cfg)
	keys := make([]string, 0, len(seen))
	for k := range seen {
		keys = append(keys, k)
	}
	sort.Strings(keys)
	for _, k := range keys {
		d := seen[k]
		if len(d) > 300 {
			d = d[:300]
		}
		fmt.Printf("   met on the way: %s\n      %s\n", k, d)
	}
	if out := os.Getenv("DEV_MIN_OUT"); out != "" {
		min.Expect = &engine.ViolationRecord{Property: v.Property, Key: v.Key, Detail: v.Detail, Height: v.Height}
		min.Write(out)
	}
}

func TestDev(t *testing.T) {
	Register()
	if os.Getenv("DEV_EARLY_DONATION") != "" {
		AllowEarlyDonation = true // exhibits the module-account panic described in NOTES.md
	}
	if p := os.Getenv("DEV_REPLAY"); p != "" {
		devtest.Replay(t, p)
		return
	}
	if p := os.Getenv("DEV_MIN"); p != "" {
		minimise(t, p)
		return
	}
	prop := os.Getenv("DEV_PROP")
	if prop == "" {
		prop = "C07"
	}
	devtest.Run(t, prop, 20)
}
