// Package servicemod is the service-module workload (definitions, bindings, request contexts,
// responses, fees) and the oracles of C07 (deposits and fees conserved) and C08 (one outcome
// per request, contexts follow their schedule), plus the service part of C13 (queue hygiene)
// and C16 (parameter authority). It also offers a small API (api.go) to the feed / random
// workload built on top of it.
package servicemod

import (
	"crypto/sha256"
	"encoding/hex"
	"encoding/json"
	"math/big"
	"time"

	sdkmath "cosmossdk.io/math"
	tmbytes "github.com/cometbft/cometbft/libs/bytes"
	sdk "github.com/cosmos/cosmos-sdk/types"

	svctypes "mods.irisnet.org/modules/service/types"
	"mods.irisnet.org/simapp"

	"verif/sim/engine"
)

const (
	Name = "service"
	Std  = "stake" // the service base denom of every run
	// AltDenom is a second denom every actor is funded with: prices in it need an exchange
	// rate from an oracle feed named "svcx-stake" (see OfferPriceDenom).
	AltDenom = "svcx"
)

// the three accounts named by the property's anchors
var (
	depAcc = engine.ModAddr(svctypes.DepositAccName)
	reqAcc = engine.ModAddr(svctypes.RequestAccName)
	colAcc = engine.ModAddr(svctypes.FeeCollectorName) // the configured fee collector ("fee pool")
)

// Slot is one provider of the run: the actor that answers, the actor that owns it, and how
// diligently it answers.
type Slot struct {
	Actor  int     `json:"actor"`
	Owner  int     `json:"owner"`
	Answer float64 `json:"p_answer"`
}

// Config is the per-run swarm configuration.
type Config struct {
	Params      ParamSet `json:"params"`
	Services    []string `json:"services"`
	Slots       []Slot   `json:"slots"`
	PriceBits   int      `json:"price_bits"`
	PPromoTime  float64  `json:"p_promo_time"`
	PPromoVol   float64  `json:"p_promo_vol"`
	PRepeated   float64  `json:"p_repeated"`
	PWrongProv  float64  `json:"p_wrong_provider"`
	PDupResp    float64  `json:"p_dup_response"`
	PLateResp   float64  `json:"p_late_response"`
	PEdgeResp   float64  `json:"p_expiry_block_response"`
	PBurst      float64  `json:"p_answer_whole_batch,omitempty"`
	PCluster    float64  `json:"p_call_cluster,omitempty"`
	PStranger   float64  `json:"p_stranger"`
	PParam      float64  `json:"p_param_change"`
	PDrain      float64  `json:"p_drain"`
	PBoundary   float64  `json:"p_boundary_targeting"`
	Donations   bool     `json:"donations"`
	ZeroPrice   bool     `json:"zero_price"`
	MaxTimeout  int64    `json:"max_timeout"` // workload's own cap on timeouts (<= MaxRequestTimeout)
	BindRate    float64  `json:"bind_rate"`   // share of (service, slot) pairs that get bound
	MultiMsg    float64  `json:"p_multi_msg"`
	ForeignBind float64  `json:"p_foreign_denom_bind"`
}

// CallbackRecord is one invocation of a module callback seen by the tap.
type CallbackRecord struct {
	Height    int64
	Kind      string // response | state
	Module    string
	ContextID string
	Outputs   int
	Raw       []string
	Err       string // response callbacks: the error handed to the callback ("" = none)
	Cause     string // state callbacks
	TxHash    string // hex sha256 of the tx bytes when fired inside a transaction, "" in end block
	TxFailed  bool   // fired inside a transaction that then failed (its effects were rolled back)
}

// Module implements engine.Module.
type Module struct {
	engine.Base
	cfg Config
	par ParamSet

	defs     map[string]bool
	bindings map[string]*binding
	bindOrd  []string
	ownerOf  map[string]string // provider -> owner (fixed by the first accepted binding)
	withdraw map[string]string // owner -> withdraw address
	earned   map[string]coins  // provider -> tally
	volume   map[string]uint64 // consumer|service|provider -> answered requests
	donated  map[string]coins  // service account -> harness-made donations (incl. self-withdrawals)

	ctxs    map[string]*rctx
	ctxOrd  []string
	reqs    map[string]*request
	reqOrd  []string
	reqIdx  map[string]string // rkey -> request id
	built   map[int]string    // op id -> request id resolved at Build
	drained map[int]bool
	pending map[string]int64 // define/bind in flight: generated at height (generator guidance)

	// end-block observation of the current block
	endEvents  []engineEvent
	endSheet   *engine.Sheet
	balBefore  map[string]*big.Int // consumer stake balance before the end block
	paramsSeen bool

	// callback tap
	tapPending []CallbackRecord
	tapRecords []CallbackRecord
	blockCbs   []CallbackRecord
	tapSubs    []func(w *engine.World, rec CallbackRecord)
	txCodes    map[string]uint32

	responders map[string]Responder
	ctxSubs    []func(w *engine.World, c *ContextInfo)

	horizon   int64
	fresh     int
	committed int64 // height of the last block whose commit this module observed

	// services the generator works with: the configured ones plus those added through the API
	svcs      []string
	extraSvcs []extraSvc
	altDenoms []string
}

type extraSvc struct {
	Name       string
	Predefined bool
}

func New() *Module {
	return &Module{
		defs: map[string]bool{}, bindings: map[string]*binding{}, ownerOf: map[string]string{},
		withdraw: map[string]string{}, earned: map[string]coins{}, volume: map[string]uint64{},
		donated: map[string]coins{}, ctxs: map[string]*rctx{}, reqs: map[string]*request{},
		reqIdx: map[string]string{}, built: map[int]string{}, drained: map[int]bool{}, pending: map[string]int64{},
		responders: map[string]Responder{}, txCodes: map[string]uint32{},
	}
}

func (m *Module) Name() string { return Name }

// ---- configuration -----------------------------------------------------------------------------

func fracStr(r *engine.Rand, allowOne bool) string {
	switch r.Intn(7) {
	case 0:
		return "0"
	case 1:
		return "50000000000000000" // 0.05
	case 2:
		return "1000000000000000" // 0.001
	case 3:
		if allowOne {
			return e18.String()
		}
		return new(big.Int).Sub(e18, big.NewInt(1)).String()
	case 4:
		return "1" // 1e-18
	case 5:
		v := big.NewInt(1 + r.Int63n(99))
		return v.Mul(v, new(big.Int).Exp(big.NewInt(10), big.NewInt(16), nil)).String() // 0.01 .. 0.99
	default:
		return r.BigBelow(e18).String()
	}
}

func sampleParams(r *engine.Rand) ParamSet {
	p := ParamSet{TxSizeLimit: 1 + uint64(r.Int63n(10000)), Restricted: r.Bool(0.4)}
	switch r.Intn(5) {
	case 0:
		p.MaxRequestTimeout = 1 + r.Int63n(3)
	case 1, 2:
		p.MaxRequestTimeout = 3 + r.Int63n(12)
	case 3:
		p.MaxRequestTimeout = 15 + r.Int63n(40)
	default:
		p.MaxRequestTimeout = 100
	}
	switch r.Intn(4) {
	case 0:
		p.MinDepositMultiple = 1
	case 1:
		p.MinDepositMultiple = 1000
	default:
		p.MinDepositMultiple = 1 + r.Int63n(200)
	}
	switch r.Intn(4) {
	case 0:
		p.MinDeposit = ""
	case 1:
		p.MinDeposit = "5000"
	default:
		p.MinDeposit = r.BigLogUniform(50).String()
	}
	p.Tax = fracStr(r, false)
	p.Slash = fracStr(r, true)
	dur := func() int64 {
		switch r.Intn(7) {
		case 0:
			return 1
		case 1, 5, 6:
			return r.Range(1, int64(20*time.Second))
		case 2:
			return r.Range(int64(time.Minute), int64(3*time.Hour))
		case 3:
			return r.Range(int64(time.Hour), int64(5*24*time.Hour))
		default:
			return int64(15 * 24 * time.Hour)
		}
	}
	p.ComplaintNs, p.ArbitrationNs = dur(), dur()
	return p
}

func (m *Module) Configure(w *engine.World, r *engine.Rand) any {
	c := Config{Params: sampleParams(r)}
	c.Services = []string{"svc-a", "svc-b"}[:1+r.Intn(2)]
	n := len(w.Actors) - 1 // the governor plays no role here
	nProv := 2 + r.Intn(3)
	if nProv > n-1 {
		nProv = n - 1
	}
	nOwn := 1 + r.Intn(3)
	if nOwn >= nProv {
		nOwn = nProv - 1
	}
	if nOwn < 1 {
		nOwn = 1
	}
	answers := []float64{1, 1, 0.9, 0.6, 0.3, 0}
	for i := 0; i < nProv; i++ {
		c.Slots = append(c.Slots, Slot{Actor: 1 + i, Owner: i % nOwn, Answer: answers[r.Intn(len(answers))]})
	}
	switch r.Intn(3) {
	case 0:
		c.PriceBits = 1 + r.Intn(12)
	case 1:
		c.PriceBits = 10 + r.Intn(30)
	default:
		c.PriceBits = 1 + r.Intn(64)
	}
	c.PPromoTime = []float64{0, 0.3, 0.7, 1}[r.Intn(4)]
	c.PPromoVol = []float64{0, 0.3, 0.7, 1}[r.Intn(4)]
	c.PRepeated = 0.2 + 0.6*r.Float()
	c.PWrongProv = 0.15 * r.Float()
	c.PDupResp = 0.15 * r.Float()
	c.PLateResp = 0.15 * r.Float()
	c.PEdgeResp = 0.3 * r.Float()
	c.PBurst = []float64{0, 0.3, 0.7}[r.Intn(3)]
	c.PCluster = []float64{0, 0.1, 0.3}[r.Intn(3)]
	c.PStranger = 0.25 * r.Float()
	if r.Bool(0.5) {
		c.PParam = 0.04 * r.Float()
	}
	if r.Bool(0.6) {
		c.PDrain = 0.05 * r.Float()
	}
	c.PBoundary = 0.5 * r.Float()
	c.Donations = r.Bool(0.4)
	c.ZeroPrice = r.Bool(0.1)
	c.MaxTimeout = 1 + r.Int63n(12)
	if c.MaxTimeout > c.Params.MaxRequestTimeout {
		c.MaxTimeout = c.Params.MaxRequestTimeout
	}
	c.BindRate = 0.6 + 0.4*r.Float()
	c.MultiMsg = 0.1 * r.Float()
	c.ForeignBind = 0.03
	if w.Focus == "C11" && r.Bool(0.6) {
		// a well-kept provider set: in runs shared by a dozen workloads most requests would
		// otherwise expire, the providers be slashed out of service and the feeds built on them
		// never see a batch with several answers
		c.Params.Slash = "0"
		c.Services = c.Services[:1]
		for len(c.Slots) < 4 && len(c.Slots) < n-1 {
			i := len(c.Slots)
			c.Slots = append(c.Slots, Slot{Actor: 1 + i, Owner: i % nOwn})
		}
		for i := range c.Slots {
			c.Slots[i].Answer = 1
		}
		c.PBurst, c.BindRate, c.PParam = 0.8, 1, 0
		c.PCluster, c.PDrain = 0.4, 0.05
	}
	return c
}

func (m *Module) LoadConfig(w *engine.World, raw json.RawMessage) {
	if err := json.Unmarshal(raw, &m.cfg); err != nil {
		engine.Fatal("service config: %v", err)
	}
	m.par = m.cfg.Params
	m.svcs = append([]string{}, m.cfg.Services...)
	for _, e := range m.extraSvcs {
		m.svcs = append(m.svcs, e.Name)
		if e.Predefined {
			m.defs[e.Name] = true
		}
	}
}

func (m *Module) Setup(w *engine.World) {
	w.NeedDenom(Std, new(big.Int).Lsh(big.NewInt(1), 120))
	w.NeedDenom(AltDenom, new(big.Int).Lsh(big.NewInt(1), 80)) // a second denom, for non-base pricing
	w.OnPostBuild(func(n *engine.Node) {
		if n.Name != "primary" {
			return // replicas execute the same blocks again; their callbacks are not history
		}
		// whatever the tap recorded since the last commit belongs to an execution that never
		// became durable (crash before commit): the block will be executed again
		m.tapPending = nil
		n.K.Service.VerifTapCallbacks(m.onRespCallback, m.onStateCallback)
	})
}

// BeforeBlock: whatever the tap recorded between the last commit and this block comes from
// executions on throw-away branches of the state (the parameter lab runs begin/end blocks
// there): not history.
func (m *Module) BeforeBlock(w *engine.World, bp *engine.BlockPlan) {
	m.tapPending = nil
}

// AfterSimulate: callbacks fired while a transaction was simulated (gas estimation on a
// discarded branch) are not history either.
func (m *Module) AfterSimulate(w *engine.World) { m.tapPending = nil }

func txHashOf(ctx sdk.Context) string {
	if bz := ctx.TxBytes(); len(bz) > 0 {
		h := sha256.Sum256(bz)
		return hex.EncodeToString(h[:])
	}
	return ""
}

func (m *Module) onRespCallback(ctx sdk.Context, module string, id tmbytes.HexBytes, responses []string, err error) {
	rec := CallbackRecord{Height: ctx.BlockHeight(), Kind: "response", Module: module, ContextID: id.String(),
		Outputs: len(responses), Raw: append([]string{}, responses...), TxHash: txHashOf(ctx)}
	if err != nil {
		rec.Err = err.Error()
	}
	m.tapPending = append(m.tapPending, rec)
}

func (m *Module) onStateCallback(ctx sdk.Context, module string, id tmbytes.HexBytes, cause string) {
	m.tapPending = append(m.tapPending, CallbackRecord{Height: ctx.BlockHeight(), Kind: "state", Module: module,
		ContextID: id.String(), Cause: cause, TxHash: txHashOf(ctx)})
}

func dec(v *big.Int) sdkmath.LegacyDec { return sdkmath.LegacyNewDecFromBigIntWithPrec(v, 18) }

func (p ParamSet) sdk() svctypes.Params {
	md := sdk.Coins{}
	if p.MinDeposit != "" && bigOf(p.MinDeposit).Sign() > 0 {
		md = sdk.NewCoins(sdk.NewCoin(Std, engine.Int(bigOf(p.MinDeposit))))
	}
	return svctypes.Params{
		MaxRequestTimeout: p.MaxRequestTimeout, MinDepositMultiple: p.MinDepositMultiple, MinDeposit: md,
		ServiceFeeTax: dec(bigOf(p.Tax)), SlashFraction: dec(bigOf(p.Slash)),
		ComplaintRetrospect: time.Duration(p.ComplaintNs), ArbitrationTimeLimit: time.Duration(p.ArbitrationNs),
		TxSizeLimit: p.TxSizeLimit, BaseDenom: Std, RestrictedServiceFeeDenom: p.Restricted,
	}
}

func paramSetOf(p svctypes.Params) ParamSet {
	out := ParamSet{MaxRequestTimeout: p.MaxRequestTimeout, MinDepositMultiple: p.MinDepositMultiple,
		Tax: p.ServiceFeeTax.BigInt().String(), Slash: p.SlashFraction.BigInt().String(),
		ComplaintNs: int64(p.ComplaintRetrospect), ArbitrationNs: int64(p.ArbitrationTimeLimit),
		TxSizeLimit: p.TxSizeLimit, Restricted: p.RestrictedServiceFeeDenom}
	if a := p.MinDeposit.AmountOf(Std); a.IsPositive() {
		out.MinDeposit = a.BigInt().String()
	}
	return out
}

func sameParams(a, b ParamSet) bool {
	na := func(p ParamSet) ParamSet {
		if p.MinDeposit == "0" {
			p.MinDeposit = ""
		}
		return p
	}
	return na(a) == na(b)
}

func (m *Module) Genesis(w *engine.World, n *engine.Node, gs simapp.GenesisState) {
	cdc := n.App.AppCodec()
	var g svctypes.GenesisState
	cdc.MustUnmarshalJSON(gs[svctypes.ModuleName], &g)
	g.Params = m.par.sdk()
	if err := g.Params.Validate(); err != nil {
		engine.Fatal("service: generated invalid params: %v", err)
	}
	gs[svctypes.ModuleName] = cdc.MustMarshalJSON(&g)
}

// minDepositOf is the generator's estimate of the deposit a pricing needs (guidance only).
func (m *Module) minDepositOf(price *big.Int) *big.Int {
	v := new(big.Int).Mul(price, big.NewInt(m.par.MinDepositMultiple))
	if md := bigOf(m.par.MinDeposit); v.Sign() > 0 && v.Cmp(md) < 0 {
		v = md
	}
	return v
}

func (m *Module) slotOfActor(actor int) *Slot {
	for i := range m.cfg.Slots {
		if m.cfg.Slots[i].Actor == actor {
			return &m.cfg.Slots[i]
		}
	}
	return nil
}

func (m *Module) addr(w *engine.World, actor int) string { return w.A(actor).Addr.String() }

func (m *Module) don(acc string) coins {
	if m.donated[acc] == nil {
		m.donated[acc] = coins{}
	}
	return m.donated[acc]
}

func (m *Module) earn(provider string) coins {
	if m.earned[provider] == nil {
		m.earned[provider] = coins{}
	}
	return m.earned[provider]
}
