package servicemod

import (
	"encoding/json"
	"fmt"
	"math/big"
	"sort"
	"strings"
	"time"

	sdk "github.com/cosmos/cosmos-sdk/types"

	"verif/sim/engine"
)

// ---- exact coin arithmetic of the reference model ----------------------------------------

// coins is denom -> amount; absent and zero are the same thing.
type coins map[string]*big.Int

func coinsOf(cs sdk.Coins) coins {
	out := coins{}
	for _, c := range cs {
		out.add(c.Denom, c.Amount.BigInt())
	}
	return out
}

func (c coins) add(denom string, v *big.Int) {
	if c[denom] == nil {
		c[denom] = new(big.Int)
	}
	c[denom].Add(c[denom], v)
}

func (c coins) addAll(o coins) {
	for _, d := range o.denoms() {
		c.add(d, o[d])
	}
}

func (c coins) subAll(o coins) {
	for _, d := range o.denoms() {
		c.add(d, new(big.Int).Neg(o[d]))
	}
}

func (c coins) get(denom string) *big.Int {
	if v := c[denom]; v != nil {
		return new(big.Int).Set(v)
	}
	return new(big.Int)
}

// denoms with a non-zero amount, sorted.
func (c coins) denoms() []string {
	var out []string
	for d, v := range c {
		if v.Sign() != 0 {
			out = append(out, d)
		}
	}
	sort.Strings(out)
	return out
}

func (c coins) isZero() bool { return len(c.denoms()) == 0 }

func (c coins) clone() coins {
	out := coins{}
	for _, d := range c.denoms() {
		out[d] = new(big.Int).Set(c[d])
	}
	return out
}

func (c coins) eq(o coins) bool {
	a, b := c.denoms(), o.denoms()
	if len(a) != len(b) {
		return false
	}
	for i := range a {
		if a[i] != b[i] || c[a[i]].Cmp(o[b[i]]) != 0 {
			return false
		}
	}
	return true
}

func (c coins) String() string {
	ds := c.denoms()
	if len(ds) == 0 {
		return "0"
	}
	var parts []string
	for _, d := range ds {
		parts = append(parts, c[d].String()+d)
	}
	return strings.Join(parts, ",")
}

var e18 = new(big.Int).Exp(big.NewInt(10), big.NewInt(18), nil)

// floorFrac is floor(v * frac18 / 1e18): "the configured fraction, rounded down".
func floorFrac(v, frac18 *big.Int) *big.Int {
	x := new(big.Int).Mul(v, frac18)
	return x.Quo(x, e18)
}

func bigOf(s string) *big.Int {
	if s == "" {
		return new(big.Int)
	}
	v, ok := new(big.Int).SetString(s, 10)
	if !ok {
		engine.Fatal("service: bad integer %q", s)
	}
	return v
}

// dec18 renders an 18-decimal scaled integer in [0,1e18] as a decimal string ("0.05").
func dec18(v *big.Int) string {
	s := v.String()
	for len(s) < 19 {
		s = "0" + s
	}
	i, f := s[:len(s)-18], strings.TrimRight(s[len(s)-18:], "0")
	if f == "" {
		return i
	}
	return i + "." + f
}

// ---- parameters ----------------------------------------------------------------------------

// ParamSet is a service parameter set in a serialisable form (decimals as 18-decimal scaled
// integers). The base denom never changes in a run.
type ParamSet struct {
	MaxRequestTimeout  int64  `json:"max_request_timeout"`
	MinDepositMultiple int64  `json:"min_deposit_multiple"`
	MinDeposit         string `json:"min_deposit"` // amount of the base denom; "" = no coins
	Tax                string `json:"tax"`
	Slash              string `json:"slash"`
	ComplaintNs        int64  `json:"complaint_ns"`
	ArbitrationNs      int64  `json:"arbitration_ns"`
	TxSizeLimit        uint64 `json:"tx_size_limit"`
	Restricted         bool   `json:"restricted"`
}

func (p ParamSet) String() string {
	bz, _ := json.Marshal(p)
	return string(bz)
}

// ---- pricing -------------------------------------------------------------------------------

type PromoTime struct {
	Start int64  `json:"start"` // unix seconds
	End   int64  `json:"end"`
	Disc  string `json:"disc"` // 18-decimal scaled integer in (0,1e18)
}

type PromoVol struct {
	Vol  uint64 `json:"vol"`
	Disc string `json:"disc"`
}

// Pricing is the structured form of a binding's pricing; the JSON document sent to the chain
// is rendered from it.
type Pricing struct {
	Denom  string      `json:"denom"`
	Price  string      `json:"price"`
	ByTime []PromoTime `json:"by_time,omitempty"`
	ByVol  []PromoVol  `json:"by_vol,omitempty"`
}

// JSON renders the pricing document of the service module's pricing schema.
func (p Pricing) JSON() string {
	var b strings.Builder
	fmt.Fprintf(&b, `{"price":"%s%s"`, p.Price, p.Denom)
	if len(p.ByTime) > 0 {
		b.WriteString(`,"promotions_by_time":[`)
		for i, t := range p.ByTime {
			if i > 0 {
				b.WriteByte(',')
			}
			fmt.Fprintf(&b, `{"start_time":"%s","end_time":"%s","discount":"%s"}`,
				time.Unix(t.Start, 0).UTC().Format(time.RFC3339), time.Unix(t.End, 0).UTC().Format(time.RFC3339), dec18(bigOf(t.Disc)))
		}
		b.WriteByte(']')
	}
	if len(p.ByVol) > 0 {
		b.WriteString(`,"promotions_by_volume":[`)
		for i, v := range p.ByVol {
			if i > 0 {
				b.WriteByte(',')
			}
			fmt.Fprintf(&b, `{"volume":%d,"discount":"%s"}`, v.Vol, dec18(bigOf(v.Disc)))
		}
		b.WriteByte(']')
	}
	b.WriteByte('}')
	return b.String()
}

// timePromo reports whether a time promotion is in force at t ("start <= t < end").
func (p Pricing) timePromo(t time.Time) bool {
	for _, pr := range p.ByTime {
		if !t.Before(time.Unix(pr.Start, 0)) && t.Before(time.Unix(pr.End, 0)) {
			return true
		}
	}
	return false
}

// volPromo reports whether a volume promotion is in force at the given number of answered
// requests.
func (p Pricing) volPromo(volume uint64) bool {
	return len(p.ByVol) > 0 && volume >= p.ByVol[0].Vol
}

// ---- objects of the reference model ----------------------------------------------------------

type binding struct {
	Service   string
	Provider  string
	Owner     string
	Deposit   *big.Int // base denom
	Pr        Pricing
	QoS       uint64
	Available bool // as far as accepted messages say; slashing may disable on its own
	// DisabledAt: block time at which the harness first saw the binding unavailable
	// (generator guidance for refund attempts only)
	DisabledAt time.Time
}

func bkey(service, provider string) string { return service + "|" + provider }

const (
	ctxRunning = iota
	ctxPaused
	ctxKilled
)

var ctxStateName = []string{"running", "paused", "completed"}

type rctx struct {
	ID        string // upper-case hex, as the module prints it
	Label     string
	Consumer  string
	Service   string
	Providers []string
	FeeCap    *big.Int
	Timeout   int64
	Repeated  bool
	Freq      uint64
	Total     int64
	Module    string // non-empty: owned by another module (created through its messages)
	Foreign   bool   // not created by this module's call operation
	State     int
	Removed   bool
	Created   int64
	// batches as observed block by block
	Batch      uint64
	BatchStart int64
	BatchExp   int64 // BatchStart + timeout in force when the batch started
	// Clean: since the start of the current batch no pause/start/update/kill was accepted
	// and the context was not paused for lack of funds ("settings not modified", "running").
	Clean bool
	// NoSched: settings may change without this module seeing it (module-owned contexts)
	NoSched bool
	// Modified: an update of the settings was accepted at some point of the context's life
	Modified bool
	// Resumed: a start was accepted since the current batch started
	Resumed bool
	// callback bookkeeping of module-owned contexts (C08: "a registered module callback fires
	// exactly once per batch, with the outputs if and only if the response threshold was met")
	cbBatches  map[uint64]*cbBatch
	cbUnknown  bool // a batch of this context was not seen from its start
	cbClosed   bool
	lastLoaded []string
}

// cbBatch is one batch of a module-owned context, seen from the block that issued it.
type cbBatch struct {
	N    uint64
	Exp  int64
	Thr  uint32 // the batch's response threshold, read in the block that issued it
	Reqs []string
	Done bool
}

const (
	reqActive = iota
	reqAnswered
	reqExpired
)

type request struct {
	ID       string
	Ctx      string
	Batch    uint64
	Provider string
	Consumer string
	Service  string
	Input    string
	Module   string
	Fee      coins
	ReqH     int64
	ExpH     int64
	State    int
	DoneAt   int64
	Index    int
	Output   string // the output document of the accepted answer ("" = a failure report)
}

// Request is the exported view of a request (API for modules built on this one).
type Request struct {
	ID               string
	ContextID        string
	Batch            uint64
	Service          string
	Provider         string
	Consumer         string
	Input            string
	Module           string
	Fee              sdk.Coins
	RequestHeight    int64
	ExpirationHeight int64
	Active           bool
}

func (r *request) export() *Request {
	var fee sdk.Coins
	for _, d := range r.Fee.denoms() {
		fee = fee.Add(sdk.NewCoin(d, engine.Int(r.Fee[d])))
	}
	return &Request{ID: r.ID, ContextID: r.Ctx, Batch: r.Batch, Service: r.Service, Provider: r.Provider,
		Consumer: r.Consumer, Input: r.Input, Module: r.Module, Fee: fee, RequestHeight: r.ReqH,
		ExpirationHeight: r.ExpH, Active: r.State == reqActive}
}

func rkey(ctx string, batch uint64, provider string) string {
	return fmt.Sprintf("%s|%d|%s", ctx, batch, provider)
}
