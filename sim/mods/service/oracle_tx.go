package servicemod

import (
	"math/big"

	svctypes "mods.irisnet.org/modules/service/types"

	"verif/sim/engine"
)

func neg(v *big.Int) *big.Int { return new(big.Int).Neg(v) }

// OnTx judges one executed transaction and advances the reference model by the accepted
// messages. The ledger (w.Bal) is the bank state just before the transaction.
func (m *Module) OnTx(w *engine.World, tx *engine.TxRecord) {
	single := len(tx.Plan.Ops) == 1
	for i, op := range tx.Plan.Ops {
		if op.Mod != Name {
			continue
		}
		sh := tx.MsgSheet(i)
		switch op.Kind {
		case "define":
			if tx.OK() {
				var a defineArgs
				op.Decode(&a)
				m.defs[a.Name] = true
				m.noMoney(w, tx, sh, "define")
			}
		case "bind":
			m.onBind(w, tx, op, sh)
		case "update_binding":
			m.onUpdateBinding(w, tx, op, sh)
		case "disable", "enable", "refund":
			m.onBindingState(w, tx, op, sh)
		case "set_withdraw":
			if tx.OK() {
				var a setWithdrawArgs
				op.Decode(&a)
				m.withdraw[m.addr(w, op.Actor)] = a.Addr
				m.noMoney(w, tx, sh, "set-withdraw-address")
				if a.Addr != m.addr(w, op.Actor) {
					w.Hit("svc.withdraw_addr_other")
				}
			}
		case "withdraw":
			m.onWithdraw(w, tx, op, sh)
		case "call":
			m.onCall(w, tx, op, i, sh)
		case "respond":
			m.onRespond(w, tx, op, sh, single)
		case "pause", "start", "kill", "update_ctx":
			m.onCtxOp(w, tx, op, sh, single)
		case "drain":
			if tx.OK() {
				m.drained[op.Actor] = true
				w.Hit("svc.consumer_drained")
			}
		case "refill":
			if tx.OK() {
				var a sendArgs
				op.Decode(&a)
				if t := w.ActorOf(a.To); t != nil {
					delete(m.drained, t.Idx)
				}
			}
		case "donate":
			if tx.OK() {
				var a sendArgs
				op.Decode(&a)
				m.don(a.To).add(Std, bigOf(a.Amt))
				w.Hit("svc.donation")
			}
		case "params":
			m.onParams(w, tx, op)
		}
	}
}

// noMoney: a message that moves no coins by its description must have an empty sheet.
func (m *Module) noMoney(w *engine.World, tx *engine.TxRecord, sh *engine.Sheet, kind string) {
	if !sh.Empty() {
		w.Violate("C07", "balance-sheet/"+kind, "accepted %s moved coins: %s", kind, sh)
	}
}

func (m *Module) onBind(w *engine.World, tx *engine.TxRecord, op *engine.Op, sh *engine.Sheet) {
	if !tx.OK() {
		return
	}
	var a bindArgs
	op.Decode(&a)
	owner, prov := m.addr(w, op.Actor), m.addr(w, a.Provider)
	dep := bigOf(a.Deposit)
	b := &binding{Service: a.Service, Provider: prov, Owner: owner, Deposit: dep, Pr: a.Pr, QoS: a.QoS, Available: true}
	k := bkey(a.Service, prov)
	if m.bindings[k] != nil {
		// "deposit escrow always equals the sum of all bindings' recorded deposits": a second
		// binding for the same (service, provider) would orphan the first deposit
		w.Violate("C07", "bind/duplicate-accepted", "binding (%s, %s) accepted twice", a.Service, prov)
		m.bindings[k].Deposit.Add(m.bindings[k].Deposit, dep)
	} else {
		m.bindings[k] = b
		m.bindOrd = append(m.bindOrd, k)
	}
	if m.ownerOf[prov] == "" {
		m.ownerOf[prov] = owner
	}
	w.Hit("C07.deposit_moves")
	// deposit moves on bind: owner -> deposit escrow, exactly the stated deposit
	want := engine.Want{}.Put(owner, Std, neg(dep)).Put(depAcc, Std, dep)
	if d := want.Diff(sh); d != "" {
		w.Violate("C07", "balance-sheet/bind", "bind (%s, %s) deposit %s: %s; sheet: %s", a.Service, prov, dep, d, sh)
	}
	if a.Pr.Denom != Std {
		w.Hit("svc.binding_non_base_price")
	}
	if len(a.Pr.ByTime) > 0 {
		w.Hit("svc.binding_with_time_promo")
	}
	if len(a.Pr.ByVol) > 0 {
		w.Hit("svc.binding_with_volume_promo")
	}
	n := 0
	for _, k := range m.bindOrd {
		if m.bindings[k].Owner == owner {
			n++
		}
	}
	if n > 1 {
		w.Hit("svc.owner_with_several_bindings")
	}
}

func (m *Module) onUpdateBinding(w *engine.World, tx *engine.TxRecord, op *engine.Op, sh *engine.Sheet) {
	if !tx.OK() {
		return
	}
	var a updBindArgs
	op.Decode(&a)
	signer, prov := m.addr(w, op.Actor), m.addr(w, a.Provider)
	b := m.bindings[bkey(a.Service, prov)]
	if b == nil {
		w.Violate("C07", "update-binding/unknown", "update of binding (%s, %s) accepted, the harness never saw it created", a.Service, prov)
		return
	}
	dep := bigOf(a.Deposit)
	b.Deposit.Add(b.Deposit, dep)
	if a.Pr != nil {
		b.Pr = *a.Pr
		if a.Pr.Denom != Std {
			w.Hit("svc.binding_non_base_price")
		}
	}
	if a.QoS != 0 {
		b.QoS = a.QoS
	}
	w.Hit("C07.deposit_moves")
	want := engine.Want{}.Put(signer, Std, neg(dep)).Put(depAcc, Std, dep)
	if d := want.Diff(sh); d != "" {
		w.Violate("C07", "balance-sheet/update-binding", "update binding (%s, %s) adding %s: %s; sheet: %s", a.Service, prov, dep, d, sh)
	}
	w.Hit("svc.binding_updated")
}

func (m *Module) onBindingState(w *engine.World, tx *engine.TxRecord, op *engine.Op, sh *engine.Sheet) {
	if !tx.OK() {
		return
	}
	var a bindRefArgs
	op.Decode(&a)
	signer, prov := m.addr(w, op.Actor), m.addr(w, a.Provider)
	b := m.bindings[bkey(a.Service, prov)]
	if b == nil {
		w.Violate("C07", op.Kind+"/unknown", "%s of binding (%s, %s) accepted, the harness never saw it created", op.Kind, a.Service, prov)
		return
	}
	switch op.Kind {
	case "disable":
		b.Available = false
		b.DisabledAt = tx.Time
		m.noMoney(w, tx, sh, "disable")
		w.Hit("svc.binding_disabled")
	case "enable":
		dep := bigOf(a.Deposit)
		b.Deposit.Add(b.Deposit, dep)
		b.Available = true
		w.Hit("C07.deposit_moves")
		want := engine.Want{}.Put(signer, Std, neg(dep)).Put(depAcc, Std, dep)
		if d := want.Diff(sh); d != "" {
			w.Violate("C07", "balance-sheet/enable", "enable binding (%s, %s) adding %s: %s; sheet: %s", a.Service, prov, dep, d, sh)
		}
		w.Hit("svc.binding_enabled")
	case "refund":
		// the whole recorded deposit goes back to the binding's owner, the record drops to zero
		w.Hit("C07.deposit_moves")
		want := engine.Want{}.Put(depAcc, Std, neg(b.Deposit)).Put(b.Owner, Std, b.Deposit)
		if d := want.Diff(sh); d != "" {
			w.Violate("C07", "balance-sheet/refund-deposit", "refund of binding (%s, %s) with recorded deposit %s: %s; sheet: %s", a.Service, prov, b.Deposit, d, sh)
		}
		b.Deposit = new(big.Int)
		w.Hit("svc.refund_deposit_ok")
	}
}

func (m *Module) onWithdraw(w *engine.World, tx *engine.TxRecord, op *engine.Op, sh *engine.Sheet) {
	if !tx.OK() {
		return
	}
	var a withdrawArgs
	op.Decode(&a)
	signer := m.addr(w, op.Actor)
	to := signer
	if v, ok := m.withdraw[signer]; ok {
		to = v
	}
	var provs []string
	if a.Provider != "" {
		// "each request's fee ends up ... with the provider": only the provider's owner may
		// collect its tally
		if m.ownerOf[a.Provider] != signer {
			w.Violate("C07", "withdraw/by-non-owner", "%s withdrew the earned fees of provider %s whose owner is %q", signer, a.Provider, m.ownerOf[a.Provider])
		}
		provs = []string{a.Provider}
	} else {
		for _, p := range engine.SortedKeys(m.ownerOf) {
			if m.ownerOf[p] == signer {
				provs = append(provs, p)
			}
		}
		w.Hit("svc.withdraw_owner_wide_ok")
	}
	total := coins{}
	for _, p := range provs {
		total.addAll(m.earn(p))
		m.earned[p] = coins{}
	}
	// "withdraw pays exactly the tally to the withdraw address and zeroes it"
	w.Hit("C07.withdraw_checks")
	want := engine.Want{}
	for _, d := range total.denoms() {
		want.Put(reqAcc, d, neg(total[d])).Put(to, d, total[d])
	}
	if d := want.Diff(sh); d != "" {
		w.Violate("C07", "balance-sheet/withdraw", "withdraw by %s (provider %q) with tally %s to %s: %s; sheet: %s", signer, a.Provider, total, to, d, sh)
	}
	if to == reqAcc {
		m.don(reqAcc).addAll(total) // the owner chose to leave its earnings in the escrow
	}
	if !total.isZero() {
		w.Hit("svc.withdraw_nonzero")
		if to != signer {
			w.Hit("svc.withdraw_to_other_address")
		}
		n := 0
		for _, p := range engine.SortedKeys(m.ownerOf) {
			if m.ownerOf[p] == signer {
				n++
			}
		}
		if n > 1 {
			w.Hit("svc.withdraw_multi_provider_owner")
		}
	}
}

func (m *Module) onCall(w *engine.World, tx *engine.TxRecord, op *engine.Op, i int, sh *engine.Sheet) {
	if !tx.OK() {
		return
	}
	var a callArgs
	op.Decode(&a)
	var resp svctypes.MsgCallServiceResponse
	if !tx.Resp(i, &resp) || len(resp.RequestContextId) != svctypes.ContextIDLen {
		w.Violate("C08", "call/response", "accepted call-service without a request context id in its response")
		return
	}
	// nothing is charged at call time: fees are taken batch by batch at the end of the block
	m.noMoney(w, tx, sh, "call")
	id := resp.RequestContextId
	c := &rctx{ID: id, Label: ctxLabel(op.ID), Consumer: m.addr(w, op.Actor), Service: a.Service,
		Providers: append([]string{}, a.Providers...), FeeCap: bigOf(a.FeeCap), Timeout: a.Timeout,
		Repeated: a.Repeated, Freq: a.Freq, Total: a.Total, State: ctxRunning, Created: tx.Height, Clean: true}
	if c.Repeated && c.Freq == 0 {
		c.Freq = uint64(c.Timeout)
	}
	if !c.Repeated {
		c.Freq, c.Total = 0, 0
	}
	if m.ctxs[id] != nil {
		w.Violate("C08", "call/context-id-reused", "call-service returned context id %s which already names a context", id)
		return
	}
	m.ctxs[id] = c
	m.ctxOrd = append(m.ctxOrd, id)
	w.Label(c.Label, id)
	w.Hit("svc.context_created")
	if c.Repeated {
		w.Hit("svc.context_repeated")
	} else {
		w.Hit("svc.context_oneshot")
	}
}

func (m *Module) onRespond(w *engine.World, tx *engine.TxRecord, op *engine.Op, sh *engine.Sheet, single bool) {
	var a respondArgs
	op.Decode(&a)
	rid := m.built[op.ID]
	delete(m.built, op.ID)
	rq := m.reqs[rid]
	signer := m.addr(w, op.Actor)
	if tx.Infra {
		return
	}
	shape := "unknown"
	switch {
	case rq == nil:
	case rq.Provider != signer:
		shape = "wrong-provider"
		w.Hit("svc.respond_wrong_provider")
	case rq.State == reqAnswered:
		shape = "duplicate"
		w.Hit("svc.respond_duplicate")
	case rq.State == reqExpired:
		shape = "after-expiry"
		w.Hit("svc.respond_after_expiry")
	default:
		shape = "valid"
		if tx.Height == rq.ExpH {
			w.Hit("svc.respond_in_expiry_block")
		}
	}
	w.Hit("C08.respond_verdicts")
	if shape == "valid" && single && (!a.Custom || wellFormedAnswer(rid, signer, a)) {
		w.Hit("C08.respond_verdicts_valid_answer_judged")
	}
	if !tx.OK() {
		// "answered once by the provider it was addressed to while it is still active": a
		// well-formed answer of the addressed provider to an active request must be taken
		if shape == "valid" && single && (!a.Custom || wellFormedAnswer(rid, signer, a)) {
			w.Violate("C08", "respond/rejected-valid", "answer of provider %s to its active request %s (expires at %d) was rejected at height %d: %s/%d %s",
				signer, rid, rq.ExpH, tx.Height, tx.Codespace, tx.Code, tx.Log)
		}
		return
	}
	if shape != "valid" {
		// "answers from anyone else, duplicate answers and answers after expiry are rejected"
		w.Violate("C08", "respond/accepted-"+shape, "answer by %s to request %s was accepted at height %d; the model says: %s (addressed to %s, state %d, expiration %d)",
			signer, rid, tx.Height, shape, provOf(rq), stateOf(rq), expOf(rq))
		if rq == nil {
			return
		}
	}
	// "each request's fee ends up ... with the provider (minus the configured tax, which goes
	// to the fee pool) when answered": fee pool + floor(fee*tax) per coin out of the request
	// escrow, provider tally + the rest
	w.Hit("C07.response_fee_checks")
	want := engine.Want{}
	tax := bigOf(m.par.Tax)
	rest := coins{}
	for _, d := range rq.Fee.denoms() {
		t := floorFrac(rq.Fee[d], tax)
		want.Put(reqAcc, d, neg(t)).Put(colAcc, d, t)
		rest.add(d, new(big.Int).Sub(rq.Fee[d], t))
		if t.Sign() > 0 {
			w.Hit("svc.tax_nonzero")
		}
	}
	if d := want.Diff(sh); d != "" {
		w.Violate("C07", "balance-sheet/respond", "response to request %s with fee %s under tax %s/1e18: %s; sheet: %s", rid, rq.Fee, tax, d, sh)
	}
	if rq.State == reqActive {
		m.earn(rq.Provider).addAll(rest)
		m.volume[rq.Consumer+"|"+rq.Service+"|"+rq.Provider]++
	}
	rq.State = reqAnswered
	rq.DoneAt = tx.Height
	rq.Output = a.Output
	w.Hit("svc.request_answered")
}

// wellFormedAnswer: documents supplied by another workload's responder are judged by the
// module's own stateless validation (the message's ValidateBasic and the response document
// check the handler applies to a non-empty output) - an answer that passes both is a
// "well-formed answer" in the sense of the verdict above.
func wellFormedAnswer(rid, signer string, a respondArgs) bool {
	ok := false
	_ = engine.Catch("ValidateBasic", func() error {
		msg := &svctypes.MsgRespondService{RequestId: rid, Provider: signer, Result: a.Result, Output: a.Output}
		if msg.ValidateBasic() != nil {
			return nil
		}
		if len(a.Output) > 0 && svctypes.ValidateResponseOutput(a.Output) != nil {
			return nil
		}
		ok = true
		return nil
	})
	return ok
}

func provOf(r *request) string {
	if r == nil {
		return "?"
	}
	return r.Provider
}
func stateOf(r *request) int {
	if r == nil {
		return -1
	}
	return r.State
}
func expOf(r *request) int64 {
	if r == nil {
		return -1
	}
	return r.ExpH
}

func (m *Module) onCtxOp(w *engine.World, tx *engine.TxRecord, op *engine.Op, sh *engine.Sheet, single bool) {
	var a ctxArgs
	op.Decode(&a)
	id, ok := m.resolveCtx(w, a.Ctx)
	if !ok {
		return
	}
	c := m.ctxs[id]
	signer := m.addr(w, op.Actor)
	if c == nil || tx.Infra {
		return
	}
	if signer != c.Consumer {
		w.Hit("svc.stranger_ctx_op")
	}
	if !tx.OK() {
		return
	}
	w.Hit("C08.ctx_op_verdicts")
	// "can be paused/started/killed/updated only by its consumer"
	if signer != c.Consumer {
		w.Violate("C08", "authority/"+op.Kind, "%s of context %s by %s was accepted; its consumer is %s", op.Kind, id, signer, c.Consumer)
	}
	if c.Module != "" {
		// module-owned contexts are driven by the owning module's messages only
		w.Violate("C08", "authority/module-owned-"+op.Kind, "%s of the %s-owned context %s through a service message was accepted", op.Kind, c.Module, id)
	}
	m.noMoney(w, tx, sh, op.Kind)
	c.Clean = false
	inBatch := c.Batch > 0 && c.BatchExp > tx.Height
	switch op.Kind {
	case "pause":
		c.State = ctxPaused
		w.Hit("svc.context_paused")
		if inBatch {
			w.Hit("svc.pause_during_batch")
		}
	case "start":
		if c.State == ctxPaused {
			w.Hit("svc.context_resumed")
		}
		c.State = ctxRunning
		c.Resumed = true
	case "kill":
		c.State = ctxKilled
		w.Hit("svc.context_killed")
		for _, rq := range m.activeReqs() {
			if rq.Ctx == id {
				w.Hit("svc.kill_with_active_requests")
				break
			}
		}
	case "update_ctx":
		if len(a.Providers) > 0 {
			c.Providers = append([]string{}, a.Providers...)
		}
		if bigOf(a.FeeCap).Sign() > 0 {
			c.FeeCap = bigOf(a.FeeCap)
		}
		if a.Timeout > 0 {
			c.Timeout = a.Timeout
		}
		if a.Freq > 0 {
			c.Freq = a.Freq
		}
		if a.Total != 0 {
			c.Total = a.Total
		}
		c.Modified = true
		w.Hit("svc.context_updated")
	}
}

func (m *Module) onParams(w *engine.World, tx *engine.TxRecord, op *engine.Op) {
	var a paramArgs
	op.Decode(&a)
	gov := w.Governor()
	legit := a.Authority == gov.Addr.String() && op.Actor == gov.Idx
	if !legit {
		w.Hit("svc.params_stranger_attempt")
	}
	if !tx.OK() {
		return
	}
	if !legit {
		w.Violate("C16", "authority/service", "MsgUpdateParams signed by actor %d naming authority %s was accepted; the authority is %s", op.Actor, a.Authority, gov.Addr)
	}
	m.par = a.P
	w.Hit("svc.params_changed")
}
