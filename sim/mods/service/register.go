package servicemod

import "verif/sim/engine"

// Register installs the service profile and the properties it decides.
func Register() {
	engine.RegisterProfile(&engine.Profile{
		Name: "service",
		Mods: func() []engine.Module { return []engine.Module{New()} },
		Tune: func(c *engine.EngineConfig, r *engine.Rand) {
			c.OpsPerBlock = 1.5 + 5*r.Float()
			c.Blocks = 40 + r.Intn(60)
		},
	})
	engine.RegisterProperty(&engine.Property{
		ID: "C07", Profile: "service",
		NonTrivial: func(c map[string]int64) bool {
			return c["C07.deposit_moves"] > 0 && c["C07.endblock_charge_checks"] > 0 &&
				(c["C07.response_fee_checks"] > 0 || c["C07.expiry_refund_checks"] > 0)
		},
		Probes: []string{"C07.deposit_moves", "C07.endblock_charge_checks", "C07.response_fee_checks",
			"C07.expiry_refund_checks", "C07.slash_checks", "C07.withdraw_checks", "C07.escrow_checks",
			"svc.promo_time_at_batch", "svc.promo_volume_at_batch", "svc.slash_nonzero", "svc.tax_nonzero",
			"svc.refund_deposit_ok", "svc.withdraw_multi_provider_owner", "svc.withdraw_to_other_address",
			"svc.withdraw_nonzero", "svc.binding_updated", "svc.binding_enabled", "svc.binding_disabled",
			"svc.binding_disabled_by_slash", "svc.auto_paused_no_funds", "svc.donation", "svc.params_changed"},
		Rule: "a run is non-trivial when at least one deposit movement, one end-block consumer charge and one fee outcome (accepted response split or expiry refund) were compared exactly with the model; distinct = different fingerprint of the executed (operation kind, outcome class) sequence",
	})
	engine.RegisterProperty(&engine.Property{
		ID: "C08", Profile: "service",
		NonTrivial: func(c map[string]int64) bool {
			return c["C08.respond_verdicts"] > 0 && c["C08.schedule_checks"] > 1 && c["C08.marker_checks"] > 0
		},
		Probes: []string{"C08.respond_verdicts", "C08.respond_verdicts_valid_answer_judged", "C08.schedule_checks", "C08.frequency_checks", "C08.marker_checks",
			"C08.removal_checks", "C08.ctx_op_verdicts", "C08.request_shape_checks",
			"svc.respond_in_expiry_block", "svc.respond_after_expiry", "svc.respond_duplicate",
			"svc.respond_wrong_provider", "svc.request_expired", "svc.request_answered", "svc.oneshot_removed",
			"svc.repeated_total_reached", "svc.context_paused", "svc.context_resumed", "svc.context_killed",
			"svc.kill_with_active_requests", "svc.context_updated", "svc.pause_during_batch",
			"svc.stranger_ctx_op", "svc.auto_paused_no_funds", "svc.batch_without_requests",
			"C13.service_queue_checks", "C08.callback_checks", "svc.callback_last-answer", "svc.callback_expiry",
			"svc.callback_threshold_met", "svc.callback_below_threshold"},
		Rule: "a run is non-trivial when at least one response verdict (accepted or rejected) was compared with the request model, more than one batch start was judged against the schedule rules and active markers were compared with the model after a block; distinct = different fingerprint of the executed (operation kind, outcome class) sequence",
	})
}
