package servicemod

import (
	"crypto/sha256"
	"encoding/binary"
	"encoding/hex"
	"fmt"
	"math/big"
	"sort"
	"strings"

	storetypes "cosmossdk.io/store/types"
	abci "github.com/cometbft/cometbft/abci/types"
	tmbytes "github.com/cometbft/cometbft/libs/bytes"
	sdk "github.com/cosmos/cosmos-sdk/types"
	gogotypes "github.com/cosmos/gogoproto/types"

	svctypes "mods.irisnet.org/modules/service/types"

	"verif/sim/engine"
)

type engineEvent = abci.Event

// transfer is one bank transfer as reported by the SDK bank keeper's "transfer" event.
type transfer struct {
	From, To string
	Amt      coins
}

func transfersOf(events []abci.Event) []transfer {
	var out []transfer
	for _, ev := range events {
		if ev.Type != "transfer" {
			continue
		}
		var t transfer
		var amt string
		for _, a := range ev.Attributes {
			switch a.Key {
			case "sender":
				t.From = a.Value
			case "recipient":
				t.To = a.Value
			case "amount":
				amt = a.Value
			}
		}
		cs, err := sdk.ParseCoinsNormalized(amt)
		if err != nil {
			engine.Fatal("service: cannot parse transfer amount %q: %v", amt, err)
		}
		t.Amt = coinsOf(cs)
		out = append(out, t)
	}
	return out
}

// OnEndBlock only records what the end block did; it is judged in OnCommit, when the
// requests the end block created can be queried.
func (m *Module) OnEndBlock(w *engine.World, ph *engine.Phase) {
	m.endEvents = ph.Events
	m.endSheet = ph.Sheet
	m.balBefore = map[string]*big.Int{}
	for _, id := range m.ctxOrd {
		if c := m.ctxs[id]; !c.Removed {
			m.balBefore[c.Consumer] = w.Bal(c.Consumer, Std)
		}
	}
}

// OnBlock notes the fate of every transaction of the block (for the callback tap).
func (m *Module) OnBlock(w *engine.World, blk *engine.Block, res *abci.ResponseFinalizeBlock) {
	m.txCodes = map[string]uint32{}
	for i, bz := range blk.Txs {
		if i < len(res.TxResults) {
			h := sha256.Sum256(bz)
			m.txCodes[hex.EncodeToString(h[:])] = res.TxResults[i].Code
		}
	}
}

func (m *Module) flushTap(w *engine.World) {
	recs := m.tapPending
	m.tapPending = nil
	m.blockCbs = nil
	for _, rec := range recs {
		if rec.TxHash != "" {
			if code, ok := m.txCodes[rec.TxHash]; ok && code != 0 {
				rec.TxFailed = true
			}
		}
		m.tapRecords = append(m.tapRecords, rec)
		m.blockCbs = append(m.blockCbs, rec)
		w.Hit("svc.tap_records")
		for _, f := range m.tapSubs {
			f(w, rec)
		}
	}
}

// expiry is what the model expects of the end block of the current height.
type expiry struct {
	refunds map[string]coins // consumer -> fees of its requests expiring now
	slashed *big.Int         // moved from the deposit escrow to the fee pool
	n       int
}

// expireDue: "expired at its expiration height (provider slashed, consumer refunded)";
// "slashing moves exactly the configured fraction of the binding's deposit (rounded down)
// from the deposit escrow to the fee pool".
func (m *Module) expireDue(w *engine.World, h int64) *expiry {
	ex := &expiry{refunds: map[string]coins{}, slashed: new(big.Int)}
	slash := bigOf(m.par.Slash)
	for _, id := range m.reqOrd {
		rq := m.reqs[id]
		if rq.State != reqActive || rq.ExpH != h {
			continue
		}
		rq.State = reqExpired
		rq.DoneAt = h
		ex.n++
		if ex.refunds[rq.Consumer] == nil {
			ex.refunds[rq.Consumer] = coins{}
		}
		ex.refunds[rq.Consumer].addAll(rq.Fee)
		if b := m.bindings[bkey(rq.Service, rq.Provider)]; b != nil {
			s := floorFrac(b.Deposit, slash)
			b.Deposit.Sub(b.Deposit, s)
			ex.slashed.Add(ex.slashed, s)
			if s.Sign() > 0 {
				w.Hit("svc.slash_nonzero")
			}
		}
		w.Hit("svc.request_expired")
	}
	return ex
}

func idBytes(id string) []byte {
	bz, err := hex.DecodeString(id)
	if err != nil {
		engine.Fatal("service: bad id %q", id)
	}
	return bz
}

// OnCommit compares the committed state and the end block's bank movements with the model.
func (m *Module) OnCommit(w *engine.World) {
	h := w.Height
	m.committed = h
	ctx := w.Node.Ctx()
	k := w.Node.K.Service
	m.flushTap(w)

	// parameters: only the authority's accepted updates may have changed them (C16)
	got := paramSetOf(k.GetParams(ctx))
	if !sameParams(got, m.par) {
		w.Violate("C16", "params-drift/service", "stored service params %s differ from the last accepted authority update %s", got, m.par)
		m.par = got
	}

	// contexts in the committed state
	live := map[string]svctypes.RequestContext{}
	var liveOrd []string
	k.IterateRequestContexts(ctx, func(id tmbytes.HexBytes, rc svctypes.RequestContext) bool {
		s := strings.ToUpper(hex.EncodeToString(id))
		live[s] = rc
		liveOrd = append(liveOrd, s)
		return false
	})
	for _, id := range liveOrd {
		if m.ctxs[id] == nil {
			m.adopt(w, id, live[id])
		}
	}

	ex := m.expireDue(w, h)
	charges := map[string]coins{}
	promo := map[string]bool{}
	for _, id := range m.ctxOrd {
		c := m.ctxs[id]
		if c.Removed {
			continue
		}
		rc, found := live[id]
		m.observeCtx(w, c, rc, found, charges, promo)
	}
	m.checkCallbacks(w)
	m.checkEndBlock(w, ex, charges, promo)
	m.checkEscrows(w)
	m.checkMarkers(w)
	QueueCheck(w)

	nAct := 0
	for _, rq := range m.activeReqs() {
		_ = rq
		nAct++
	}
	run, pau := 0, 0
	for _, c := range m.liveCtxs(false) {
		if c.State == ctxRunning {
			run++
		} else if c.State == ctxPaused {
			pau++
		}
	}
	w.State("svc", len(m.bindOrd), nAct, run, pau, ex.n > 0, len(charges) > 0)
}

// adopt registers a context this module did not create (another module's message did).
func (m *Module) adopt(w *engine.World, id string, rc svctypes.RequestContext) {
	c := &rctx{ID: id, Consumer: rc.Consumer, Service: rc.ServiceName, Providers: append([]string{}, rc.Providers...),
		FeeCap: rc.ServiceFeeCap.AmountOf(Std).BigInt(), Timeout: rc.Timeout, Repeated: rc.Repeated,
		Freq: rc.RepeatedFrequency, Total: rc.RepeatedTotal, Module: rc.ModuleName, Foreign: true, NoSched: true,
		Created: w.Height}
	switch rc.State {
	case svctypes.PAUSED:
		c.State = ctxPaused
	case svctypes.COMPLETED:
		c.State = ctxKilled
	}
	m.ctxs[id] = c
	m.ctxOrd = append(m.ctxOrd, id)
	w.Hit("svc.foreign_context_adopted")
	for _, f := range m.ctxSubs {
		f(w, c.export())
	}
}

func liveState(rc svctypes.RequestContext) int {
	switch rc.State {
	case svctypes.PAUSED:
		return ctxPaused
	case svctypes.COMPLETED:
		return ctxKilled
	}
	return ctxRunning
}

// observeCtx advances one context of the model by what the block did to it and judges the
// C08 schedule rules.
func (m *Module) observeCtx(w *engine.World, c *rctx, rc svctypes.RequestContext, found bool, charges map[string]coins, promo map[string]bool) {
	h := w.Height
	sched := !c.NoSched
	if !found {
		c.Removed = true
		if !sched {
			return
		}
		w.Hit("C08.removal_checks")
		switch {
		case !c.Repeated:
			// "A one-shot request context issues one batch and is then removed"
			if c.Batch != 1 || c.BatchExp != h {
				w.Violate("C08", "one-shot/removed-at-wrong-time", "one-shot context %s disappeared at height %d after %d batches (batch started %d, expires %d)", c.ID, h, c.Batch, c.BatchStart, c.BatchExp)
			} else {
				w.Hit("svc.oneshot_removed")
			}
		default:
			// the property does not say when a repeated context goes away, but one that is
			// running, never updated and below its total still owes batches ("issues batch
			// n+1 ... while running and below its total"), and one with a batch in flight still
			// owes its requests an outcome
			done := c.Total > 0 && int64(c.Batch) >= c.Total
			switch {
			case c.Batch > 0 && c.BatchExp > h:
				w.Violate("C08", "context/removed-with-batch-in-flight", "repeated context %s (state %s) disappeared at height %d while batch %d (expires %d) was in flight",
					c.ID, ctxStateName[c.State], h, c.Batch, c.BatchExp)
			case c.State == ctxRunning && !done && !c.Modified:
				w.Violate("C08", "context/removed-while-owing-batches", "repeated context %s (running, settings never updated, batch %d of %d) disappeared at height %d",
					c.ID, c.Batch, c.Total, h)
			case done:
				w.Hit("svc.repeated_total_reached")
			}
		}
		return
	}
	if c.Foreign {
		// settings of contexts owned by others are read, not modelled
		c.Timeout, c.Freq, c.Total, c.Providers = rc.Timeout, rc.RepeatedFrequency, rc.RepeatedTotal, append([]string{}, rc.Providers...)
		c.State = liveState(rc)
	}
	// state drift: the only state change no message asks for is the pause for lack of funds
	if ls := liveState(rc); ls != c.State {
		if ls == ctxPaused && c.State == ctxRunning {
			m.autoPaused(w, c)
		} else {
			w.Violate("C08", "context/state-drift", "context %s is %s in the committed state, the accepted messages say %s", c.ID, ctxStateName[ls], ctxStateName[c.State])
		}
		c.State = ls
		c.Clean = false
	}
	switch {
	case rc.BatchCounter == c.Batch:
		if !sched {
			break
		}
		// batch due and not issued?
		// shape of the case: is one of the listed providers priced in another denom than the
		// base denom (the batch then depends on an exchange rate being available)?
		shape := ""
		for _, p := range c.Providers {
			if b := m.bindings[bkey(c.Service, p)]; b != nil && b.Pr.Denom != Std {
				shape = "/non-base-price"
			}
		}
		switch {
		case c.Batch == 0 && c.Created == h && c.State == ctxRunning && !c.Foreign:
			w.Violate("C08", "schedule/first-batch-missing"+shape, "context %s created at height %d is running but issued no batch in that block", c.ID, h)
		case c.Repeated && c.Batch > 0 && c.Clean && c.State == ctxRunning && (c.Total < 0 || int64(c.Batch) < c.Total) &&
			h == c.BatchStart+int64(c.Freq):
			// "issues batch n+1 exactly its frequency after batch n while running and below its total"
			w.Violate("C08", "schedule/batch-missing"+shape, "repeated context %s (frequency %d, total %d) started batch %d at %d, was running and unmodified, but issued no batch at %d",
				c.ID, c.Freq, c.Total, c.Batch, c.BatchStart, h)
		case !c.Repeated && c.Batch == 1 && c.BatchExp == h:
			w.Violate("C08", "one-shot/not-removed-after-expiry", "one-shot context %s still exists after its only batch expired at %d", c.ID, h)
		}
	case rc.BatchCounter == c.Batch+1:
		if sched {
			w.Hit("C08.schedule_checks")
			switch {
			case c.State == ctxPaused:
				// "issues nothing while paused"
				w.Violate("C08", "schedule/batch-while-paused", "context %s issued batch %d at height %d while paused", c.ID, rc.BatchCounter, h)
			case c.State == ctxKilled:
				w.Violate("C08", "schedule/batch-after-kill", "context %s issued batch %d at height %d after it was killed", c.ID, rc.BatchCounter, h)
			}
			if !c.Repeated && c.Batch >= 1 {
				w.Violate("C08", "one-shot/second-batch", "one-shot context %s issued batch %d at height %d", c.ID, rc.BatchCounter, h)
			}
			if c.Repeated && c.Total > 0 && int64(rc.BatchCounter) > c.Total {
				// "a repeated context whose settings are not modified issues batch n+1 ... while
				// running and below its total": a context whose settings were never updated
				// must not go beyond its total, paused and resumed or not
				switch {
				case c.Modified:
					w.Hit("svc.beyond_total_after_update") // outside the clause: settings were modified
				case c.Resumed:
					w.Violate("C08", "schedule/beyond-total/after-resume", "repeated context %s with total %d (settings never updated) issued batch %d at height %d after a pause and start", c.ID, c.Total, rc.BatchCounter, h)
				default:
					w.Violate("C08", "schedule/beyond-total/running", "repeated context %s with total %d issued batch %d at height %d", c.ID, c.Total, rc.BatchCounter, h)
				}
			}
			if c.Repeated && c.Batch > 0 && c.Clean {
				w.Hit("C08.frequency_checks")
				if h != c.BatchStart+int64(c.Freq) {
					w.Violate("C08", "schedule/next-batch-offset", "repeated context %s (frequency %d), unmodified and running since batch %d started at %d, issued batch %d at %d instead of %d",
						c.ID, c.Freq, c.Batch, c.BatchStart, rc.BatchCounter, h, c.BatchStart+int64(c.Freq))
				}
			}
			if c.Batch > 0 && c.BatchExp > h {
				w.Violate("C08", "schedule/batch-overlap", "context %s issued batch %d at %d before batch %d expired (%d)", c.ID, rc.BatchCounter, h, c.Batch, c.BatchExp)
			}
		}
		c.Batch = rc.BatchCounter
		c.BatchStart = h
		c.BatchExp = h + c.Timeout
		c.Clean = true
		c.Resumed = false
		m.loadBatch(w, c, charges, promo)
		if c.Module != "" {
			if c.cbBatches == nil {
				c.cbBatches = map[uint64]*cbBatch{}
			}
			c.cbBatches[c.Batch] = &cbBatch{N: c.Batch, Exp: c.BatchExp, Thr: rc.BatchResponseThreshold, Reqs: c.lastLoaded}
		}
	case rc.BatchCounter > c.Batch+1 && c.Foreign && c.Batch == 0:
		// adopted in the middle of its life
		c.cbUnknown = true
		c.Batch, c.BatchStart, c.BatchExp = rc.BatchCounter, h, h+c.Timeout
	default:
		w.Violate("C08", "schedule/batch-counter-jump", "context %s: batch counter went from %d to %d in block %d", c.ID, c.Batch, rc.BatchCounter, h)
		c.cbUnknown = true
		c.Batch = rc.BatchCounter
	}
}

// checkCallbacks: "a registered module callback fires exactly once per batch, with the outputs
// if and only if the response threshold was met". A batch of a module-owned context completes
// inside the transaction that carries the last outstanding answer, or else in the end block
// of its expiration height (a batch without requests only there). The tap (committed blocks
// only, callbacks of failed transactions marked) says which response callbacks fired.
func (m *Module) checkCallbacks(w *engine.World) {
	h := w.Height
	fired := map[string][]CallbackRecord{}
	for _, rec := range m.blockCbs {
		if rec.Kind == "response" && !rec.TxFailed {
			fired[rec.ContextID] = append(fired[rec.ContextID], rec)
		}
	}
	for _, id := range m.ctxOrd {
		c := m.ctxs[id]
		if c.Module == "" || c.cbClosed {
			continue
		}
		if c.Removed {
			c.cbClosed = true
		}
		var done []*cbBatch
		var how []string
		var ns []uint64
		for n := range c.cbBatches {
			ns = append(ns, n)
		}
		sort.Slice(ns, func(i, j int) bool { return ns[i] < ns[j] })
		for _, n := range ns {
			b := c.cbBatches[n]
			if b.Done {
				delete(c.cbBatches, n)
				continue
			}
			all := len(b.Reqs) > 0
			for _, rid := range b.Reqs {
				all = all && m.reqs[rid] != nil && m.reqs[rid].State == reqAnswered
			}
			switch {
			case all:
				b.Done = true
				done, how = append(done, b), append(how, "last-answer")
			case b.Exp <= h:
				b.Done = true
				done, how = append(done, b), append(how, "expiry")
			}
		}
		recs := fired[strings.ToUpper(id)]
		if len(recs) == 0 {
			recs = fired[strings.ToLower(id)]
		}
		if c.cbUnknown {
			continue
		}
		w.Hit("C08.callback_checks")
		if len(recs) != len(done) {
			got := "none"
			if len(recs) == 1 {
				got = "one"
			} else if len(recs) > 1 {
				got = "several"
			}
			w.Violate("C08", fmt.Sprintf("callback/count/%d-completed/%s-fired/%s", len(done), got, strings.Join(how, "+")),
				"%s-owned context %s: %d batch(es) completed in block %d (%v) but the module's response callback fired %d time(s) in it", c.Module, c.ID, len(done), h, how, len(recs))
			continue
		}
		for i, b := range done {
			rec := recs[i]
			outs := 0
			for _, rid := range b.Reqs {
				if rq := m.reqs[rid]; rq != nil && rq.State == reqAnswered && rq.Output != "" {
					outs++
				}
			}
			met := outs >= int(b.Thr)
			w.Hit("svc.callback_" + how[i])
			if met {
				w.Hit("svc.callback_threshold_met")
			} else {
				w.Hit("svc.callback_below_threshold")
			}
			switch {
			case met && rec.Err != "":
				w.Violate("C08", "callback/verdict/threshold-met-but-error/"+how[i], "%s-owned context %s batch %d completed in block %d with %d output(s), threshold %d: the callback was handed the error %q",
					c.Module, c.ID, b.N, h, outs, b.Thr, rec.Err)
			case !met && rec.Err == "":
				w.Violate("C08", "callback/verdict/below-threshold-but-outputs/"+how[i], "%s-owned context %s batch %d completed in block %d with %d output(s), threshold %d: the callback was handed %d output(s) and no error",
					c.Module, c.ID, b.N, h, outs, b.Thr, rec.Outputs)
			case met && rec.Outputs != outs:
				w.Violate("C08", "callback/outputs/"+how[i], "%s-owned context %s batch %d completed in block %d with %d output(s): the callback was handed %d",
					c.Module, c.ID, b.N, h, outs, rec.Outputs)
			}
		}
	}
}

// autoPaused: the module paused a running context on its own; the only reason it may have is
// that the consumer could not pay for the batch.
func (m *Module) autoPaused(w *engine.World, c *rctx) {
	w.Hit("svc.auto_paused")
	// an upper bound of what one batch can cost: every listed provider at its full price
	bound := new(big.Int)
	known := true
	for _, p := range c.Providers {
		if b := m.bindings[bkey(c.Service, p)]; b != nil {
			if b.Pr.Denom != Std {
				known = false
			}
			bound.Add(bound, bigOf(b.Pr.Price))
		}
	}
	// what the consumer surely still had when this context's turn came: its balance before
	// the end block minus everything it paid into the request escrow in this end block
	// (other contexts of the same consumer may have been served first)
	bal := m.balBefore[c.Consumer]
	if bal != nil {
		for _, t := range transfersOf(m.endEvents) {
			if t.From == c.Consumer && t.To == reqAcc {
				bal = new(big.Int).Sub(bal, t.Amt.get(Std))
			}
		}
	}
	if known && bal != nil && bal.Cmp(bound) >= 0 && c.Module == "" {
		w.Violate("C08", "context/paused-with-funds", "context %s was paused by the module at height %d although its consumer still held at least %s%s after everything else it paid in that end block, enough for every listed provider at full price (%s)",
			c.ID, w.Height, bal, Std, bound)
	} else {
		w.Hit("svc.auto_paused_no_funds")
	}
}

// loadBatch reads the requests the end block created for the context's new batch.
func (m *Module) loadBatch(w *engine.World, c *rctx, charges map[string]coins, promo map[string]bool) {
	h := w.Height
	k := w.Node.K.Service
	res, err := k.RequestsByReqCtx(w.Node.Ctx(), &svctypes.QueryRequestsByReqCtxRequest{RequestContextId: c.ID, BatchCounter: c.Batch})
	if err != nil {
		engine.Fatal("service: requests query of context %s batch %d failed: %v", c.ID, c.Batch, err)
	}
	if len(res.Requests) == 0 {
		w.Hit("svc.batch_without_requests")
		// why (as far as the model can tell; coverage information only)
		for _, p := range c.Providers {
			b := m.bindings[bkey(c.Service, p)]
			switch {
			case b == nil:
				w.Hit("svc.empty_batch.unbound_provider")
			case !b.Available:
				w.Hit("svc.empty_batch.unavailable")
			case int64(b.QoS) > c.Timeout:
				w.Hit("svc.empty_batch.qos_above_timeout")
			case bigOf(b.Pr.Price).Cmp(c.FeeCap) > 0:
				w.Hit("svc.empty_batch.price_above_cap")
			default:
				w.Hit("svc.empty_batch.other")
			}
		}
	}
	w.Hit("svc.batches")
	c.lastLoaded = nil
	for i, q := range res.Requests {
		id := strings.ToUpper(q.Id)
		c.lastLoaded = append(c.lastLoaded, id)
		if m.reqs[id] != nil {
			w.Violate("C08", "request/id-reused", "request id %s issued twice", id)
			continue
		}
		rq := &request{ID: id, Ctx: c.ID, Batch: c.Batch, Provider: q.Provider, Consumer: q.Consumer, Service: q.ServiceName,
			Input: q.Input, Module: c.Module, Fee: coinsOf(q.ServiceFee), ReqH: q.RequestHeight, ExpH: q.ExpirationHeight, Index: i}
		m.reqs[id] = rq
		m.reqOrd = append(m.reqOrd, id)
		m.reqIdx[rkey(c.ID, c.Batch, q.Provider)] = id
		w.Hit("C08.request_shape_checks")
		listed := false
		for _, p := range c.Providers {
			listed = listed || p == q.Provider
		}
		if !listed {
			w.Violate("C08", "request/unlisted-provider", "request %s of context %s is addressed to %s, not one of the context's providers %v", id, c.ID, q.Provider, c.Providers)
		}
		if q.RequestHeight != h || q.ExpirationHeight != h+c.Timeout || q.Consumer != c.Consumer {
			w.Violate("C08", "request/shape", "request %s created at height %d for context %s (timeout %d, consumer %s) records height %d, expiration %d, consumer %s",
				id, h, c.ID, c.Timeout, c.Consumer, q.RequestHeight, q.ExpirationHeight, q.Consumer)
		}
		if charges[c.Consumer] == nil {
			charges[c.Consumer] = coins{}
		}
		charges[c.Consumer].addAll(rq.Fee)
		if b := m.bindings[bkey(rq.Service, rq.Provider)]; b != nil {
			if b.Pr.timePromo(w.Time) {
				promo[c.Consumer] = true
				w.Hit("svc.promo_time_at_batch")
			}
			if b.Pr.volPromo(m.volume[rq.Consumer+"|"+rq.Service+"|"+rq.Provider]) {
				promo[c.Consumer] = true
				w.Hit("svc.promo_volume_at_batch")
			}
		}
	}
}

// checkEndBlock compares the bank transfers of the end block with the expiries of the model
// and the fees recorded on the requests created in it.
func (m *Module) checkEndBlock(w *engine.World, ex *expiry, charges map[string]coins, promo map[string]bool) {
	paid := map[string]coins{} // into the request escrow, by sender
	got := map[string]coins{}  // out of the request escrow, by recipient
	slashTo := map[string]coins{}
	intoDep := coins{}
	outCol := coins{}
	at := func(mp map[string]coins, k string) coins {
		if mp[k] == nil {
			mp[k] = coins{}
		}
		return mp[k]
	}
	for _, t := range transfersOf(m.endEvents) {
		if t.To == reqAcc {
			at(paid, t.From).addAll(t.Amt)
		}
		if t.From == reqAcc {
			at(got, t.To).addAll(t.Amt)
		}
		if t.From == depAcc {
			at(slashTo, t.To).addAll(t.Amt)
		}
		if t.To == depAcc {
			intoDep.addAll(t.Amt)
		}
		if t.From == colAcc {
			outCol.addAll(t.Amt)
		}
	}
	// the transfers are the whole story for the three accounts (no mint or burn on them)
	if m.endSheet != nil {
		for _, acc := range []string{reqAcc, depAcc, colAcc} {
			net := coins{}
			for _, t := range transfersOf(m.endEvents) {
				if t.To == acc {
					net.addAll(t.Amt)
				}
				if t.From == acc {
					net.subAll(t.Amt)
				}
			}
			sheet := coins{}
			for _, d := range m.endSheet.Denoms(acc) {
				sheet.add(d, m.endSheet.Of(acc, d))
			}
			if !net.eq(sheet) {
				w.Violate("C07", "endblock/untracked-movement", "end block of %d changed %s by %s, its transfers add up to %s", w.Height, acc, sheet, net)
			}
		}
	}
	who := map[string]bool{}
	for k := range paid {
		who[k] = true
	}
	for k := range got {
		who[k] = true
	}
	for k := range charges {
		who[k] = true
	}
	for k := range ex.refunds {
		who[k] = true
	}
	for _, a := range engine.SortedKeys(who) {
		p, c := paid[a], charges[a]
		if p == nil {
			p = coins{}
		}
		if c == nil {
			c = coins{}
		}
		if !c.isZero() || !p.isZero() {
			w.Hit("C07.endblock_charge_checks")
			// "A consumer is charged exactly the sum of the fees recorded on the requests issued for them"
			if !p.eq(c) {
				shape := "flat-price"
				if promo[a] {
					shape = "promotion-in-force"
				}
				w.Violate("C07", "endblock-charge/"+shape, "end block of %d: %s paid %s into the request escrow, the requests created for it in this block record fees of %s in total",
					w.Height, a, p, c)
			}
		}
		g, r := got[a], ex.refunds[a]
		if g == nil {
			g = coins{}
		}
		if r == nil {
			r = coins{}
		}
		if !g.isZero() || !r.isZero() {
			w.Hit("C07.expiry_refund_checks")
			// "or entirely back with the consumer when it expires"
			if !g.eq(r) {
				w.Violate("C07", "expiry/refund", "end block of %d: %s received %s out of the request escrow, its requests expiring at this height carry fees of %s",
					w.Height, a, g, r)
			}
		}
	}
	// slashing: deposit escrow -> fee pool, the configured fraction of each expiring
	// request's binding deposit, rounded down
	toCol := slashTo[colAcc]
	if toCol == nil {
		toCol = coins{}
	}
	wantSlash := coins{}
	wantSlash.add(Std, ex.slashed)
	if ex.n > 0 || !toCol.isZero() {
		w.Hit("C07.slash_checks")
		if !toCol.eq(wantSlash) {
			w.Violate("C07", "slash/amount", "end block of %d: %s moved from the deposit escrow to the fee pool, %d expiring requests under slash fraction %s/1e18 call for %s",
				w.Height, toCol, ex.n, m.par.Slash, wantSlash)
		}
	}
	for _, to := range engine.SortedKeys(slashTo) {
		if to != colAcc && !slashTo[to].isZero() {
			w.Violate("C07", "slash/destination", "end block of %d moved %s from the deposit escrow to %s", w.Height, slashTo[to], to)
		}
	}
	if !intoDep.isZero() || !outCol.isZero() {
		w.Violate("C07", "endblock/unexpected-flow", "end block of %d moved %s into the deposit escrow and %s out of the fee pool", w.Height, intoDep, outCol)
	}
}

// checkEscrows: the two escrow equations and the tallies, on the committed state.
func (m *Module) checkEscrows(w *engine.World) {
	ctx := w.Node.Ctx()
	k := w.Node.K.Service
	cdc := w.Node.App.AppCodec()
	w.Hit("C07.escrow_checks")

	// "The deposit escrow always equals the sum of all bindings' recorded deposits"
	sumDep := coins{}
	owners := map[string][]string{} // owner -> providers
	seenProv := map[string]bool{}
	k.IterateServiceBindings(ctx, func(b svctypes.ServiceBinding) bool {
		sumDep.addAll(coinsOf(b.Deposit))
		if !seenProv[b.Provider] {
			seenProv[b.Provider] = true
			owners[b.Owner] = append(owners[b.Owner], b.Provider)
		}
		if mb := m.bindings[bkey(b.ServiceName, b.Provider)]; mb != nil {
			if b.Deposit.AmountOf(Std).BigInt().Cmp(mb.Deposit) != 0 || len(b.Deposit) > 1 {
				// "binding.deposit reduced by the same" amount that left the escrow
				w.Violate("C07", "deposit/binding-record", "binding (%s, %s) records deposit %s, the accepted messages and slashes so far give %s%s",
					b.ServiceName, b.Provider, b.Deposit, mb.Deposit, Std)
				mb.Deposit = b.Deposit.AmountOf(Std).BigInt()
			}
			if !b.Available && mb.Available {
				w.Hit("svc.binding_disabled_by_slash")
				mb.DisabledAt = w.Time
			}
			mb.Available = b.Available
		}
		return false
	})
	depBal := coins{}
	for _, d := range w.Ledger.Denoms(depAcc) {
		depBal.add(d, w.Bal(depAcc, d))
	}
	depBal.subAll(m.don(depAcc))
	if !depBal.eq(sumDep) {
		w.Violate("C07", "escrow/deposit-account", "after block %d the deposit escrow holds %s (donations excluded), the bindings record %s in total", w.Height, depBal, sumDep)
	}

	// "the request-fee escrow always equals the fees of requests still awaiting a response plus
	// all earned fees not yet withdrawn"
	liab := coins{}
	nActive := 0
	k.IterateRequests(ctx, func(id tmbytes.HexBytes, r svctypes.CompactRequest) bool {
		if k.IsRequestActive(ctx, id) {
			liab.addAll(coinsOf(r.ServiceFee))
			nActive++
		}
		return false
	})
	earnedSum := coins{}
	it := k.AllEarnedFeesIterator(ctx)
	for ; it.Valid(); it.Next() {
		var c sdk.Coin
		cdc.MustUnmarshal(it.Value(), &c)
		earnedSum.add(c.Denom, c.Amount.BigInt())
	}
	it.Close()
	liab.addAll(earnedSum)
	reqBal := coins{}
	for _, d := range w.Ledger.Denoms(reqAcc) {
		reqBal.add(d, w.Bal(reqAcc, d))
	}
	reqBal.subAll(m.don(reqAcc))
	if !reqBal.eq(liab) {
		w.Violate("C07", "escrow/request-account", "after block %d the request escrow holds %s (donations excluded); fees of the %d active requests plus unwithdrawn earned fees (%s) come to %s",
			w.Height, reqBal, nActive, earnedSum, liab)
	}

	// "(provider-side and owner-side tallies agreeing)"
	for _, o := range engine.SortedKeys(owners) {
		oa, err := sdk.AccAddressFromBech32(o)
		if err != nil {
			continue
		}
		sum := coins{}
		for _, p := range owners[o] {
			pa, _ := sdk.AccAddressFromBech32(p)
			fees, _ := k.GetEarnedFees(ctx, pa)
			pc := coinsOf(fees)
			sum.addAll(pc)
			if _, mine := m.ownerOf[p]; mine {
				if !pc.eq(m.earn(p)) {
					// "provider tally + the rest"; "withdraw ... zeroes it"
					w.Violate("C07", "earned/provider-tally", "provider %s has an earned-fee tally of %s, accepted responses minus tax and withdrawals give %s", p, pc, m.earn(p))
					m.earned[p] = pc
				}
			}
		}
		of, _ := k.GetOwnerEarnedFees(ctx, oa)
		if oc := coinsOf(of); !oc.eq(sum) {
			w.Violate("C07", "earned/owner-tally", "owner %s: owner-side tally %s, its providers' tallies add up to %s", o, oc, sum)
		}
	}
}

// checkMarkers: "after the end-block of its expiration height no active marker remains";
// every request is active in the store exactly as long as the model says.
func (m *Module) checkMarkers(w *engine.World) {
	ctx := w.Node.Ctx()
	k := w.Node.K.Service
	h := w.Height
	nModel := 0
	for _, id := range m.reqOrd {
		rq := m.reqs[id]
		if rq.State == reqActive {
			nModel++
		}
		if rq.State != reqActive && rq.DoneAt < h-1 && rq.ExpH < h-1 {
			continue // judged when it finished and once more at its expiration height
		}
		w.Hit("C08.marker_checks")
		act := k.IsRequestActive(ctx, idBytes(id))
		switch {
		case rq.State == reqActive && rq.ExpH <= h:
			w.Violate("C08", "request/alive-past-expiration", "request %s (expiration %d) has no outcome after block %d", id, rq.ExpH, h)
		case act && rq.State != reqActive:
			w.Violate("C08", "request/marker-after-outcome", "request %s is still marked active after block %d although it was %s at %d", id, h, []string{"", "answered", "expired"}[rq.State], rq.DoneAt)
		case !act && rq.State == reqActive:
			w.Violate("C08", "request/marker-lost", "request %s (expiration %d) lost its active marker by block %d without answer or expiry", id, rq.ExpH, h)
		}
	}
	// no marker the model does not know of
	store := ctx.KVStore(w.Node.App.GetKey(svctypes.StoreKey))
	it := storetypes.KVStorePrefixIterator(store, svctypes.ActiveRequestByIDKey)
	n := 0
	for ; it.Valid(); it.Next() {
		n++
		id := strings.ToUpper(hex.EncodeToString(it.Key()[1:]))
		if m.reqs[id] == nil {
			w.Violate("C08", "request/unknown-active-marker", "active marker for request %s which no observed batch created", id)
		}
	}
	it.Close()
	if n != nModel {
		w.Violate("C08", "request/active-count", "%d active markers in the store after block %d, the model has %d active requests", n, h, nModel)
	}
}

// QueueCheck verifies the hygiene of the service module's two block queues by raw store
// iteration (C13): "every queue entry refers to an existing object while every object
// awaiting time-based processing has exactly one entry, at its due height".
func QueueCheck(w *engine.World) {
	m, _ := w.Mod(Name).(*Module)
	ctx := w.Node.Ctx()
	cdc := w.Node.App.AppCodec()
	k := w.Node.K.Service
	store := ctx.KVStore(w.Node.App.GetKey(svctypes.StoreKey))
	h := w.Height
	w.Hit("C13.service_queue_checks")
	type ent struct {
		h  int64
		id string
	}
	read := func(prefix []byte) (byCtx map[string][]int64) {
		byCtx = map[string][]int64{}
		it := storetypes.KVStorePrefixIterator(store, prefix)
		defer it.Close()
		for ; it.Valid(); it.Next() {
			key := it.Key()[len(prefix):]
			if len(key) < 8 {
				continue
			}
			e := ent{h: int64(binary.BigEndian.Uint64(key[:8])), id: strings.ToUpper(hex.EncodeToString(key[8:]))}
			byCtx[e.id] = append(byCtx[e.id], e.h)
		}
		return
	}
	marks := func(prefix []byte) map[string]int64 {
		out := map[string]int64{}
		it := storetypes.KVStorePrefixIterator(store, prefix)
		defer it.Close()
		for ; it.Valid(); it.Next() {
			var v gogotypes.Int64Value
			cdc.MustUnmarshal(it.Value(), &v)
			out[strings.ToUpper(hex.EncodeToString(it.Key()[len(prefix):]))] = v.Value
		}
		return out
	}
	queues := []struct {
		name    string
		entries map[string][]int64
		marks   map[string]int64
	}{
		{"new-batch", read(svctypes.NewRequestBatchKey), marks(svctypes.NewRequestBatchHeightKey)},
		{"expired-batch", read(svctypes.ExpiredRequestBatchKey), marks(svctypes.ExpiredRequestBatchHeightKey)},
	}
	for _, q := range queues {
		for _, id := range engine.SortedKeys(q.entries) {
			hs := q.entries[id]
			sort.Slice(hs, func(i, j int) bool { return hs[i] < hs[j] })
			if _, found := k.GetRequestContext(ctx, idBytes(id)); !found {
				w.Violate("C13", "queue/service/"+q.name+"/dangling-entry", "%s queue entry at %v for context %s which does not exist (after block %d)", q.name, hs, id, h)
			}
			if hs[0] <= h {
				w.Violate("C13", "queue/service/"+q.name+"/stale-entry", "%s queue entry for context %s at height %d survived block %d", q.name, id, hs[0], h)
			}
			if len(hs) > 1 {
				w.Violate("C13", "queue/service/"+q.name+"/several-entries", "context %s has %d %s queue entries: %v", id, len(hs), q.name, hs)
			}
			if mk, ok := q.marks[id]; !ok || mk != hs[len(hs)-1] {
				w.Violate("C13", "queue/service/"+q.name+"/marker-mismatch", "context %s: %s queue entries at %v, height marker %d (present %v)", id, q.name, hs, mk, ok)
			}
		}
		for _, id := range engine.SortedKeys(q.marks) {
			if len(q.entries[id]) == 0 {
				w.Violate("C13", "queue/service/"+q.name+"/marker-without-entry", "context %s has a %s height marker (%d) but no queue entry (after block %d)", id, q.name, q.marks[id], h)
			}
		}
	}
	if m == nil {
		return
	}
	// the objects awaiting processing, as the model knows them
	for _, id := range m.ctxOrd {
		c := m.ctxs[id]
		if c.Removed {
			continue
		}
		exp := queues[1].entries[id]
		nb := queues[0].entries[id]
		if c.Batch > 0 && c.BatchExp > h {
			// a batch that has not reached its expiration height awaits exactly that
			if len(exp) != 1 || exp[0] != c.BatchExp {
				w.Violate("C13", "queue/service/running-batch-expiry", "context %s: batch %d started at %d expires at %d, expired-batch queue entries: %v", id, c.Batch, c.BatchStart, c.BatchExp, exp)
			}
		} else if len(exp) > 0 {
			w.Violate("C13", "queue/service/expiry-without-batch", "context %s has no batch in flight (batch %d expired at %d) but expired-batch entries %v", id, c.Batch, c.BatchExp, exp)
		}
		between := c.Batch == 0 || c.BatchExp <= h
		if !c.NoSched && c.State == ctxRunning && between && c.Repeated && (c.Total < 0 || int64(c.Batch) < c.Total) {
			// a running repeated context between two batches awaits its next batch
			if len(nb) != 1 {
				w.Violate("C13", "queue/service/running-context-next-batch", "running repeated context %s (batch %d of %d, last expired %d) has %d new-batch queue entries after block %d: %v",
					id, c.Batch, c.Total, c.BatchExp, len(nb), h, nb)
			} else if c.Clean && c.Batch > 0 && nb[0] != c.BatchStart+int64(c.Freq) {
				w.Violate("C13", "queue/service/next-batch-height", "context %s: batch %d started at %d, frequency %d, next batch queued at %d", id, c.Batch, c.BatchStart, c.Freq, nb[0])
			}
		}
	}
}

// Final: every request whose expiration height has passed has its outcome.
func (m *Module) Final(w *engine.World) {
	for _, id := range m.reqOrd {
		rq := m.reqs[id]
		// judged on committed blocks only: a history cut short by a halted block has no
		// end block for that height
		if rq.State == reqActive && rq.ExpH <= m.committed {
			w.Violate("C08", "request/no-outcome-at-end", "request %s (expiration %d) ends the history at height %d without an outcome", id, rq.ExpH, m.committed)
		}
	}
	_ = fmt.Sprint
}
