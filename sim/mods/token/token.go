// Package tokenmod is the token workload, the simulator's EVM stub (evm.go) and the oracles
// of C09 (identity, authority, supply cap, burn tally, fee split) and C10 (ERC20 and
// fee-token conversions conserve value).
package tokenmod

import (
	"encoding/json"
	"fmt"
	"math/big"
	"strconv"
	"strings"

	sdkmath "cosmossdk.io/math"
	storetypes "cosmossdk.io/store/types"
	sdk "github.com/cosmos/cosmos-sdk/types"
	authtypes "github.com/cosmos/cosmos-sdk/x/auth/types"
	distrtypes "github.com/cosmos/cosmos-sdk/x/distribution/types"
	"github.com/ethereum/go-ethereum/common"

	tokentypes "mods.irisnet.org/modules/token/types"
	v1 "mods.irisnet.org/modules/token/types/v1"
	"mods.irisnet.org/modules/token/types/v1beta1"
	"mods.irisnet.org/simapp"

	"verif/sim/engine"
)

const (
	Name     = "token"
	maxU64   = ^uint64(0)
	maxInit  = uint64(100000000000) // stated limit of the initial supply ("100 billion")
	stake    = "stake"
	maxScale = 18
)

var e18 = new(big.Int).Exp(big.NewInt(10), big.NewInt(18), nil)

func pow10(n uint32) *big.Int { return new(big.Int).Exp(big.NewInt(10), big.NewInt(int64(n)), nil) }

// ---- configuration -----------------------------------------------------------------------

type poolTok struct {
	Symbol  string `json:"symbol"`
	MinUnit string `json:"min_unit"`
	Scale   uint32 `json:"scale"`
	Conv    bool   `json:"conv"` // may be deployed / converted / fee-swapped
}

type pairCfg struct {
	In    string `json:"in"`    // min unit burned
	Out   string `json:"out"`   // min unit minted
	Ratio string `json:"ratio"` // 18-decimal fixed point as integer string
}

// Config is the per-run swarm configuration.
type Config struct {
	Pool        []poolTok `json:"pool"`
	FeeSym      string    `json:"fee_symbol"` // "stake" or the run's own fee token
	FeeMin      string    `json:"fee_min_unit"`
	FeeScale    uint32    `json:"fee_scale"`
	// Orphan: the genesis carries a token record without an owner (valid for the module's
	// genesis validation; "nobody governs it" must then hold for every account)
	Orphan bool `json:"orphan,omitempty"`
	// BulkTokens: the chain starts with about a hundred more tokens (a long history behind the
	// chain): registries beyond what one page of a listing holds
	BulkTokens int `json:"bulk_tokens,omitempty"`
	Tax         string    `json:"tax"`        // 18-decimal integers
	MintRatio   string    `json:"mint_ratio"` //
	BaseFee     string    `json:"base_fee"`   // main units of the fee token
	Beacon      string    `json:"beacon"`
	EnableErc20 bool      `json:"enable_erc20"`
	Pairs       []pairCfg `json:"pairs"`
	IBC         []string  `json:"ibc"`
	Unsupported []int     `json:"unsupported_key_actors"`
	PIssue      float64   `json:"p_issue"`
	PConv       float64   `json:"p_conv"`
	PFeeSwap    float64   `json:"p_feeswap"`
	PFault      float64   `json:"p_evm_fault"`
	PStranger   float64   `json:"p_stranger"`
	PParam      float64   `json:"p_param"`
	PMulti      float64   `json:"p_multi"`
	PRace       float64   `json:"p_race"`
	PEdge       float64   `json:"p_edge_amount"`
	PLegacy     float64   `json:"p_legacy"`     // share of issue/edit/mint/burn/transfer sent as v1beta1 messages
	PGhost      float64   `json:"p_ghost"`      // operations around identifiers of issue attempts that did not commit
	PGhostMake  float64   `json:"p_ghost_make"` // planned issue + failing second message, then probing
}

type params struct {
	Tax, MintRatio *big.Int // scaled by 1e18
	BaseFee        *big.Int
	FeeSym         string
	Enable         bool
	Beacon         string
}

// tok is the reference model's view of one token.
const (
	orphanSym = "orphan"
	orphanMin = "uorphan"
)

type tok struct {
	Symbol, MinUnit, Name string
	Scale                 uint32
	Owner                 string
	Prev                  []string // previous owners, oldest first
	Mintable              bool
	Max                   uint64
	MaxKnown              bool
	Contract              string // hex, "" when none
	Genesis               bool
	NoCap                 bool // genesis token whose bank supply was never tied to the record
	// Tainted: an accepted conversion or fee-token swap moved this token's native supply;
	// C09 quantifies over issue/edit/mint/burn/transfer histories only, so its cap clause
	// is no longer judged for the token.
	Tainted bool
	// BelowByEdit: an accepted edit set the maximum below the circulating amount (reported
	// once under its own key); the cap comparison is suspended until it holds again.
	BelowByEdit bool
}

type faultSpec struct {
	Kind  string
	Delta string
}

type convNote struct{ accepted, rejected bool }

// Module implements engine.Module.
type Module struct {
	engine.Base
	cfg     Config
	par     params
	toks    map[string]*tok // by symbol
	byMin   map[string]*tok
	burnt   map[string]*big.Int            // min unit -> Σ accepted MsgBurnToken amounts
	modHold map[string]*big.Int            // denom -> coins users deliberately sent to the module account
	erc     map[string]map[string]*big.Int // contract hex -> account hex -> balance

	faults      map[string]faultSpec // tx key -> fault (written by Build only)
	faultHeight map[string]int64
	fired       map[string]string // tx key -> fault kind that actually fired (written by the stub)
	opKey       map[int]string    // op id -> tx key
	unsupported map[string]bool   // bech32 addresses whose keys the EVM refuses
	pairs       map[string]pairCfg

	key     storetypes.StoreKey
	planned []*engine.TxPlan
	fresh   int
	// identifiers of issue attempts that did not commit (ghost.go)
	ghosts   []ghost
	ghostMin map[string]bool
	ghostSym map[string]bool
	// denoms a fee swap paid out before any token declared them (reported under C10)
	phantomDenom map[string]bool
	// per block
	conv        map[string]*convNote // contract hex ("" = unknown) -> conversion outcomes of this block
	sawRejected bool
	// overlay of the earlier messages of the transaction being judged
	overlay []*engine.Sheet
}

func New() *Module {
	return &Module{toks: map[string]*tok{}, byMin: map[string]*tok{}, burnt: map[string]*big.Int{}, modHold: map[string]*big.Int{},
		erc: map[string]map[string]*big.Int{}, faults: map[string]faultSpec{}, faultHeight: map[string]int64{},
		fired: map[string]string{}, opKey: map[int]string{}, unsupported: map[string]bool{},
		pairs: map[string]pairCfg{}, conv: map[string]*convNote{}, ghostMin: map[string]bool{}, ghostSym: map[string]bool{}, phantomDenom: map[string]bool{}}
}

func (m *Module) Name() string { return Name }

func bigOf(s string) *big.Int {
	v, ok := new(big.Int).SetString(s, 10)
	if !ok {
		engine.Fatal("token: bad integer %q", s)
	}
	return v
}

func u64Of(s string) uint64 {
	v, err := strconv.ParseUint(s, 10, 64)
	if err != nil {
		engine.Fatal("token: bad uint64 %q", s)
	}
	return v
}

func dec(v *big.Int) sdkmath.LegacyDec { return sdkmath.LegacyNewDecFromBigIntWithPrec(v, 18) }

// rate draws a ratio in [0,1] as an 18-decimal integer, edges included.
func rate(r *engine.Rand) string {
	switch r.Intn(7) {
	case 0:
		return "0"
	case 1:
		return e18.String()
	case 2:
		return "400000000000000000"
	case 3:
		return "1"
	case 4:
		return new(big.Int).Sub(e18, big.NewInt(1)).String()
	case 5:
		v := big.NewInt(1 + r.Int63n(99))
		return v.Mul(v, new(big.Int).Exp(big.NewInt(10), big.NewInt(16), nil)).String()
	default:
		return r.BigBelow(new(big.Int).Add(e18, big.NewInt(1))).String()
	}
}

func baseFee(r *engine.Rand) string {
	switch r.Intn(6) {
	case 0:
		return "0"
	case 1:
		return "1"
	case 2:
		return "60000"
	default:
		return r.BigLogUniform(30).String()
	}
}

func ratio(r *engine.Rand) string {
	e := func(n int64) *big.Int { return new(big.Int).Exp(big.NewInt(10), big.NewInt(n), nil) }
	switch r.Intn(10) {
	case 0:
		return new(big.Int).Quo(e18, big.NewInt(2)).String() // 0.5
	case 1:
		return new(big.Int).Mul(e18, big.NewInt(2)).String() // 2
	case 2:
		return new(big.Int).Quo(new(big.Int).Mul(e18, big.NewInt(3)), big.NewInt(2)).String() // 1.5
	case 3:
		return "1" // 1e-18
	case 4:
		return "333333333333333333"
	case 5:
		// just below a power of ten
		return new(big.Int).Sub(e(18+r.Range(0, 6)), big.NewInt(1+r.Int63n(9))).String()
	case 6:
		return new(big.Int).Mul(e18, big.NewInt(1+r.Int63n(1000))).String()
	case 7:
		return new(big.Int).Add(r.BigBelow(e(19)), big.NewInt(1)).String() // (0,10)
	default:
		return new(big.Int).Add(r.BigLogUniform(80), big.NewInt(0)).String()
	}
}

func scaleOf(r *engine.Rand) uint32 {
	switch r.Intn(6) {
	case 0:
		return 0
	case 1:
		return 18
	case 2:
		return 6
	case 3:
		return 1
	default:
		return uint32(r.Intn(maxScale + 1))
	}
}

func symbolOf(i int, length int) string {
	const fill = "abcdefghijklmnopqrstuvwxyz0123456789"
	b := []byte{'k', byte('a' + i)}
	for j := 0; len(b) < length; j++ {
		b = append(b, fill[(i*7+j*3)%len(fill)])
	}
	return string(b)
}

func (m *Module) Configure(w *engine.World, r *engine.Rand) any {
	c10 := w.Focus == "C10"
	c := Config{EnableErc20: true, Beacon: "0x00000000000000000000000000000000000bEac0"}
	n := 3 + r.Intn(5)
	lens := []int{3, 3, 4, 5, 8, 20, 64}
	for i := 0; i < n; i++ {
		sym := symbolOf(i, lens[r.Intn(len(lens))])
		mu := "u" + sym
		if len(mu) > 64 {
			mu = mu[:64]
		}
		pc := 0.3
		if c10 {
			pc = 0.85
		}
		c.Pool = append(c.Pool, poolTok{Symbol: sym, MinUnit: mu, Scale: scaleOf(r), Conv: r.Bool(pc)})
	}
	// identifiers colliding across kinds: a token whose SYMBOL is another token's MIN UNIT, and
	// one whose MIN UNIT is another token's SYMBOL (both are valid: uniqueness is per kind)
	if r.Bool(0.65) {
		a := c.Pool[r.Intn(len(c.Pool))]
		clip := func(s string) string {
			if len(s) > 64 {
				return s[:64]
			}
			return s
		}
		both := r.Bool(0.4)
		if both || r.Bool(0.6) {
			c.Pool = append(c.Pool, poolTok{Symbol: a.MinUnit, MinUnit: clip("u" + a.MinUnit), Scale: scaleOf(r), Conv: true})
		}
		if both || len(c.Pool) == n {
			c.Pool = append(c.Pool, poolTok{Symbol: clip("c" + a.Symbol), MinUnit: a.Symbol, Scale: scaleOf(r), Conv: true})
		}
		for i := range c.Pool {
			if c.Pool[i].Symbol == a.Symbol {
				c.Pool[i].Conv = true
			}
		}
	}
	if r.Bool(0.5) {
		c.FeeSym, c.FeeMin, c.FeeScale = stake, stake, 0
	} else {
		c.FeeSym, c.FeeMin, c.FeeScale = symbolOf(20, 3+r.Intn(6)), "ufee", scaleOf(r)
	}
	c.Tax, c.MintRatio, c.BaseFee = rate(r), rate(r), baseFee(r)
	// fee-token swap pairs: ratio 1 in half the runs
	allOne := r.Bool(0.5)
	np := r.Intn(3)
	if c10 {
		np = 1 + r.Intn(3)
	}
	var convMins []string
	for _, p := range c.Pool {
		if p.Conv {
			convMins = append(convMins, p.MinUnit)
		}
	}
	used := map[string]bool{}
	for i := 0; i < np && len(convMins) > 0; i++ {
		var in string
		switch r.Intn(3) {
		case 0:
			in = stake
		case 1:
			in = c.FeeMin
		default:
			in = convMins[r.Intn(len(convMins))]
		}
		out := convMins[r.Intn(len(convMins))]
		if r.Bool(0.15) {
			out = c.FeeMin
		}
		if in == out || used[in] {
			continue
		}
		used[in] = true
		rt := e18.String()
		if !allOne {
			rt = ratio(r)
		}
		c.Pairs = append(c.Pairs, pairCfg{In: in, Out: out, Ratio: rt})
	}
	if r.Bool(0.4) {
		c.IBC = append(c.IBC, "ibc/27394FB092D2ECCD56123C74F36E4C1F926001CEADA9CA97EA622B25F41E5EB2")
	}
	if r.Bool(0.25) {
		c.Unsupported = append(c.Unsupported, r.Intn(w.Cfg.Actors-1))
	}
	c.PIssue = 0.08 + 0.15*r.Float()
	c.PConv = 0.1 + 0.2*r.Float()
	c.PFeeSwap = 0.05 + 0.1*r.Float()
	if c10 {
		c.PConv = 0.3 + 0.3*r.Float()
		c.PFeeSwap = 0.1 + 0.2*r.Float()
	}
	if r.Bool(0.7) {
		c.PFault = 0.05 + 0.3*r.Float()
	}
	c.PStranger = 0.1 + 0.25*r.Float()
	if r.Bool(0.6) {
		c.PParam = 0.04 * r.Float()
	}
	if r.Bool(0.5) {
		c.PMulti = 0.08 * r.Float()
	}
	c.PRace = 0.2 + 0.4*r.Float()
	c.PEdge = 0.3 + 0.4*r.Float()
	if r.Bool(0.75) {
		c.PLegacy = 0.05 + 0.3*r.Float()
	}
	if r.Bool(0.8) {
		c.PGhost = 0.02 + 0.1*r.Float()
		c.PGhostMake = 0.01 + 0.04*r.Float()
	}
	c.Orphan = r.Bool(0.35)
	// (a stream of its own: a seed's run is otherwise what it was before this arm existed)
	if br := engine.NewRand(engine.Mix(w.Sched.Seed, "token-bulk", 0)); br.Bool(0.06) {
		c.BulkTokens = 96 + br.Intn(10)
	}
	return c
}

func (m *Module) LoadConfig(w *engine.World, raw json.RawMessage) {
	if err := json.Unmarshal(raw, &m.cfg); err != nil {
		engine.Fatal("token config: %v", err)
	}
	c := m.cfg
	m.par = params{Tax: bigOf(c.Tax), MintRatio: bigOf(c.MintRatio), BaseFee: bigOf(c.BaseFee),
		FeeSym: c.FeeSym, Enable: c.EnableErc20, Beacon: c.Beacon}
	for _, p := range c.Pairs {
		m.pairs[p.In] = p
	}
}

func (m *Module) ownFee() bool { return m.cfg.FeeMin != stake }

func (m *Module) Setup(w *engine.World) {
	if m.ownFee() {
		per := new(big.Int).Mul(new(big.Int).Lsh(big.NewInt(1), 44), pow10(m.cfg.FeeScale))
		w.NeedDenom(m.cfg.FeeMin, per)
	}
	for _, d := range m.cfg.IBC {
		w.NeedDenom(d, new(big.Int).Lsh(big.NewInt(1), 100))
	}
	if m.cfg.Orphan {
		w.NeedDenom(orphanMin, new(big.Int).Lsh(big.NewInt(1), 60))
	}
	for _, i := range m.cfg.Unsupported {
		m.unsupported[w.A(i).Addr.String()] = true
	}
	w.NodeOpt.NewEVM = func() tokentypes.EVMKeeper { return &simEVM{m: m} }
	w.NodeOpt.NewICS20 = func() tokentypes.ICS20Keeper { return &simICS20{m: m} }
	w.OnPostBuild(func(n *engine.Node) {
		// everything process-local is rebuilt here: after a restart the stub is a new
		// object and the keeper's swap registry is empty again
		key := n.App.GetKey(tokentypes.StoreKey)
		if n == w.Node || w.Node == nil {
			m.key = key
		}
		if s, ok := n.EVM.(*simEVM); ok {
			s.key = key
			s.ak = n.App.AccountKeeper
			s.dec = n.App.TxConfig().TxDecoder()
		}
		reg := n.K.Token.VerifSwapRegistry()
		for _, p := range m.cfg.Pairs {
			reg[p.In] = v1.SwapParams{MinUnit: p.Out, Ratio: dec(bigOf(p.Ratio))}
		}
	})
}

type simICS20 struct{ m *Module }

// HasTrace implements types.ICS20Keeper from the scenario.
func (s *simICS20) HasTrace(_ sdk.Context, denom string) bool {
	for _, d := range s.m.cfg.IBC {
		if d == denom {
			return true
		}
	}
	return false
}

func (m *Module) sdkParams(p params) v1.Params {
	return v1.Params{TokenTaxRate: dec(p.Tax), MintTokenFeeRatio: dec(p.MintRatio),
		IssueTokenBaseFee: sdk.NewCoin(p.FeeSym, engine.Int(p.BaseFee)), EnableErc20: p.Enable, Beacon: p.Beacon}
}

func (m *Module) addTok(t *tok) {
	m.toks[t.Symbol] = t
	m.byMin[t.MinUnit] = t
}

func (m *Module) Genesis(w *engine.World, n *engine.Node, gs simapp.GenesisState) {
	cdc := n.App.AppCodec()
	var g v1.GenesisState
	cdc.MustUnmarshalJSON(gs[tokentypes.ModuleName], &g)
	g.Params = m.sdkParams(m.par)
	if err := g.Params.Validate(); err != nil {
		engine.Fatal("token: generated invalid params: %v", err)
	}
	if m.ownFee() {
		g.Tokens = append(g.Tokens, v1.Token{Symbol: m.cfg.FeeSym, Name: "run fee token", Scale: m.cfg.FeeScale,
			MinUnit: m.cfg.FeeMin, InitialSupply: 0, MaxSupply: maxU64, Mintable: true, Owner: w.A(0).Addr.String()})
	}
	if m.cfg.Orphan {
		g.Tokens = append(g.Tokens, v1.Token{Symbol: orphanSym, Name: "token without an owner", Scale: 6,
			MinUnit: orphanMin, InitialSupply: 0, MaxSupply: maxU64, Mintable: false, Owner: ""})
	}
	if m.cfg.BulkTokens > 0 {
		w.Hit("token.genesis_bulk_tokens")
	}
	for i := 0; i < m.cfg.BulkTokens; i++ {
		g.Tokens = append(g.Tokens, v1.Token{Symbol: fmt.Sprintf("blk%03d", i), Name: "bulk token", Scale: uint32(i % 7),
			MinUnit: fmt.Sprintf("ublk%03d", i), InitialSupply: 0, MaxSupply: uint64(1000 + i), Mintable: i%8 == 0,
			Owner: w.A(i % (len(w.Actors) - 1)).Addr.String()})
	}
	for _, t := range g.Tokens {
		if m.toks[t.Symbol] == nil {
			m.addTok(&tok{Symbol: t.Symbol, MinUnit: t.MinUnit, Name: t.Name, Scale: t.Scale, Owner: t.Owner,
				Mintable: t.Mintable, Max: t.MaxSupply, MaxKnown: true, Genesis: true, NoCap: t.MinUnit == stake || t.MinUnit == orphanMin})
		}
	}
	gs[tokentypes.ModuleName] = cdc.MustMarshalJSON(&g)
}

// ---- operations ----------------------------------------------------------------------------

type issueArgs struct {
	Symbol   string `json:"symbol"`
	MinUnit  string `json:"min_unit"`
	Name     string `json:"name"`
	Scale    uint32 `json:"scale"`
	Initial  string `json:"initial"`
	Max      string `json:"max"`
	Mintable bool   `json:"mintable"`
	Legacy   bool   `json:"legacy,omitempty"`
}
type editArgs struct {
	Symbol   string `json:"symbol"`
	Name     string `json:"name"`
	Max      string `json:"max"`
	Mintable string `json:"mintable"` // "", "true", "false"
	Legacy   bool   `json:"legacy,omitempty"`
}

// Legacy (v1beta1) mint and burn name the token by symbol and the amount in MAIN units; the
// handler converts with the token it finds under that symbol. The oracle does the same with
// the model's token at judgement time (norm), so Denom / Amount are not trusted for them.
type mintArgs struct {
	Denom    string `json:"denom,omitempty"`
	Amount   string `json:"amount,omitempty"`
	Receiver string `json:"receiver"`
	Legacy   bool   `json:"legacy,omitempty"`
	Symbol   string `json:"symbol,omitempty"`
	Main     string `json:"main,omitempty"`
}
type burnArgs struct {
	Denom  string `json:"denom,omitempty"`
	Amount string `json:"amount,omitempty"`
	Legacy bool   `json:"legacy,omitempty"`
	Symbol string `json:"symbol,omitempty"`
	Main   string `json:"main,omitempty"`
}
type transferArgs struct {
	Symbol string `json:"symbol"`
	To     string `json:"to"`
	Legacy bool   `json:"legacy,omitempty"`
}
type sendArgs struct {
	To     string `json:"to"`
	Denom  string `json:"denom"`
	Amount string `json:"amount"`
}
type paramArgs struct {
	Tax       string `json:"tax"`
	MintRatio string `json:"mint_ratio"`
	BaseFee   string `json:"base_fee"`
	FeeSym    string `json:"fee_symbol"`
	Enable    bool   `json:"enable_erc20"`
	Beacon    string `json:"beacon"`
	Authority string `json:"authority"`
}
type evmFault struct {
	Fault string `json:"evm_fault,omitempty"`
	Delta string `json:"evm_delta,omitempty"`
}
type deployArgs struct {
	Symbol    string `json:"symbol"`
	MinUnit   string `json:"min_unit"`
	Name      string `json:"name"`
	Scale     uint32 `json:"scale"`
	Authority string `json:"authority"`
	evmFault
}
type toErcArgs struct {
	Denom    string `json:"denom"`
	Amount   string `json:"amount"`
	Receiver string `json:"receiver"` // hex
	evmFault
}
type fromErcArgs struct {
	Denom    string `json:"denom"`
	Amount   string `json:"amount"`
	Receiver string `json:"receiver"` // bech32
	evmFault
}
type feeSwapArgs struct {
	Denom    string `json:"denom"`
	Amount   string `json:"amount"`
	Receiver string `json:"receiver"`
}

func ethOf(a sdk.AccAddress) string { return common.BytesToAddress(a.Bytes()).Hex() }

func (m *Module) sortedToks() []*tok {
	var out []*tok
	for _, s := range engine.SortedKeys(m.toks) {
		out = append(out, m.toks[s])
	}
	return out
}

// amountNear draws an amount relative to a reference: the reference itself, one off either
// side, tiny fractional amounts, a share of it, or an unrelated magnitude.
func (m *Module) amountNear(r *engine.Rand, ref *big.Int, scale uint32) *big.Int {
	if ref.Sign() > 0 && r.Bool(m.cfg.PEdge) {
		switch r.Intn(4) {
		case 0:
			return new(big.Int).Set(ref)
		case 1:
			return new(big.Int).Add(ref, big.NewInt(1))
		case 2:
			if ref.Cmp(big.NewInt(1)) > 0 {
				return new(big.Int).Sub(ref, big.NewInt(1))
			}
			return big.NewInt(1)
		default:
			return big.NewInt(1 + r.Int63n(9))
		}
	}
	switch r.Intn(5) {
	case 0:
		return big.NewInt(1 + r.Int63n(9))
	case 1:
		// whole main units
		k := big.NewInt(1 + r.Int63n(1000))
		return k.Mul(k, pow10(scale))
	case 2, 3:
		if ref.Sign() > 0 {
			v := new(big.Int).Rsh(ref, uint(r.Intn(10)))
			if v.Sign() > 0 {
				return new(big.Int).Add(r.BigBelow(v), big.NewInt(1))
			}
		}
		return r.BigLogUniform(40)
	default:
		return r.BigLogUniform(100)
	}
}

func (m *Module) holder(w *engine.World, r *engine.Rand, denom string) int {
	nAct := len(w.Actors) - 1
	if r.Bool(0.85) {
		var have []int
		for i := 0; i < nAct; i++ {
			if w.Bal(w.A(i).Addr.String(), denom).Sign() > 0 {
				have = append(have, i)
			}
		}
		if len(have) > 0 {
			return have[r.Intn(len(have))]
		}
	}
	return r.Intn(nAct)
}

func (m *Module) someAddr(w *engine.World, r *engine.Rand, notActor int) string {
	nAct := len(w.Actors) - 1
	switch r.Intn(30) {
	case 0:
		return engine.ModAddr(authtypes.FeeCollectorName) // blocked
	case 1:
		return engine.ModAddr(distrtypes.ModuleName) // blocked
	case 2:
		m.fresh++
		return sdk.AccAddress([]byte(fmt.Sprintf("token-fresh-addr-%04d", m.fresh%9999))).String()
	case 3:
		return engine.ModAddr(tokentypes.ModuleName)
	default:
		return w.A(notActor + 1 + r.Intn(nAct-1)).Addr.String()
	}
}

// governs picks who signs an authority-sensitive message for t: mostly the model's current
// owner, else a previous owner or a stranger.
func (m *Module) governs(w *engine.World, r *engine.Rand, t *tok) int {
	nAct := len(w.Actors) - 1
	if r.Bool(m.cfg.PStranger) {
		if len(t.Prev) > 0 && r.Bool(0.5) {
			if a := w.ActorOf(t.Prev[r.Intn(len(t.Prev))]); a != nil {
				return a.Idx
			}
		}
		return r.Intn(nAct)
	}
	if a := w.ActorOf(t.Owner); a != nil && a.Idx < nAct {
		return a.Idx
	}
	return r.Intn(nAct)
}

func (m *Module) fault(r *engine.Rand, kinds []string) evmFault {
	if !r.Bool(m.cfg.PFault) {
		return evmFault{}
	}
	f := evmFault{Fault: kinds[r.Intn(len(kinds))]}
	if strings.HasPrefix(f.Fault, "wrong_delta") {
		f.Delta = []string{"-1", "+1", "zero", "x2", "+1000000"}[r.Intn(5)]
	}
	return f
}

var (
	mintFaults   = []string{"error", "revert", "wrong_delta_mint", "wrong_delta_mint", "misdirect", "estimate_gas_error", "balance_error_before", "balance_error_after", "wrong_delta_burn"}
	burnFaults   = []string{"error", "revert", "wrong_delta_burn", "wrong_delta_burn", "estimate_gas_error", "balance_error_before", "balance_error_after", "wrong_delta_mint"}
	deployFaults = []string{"error", "revert", "estimate_gas_error"}
)

func (m *Module) Gen(w *engine.World, r *engine.Rand) *engine.TxPlan {
	if len(m.planned) > 0 {
		tp := m.planned[0]
		m.planned = m.planned[1:]
		return tp
	}
	if r.Bool(m.cfg.PParam) {
		return m.genParams(w, r)
	}
	if r.Bool(m.cfg.PGhostMake) {
		if tp := m.genGhostMaker(w, r); tp != nil {
			return tp
		}
	}
	op := m.genOp(w, r, -1)
	if op == nil {
		return nil
	}
	tp := engine.Tx1(op)
	if r.Bool(m.cfg.PMulti) && op.Actor != w.Governor().Idx {
		for k := 1 + r.Intn(4)/3; k > 0; k-- {
			if o := m.genOp(w, r, op.Actor); o != nil && o.Actor == op.Actor {
				tp.Ops = append(tp.Ops, o)
			}
		}
	}
	return tp
}

// genOp proposes one operation; actor >= 0 forces the signer (for multi-message plans). A
// share of the five messages that still exist in the v1beta1 service goes that way.
func (m *Module) genOp(w *engine.World, r *engine.Rand, forced int) *engine.Op {
	op := m.genOp0(w, r, forced)
	if op == nil || !r.Bool(m.cfg.PLegacy) {
		return op
	}
	return m.legacy(op)
}

// legacy rewrites an op to its v1beta1 form where there is one.
func (m *Module) legacy(op *engine.Op) *engine.Op {
	mainOf := func(denom, amount string) (string, string, bool) {
		t := m.byMin[denom]
		if t == nil {
			return "", "", false
		}
		v := new(big.Int).Quo(bigOf(amount), pow10(t.Scale))
		if v.Sign() == 0 {
			v.SetInt64(1)
		}
		if !v.IsUint64() {
			return "", "", false
		}
		return t.Symbol, v.String(), true
	}
	switch op.Kind {
	case "issue":
		var a issueArgs
		op.Decode(&a)
		a.Legacy = true
		return engine.NewOp(Name, op.Kind, op.Actor, a)
	case "edit":
		var a editArgs
		op.Decode(&a)
		a.Legacy = true
		return engine.NewOp(Name, op.Kind, op.Actor, a)
	case "transfer":
		var a transferArgs
		op.Decode(&a)
		a.Legacy = true
		return engine.NewOp(Name, op.Kind, op.Actor, a)
	case "mint":
		var a mintArgs
		op.Decode(&a)
		if sym, v, ok := mainOf(a.Denom, a.Amount); ok {
			return engine.NewOp(Name, op.Kind, op.Actor, mintArgs{Legacy: true, Symbol: sym, Main: v, Receiver: a.Receiver})
		}
	case "burn":
		var a burnArgs
		op.Decode(&a)
		if sym, v, ok := mainOf(a.Denom, a.Amount); ok {
			return engine.NewOp(Name, op.Kind, op.Actor, burnArgs{Legacy: true, Symbol: sym, Main: v})
		}
	}
	return op
}

func (m *Module) genOp0(w *engine.World, r *engine.Rand, forced int) *engine.Op {
	nAct := len(w.Actors) - 1
	toks := m.sortedToks()
	issued := 0
	for _, t := range toks {
		if !t.Genesis {
			issued++
		}
	}
	pIssue := m.cfg.PIssue
	if issued < 2 {
		pIssue = 0.6
	}
	free := 0
	for _, p := range m.cfg.Pool {
		if m.toks[p.Symbol] == nil && m.byMin[p.MinUnit] == nil {
			free++
		}
	}
	if free == 0 {
		pIssue *= 0.25
	}
	if !m.par.Enable && forced < 0 && r.Bool(0.15) {
		// the governor switches conversions back on
		a := paramArgs{Tax: m.par.Tax.String(), MintRatio: m.par.MintRatio.String(), BaseFee: m.par.BaseFee.String(), FeeSym: m.par.FeeSym,
			Enable: true, Beacon: m.cfg.Beacon, Authority: w.Governor().Addr.String()}
		return engine.NewOp(Name, "params", w.Governor().Idx, a)
	}
	pick := func(def int) int {
		if forced >= 0 {
			return forced
		}
		return def
	}
	if r.Bool(m.cfg.PGhost) {
		if op := m.genGhostOp(w, r, forced); op != nil {
			return op
		}
	}
	if r.Bool(pIssue) {
		return m.genIssue(w, r, pick(r.Intn(nAct)))
	}
	if forced < 0 && r.Bool(m.cfg.PConv*0.35) {
		if op := m.genDeploy(w, r); op != nil {
			return op
		}
	}
	if len(toks) == 0 {
		return nil
	}
	// pool tokens are the usual subjects; the fee token and stake now and then
	var t *tok
	for tries := 0; tries < 6; tries++ {
		t = toks[r.Intn(len(toks))]
		if !t.Genesis || r.Bool(0.15) {
			break
		}
	}
	conv := m.isConv(t)
	ownerless := false
	if a := w.ActorOf(t.Owner); a == nil || a.Idx >= nAct {
		ownerless = true // owned by a module / foreign address: nobody here governs it
	}
	kinds := []int{5, 4, 3, 1, 2, 0, 0, 0}
	if ownerless {
		kinds[0], kinds[2], kinds[3] = 1, 1, 0
	} // mint burn edit transfer send to_erc20 from_erc20 feeswap
	if conv && t.Contract != "" {
		kinds[5] = int(40 * m.cfg.PConv)
		kinds[6] = int(30 * m.cfg.PConv)
	} else if conv && r.Bool(0.1) {
		kinds[5] = 1 // conversion of a token without a contract
	}
	if _, ok := m.pairs[t.MinUnit]; ok {
		kinds[7] = int(60 * m.cfg.PFeeSwap)
	}
	supply := w.Ledger.GetSupply(t.MinUnit)
	switch r.Weighted(kinds) {
	case 0: // mint
		actor := pick(m.governs(w, r, t))
		if !t.Mintable && r.Bool(0.6) {
			return engine.NewOp(Name, "edit", actor, editArgs{Symbol: t.Symbol, Name: v1.DoNotModify, Max: "0", Mintable: "true"})
		}
		room := new(big.Int)
		if t.MaxKnown {
			room = new(big.Int).Sub(new(big.Int).Mul(new(big.Int).SetUint64(t.Max), pow10(t.Scale)), supply)
		}
		if room.BitLen() > 110 {
			room = new(big.Int).Lsh(big.NewInt(1), uint(20+r.Intn(80)))
		}
		a := mintArgs{Denom: t.MinUnit, Amount: m.amountNear(r, room, t.Scale).String()}
		if r.Bool(0.5) {
			a.Receiver = m.someAddr(w, r, actor)
		}
		return engine.NewOp(Name, "mint", actor, a)
	case 1: // burn
		actor := pick(m.holder(w, r, t.MinUnit))
		have := w.Bal(w.A(actor).Addr.String(), t.MinUnit)
		if have.Sign() == 0 && r.Bool(0.8) {
			return nil
		}
		return engine.NewOp(Name, "burn", actor, burnArgs{Denom: t.MinUnit, Amount: m.amountNear(r, have, t.Scale).String()})
	case 2: // edit
		actor := pick(m.governs(w, r, t))
		a := editArgs{Symbol: t.Symbol, Name: v1.DoNotModify, Max: "0"}
		if r.Bool(0.3) {
			a.Name = fmt.Sprintf("renamed %d", r.Intn(1000))
		}
		switch r.Intn(5) {
		case 0:
			a.Mintable = "true"
		case 1:
			a.Mintable = "false"
		}
		if r.Bool(0.75) {
			// the circulating amount in main units, rounded either way, and its neighbours
			p := pow10(t.Scale)
			fl := new(big.Int).Quo(supply, p)
			ce := new(big.Int).Quo(new(big.Int).Add(supply, new(big.Int).Sub(p, big.NewInt(1))), p)
			var mx *big.Int
			switch r.Intn(7) {
			case 0:
				mx = fl
			case 1:
				mx = ce
			case 2:
				mx = new(big.Int).Sub(fl, big.NewInt(1))
			case 3:
				mx = new(big.Int).Add(ce, big.NewInt(1))
			case 4:
				mx = new(big.Int).SetUint64(maxU64)
			case 5:
				mx = new(big.Int).Add(ce, r.BigLogUniform(40))
			default:
				mx = r.BigLogUniform(64)
			}
			if mx.Sign() < 0 {
				mx = big.NewInt(0)
			}
			if !mx.IsUint64() {
				mx = new(big.Int).SetUint64(maxU64)
			}
			a.Max = mx.String()
		}
		return engine.NewOp(Name, "edit", actor, a)
	case 3: // transfer owner
		actor := pick(m.governs(w, r, t))
		to := w.A(actor + 1 + r.Intn(nAct-1)).Addr.String()
		if r.Bool(0.12) {
			to = m.someAddr(w, r, actor)
		}
		if r.Bool(0.03) {
			to = w.A(actor).Addr.String()
		}
		op := engine.NewOp(Name, "transfer", actor, transferArgs{Symbol: t.Symbol, To: to})
		if forced < 0 && r.Bool(m.cfg.PRace) {
			m.planRace(w, r, t, op, to)
			return nil
		}
		return op
	case 4: // plain bank send, spreads the tokens among the actors
		actor := pick(m.holder(w, r, t.MinUnit))
		have := w.Bal(w.A(actor).Addr.String(), t.MinUnit)
		if have.Sign() == 0 {
			return nil
		}
		return engine.NewOp(Name, "send", actor, sendArgs{To: w.A(actor + 1 + r.Intn(nAct-1)).Addr.String(), Denom: t.MinUnit,
			Amount: m.amountNear(r, new(big.Int).Rsh(have, 1), t.Scale).String()})
	case 5: // to ERC20
		actor := pick(m.holder(w, r, t.MinUnit))
		have := w.Bal(w.A(actor).Addr.String(), t.MinUnit)
		if have.Sign() == 0 && r.Bool(0.8) {
			return nil
		}
		a := toErcArgs{Denom: t.MinUnit, Amount: m.amountNear(r, have, t.Scale).String(), evmFault: m.fault(r, mintFaults)}
		switch r.Intn(10) {
		case 0:
			a.Receiver = common.BytesToAddress([]byte(fmt.Sprintf("eth-only-%d", r.Intn(3)))).Hex()
		case 1:
			a.Receiver = common.Address{}.Hex()
		case 2, 3, 4:
			a.Receiver = ethOf(w.A(r.Intn(nAct)).Addr)
		default:
			a.Receiver = ethOf(w.A(actor).Addr)
		}
		return engine.NewOp(Name, "to_erc20", actor, a)
	case 6: // from ERC20
		actor := -1
		bals := m.erc[t.Contract]
		if r.Bool(0.85) {
			var have []int
			for i := 0; i < nAct; i++ {
				if v := bals[ethOf(w.A(i).Addr)]; v != nil && v.Sign() > 0 {
					have = append(have, i)
				}
			}
			if len(have) > 0 {
				actor = have[r.Intn(len(have))]
			}
		}
		if actor < 0 {
			if r.Bool(0.8) {
				return nil
			}
			actor = r.Intn(nAct)
		}
		actor = pick(actor)
		have := new(big.Int)
		if v := bals[ethOf(w.A(actor).Addr)]; v != nil {
			have = v
		}
		a := fromErcArgs{Denom: t.MinUnit, Amount: m.amountNear(r, have, t.Scale).String(), Receiver: w.A(actor).Addr.String(),
			evmFault: m.fault(r, burnFaults)}
		if r.Bool(0.35) {
			a.Receiver = m.someAddr(w, r, actor)
		}
		return engine.NewOp(Name, "from_erc20", actor, a)
	case 7: // fee-token swap
		actor := pick(m.holder(w, r, t.MinUnit))
		have := w.Bal(w.A(actor).Addr.String(), t.MinUnit)
		ref := new(big.Int).Rsh(have, uint(r.Intn(40)))
		a := feeSwapArgs{Denom: t.MinUnit, Amount: m.amountNear(r, ref, t.Scale).String()}
		if r.Bool(0.4) {
			a.Receiver = m.someAddr(w, r, actor)
		}
		return engine.NewOp(Name, "feeswap", actor, a)
	}
	return nil
}

func (m *Module) isConv(t *tok) bool {
	if t.MinUnit == orphanMin {
		return true
	}
	for _, p := range m.cfg.Pool {
		if p.MinUnit == t.MinUnit || p.Symbol == t.Symbol {
			return p.Conv
		}
	}
	for _, d := range m.cfg.IBC {
		if d == t.MinUnit {
			return true
		}
	}
	return t.Genesis && len(m.pairs) > 0 // fee token / stake only through fee swaps
}

// planRace schedules an ownership transfer together with governance attempts by the old
// and the new owner landing in the same block or the blocks around it.
func (m *Module) planRace(w *engine.World, r *engine.Rand, t *tok, transfer *engine.Op, to string) {
	at := w.Height + 2 + int64(r.Intn(3))
	tp := engine.Tx1(transfer)
	tp.At = at
	m.planned = append(m.planned, tp)
	add := func(actor int, dh int64) {
		var op *engine.Op
		if r.Bool(0.6) {
			op = engine.NewOp(Name, "mint", actor, mintArgs{Denom: t.MinUnit, Amount: big.NewInt(1 + r.Int63n(1000)).String()})
		} else if r.Bool(0.5) {
			op = engine.NewOp(Name, "edit", actor, editArgs{Symbol: t.Symbol, Name: fmt.Sprintf("race %d", r.Intn(100)), Max: "0"})
		} else {
			op = engine.NewOp(Name, "transfer", actor, transferArgs{Symbol: t.Symbol, To: w.A(actor + 1).Addr.String()})
		}
		p := engine.Tx1(op)
		p.At = at + dh
		m.planned = append(m.planned, p)
	}
	add(transfer.Actor, r.Range(0, 1))
	if r.Bool(0.5) {
		add(transfer.Actor, r.Range(-1, 2))
	}
	if a := w.ActorOf(to); a != nil && a.Idx < len(w.Actors)-1 {
		add(a.Idx, r.Range(-1, 1))
	}
	w.Hit("token.owner_race_planned")
}

func (m *Module) genIssue(w *engine.World, r *engine.Rand, actor int) *engine.Op {
	pool := m.cfg.Pool
	// prefer entries not issued yet; sometimes an existing one (re-issue), sometimes a cross
	var freeIdx []int
	for i, p := range pool {
		if m.toks[p.Symbol] == nil && m.byMin[p.MinUnit] == nil {
			freeIdx = append(freeIdx, i)
		}
	}
	i := r.Intn(len(pool))
	if len(freeIdx) > 0 && r.Bool(0.75) {
		i = freeIdx[r.Intn(len(freeIdx))]
	}
	p := pool[i]
	a := issueArgs{Symbol: p.Symbol, MinUnit: p.MinUnit, Name: "token " + p.Symbol[:3], Scale: p.Scale, Mintable: r.Bool(0.7)}
	if r.Bool(0.15) {
		// crossed identity: this symbol with another entry's min unit, or a genesis token's
		switch r.Intn(4) {
		case 0:
			a.MinUnit = pool[r.Intn(len(pool))].MinUnit
		case 1:
			a.Symbol = pool[r.Intn(len(pool))].Symbol
		case 2:
			a.MinUnit = m.cfg.FeeMin
		default:
			a.Symbol = m.cfg.FeeSym
		}
		a.Scale = scaleOf(r)
	}
	var init uint64
	switch r.Intn(7) {
	case 0:
		init = 0
	case 1:
		init = maxInit
	case 2:
		init = maxInit + uint64(r.Intn(2)) // at and just above the limit
	case 3:
		init = 1
	default:
		init = r.BigLogUniform(36).Uint64() % (maxInit + 1)
	}
	var mx uint64
	switch r.Intn(7) {
	case 0:
		mx = 0
	case 1:
		mx = init
	case 2:
		mx = maxU64
	case 3:
		if init > 0 {
			mx = init - 1 // invalid when not zero
		}
	case 4:
		mx = init + 1
	default:
		mx = init + r.BigLogUniform(40).Uint64()
	}
	a.Initial, a.Max = strconv.FormatUint(init, 10), strconv.FormatUint(mx, 10)
	return engine.NewOp(Name, "issue", actor, a)
}

func (m *Module) genDeploy(w *engine.World, r *engine.Rand) *engine.Op {
	gov := w.Governor()
	a := deployArgs{Authority: gov.Addr.String(), evmFault: m.fault(r, deployFaults)}
	var cands []*tok
	for _, t := range m.sortedToks() {
		if m.isConv(t) && (!t.Genesis || t.MinUnit == orphanMin) && (t.Contract == "" || r.Bool(0.02)) {
			cands = append(cands, t)
		}
	}
	ibc := ""
	for _, d := range m.cfg.IBC {
		if m.byMin[d] == nil || r.Bool(0.05) {
			ibc = d
		}
	}
	switch {
	case ibc != "" && (len(cands) == 0 || r.Bool(0.3)):
		a.MinUnit, a.Name, a.Scale = ibc, "ibc voucher", scaleOf(r)
		a.Symbol = "kibc"
		if r.Bool(0.25) && len(m.toks) > 0 {
			// a symbol that is already taken
			s := engine.SortedKeys(m.toks)
			a.Symbol = s[r.Intn(len(s))]
		}
	case len(cands) > 0:
		t := cands[r.Intn(len(cands))]
		a.Symbol, a.MinUnit, a.Name, a.Scale = t.Symbol, t.MinUnit, t.Name, t.Scale
	default:
		if r.Bool(0.97) {
			return nil
		}
		a.Symbol, a.MinUnit, a.Name, a.Scale = "knone", "unone", "nothing", 6
	}
	actor := gov.Idx
	if r.Bool(0.15) {
		actor = r.Intn(len(w.Actors) - 1)
		if r.Bool(0.5) {
			a.Authority = w.A(actor).Addr.String()
		}
	}
	return engine.NewOp(Name, "deploy", actor, a)
}

func (m *Module) genParams(w *engine.World, r *engine.Rand) *engine.TxPlan {
	a := paramArgs{Tax: rate(r), MintRatio: rate(r), BaseFee: baseFee(r), FeeSym: m.par.FeeSym, Enable: true, Beacon: m.cfg.Beacon}
	if r.Bool(0.15) {
		a.Enable = false
	}
	if !m.par.Enable {
		a.Enable = r.Bool(0.9)
	}
	if m.ownFee() && r.Bool(0.3) {
		// both the run's fee token and stake are tokens known to the module
		a.FeeSym = []string{stake, m.cfg.FeeSym}[r.Intn(2)]
	}
	if r.Bool(0.1) {
		// out of range: must be refused
		a.Tax = new(big.Int).Add(e18, big.NewInt(1+r.Int63n(1000))).String()
	}
	actor := w.Governor().Idx
	a.Authority = w.Governor().Addr.String()
	if r.Bool(0.25) {
		actor = r.Intn(len(w.Actors) - 1)
		if r.Bool(0.5) {
			a.Authority = w.A(actor).Addr.String()
		}
	}
	tp := engine.Tx1(engine.NewOp(Name, "params", actor, a))
	tp.NoOOG = true
	return tp
}

func coin(denom, amt string) sdk.Coin { return sdk.Coin{Denom: denom, Amount: engine.Int(bigOf(amt))} }

// arm records the EVM fault of the transaction this op is being built into. The table is
// keyed by (signer, sequence); an entry is reset the first time a key is built in a block,
// so whatever an earlier, never-executed transaction of the same sequence left is gone.
func (m *Module) arm(w *engine.World, op *engine.Op, f evmFault) {
	a := w.A(op.Actor)
	k := txKeyOf(a.Addr.String(), a.Seq)
	if m.faultHeight[k] != w.Height {
		m.faultHeight[k] = w.Height
		delete(m.faults, k)
		delete(m.fired, k)
	}
	if f.Fault != "" {
		m.faults[k] = faultSpec{Kind: f.Fault, Delta: f.Delta}
	}
	m.opKey[op.ID] = k
}

func (m *Module) Build(w *engine.World, op *engine.Op) (sdk.Msg, error) {
	sender := w.A(op.Actor).Addr.String()
	var f evmFault
	defer func() { m.arm(w, op, f) }()
	switch op.Kind {
	case "issue":
		var a issueArgs
		op.Decode(&a)
		if a.Legacy {
			return &v1beta1.MsgIssueToken{Symbol: a.Symbol, Name: a.Name, Scale: a.Scale, MinUnit: a.MinUnit,
				InitialSupply: u64Of(a.Initial), MaxSupply: u64Of(a.Max), Mintable: a.Mintable, Owner: sender}, nil
		}
		return &v1.MsgIssueToken{Symbol: a.Symbol, Name: a.Name, Scale: a.Scale, MinUnit: a.MinUnit,
			InitialSupply: u64Of(a.Initial), MaxSupply: u64Of(a.Max), Mintable: a.Mintable, Owner: sender}, nil
	case "edit":
		var a editArgs
		op.Decode(&a)
		if a.Legacy {
			return &v1beta1.MsgEditToken{Symbol: a.Symbol, Name: a.Name, MaxSupply: u64Of(a.Max), Mintable: tokentypes.Bool(a.Mintable), Owner: sender}, nil
		}
		return &v1.MsgEditToken{Symbol: a.Symbol, Name: a.Name, MaxSupply: u64Of(a.Max), Mintable: tokentypes.Bool(a.Mintable), Owner: sender}, nil
	case "mint":
		var a mintArgs
		op.Decode(&a)
		if a.Legacy {
			return &v1beta1.MsgMintToken{Symbol: a.Symbol, Amount: u64Of(a.Main), To: a.Receiver, Owner: sender}, nil
		}
		return &v1.MsgMintToken{Coin: coin(a.Denom, a.Amount), Receiver: a.Receiver, Owner: sender}, nil
	case "burn":
		var a burnArgs
		op.Decode(&a)
		if a.Legacy {
			return &v1beta1.MsgBurnToken{Symbol: a.Symbol, Amount: u64Of(a.Main), Sender: sender}, nil
		}
		return &v1.MsgBurnToken{Coin: coin(a.Denom, a.Amount), Sender: sender}, nil
	case "transfer":
		var a transferArgs
		op.Decode(&a)
		if a.Legacy {
			return &v1beta1.MsgTransferTokenOwner{SrcOwner: sender, DstOwner: a.To, Symbol: a.Symbol}, nil
		}
		return &v1.MsgTransferTokenOwner{SrcOwner: sender, DstOwner: a.To, Symbol: a.Symbol}, nil
	case "send":
		var a sendArgs
		op.Decode(&a)
		to, err := sdk.AccAddressFromBech32(a.To)
		if err != nil {
			return nil, err
		}
		return engine.BankSendMsg(w.A(op.Actor).Addr, to, sdk.NewCoins(coin(a.Denom, a.Amount))), nil
	case "params":
		var a paramArgs
		op.Decode(&a)
		return &v1.MsgUpdateParams{Authority: a.Authority, Params: m.sdkParams(params{Tax: bigOf(a.Tax), MintRatio: bigOf(a.MintRatio),
			BaseFee: bigOf(a.BaseFee), FeeSym: a.FeeSym, Enable: a.Enable, Beacon: a.Beacon})}, nil
	case "deploy":
		var a deployArgs
		op.Decode(&a)
		f = a.evmFault
		return &v1.MsgDeployERC20{Symbol: a.Symbol, Name: a.Name, Scale: a.Scale, MinUnit: a.MinUnit, Authority: a.Authority}, nil
	case "to_erc20":
		var a toErcArgs
		op.Decode(&a)
		f = a.evmFault
		return &v1.MsgSwapToERC20{Amount: coin(a.Denom, a.Amount), Sender: sender, Receiver: a.Receiver}, nil
	case "from_erc20":
		var a fromErcArgs
		op.Decode(&a)
		f = a.evmFault
		return &v1.MsgSwapFromERC20{WantedAmount: coin(a.Denom, a.Amount), Sender: sender, Receiver: a.Receiver}, nil
	case "feeswap":
		var a feeSwapArgs
		op.Decode(&a)
		return &v1.MsgSwapFeeToken{FeePaid: coin(a.Denom, a.Amount), Sender: sender, Receiver: a.Receiver}, nil
	}
	return nil, fmt.Errorf("unknown op %s", op.Kind)
}
