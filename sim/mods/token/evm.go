package tokenmod

import (
	"context"
	"crypto/sha256"
	"encoding/json"
	"fmt"
	"math/big"
	"strings"

	storetypes "cosmossdk.io/store/types"
	cryptotypes "github.com/cosmos/cosmos-sdk/crypto/types"
	sdk "github.com/cosmos/cosmos-sdk/types"
	authsigning "github.com/cosmos/cosmos-sdk/x/auth/signing"
	"github.com/ethereum/go-ethereum/common"
	"github.com/ethereum/go-ethereum/core"
	"github.com/ethereum/go-ethereum/core/vm"
	"github.com/ethereum/go-ethereum/crypto"

	"mods.irisnet.org/modules/token/contracts"
	tokentypes "mods.irisnet.org/modules/token/types"
)

// simEVM is the simulator's EVM keeper: an ERC20 ledger (deployed contracts, balances, total
// supplies) that lives in the token module's own KV store under a prefix the module does
// not use. Because it is read and written through ctx.KVStore of the executing context, its
// effects are part of the transaction's cache-wrapped store: they become durable with the
// transaction and vanish with it, exactly like the state DB of a real EVM module would.
// Nothing of the ledger lives in process memory, so a node restart loses nothing.
//
// Faults are a pure function of (signer address, signer sequence) of the executing
// transaction: Module.Build writes the table, the stub only looks it up. No counters, no
// consumption: re-executing a block after a crash behaves identically, and a transaction
// that was rolled back cannot leave a fault armed for another one (its sequence is spent,
// or - when it failed before the sequence moved - the next Build of that signer overwrites
// the entry).
type simEVM struct {
	m   *Module
	key storetypes.StoreKey
	ak  accountSetter
	dec sdk.TxDecoder

	memoHash [32]byte
	memoKey  string
}

type accountSetter interface {
	GetAccount(ctx context.Context, addr sdk.AccAddress) sdk.AccountI
	SetAccount(ctx context.Context, acc sdk.AccountI)
}

var _ tokentypes.EVMKeeper = (*simEVM)(nil)

// store layout (all under evmPrefix; the token module uses 0x01..0x06)
const evmPrefix = 0xF0

var (
	pfxMeta    = []byte{evmPrefix, 0x01} // | contract(20)            -> json metadata
	pfxBal     = []byte{evmPrefix, 0x02} // | contract(20) | acct(20) -> big-endian balance
	pfxSupply  = []byte{evmPrefix, 0x03} // | contract(20)            -> big-endian total supply
	keyTouched = []byte{evmPrefix, 0x04} // -> tx key of the last tx that changed a balance
)

type contractMeta struct {
	Name   string `json:"name"`
	Symbol string `json:"symbol"`
	Scale  uint8  `json:"scale"`
	Owner  string `json:"owner"` // hex; only the owner may mint and burn
}

func cat(parts ...[]byte) []byte {
	var out []byte
	for _, p := range parts {
		out = append(out, p...)
	}
	return out
}

func getBig(st storetypes.KVStore, key []byte) *big.Int {
	return new(big.Int).SetBytes(st.Get(key))
}

func setBig(st storetypes.KVStore, key []byte, v *big.Int) {
	if v.Sign() == 0 {
		st.Delete(key)
		return
	}
	st.Set(key, v.Bytes())
}

// txKey identifies the executing transaction by its first signer and that signer's
// sequence; "" outside transactions (queries, begin/end block).
func (s *simEVM) txKey(ctx sdk.Context) string {
	bz := ctx.TxBytes()
	if len(bz) == 0 || s.dec == nil {
		return ""
	}
	h := sha256.Sum256(bz)
	if h == s.memoHash {
		return s.memoKey
	}
	key := ""
	if tx, err := s.dec(bz); err == nil {
		if st, ok := tx.(authsigning.SigVerifiableTx); ok {
			if sigs, err := st.GetSignaturesV2(); err == nil && len(sigs) > 0 && sigs[0].PubKey != nil {
				key = txKeyOf(sdk.AccAddress(sigs[0].PubKey.Address()).String(), sigs[0].Sequence)
			}
		}
	}
	s.memoHash, s.memoKey = h, key
	return key
}

func txKeyOf(addr string, seq uint64) string { return fmt.Sprintf("%s/%d", addr, seq) }

func (s *simEVM) faultOf(ctx sdk.Context) (string, faultSpec) {
	k := s.txKey(ctx)
	if k == "" {
		return "", faultSpec{}
	}
	return k, s.m.faults[k]
}

func (s *simEVM) fire(key, kind string) {
	if key != "" {
		s.m.fired[key] = kind
	}
}

// ChainID implements types.EVMKeeper.
func (s *simEVM) ChainID() *big.Int { return big.NewInt(16688) }

// SupportedKey implements types.EVMKeeper: keys of the actors the run declared
// "unsupported" are refused (a real EVM module only accepts eth_secp256k1 keys).
func (s *simEVM) SupportedKey(pk cryptotypes.PubKey) bool {
	if pk == nil {
		return true
	}
	return !s.m.unsupported[sdk.AccAddress(pk.Address()).String()]
}

// EstimateGas implements types.EVMKeeper.
func (s *simEVM) EstimateGas(c context.Context, req *tokentypes.EthCallRequest) (uint64, error) {
	ctx := sdk.UnwrapSDKContext(c)
	if k, f := s.faultOf(ctx); f.Kind == "estimate_gas_error" {
		s.fire(k, f.Kind)
		return 0, fmt.Errorf("simEVM: injected gas estimation failure")
	}
	return 3_000_000, nil
}

func reverted(reason string) *tokentypes.Result {
	return &tokentypes.Result{VMError: vm.ErrExecutionReverted.Error(), Ret: []byte(reason)}
}

// ApplyMessage implements types.EVMKeeper.
func (s *simEVM) ApplyMessage(ctx sdk.Context, msg core.Message, _ vm.EVMLogger, commit bool) (*tokentypes.Result, error) {
	if s.key == nil {
		return nil, fmt.Errorf("simEVM: store key not installed")
	}
	st := ctx.KVStore(s.key)
	fk, f := s.faultOf(ctx)
	if commit {
		switch f.Kind {
		case "error":
			s.fire(fk, f.Kind)
			return nil, fmt.Errorf("simEVM: injected execution error")
		case "revert":
			s.fire(fk, f.Kind)
			return reverted("simEVM: injected revert"), nil
		}
	}
	if msg.To() == nil {
		return s.create(ctx, st, msg, commit)
	}
	contract := *msg.To()
	raw := st.Get(cat(pfxMeta, contract.Bytes()))
	if raw == nil {
		return nil, fmt.Errorf("erc20 contract not found")
	}
	var meta contractMeta
	if err := json.Unmarshal(raw, &meta); err != nil {
		return nil, err
	}
	data := msg.Data()
	if len(data) < 4 {
		return reverted("no selector"), nil
	}
	abi := contracts.ERC20TokenContract.ABI
	method, err := abi.MethodById(data[:4])
	if err != nil {
		return reverted("unknown selector"), nil
	}
	args, err := method.Inputs.Unpack(data[4:])
	if err != nil {
		return nil, err
	}
	res := &tokentypes.Result{Hash: contract.Hex()}
	switch method.Name {
	case "name":
		res.Ret, err = method.Outputs.Pack(meta.Name)
	case "symbol":
		res.Ret, err = method.Outputs.Pack(meta.Symbol)
	case "decimals":
		res.Ret, err = method.Outputs.Pack(meta.Scale)
	case contracts.MethodBalanceOf:
		touched := fk != "" && string(st.Get(keyTouched)) == fk
		if (f.Kind == "balance_error_before" && !touched) || (f.Kind == "balance_error_after" && touched) {
			s.fire(fk, f.Kind)
			return nil, fmt.Errorf("simEVM: injected balanceOf failure")
		}
		acct := args[0].(common.Address)
		res.Ret, err = method.Outputs.Pack(getBig(st, cat(pfxBal, contract.Bytes(), acct.Bytes())))
	case contracts.MethodMint:
		if !commit {
			return res, nil
		}
		if !strings.EqualFold(msg.From().Hex(), meta.Owner) {
			return reverted("Ownable: caller is not the owner"), nil
		}
		to := args[0].(common.Address)
		amt := new(big.Int).Set(args[1].(*big.Int))
		if to == (common.Address{}) {
			return reverted("ERC20: mint to the zero address"), nil
		}
		switch f.Kind {
		case "wrong_delta_mint":
			s.fire(fk, f.Kind)
			amt = adjust(amt, f.Delta)
		case "misdirect":
			s.fire(fk, f.Kind)
			to = common.BytesToAddress([]byte("simEVM misdirected"))
		}
		bk := cat(pfxBal, contract.Bytes(), to.Bytes())
		setBig(st, bk, new(big.Int).Add(getBig(st, bk), amt))
		sk := cat(pfxSupply, contract.Bytes())
		setBig(st, sk, new(big.Int).Add(getBig(st, sk), amt))
		if fk != "" {
			st.Set(keyTouched, []byte(fk))
		}
	case contracts.MethodBurn:
		if !commit {
			return res, nil
		}
		if !strings.EqualFold(msg.From().Hex(), meta.Owner) {
			return reverted("Ownable: caller is not the owner"), nil
		}
		from := args[0].(common.Address)
		amt := new(big.Int).Set(args[1].(*big.Int))
		if f.Kind == "wrong_delta_burn" {
			s.fire(fk, f.Kind)
			amt = adjust(amt, f.Delta)
		}
		bk := cat(pfxBal, contract.Bytes(), from.Bytes())
		bal := getBig(st, bk)
		if bal.Cmp(amt) < 0 {
			if f.Kind != "wrong_delta_burn" {
				return reverted("ERC20: burn amount exceeds balance"), nil
			}
			amt = bal // a misbehaving contract takes what is there
		}
		setBig(st, bk, new(big.Int).Sub(bal, amt))
		sk := cat(pfxSupply, contract.Bytes())
		setBig(st, sk, new(big.Int).Sub(getBig(st, sk), amt))
		if fk != "" {
			st.Set(keyTouched, []byte(fk))
		}
	default:
		return reverted("unsupported method " + method.Name), nil
	}
	if err != nil {
		return nil, err
	}
	return res, nil
}

// adjust applies a signed decimal offset ("-1", "+1", "x2", "zero") to an amount.
func adjust(amt *big.Int, delta string) *big.Int {
	switch delta {
	case "zero":
		return new(big.Int)
	case "x2":
		return new(big.Int).Lsh(amt, 1)
	}
	d, ok := new(big.Int).SetString(strings.TrimPrefix(delta, "+"), 10)
	if !ok {
		d = big.NewInt(1)
	}
	out := new(big.Int).Add(amt, d)
	if out.Sign() < 0 {
		out.SetInt64(0)
	}
	return out
}

// create deploys the token proxy: the constructor arguments carry the beacon and the
// ABI-encoded initialize(name, symbol, scale, owner) call.
func (s *simEVM) create(ctx sdk.Context, st storetypes.KVStore, msg core.Message, commit bool) (*tokentypes.Result, error) {
	addr := crypto.CreateAddress(msg.From(), msg.Nonce())
	bin := contracts.TokenProxyContract.Bin
	if len(msg.Data()) < len(bin) {
		return reverted("bad init code"), nil
	}
	cargs, err := contracts.TokenProxyContract.ABI.Constructor.Inputs.Unpack(msg.Data()[len(bin):])
	if err != nil {
		return nil, err
	}
	init, ok := cargs[1].([]byte)
	if !ok || len(init) < 4 {
		return reverted("bad initializer"), nil
	}
	iargs, err := contracts.ERC20TokenContract.ABI.Methods[contracts.MethodInitialize].Inputs.Unpack(init[4:])
	if err != nil {
		return nil, err
	}
	name, _ := iargs[0].(string)
	symbol, _ := iargs[1].(string)
	scale, _ := iargs[2].(uint8)
	owner, _ := iargs[3].(common.Address)
	if !commit {
		return &tokentypes.Result{Hash: addr.Hex()}, nil
	}
	mk := cat(pfxMeta, addr.Bytes())
	if st.Has(mk) {
		return &tokentypes.Result{VMError: vm.ErrContractAddressCollision.Error()}, nil
	}
	bz, _ := json.Marshal(contractMeta{Name: name, Symbol: symbol, Scale: scale, Owner: owner.Hex()})
	st.Set(mk, bz)
	// a contract creation consumes the deployer's nonce, as in any EVM
	if s.ak != nil {
		if acc := s.ak.GetAccount(ctx, sdk.AccAddress(msg.From().Bytes())); acc != nil {
			if err := acc.SetSequence(msg.Nonce() + 1); err == nil {
				s.ak.SetAccount(ctx, acc)
			}
		}
	}
	return &tokentypes.Result{Hash: addr.Hex()}, nil
}

// ---- read side, used by the oracle on committed state ----------------------------------

type evmDump struct {
	Meta    map[string]contractMeta        // contract hex -> metadata
	Bal     map[string]map[string]*big.Int // contract hex -> account hex -> balance
	Supply  map[string]*big.Int            // contract hex -> recorded total supply
	Entries int
}

// dumpEVM reads the whole simEVM ledger from a context.
func dumpEVM(ctx sdk.Context, key storetypes.StoreKey) *evmDump {
	d := &evmDump{Meta: map[string]contractMeta{}, Bal: map[string]map[string]*big.Int{}, Supply: map[string]*big.Int{}}
	st := ctx.KVStore(key)
	it := storetypes.KVStorePrefixIterator(st, []byte{evmPrefix})
	defer it.Close()
	for ; it.Valid(); it.Next() {
		k, v := it.Key(), it.Value()
		if len(k) < 2 {
			continue
		}
		switch k[1] {
		case 0x01:
			var m contractMeta
			_ = json.Unmarshal(v, &m)
			d.Meta[common.BytesToAddress(k[2:]).Hex()] = m
		case 0x02:
			if len(k) != 42 {
				continue
			}
			c := common.BytesToAddress(k[2:22]).Hex()
			a := common.BytesToAddress(k[22:42]).Hex()
			if d.Bal[c] == nil {
				d.Bal[c] = map[string]*big.Int{}
			}
			d.Bal[c][a] = new(big.Int).SetBytes(v)
			d.Entries++
		case 0x03:
			d.Supply[common.BytesToAddress(k[2:]).Hex()] = new(big.Int).SetBytes(v)
		}
	}
	return d
}
