package tokenmod

import (
	"encoding/json"
	"fmt"
	"math/big"

	sdk "github.com/cosmos/cosmos-sdk/types"
	authtypes "github.com/cosmos/cosmos-sdk/x/auth/types"
	"github.com/ethereum/go-ethereum/common"
	ethtypes "github.com/ethereum/go-ethereum/core/types"
	"github.com/ethereum/go-ethereum/crypto"

	"mods.irisnet.org/modules/token/contracts"
	tokentypes "mods.irisnet.org/modules/token/types"

	"verif/sim/engine"
)

// The hook lab makes the token module's EVM post-transaction hook reachable. In a real chain
// an EVM module executes a user's Ethereum transaction, the bound ERC20 contract's
// swapToNative burns the caller's balance and emits SwapToNative(from, to, amount), and the
// EVM module then hands the receipt to the hook the token keeper exports (Keeper.Hooks());
// if the hook fails, the whole Ethereum transaction reverts. simapp has no EVM module, so the
// lab plays that part at seeded block boundaries, on a throw-away branch of the committed
// state: (1) the contract's burns are applied to the branch's simEVM ledger, (2) a receipt
// with the logs is built, (3) the exported hook is called, (4) C10 is judged on the branch:
//
//	"the swap-to-native event hook mints natively ... native supply plus ERC20 supply is
//	 unchanged; a conversion that fails changes neither side"
//
// Every choice is in the fault's arguments; the handler draws nothing.

const hookFaultKind = "token_hooklab"

// hookLog is one log of the simulated receipt.
//
// Shape: "swap" = SwapToNative emitted by the token's contract (the contract burned Amount of
// From first); the others are noise the hook has to ignore: "other_contract" (the same event
// from an address no token is bound to), "other_event" (an ERC20 Transfer: three topics),
// "extra_topic" (the SwapToNative signature with a second topic), "unknown_sig" (one topic
// that is no event of the contract).
type hookLog struct {
	Shape  string `json:"shape"`
	From   string `json:"from,omitempty"`   // hex
	To     string `json:"to,omitempty"`     // the event's `to` string, verbatim
	Amount string `json:"amount,omitempty"` // decimal
}

type hookArgs struct {
	Symbol string    `json:"symbol"`
	Logs   []hookLog `json:"logs"`
	// Via: what the Ethereum transaction was addressed to. "" = the token contract itself;
	// "router" = another contract that called the token contract internally (a router, a
	// multisig wallet, a multicall: the logs are the token contract's all the same);
	// "create" = a contract creation (no target)
	Via string `json:"via,omitempty"`
}

var _ engine.FaultGen = (*Module)(nil)
var _ engine.FaultHandler = (*Module)(nil)

// GenFaults proposes at most one hook experiment per block.
func (m *Module) GenFaults(w *engine.World, r *engine.Rand) []engine.Fault {
	p := 0.06
	if w.Focus == "C10" {
		p = 0.25
	}
	if !r.Bool(p) {
		return nil
	}
	if !m.par.Enable && r.Bool(0.8) {
		return nil
	}
	// a token with a contract and holders in the model's ERC20 ledger
	var cands []*tok
	for _, t := range m.sortedToks() {
		if t.Contract == "" {
			continue
		}
		for _, a := range engine.SortedKeys(m.erc[t.Contract]) {
			if m.erc[t.Contract][a].Sign() > 0 {
				cands = append(cands, t)
				break
			}
		}
	}
	if len(cands) == 0 {
		return nil
	}
	t := cands[r.Intn(len(cands))]
	left := map[string]*big.Int{}
	var holders []string
	for _, a := range engine.SortedKeys(m.erc[t.Contract]) {
		if v := m.erc[t.Contract][a]; v.Sign() > 0 {
			left[a] = new(big.Int).Set(v)
			holders = append(holders, a)
		}
	}
	nAct := len(w.Actors) - 1
	receiver := func(prev string) string {
		switch r.Intn(40) {
		case 0:
			return engine.ModAddr(authtypes.FeeCollectorName) // blocked: the transfer fails
		case 1:
			return "not-a-bech32-address"
		case 2:
			return common.BytesToAddress([]byte("hex, not bech32")).Hex()
		case 3:
			return modAddr
		case 4, 5:
			m.fresh++
			return sdk.AccAddress([]byte(fmt.Sprintf("hook-fresh-addr-%05d", m.fresh%99999))).String()
		case 6, 7, 8:
			if prev != "" {
				return prev // the same receiver again
			}
		}
		return w.A(r.Intn(nAct)).Addr.String()
	}
	a := hookArgs{Symbol: t.Symbol}
	// (a stream of its own: a seed's run is otherwise what it was before this existed)
	if vr := engine.NewRand(engine.Mix(w.Sched.Seed, "hook-via", uint64(w.Height))); vr.Bool(0.3) {
		a.Via = []string{"router", "router", "create"}[vr.Intn(3)]
	}
	k := 1 + r.Intn(4)
	prev := ""
	for i := 0; i < k; i++ {
		from := holders[r.Intn(len(holders))]
		for tries := 0; tries < 4 && left[from].Sign() == 0; tries++ {
			from = holders[r.Intn(len(holders))]
		}
		if left[from].Sign() == 0 && r.Bool(0.9) {
			break
		}
		var amt *big.Int
		switch r.Intn(24) {
		case 0, 1, 2:
			amt = new(big.Int).Set(left[from]) // everything that is left
		case 3:
			amt = new(big.Int) // swapToNative(to, 0) is a legal call
		case 4, 5, 6:
			amt = big.NewInt(1)
		default:
			// a share, so that later logs of the same holder still have something to burn
			amt = add(r.BigBelow(add(new(big.Int).Rsh(left[from], uint(1+r.Intn(3))), big.NewInt(1))), big.NewInt(1))
		}
		if amt.Cmp(left[from]) > 0 {
			amt = new(big.Int).Set(left[from])
		}
		left[from].Sub(left[from], amt)
		to := receiver(prev)
		prev = to
		a.Logs = append(a.Logs, hookLog{Shape: "swap", From: from, To: to, Amount: amt.String()})
		// noise between the logs
		for r.Bool(0.25) {
			shape := []string{"other_contract", "other_event", "extra_topic", "unknown_sig"}[r.Intn(4)]
			a.Logs = append(a.Logs, hookLog{Shape: shape, From: from, To: w.A(r.Intn(nAct)).Addr.String(), Amount: big.NewInt(1 + r.Int63n(1000)).String()})
		}
	}
	if len(a.Logs) == 0 {
		return nil
	}
	if r.Bool(0.15) {
		// noise first
		a.Logs = append([]hookLog{{Shape: "other_contract", From: holders[0], To: w.A(0).Addr.String(), Amount: "7"}}, a.Logs...)
	}
	bz, err := json.Marshal(a)
	if err != nil {
		engine.Fatal("hooklab args: %v", err)
	}
	return []engine.Fault{{Kind: hookFaultKind, Args: bz}}
}

// OnFault runs one hook experiment on a branch of the committed state.
func (m *Module) OnFault(w *engine.World, f engine.Fault) {
	if f.Kind != hookFaultKind || m.key == nil {
		return
	}
	var a hookArgs
	if err := json.Unmarshal(f.Args, &a); err != nil {
		engine.Fatal("hooklab args: %v", err)
	}
	t := m.toks[a.Symbol]
	if t == nil || t.Contract == "" {
		return // the history that bound the contract is not part of this schedule
	}
	n := w.Node
	ctx, _ := n.Ctx().CacheContext()
	contract := common.HexToAddress(t.Contract)
	denom := t.MinUnit
	bank := n.App.BankKeeper
	st := ctx.KVStore(m.key)
	abi := contracts.ERC20TokenContract.ABI
	ev, ok := abi.Events[contracts.EventSwapToNative]
	if !ok {
		engine.Fatal("hooklab: the contract ABI has no %s event", contracts.EventSwapToNative)
	}

	// state before the simulated Ethereum transaction
	ercBefore := getBig(st, cat(pfxSupply, contract.Bytes()))
	natBefore := bank.GetSupply(ctx, denom).Amount.BigInt()

	// (1) what the contract's swapToNative does before it emits the event: burn the caller
	burnedTotal := new(big.Int)
	for _, l := range a.Logs {
		if l.Shape != "swap" {
			continue
		}
		amt := bigOf(l.Amount)
		bk := cat(pfxBal, contract.Bytes(), common.HexToAddress(l.From).Bytes())
		bal := getBig(st, bk)
		if bal.Cmp(amt) < 0 {
			// the contract would revert: not a transaction that can exist on this history
			// (a sub-schedule in which the holder never received the balance)
			w.Hit("token.hook_skipped_insufficient_erc20")
			return
		}
		setBig(st, bk, new(big.Int).Sub(bal, amt))
		sk := cat(pfxSupply, contract.Bytes())
		setBig(st, sk, new(big.Int).Sub(getBig(st, sk), amt))
		burnedTotal.Add(burnedTotal, amt)
	}

	// (2) the receipt
	receipt := &ethtypes.Receipt{Status: ethtypes.ReceiptStatusSuccessful, ContractAddress: contract}
	want := map[string]*big.Int{} // receiver -> expected native credit, by the recognised logs
	recognised, noise := 0, 0
	odd := "" // the first ground on which the hook may refuse the receipt
	note := func(s string) {
		if odd == "" {
			odd = s
		}
	}
	for i, l := range a.Logs {
		amt := bigOf(l.Amount)
		data, err := ev.Inputs.Pack(common.HexToAddress(l.From), l.To, amt)
		if err != nil {
			engine.Fatal("hooklab: packing the event: %v", err)
		}
		lg := &ethtypes.Log{Address: contract, Topics: []common.Hash{ev.ID}, Data: data, Index: uint(i)}
		switch l.Shape {
		case "swap":
			recognised++
			if want[l.To] == nil {
				want[l.To] = new(big.Int)
			}
			want[l.To].Add(want[l.To], amt)
			switch {
			case amt.Sign() == 0:
				note("zero_amount")
			case blocked[l.To]:
				note("blocked_receiver")
			default:
				if _, err := sdk.AccAddressFromBech32(l.To); err != nil {
					note("malformed_receiver")
				}
			}
		case "other_contract":
			lg.Address = common.BytesToAddress([]byte("no token bound here"))
			noise++
		case "other_event":
			trID := crypto.Keccak256Hash([]byte("Transfer(address,address,uint256)"))
			if tr, ok := abi.Events["Transfer"]; ok {
				trID = tr.ID
			}
			lg.Topics = []common.Hash{trID, common.BytesToHash(common.HexToAddress(l.From).Bytes()), common.BytesToHash([]byte("someone"))}
			lg.Data = common.LeftPadBytes(amt.Bytes(), 32)
			noise++
		case "extra_topic":
			lg.Topics = []common.Hash{ev.ID, common.BytesToHash([]byte("indexed"))}
			noise++
		case "unknown_sig":
			lg.Topics = []common.Hash{crypto.Keccak256Hash([]byte("Nothing(address,string,uint256)"))}
			noise++
		default:
			continue
		}
		receipt.Logs = append(receipt.Logs, lg)
	}
	if recognised == 0 {
		return
	}

	// (3) the hook, obtained the way an EVM module obtains it: Keeper.Hooks()
	var hook tokentypes.Hook = n.K.Token.Hooks()
	from := common.HexToAddress(a.Logs[0].From)
	target := &contract
	switch a.Via {
	case "router":
		router := common.HexToAddress("0x00000000000000000000000000000000000beef1")
		target = &router
		w.Hit("token.hook_via_other_contract")
	case "create":
		target = nil
		w.Hit("token.hook_via_other_contract")
	}
	msg := ethtypes.NewMessage(from, target, 0, big.NewInt(0), 3_000_000, big.NewInt(0), big.NewInt(0), big.NewInt(0), nil, ethtypes.AccessList{}, false)
	var herr error
	if perr := engine.Catch("PostTxProcessing", func() error { herr = hook.PostTxProcessing(ctx, msg, receipt); return nil }); perr != nil {
		w.Violate("C10", "hook/panic", "the swap-to-native hook panicked on a receipt with %d logs (%d SwapToNative of %s): %v", len(receipt.Logs), recognised, t.Symbol, perr)
		return
	}
	w.Hit("token.hook_calls")
	if noise > 0 {
		w.Hit("token.hook_noise_logs")
	}
	if herr != nil {
		// the Ethereum transaction reverts as a whole (burns included): nothing to judge
		w.Hit("token.hook_refused")
		if odd != "" {
			w.Hit("token.hook_refused." + odd)
		} else if !m.par.Enable {
			w.Hit("token.hook_refused.erc20_disabled")
		} else {
			w.Hit("token.hook_refused.other")
		}
		return
	}

	// (4) the hook accepted the receipt
	w.Hit("C10.hook_checks")
	shape := "single-log"
	if recognised > 1 {
		shape = "multi-log"
		w.Hit("token.hook_multi_log")
	}
	if odd != "" {
		w.Hit("token.hook_accepted_odd." + odd)
	}
	if len(want) < recognised {
		w.Hit("token.hook_same_receiver_twice")
	}
	natAfter := bank.GetSupply(ctx, denom).Amount.BigInt()
	ercAfter := getBig(st, cat(pfxSupply, contract.Bytes()))
	minted := sub(natAfter, natBefore)
	detail := func() string {
		bz, _ := json.Marshal(a.Logs)
		return string(bz)
	}
	// "native supply plus ERC20 supply is unchanged"
	conserved := true
	if c := add(natAfter, ercAfter).Cmp(add(natBefore, ercBefore)); c != 0 {
		conserved = false
		key := "hook/under-minted/" + shape
		if c > 0 {
			key = "hook/over-minted/" + shape
		}
		w.Violate("C10", key, "swap-to-native of %s: the contract burned %s in %d SwapToNative logs, the hook accepted the receipt and minted %s natively; native+ERC20 supply went from %s to %s; logs: %s",
			t.Symbol, burnedTotal, recognised, minted, add(natBefore, ercBefore), add(natAfter, ercAfter), detail())
	}
	// every recognised log credits exactly its amount to its receiver (when the total is wrong
	// the key above has said so; this one is for a right total in the wrong hands)
	committed := n.Ctx()
	for _, to := range engine.SortedKeys(want) {
		if !conserved {
			break
		}
		addr, err := sdk.AccAddressFromBech32(to)
		if err != nil {
			continue // cannot be credited; the supply comparison above has spoken
		}
		got := sub(bank.GetBalance(ctx, addr, denom).Amount.BigInt(), bank.GetBalance(committed, addr, denom).Amount.BigInt())
		if got.Cmp(want[to]) != 0 {
			w.Violate("C10", "hook/receiver-credit/"+shape, "swap-to-native of %s: receiver %s was credited %s%s, the logs name %s; logs: %s", t.Symbol, to, got, denom, want[to], detail())
		}
	}
	// nothing sticks to the module account
	mod := sdk.MustAccAddressFromBech32(modAddr)
	stuck := sub(bank.GetBalance(ctx, mod, denom).Amount.BigInt(), bank.GetBalance(committed, mod, denom).Amount.BigInt())
	if stuck.Cmp(orZero(want[modAddr])) > 0 {
		w.Violate("C10", "hook/module-account-residue", "swap-to-native of %s left %s%s in the token module account; logs: %s", t.Symbol, stuck, denom, detail())
	}
}
