package tokenmod

import "verif/sim/engine"

// Register installs the token profile and the properties it decides.
func Register() {
	engine.RegisterProfile(&engine.Profile{
		Name: "token",
		Mods: func() []engine.Module { return []engine.Module{New()} },
		Tune: func(c *engine.EngineConfig, r *engine.Rand) {
			c.OpsPerBlock = 1.5 + 5*r.Float()
		},
	})
	engine.RegisterProperty(&engine.Property{
		ID: "C09", Profile: "token",
		NonTrivial: func(c map[string]int64) bool {
			return c["C09.identity_checks"] > 1 && c["C09.authority_checks"] > 2 && c["C09.cap_checks"] > 2 && c["C09.fee_checks"] > 1
		},
		Probes: []string{"C09.identity_checks", "C09.authority_checks", "C09.cap_checks", "C09.fee_checks", "C09.edit_max_checks",
			"C09.burn_tally_checks", "C09.registry_compares",
			"token.reissue_rejected", "token.reissue_after_owner_change_rejected", "token.non_owner_rejected",
			"token.previous_owner_rejected", "token.non_mintable_rejected", "token.mint_over_cap_rejected",
			"token.mint_one_over_cap_rejected", "token.supply_exactly_at_cap", "token.burn_left_fractional_supply",
			"token.edit_max_with_fractional_supply", "token.edit_max_exactly_circulating", "token.edit_max_below_rejected",
			"token.owner_transferred", "token.mint_by_new_owner", "token.owner_race_planned", "token.fee_split_both_ways",
			"token.issue_initial_at_limit", "token.issue_max_at_limit", "token.params_changed", "token.burn_by_non_owner",
			"token.legacy_route.issue", "token.legacy_route.edit", "token.legacy_route.mint", "token.legacy_route.burn",
			"token.legacy_route.transfer", "token.legacy_non_owner_mint_rejected",
			"C09.ghost_supply_checks", "token.ghost_created_by_failtail", "token.ghost_created_by_out_of_gas",
			"token.ghost_reissued_other_minunit", "token.ghost_reissued_other_symbol", "token.ghost_op_attempted",
			"token.ghost_op_attempted.mint", "token.ghost_op_attempted.burn", "token.ghost_op_attempted.edit",
			"token.ghost_op_attempted.transfer", "token.ghost_op_attempted.to_erc20", "token.ghost_min_unit_op_after_symbol_taken"},
		Rule: "a run is non-trivial when at least two accepted issues were judged for identity, more than two accepted edit/mint/transfer messages for authority, more than two supply-versus-cap comparisons and at least two issue/mint fee splits were made; distinct = different fingerprint of the executed (operation kind, outcome class) sequence",
	})
	engine.RegisterProperty(&engine.Property{
		ID: "C10", Profile: "token",
		NonTrivial: func(c map[string]int64) bool {
			return c["C10.conversion_checks"]+c["C10.feeswap_checks"] > 1 && c["C10.ledger_compares"] > 0 &&
				(c["token.conversion_rejected"]+c["token.conversion_out_of_gas"]+c["token.conversion_rolled_back_by_tail"] > 0 || c["C10.feeswap_checks"] > 0)
		},
		Probes: []string{"C10.conversion_checks", "C10.feeswap_checks", "C10.ledger_compares", "C10.ledger_compares_after_rejection",
			"C10.balances_query_compares", "token.to_erc20", "token.from_erc20", "token.conversion_rejected",
			"token.conversion_rejected_by_recheck", "token.conversion_out_of_gas", "token.conversion_rolled_back_by_tail",
			"token.evm_fault_fired.error", "token.evm_fault_fired.revert", "token.evm_fault_fired.wrong_delta_mint",
			"token.evm_fault_fired.wrong_delta_burn", "token.evm_fault_fired.misdirect", "token.evm_fault_fired.estimate_gas_error",
			"token.evm_fault_fired.balance_error_before", "token.evm_fault_fired.balance_error_after",
			"token.to_erc20_other_receiver", "token.from_erc20_other_receiver", "token.from_erc20_whole_balance",
			"token.feeswap_ratio_one", "token.feeswap_with_dust", "token.feeswap_across_scales", "token.feeswap_minted_nothing",
			"token.ibc_token_registered", "token.erc20_deployed", "token.ghost_payout_planned", "token.feeswap_after_payout_ghost",
			"token.collision_symbol_is_min_unit", "token.collision_conversion",
			"C10.hook_checks", "token.hook_multi_log", "token.hook_same_receiver_twice", "token.hook_noise_logs",
			"token.hook_refused.blocked_receiver", "token.hook_refused.malformed_receiver", "token.hook_refused.zero_amount"},
		Rule: "a run is non-trivial when at least two accepted conversions (ERC20 either way, or fee-token swaps) were judged exactly, the committed EVM ledger was compared with the model, and either a conversion was rejected (no-trace rule exercised) or a fee-token swap was judged; distinct = different fingerprint of the executed (operation kind, outcome class) sequence",
	})
}
