package tokenmod

import (
	"math/big"
	"strings"

	sdk "github.com/cosmos/cosmos-sdk/types"
	authtypes "github.com/cosmos/cosmos-sdk/x/auth/types"
	distrtypes "github.com/cosmos/cosmos-sdk/x/distribution/types"
	minttypes "github.com/cosmos/cosmos-sdk/x/mint/types"
	stakingtypes "github.com/cosmos/cosmos-sdk/x/staking/types"
	"github.com/ethereum/go-ethereum/common"

	tokentypes "mods.irisnet.org/modules/token/types"
	v1 "mods.irisnet.org/modules/token/types/v1"

	"verif/sim/engine"
)

func mul(a, b *big.Int) *big.Int { return new(big.Int).Mul(a, b) }
func add(a, b *big.Int) *big.Int { return new(big.Int).Add(a, b) }
func sub(a, b *big.Int) *big.Int { return new(big.Int).Sub(a, b) }
func neg(a *big.Int) *big.Int    { return new(big.Int).Neg(a) }

var (
	modAddr   = engine.ModAddr(tokentypes.ModuleName)
	collector = engine.ModAddr(authtypes.FeeCollectorName)
	// accounts the application's bank refuses as recipients (application wiring, public)
	blocked = map[string]bool{
		engine.ModAddr(authtypes.FeeCollectorName):     true,
		engine.ModAddr(distrtypes.ModuleName):          true,
		engine.ModAddr(minttypes.ModuleName):           true,
		engine.ModAddr(stakingtypes.BondedPoolName):    true,
		engine.ModAddr(stakingtypes.NotBondedPoolName): true,
	}
)

// pre-state of the message being judged: the ledger before the transaction plus the sheets
// of the transaction's earlier messages.
func (m *Module) bal(w *engine.World, addr, denom string) *big.Int {
	v := w.Bal(addr, denom)
	for _, s := range m.overlay {
		v.Add(v, s.Of(addr, denom))
	}
	return v
}

func (m *Module) supply(w *engine.World, denom string) *big.Int {
	v := w.Ledger.GetSupply(denom)
	for _, s := range m.overlay {
		v.Add(v, s.SupplyOf(denom))
	}
	return v
}

func (m *Module) note(contract string) *convNote {
	n := m.conv[contract]
	if n == nil {
		n = &convNote{}
		m.conv[contract] = n
	}
	return n
}

func (m *Module) contractOfDenom(denom string) string {
	if t := m.byMin[denom]; t != nil {
		return t.Contract
	}
	return ""
}

func (m *Module) OnTx(w *engine.World, tx *engine.TxRecord) {
	m.overlay = m.overlay[:0]
	single := len(tx.Plan.Ops) == 1
	for i, op := range tx.Plan.Ops {
		if op.Mod != Name {
			if tx.OK() {
				m.overlay = append(m.overlay, tx.MsgSheet(i))
			}
			continue
		}
		if k := m.opKey[op.ID]; k != "" {
			if kind := m.fired[k]; kind != "" && i == 0 {
				w.Hit("token.evm_fault_fired." + kind)
			}
		}
		if !tx.OK() {
			m.rejected(w, tx, op, single)
			continue
		}
		sh := tx.MsgSheet(i)
		m.accepted(w, tx, i, op, sh)
		m.overlay = append(m.overlay, sh)
	}
	m.overlay = m.overlay[:0]
}

// rejected: a failed transaction "did not happen". What the property says about verdicts is
// compared here (only for single-message transactions: in a batch another message may be
// the reason); that it left no trace is checked by the engine's bank mirror and by OnCommit.
func (m *Module) rejected(w *engine.World, tx *engine.TxRecord, op *engine.Op, single bool) {
	sender := w.A(op.Actor).Addr.String()
	if op.Kind == "issue" {
		m.noteGhost(w, tx, op)
	} else {
		m.ghostAttempt(w, op)
	}
	switch op.Kind {
	case "to_erc20", "from_erc20":
		var denom string
		if op.Kind == "to_erc20" {
			var a toErcArgs
			op.Decode(&a)
			denom = a.Denom
		} else {
			var a fromErcArgs
			op.Decode(&a)
			denom = a.Denom
		}
		m.note(m.contractOfDenom(denom)).rejected = true
		m.sawRejected = true
		if tx.Infra {
			// injected: gas ran out inside the handler (possibly inside the EVM stub's store
			// access), or a later message of the same transaction failed after this
			// conversion had already succeeded - either way everything must roll back
			tail := false
			for _, o := range tx.Plan.Ops {
				if o.Mod == "engine" {
					tail = true
				}
			}
			if tail {
				w.Hit("token.conversion_rolled_back_by_tail")
			} else {
				w.Hit("token.conversion_out_of_gas")
			}
		} else {
			w.Hit("token.conversion_rejected")
			if k := m.opKey[op.ID]; k != "" && strings.HasPrefix(m.fired[k], "wrong_delta") && strings.Contains(tx.Log, "correctly") {
				w.Hit("token.conversion_rejected_by_recheck")
			}
			if k := m.opKey[op.ID]; k != "" && m.fired[k] == "misdirect" {
				w.Hit("token.conversion_rejected_by_recheck")
			}
		}
	case "deploy":
		m.sawRejected = true
	}
	if tx.Code == 111222 && single {
		// a handler that aborts by panicking: the transaction fails cleanly, which is all C09 /
		// C10 ask of a failure; counted so that it is visible (see NOTES.md)
		w.Hit("token.handler_panic." + op.Kind)
	}
	if tx.Infra || !single {
		return
	}
	switch op.Kind {
	case "transfer":
		var a transferArgs
		op.Decode(&a)
		t := m.toks[a.Symbol]
		if t == nil {
			return
		}
		if t.Owner != sender {
			w.Hit("token.non_owner_rejected")
			m.noteStale(w, t, sender)
			return
		}
		// "Only the current owner can ... hand over ownership": the owner can. A different,
		// receivable new owner leaves no stated ground for refusal.
		if a.To != sender && !blocked[a.To] {
			w.Violate("C09", "authority/owner-transfer-rejected", "transfer of %s by its owner %s to %s was rejected: %s", a.Symbol, sender, a.To, tx.Log)
		}
	case "edit":
		var a editArgs
		op.Decode(&a)
		t := m.toks[a.Symbol]
		if t == nil {
			return
		}
		if t.Owner != sender {
			w.Hit("token.non_owner_rejected")
			m.noteStale(w, t, sender)
			return
		}
		if a.Max == "0" {
			// "Only the current owner can edit it": an edit by the owner that leaves the
			// maximum alone has no stated ground for refusal.
			w.Violate("C09", "authority/owner-edit-rejected", "edit of %s by its owner %s (name %q, mintable %q, max unchanged) was rejected: %s", a.Symbol, sender, a.Name, a.Mintable, tx.Log)
			return
		}
		mx := new(big.Int).SetUint64(u64Of(a.Max))
		sup := w.Ledger.GetSupply(t.MinUnit)
		if mul(mx, pow10(t.Scale)).Cmp(sup) < 0 {
			w.Hit("token.edit_max_below_rejected")
		}
		if new(big.Int).Mod(sup, pow10(t.Scale)).Sign() != 0 {
			w.Hit("token.edit_max_with_fractional_supply")
		}
	case "mint":
		var a mintArgs
		op.Decode(&a)
		if !m.normMint(&a) {
			return
		}
		t := m.byMin[a.Denom]
		if t == nil {
			return
		}
		if t.Owner != sender {
			if a.Legacy {
				w.Hit("token.legacy_non_owner_mint_rejected")
			}
			w.Hit("token.non_owner_rejected")
			m.noteStale(w, t, sender)
			return
		}
		if !t.Mintable {
			w.Hit("token.non_mintable_rejected")
			return
		}
		if t.MaxKnown {
			room := sub(mul(new(big.Int).SetUint64(t.Max), pow10(t.Scale)), w.Ledger.GetSupply(t.MinUnit))
			if bigOf(a.Amount).Cmp(room) > 0 {
				w.Hit("token.mint_over_cap_rejected")
				if sub(bigOf(a.Amount), room).Cmp(big.NewInt(1)) == 0 {
					w.Hit("token.mint_one_over_cap_rejected")
				}
			}
		}
	case "issue":
		var a issueArgs
		op.Decode(&a)
		if m.toks[a.Symbol] != nil || m.byMin[a.MinUnit] != nil {
			w.Hit("token.reissue_rejected")
			if t := m.toks[a.Symbol]; t != nil && len(t.Prev) > 0 {
				w.Hit("token.reissue_after_owner_change_rejected")
			}
		}
	case "params":
		w.Hit("token.params_rejected")
	}
}

// normMint / normBurn resolve a legacy (symbol, main units) operation with the model's token
// at judgement time, exactly as the legacy handler resolves it with the stored token.
func (m *Module) normMint(a *mintArgs) bool {
	if !a.Legacy {
		return true
	}
	t := m.toks[a.Symbol]
	if t == nil {
		return false
	}
	a.Denom, a.Amount = t.MinUnit, mul(new(big.Int).SetUint64(u64Of(a.Main)), pow10(t.Scale)).String()
	return true
}

func (m *Module) normBurn(a *burnArgs) bool {
	if !a.Legacy {
		return true
	}
	t := m.toks[a.Symbol]
	if t == nil {
		return false
	}
	a.Denom, a.Amount = t.MinUnit, mul(new(big.Int).SetUint64(u64Of(a.Main)), pow10(t.Scale)).String()
	return true
}

func (m *Module) noteStale(w *engine.World, t *tok, sender string) {
	for _, p := range t.Prev {
		if p == sender {
			w.Hit("token.previous_owner_rejected")
			return
		}
	}
}

func (m *Module) accepted(w *engine.World, tx *engine.TxRecord, i int, op *engine.Op, sh *engine.Sheet) {
	switch op.Kind {
	case "issue":
		m.onIssue(w, tx, op, sh)
	case "edit":
		m.onEdit(w, tx, op, sh)
	case "mint":
		m.onMint(w, tx, op, sh)
	case "burn":
		m.onBurn(w, tx, op, sh)
	case "transfer":
		m.onTransfer(w, tx, op, sh)
	case "send":
		var a sendArgs
		op.Decode(&a)
		m.hold(a.To, a.Denom, bigOf(a.Amount))
		w.Hit("token.sent")
	case "params":
		m.onParams(w, tx, op)
	case "deploy":
		m.onDeploy(w, tx, i, op, sh)
	case "to_erc20":
		m.onToERC20(w, tx, op, sh)
	case "from_erc20":
		m.onFromERC20(w, tx, op, sh)
	case "feeswap":
		m.onFeeSwap(w, tx, i, op, sh)
	}
}

func (m *Module) supplyOnly(w *engine.World, prop, kind string, sh *engine.Sheet, want map[string]*big.Int) {
	for _, d := range sh.SupplyDenoms() {
		if want[d] == nil {
			w.Violate(prop, "supply/"+kind, "%s changed the total supply of %s by %s; sheet: %s", kind, d, sh.SupplyOf(d), sh)
		}
	}
	for _, d := range engine.SortedKeys(want) {
		if sh.SupplyOf(d).Cmp(want[d]) != 0 {
			w.Violate(prop, "supply/"+kind, "%s moved the total supply of %s by %s, expected %s; sheet: %s", kind, d, sh.SupplyOf(d), want[d], sh)
		}
	}
}

// feeSplit judges the issue/mint fee. ownerExtra is what the same message credited to the
// owner in the fee denom for another reason (minting the fee token to oneself).
//
// C09: "the issue/mint fee charged to the owner is split between the fee pool and burning
// with nothing left in the module account". The share of the fee pool is the module's
// token tax rate parameter: pool += floor(fee x tax), the rest is burned.
func (m *Module) feeSplit(w *engine.World, kind string, sh *engine.Sheet, owner string, ownerExtra *big.Int, want engine.Want, sup map[string]*big.Int) {
	ft := m.toks[m.par.FeeSym]
	if ft == nil {
		w.Violate("C09", "fee/unknown-fee-token", "%s accepted while the fee denom %s names no token the harness knows", kind, m.par.FeeSym)
		return
	}
	feeMin := ft.MinUnit
	fee := sub(ownerExtra, sh.Of(owner, feeMin))
	w.Hit("C09.fee_checks")
	if fee.Sign() < 0 {
		w.Violate("C09", "fee/negative/"+kind, "%s paid its owner %s%s", kind, neg(fee), feeMin)
		return
	}
	if fee.Sign() > 0 {
		w.Hit("token.fee_charged")
	}
	taxPart := new(big.Int).Quo(mul(fee, m.par.Tax), e18)
	if taxPart.Sign() > 0 && taxPart.Cmp(fee) < 0 {
		w.Hit("token.fee_split_both_ways")
	}
	got := sh.Of(collector, feeMin)
	burned := neg(sub(sh.SupplyOf(feeMin), orZero(sup[feeMin])))
	kept := sh.Of(modAddr, feeMin)
	if mw := want[modAddr]; mw != nil && mw[feeMin] != nil {
		kept.Sub(kept, mw[feeMin]) // the message itself named the module account as recipient
	}
	if add(got, burned).Cmp(fee) != 0 || kept.Sign() != 0 {
		w.Violate("C09", "fee/split/"+kind, "%s: owner paid %s%s, fee pool received %s, burned %s, module account kept %s", kind, fee, feeMin, got, burned, kept)
	} else if got.Cmp(taxPart) != 0 {
		w.Violate("C09", "fee/tax-share/"+kind, "%s: fee %s%s at tax rate %s/1e18: fee pool received %s, expected floor = %s", kind, fee, feeMin, m.par.Tax, got, taxPart)
	}
	// the generic sheet comparison that follows takes the observed split, so that a wrong
	// split is reported once, under its own key
	want.Put(owner, feeMin, neg(fee))
	want.Put(collector, feeMin, got)
	if kept.Sign() != 0 {
		want.Put(modAddr, feeMin, kept)
		m.hold(modAddr, feeMin, kept) // reported above; keep the residue check quiet about it
	}
	if sup[feeMin] == nil {
		sup[feeMin] = new(big.Int)
	}
	sup[feeMin].Sub(sup[feeMin], burned)
}

// hold notes coins a message deliberately credited to the token module's own account.
func (m *Module) hold(rcpt, denom string, amt *big.Int) {
	if rcpt != modAddr || amt.Sign() == 0 {
		return
	}
	if m.modHold[denom] == nil {
		m.modHold[denom] = new(big.Int)
	}
	m.modHold[denom].Add(m.modHold[denom], amt)
}

func orZero(v *big.Int) *big.Int {
	if v == nil {
		return new(big.Int)
	}
	return v
}

func (m *Module) capAfter(w *engine.World, kind string, t *tok, sh *engine.Sheet) {
	if t.NoCap || t.Tainted || !t.MaxKnown {
		return
	}
	after := add(m.supply(w, t.MinUnit), sh.SupplyOf(t.MinUnit))
	capAmt := mul(new(big.Int).SetUint64(t.Max), pow10(t.Scale))
	w.Hit("C09.cap_checks")
	if after.Cmp(capAmt) == 0 {
		w.Hit("token.supply_exactly_at_cap")
	}
	// C09: "Through issue, mint, edit and burn the circulating amount of a token never
	// exceeds its declared maximum supply (max supply x 10^scale minimum units)"
	if after.Cmp(capAmt) > 0 && !t.BelowByEdit {
		w.Violate("C09", "cap/exceeded/"+kind, "after %s the supply of %s is %s, above the declared maximum %d x 10^%d = %s", kind, t.MinUnit, after, t.Max, t.Scale, capAmt)
	}
	if after.Cmp(capAmt) <= 0 {
		t.BelowByEdit = false
	}
}

func (m *Module) onIssue(w *engine.World, tx *engine.TxRecord, op *engine.Op, sh *engine.Sheet) {
	var a issueArgs
	op.Decode(&a)
	owner := w.A(op.Actor).Addr.String()
	if a.Legacy {
		w.Hit("token.legacy_route." + op.Kind)
	}
	w.Hit("C09.identity_checks")
	// C09: "A token's symbol and minimum unit each identify at most one token forever."
	if o := m.toks[a.Symbol]; o != nil {
		w.Violate("C09", "identity/symbol-reused/issue", "issue of symbol %s (min unit %s) by %s accepted although the symbol already names the token with min unit %s owned by %s", a.Symbol, a.MinUnit, owner, o.MinUnit, o.Owner)
		return
	}
	if o := m.byMin[a.MinUnit]; o != nil {
		w.Violate("C09", "identity/min-unit-reused/issue", "issue of min unit %s (symbol %s) by %s accepted although the min unit already belongs to token %s", a.MinUnit, a.Symbol, owner, o.Symbol)
		return
	}
	t := &tok{Symbol: a.Symbol, MinUnit: a.MinUnit, Name: a.Name, Scale: a.Scale, Owner: owner, Mintable: a.Mintable}
	if mx := u64Of(a.Max); mx != 0 {
		t.Max, t.MaxKnown = mx, true
	}
	if m.phantomDenom[a.MinUnit] {
		t.Tainted = true // coins of this denom were minted by a swap before any token declared it (reported there)
	}
	m.addTok(t)
	w.Hit("token.issued")
	if o := m.byMin[a.Symbol]; o != nil && o != t {
		w.Hit("token.collision_symbol_is_min_unit")
	}
	if o := m.toks[a.MinUnit]; o != nil && o != t {
		w.Hit("token.collision_symbol_is_min_unit")
	}
	for _, g := range m.ghosts {
		if g.Symbol == a.Symbol && g.MinUnit != a.MinUnit {
			w.Hit("token.ghost_reissued_other_minunit")
			break
		}
	}
	for _, g := range m.ghosts {
		if g.MinUnit == a.MinUnit && g.Symbol != a.Symbol {
			w.Hit("token.ghost_reissued_other_symbol")
			break
		}
	}
	minted := mul(new(big.Int).SetUint64(u64Of(a.Initial)), pow10(a.Scale))
	if u64Of(a.Initial) == maxInit {
		w.Hit("token.issue_initial_at_limit")
	}
	if t.MaxKnown && t.Max == u64Of(a.Initial) {
		w.Hit("token.issue_max_equals_initial")
	}
	if t.MaxKnown && t.Max == maxU64 {
		w.Hit("token.issue_max_at_limit")
	}
	want := engine.Want{}
	sup := map[string]*big.Int{}
	if minted.Sign() != 0 {
		want.Put(owner, a.MinUnit, minted)
		sup[a.MinUnit] = new(big.Int).Set(minted)
	}
	m.feeSplit(w, "issue", sh, owner, new(big.Int), want, sup)
	if d := want.Diff(sh); d != "" {
		w.Violate("C09", "balance-sheet/issue", "issue of %s (initial %s x 10^%d): %s; sheet: %s", a.Symbol, a.Initial, a.Scale, d, sh)
	}
	m.supplyOnly(w, "C09", "issue", sh, sup)
	m.capAfter(w, "issue", t, sh)
}

func (m *Module) onMint(w *engine.World, tx *engine.TxRecord, op *engine.Op, sh *engine.Sheet) {
	var a mintArgs
	op.Decode(&a)
	owner := w.A(op.Actor).Addr.String()
	if !m.normMint(&a) {
		m.ghostAccepted(w, "mint", "symbol", a.Symbol, owner)
		return
	}
	if a.Legacy {
		w.Hit("token.legacy_route." + op.Kind)
	}
	t := m.byMin[a.Denom]
	if t == nil {
		m.ghostAccepted(w, "mint", "min unit", a.Denom, owner)
		return
	}
	w.Hit("C09.authority_checks")
	// C09: "Only the current owner can edit it, mint it or hand over ownership"
	if t.Owner != owner {
		w.Violate("C09", "authority/mint-by-non-owner", "mint of %s%s signed by %s accepted; the owner of %s is %s (previous owners %v)", a.Amount, a.Denom, owner, t.Symbol, t.Owner, t.Prev)
	}
	// C09: "minting a non-mintable token always fails"
	if !t.Mintable {
		w.Violate("C09", "mint/non-mintable-accepted", "mint of %s%s accepted although %s is not mintable", a.Amount, a.Denom, t.Symbol)
	}
	amt := bigOf(a.Amount)
	rcpt := a.Receiver
	if rcpt == "" {
		rcpt = owner
	}
	if rcpt != owner {
		w.Hit("token.mint_to_other")
	}
	m.hold(rcpt, a.Denom, amt)
	if len(t.Prev) > 0 {
		w.Hit("token.mint_by_new_owner")
	}
	want := engine.Want{}
	want.Put(rcpt, a.Denom, amt)
	sup := map[string]*big.Int{a.Denom: new(big.Int).Set(amt)}
	extra := new(big.Int)
	if ft := m.toks[m.par.FeeSym]; ft != nil && ft.MinUnit == a.Denom && rcpt == owner {
		extra = amt
	}
	m.feeSplit(w, "mint", sh, owner, extra, want, sup)
	if d := want.Diff(sh); d != "" {
		w.Violate("C09", "balance-sheet/mint", "mint of %s%s to %s: %s; sheet: %s", a.Amount, a.Denom, rcpt, d, sh)
	}
	m.supplyOnly(w, "C09", "mint", sh, sup)
	m.capAfter(w, "mint", t, sh)
}

func (m *Module) onBurn(w *engine.World, tx *engine.TxRecord, op *engine.Op, sh *engine.Sheet) {
	var a burnArgs
	op.Decode(&a)
	sender := w.A(op.Actor).Addr.String()
	if !m.normBurn(&a) {
		m.ghostAccepted(w, "burn", "symbol", a.Symbol, sender)
		return
	}
	if a.Legacy {
		w.Hit("token.legacy_route." + op.Kind)
	}
	amt := bigOf(a.Amount)
	t := m.byMin[a.Denom]
	if t == nil {
		m.ghostAccepted(w, "burn", "min unit", a.Denom, sender)
		// the burn happened: keep the tally model in step so that only the identity key speaks
		if m.burnt[a.Denom] == nil {
			m.burnt[a.Denom] = new(big.Int)
		}
		m.burnt[a.Denom].Add(m.burnt[a.Denom], amt)
		return
	}
	if m.burnt[a.Denom] == nil {
		m.burnt[a.Denom] = new(big.Int)
	}
	m.burnt[a.Denom].Add(m.burnt[a.Denom], amt)
	w.Hit("token.burned")
	after := sub(m.supply(w, a.Denom), amt)
	if new(big.Int).Mod(after, pow10(t.Scale)).Sign() != 0 {
		w.Hit("token.burn_left_fractional_supply")
	}
	if t.Owner != sender {
		w.Hit("token.burn_by_non_owner")
	}
	want := engine.Want{}
	want.Put(sender, a.Denom, neg(amt))
	if d := want.Diff(sh); d != "" {
		w.Violate("C09", "balance-sheet/burn", "burn of %s%s: %s; sheet: %s", a.Amount, a.Denom, d, sh)
	}
	m.supplyOnly(w, "C09", "burn", sh, map[string]*big.Int{a.Denom: neg(amt)})
	m.capAfter(w, "burn", t, sh)
}

func (m *Module) onEdit(w *engine.World, tx *engine.TxRecord, op *engine.Op, sh *engine.Sheet) {
	var a editArgs
	op.Decode(&a)
	sender := w.A(op.Actor).Addr.String()
	if a.Legacy {
		w.Hit("token.legacy_route." + op.Kind)
	}
	t := m.toks[a.Symbol]
	if t == nil {
		m.ghostAccepted(w, "edit", "symbol", a.Symbol, sender)
		return
	}
	w.Hit("C09.authority_checks")
	if t.Owner != sender {
		w.Violate("C09", "authority/edit-by-non-owner", "edit of %s signed by %s accepted; the owner is %s (previous owners %v)", a.Symbol, sender, t.Owner, t.Prev)
	}
	if !sh.Empty() {
		w.Violate("C09", "balance-sheet/edit", "edit of %s moved coins: %s", a.Symbol, sh)
	}
	if a.Name != v1.DoNotModify {
		t.Name = a.Name
	}
	switch a.Mintable {
	case "true":
		t.Mintable = true
	case "false":
		t.Mintable = false
		w.Hit("token.made_non_mintable")
	}
	if mx := u64Of(a.Max); mx != 0 {
		sup := m.supply(w, t.MinUnit)
		capAmt := mul(new(big.Int).SetUint64(mx), pow10(t.Scale))
		frac := new(big.Int).Mod(sup, pow10(t.Scale)).Sign() != 0
		w.Hit("C09.edit_max_checks")
		if frac {
			w.Hit("token.edit_max_with_fractional_supply")
		}
		if capAmt.Cmp(sup) == 0 {
			w.Hit("token.edit_max_exactly_circulating")
		}
		t.Max, t.MaxKnown = mx, true
		t.BelowByEdit = false
		// C09: "the maximum can never be lowered below what circulates"
		if capAmt.Cmp(sup) < 0 && !t.NoCap && !t.Tainted {
			t.BelowByEdit = true
			shape := "whole-supply"
			if frac {
				shape = "fractional-supply"
			}
			w.Violate("C09", "edit/max-below-circulation/"+shape, "edit of %s accepted max supply %d (x 10^%d = %s min units) while %s%s circulate", a.Symbol, mx, t.Scale, capAmt, sup, t.MinUnit)
		}
	}
}

func (m *Module) onTransfer(w *engine.World, tx *engine.TxRecord, op *engine.Op, sh *engine.Sheet) {
	var a transferArgs
	op.Decode(&a)
	sender := w.A(op.Actor).Addr.String()
	if a.Legacy {
		w.Hit("token.legacy_route." + op.Kind)
	}
	t := m.toks[a.Symbol]
	if t == nil {
		m.ghostAccepted(w, "transfer", "symbol", a.Symbol, sender)
		return
	}
	w.Hit("C09.authority_checks")
	if t.Owner != sender {
		w.Violate("C09", "authority/transfer-by-non-owner", "ownership transfer of %s to %s signed by %s accepted; the owner is %s (previous owners %v)", a.Symbol, a.To, sender, t.Owner, t.Prev)
	}
	if !sh.Empty() {
		w.Violate("C09", "balance-sheet/transfer", "ownership transfer of %s moved coins: %s", a.Symbol, sh)
	}
	t.Prev = append(t.Prev, t.Owner)
	t.Owner = a.To
	w.Hit("token.owner_transferred")
}

func (m *Module) onParams(w *engine.World, tx *engine.TxRecord, op *engine.Op) {
	var a paramArgs
	op.Decode(&a)
	if a.Authority != w.Governor().Addr.String() || op.Actor != w.Governor().Idx {
		w.Violate("C16", "authority/token", "MsgUpdateParams signed by actor %d naming authority %s was accepted; the authority is %s", op.Actor, a.Authority, w.Governor().Addr)
	}
	if bigOf(a.Tax).Cmp(e18) > 0 || bigOf(a.MintRatio).Cmp(e18) > 0 {
		w.Violate("C16", "invalid-accepted/token", "MsgUpdateParams with tax %s/1e18, mint ratio %s/1e18 was accepted", a.Tax, a.MintRatio)
	}
	m.par = params{Tax: bigOf(a.Tax), MintRatio: bigOf(a.MintRatio), BaseFee: bigOf(a.BaseFee), FeeSym: a.FeeSym, Enable: a.Enable, Beacon: a.Beacon}
	w.Hit("token.params_changed")
}

// ---- C10 -----------------------------------------------------------------------------------

func (m *Module) ercAdd(contract, acct string, v *big.Int) *big.Int {
	if m.erc[contract] == nil {
		m.erc[contract] = map[string]*big.Int{}
	}
	if m.erc[contract][acct] == nil {
		m.erc[contract][acct] = new(big.Int)
	}
	return m.erc[contract][acct].Add(m.erc[contract][acct], v)
}

func (m *Module) onDeploy(w *engine.World, tx *engine.TxRecord, i int, op *engine.Op, sh *engine.Sheet) {
	var a deployArgs
	op.Decode(&a)
	if a.Authority != w.Governor().Addr.String() || op.Actor != w.Governor().Idx {
		w.Violate("C16", "authority/token-deploy-erc20", "MsgDeployERC20 signed by actor %d naming authority %s was accepted; the authority is %s", op.Actor, a.Authority, w.Governor().Addr)
	}
	raw, ok := engine.EventAttr(tx.MsgEvents(i), "irismod.token.v1.EventDeployERC20", "contract")
	if !ok {
		raw, ok = engine.EventAttr(tx.Events, "irismod.token.v1.EventDeployERC20", "contract")
	}
	contract := common.HexToAddress(strings.Trim(raw, `"`)).Hex()
	if !ok {
		w.Violate("C10", "deploy/no-event", "accepted MsgDeployERC20 for %s emitted no deployment event", a.MinUnit)
		return
	}
	if !sh.Empty() {
		w.Violate("C10", "balance-sheet/deploy", "deploying a contract moved coins: %s", sh)
	}
	t := m.byMin[a.MinUnit]
	if t == nil {
		// a voucher of another chain: the deployment registers it as a token
		w.Hit("C09.identity_checks")
		if o := m.toks[a.Symbol]; o != nil {
			w.Violate("C09", "identity/symbol-reused/deploy", "deployment for %s registered symbol %s although the symbol already names the token with min unit %s", a.MinUnit, a.Symbol, o.MinUnit)
			return
		}
		t = &tok{Symbol: a.Symbol, MinUnit: a.MinUnit, Name: a.Name, Scale: a.Scale, Owner: modAddr, Mintable: true, NoCap: true}
		m.addTok(t)
		w.Hit("token.ibc_token_registered")
	} else if t.Contract != "" {
		w.Violate("C10", "deploy/second-contract", "token %s already bound to contract %s was bound to %s", t.Symbol, t.Contract, contract)
	}
	for _, o := range m.sortedToks() {
		if o != t && o.Contract == contract {
			w.Violate("C10", "deploy/contract-shared", "contract %s now bound to both %s and %s", contract, o.Symbol, t.Symbol)
		}
	}
	t.Contract = contract
	w.Hit("token.erc20_deployed")
}

func (m *Module) onToERC20(w *engine.World, tx *engine.TxRecord, op *engine.Op, sh *engine.Sheet) {
	var a toErcArgs
	op.Decode(&a)
	sender := w.A(op.Actor).Addr.String()
	amt := bigOf(a.Amount)
	t := m.byMin[a.Denom]
	if t == nil {
		m.ghostAccepted(w, "to_erc20", "min unit", a.Denom, sender)
	}
	if t == nil || t.Contract == "" {
		w.Violate("C10", "conversion/unbound-accepted", "conversion of %s%s to ERC20 accepted although the harness saw no contract bound to it", a.Amount, a.Denom)
		return
	}
	w.Hit("C10.conversion_checks")
	w.Hit("token.to_erc20")
	if o := m.toks[a.Denom]; o != nil && o != t {
		// the coin's min unit is also another token's symbol
		w.Hit("token.collision_conversion")
		if o.Contract != "" {
			w.Hit("token.collision_conversion_both_bound")
		}
	}
	t.Tainted = true
	m.note(t.Contract).accepted = true
	// C10: "Converting a token to its ERC20 form burns exactly the converted amount natively
	// and credits exactly that amount of the bound contract to the receiver"
	want := engine.Want{}
	want.Put(sender, a.Denom, neg(amt))
	if d := want.Diff(sh); d != "" {
		w.Violate("C10", "balance-sheet/to-erc20", "conversion of %s%s to ERC20: %s; sheet: %s", a.Amount, a.Denom, d, sh)
	}
	m.supplyOnly(w, "C10", "to-erc20", sh, map[string]*big.Int{a.Denom: neg(amt)})
	rcv := common.HexToAddress(a.Receiver).Hex()
	m.ercAdd(t.Contract, rcv, amt)
	if rcv != ethOf(w.A(op.Actor).Addr) {
		w.Hit("token.to_erc20_other_receiver")
	}
	if k := m.opKey[op.ID]; k != "" && m.fired[k] != "" {
		w.Hit("token.conversion_accepted_despite_fault")
	}
}

func (m *Module) onFromERC20(w *engine.World, tx *engine.TxRecord, op *engine.Op, sh *engine.Sheet) {
	var a fromErcArgs
	op.Decode(&a)
	amt := bigOf(a.Amount)
	t := m.byMin[a.Denom]
	if t == nil {
		m.ghostAccepted(w, "from_erc20", "min unit", a.Denom, w.A(op.Actor).Addr.String())
	}
	if t == nil || t.Contract == "" {
		w.Violate("C10", "conversion/unbound-accepted", "conversion of %s%s from ERC20 accepted although the harness saw no contract bound to it", a.Amount, a.Denom)
		return
	}
	w.Hit("C10.conversion_checks")
	w.Hit("token.from_erc20")
	t.Tainted = true
	m.note(t.Contract).accepted = true
	// C10: "the reverse conversion does the opposite"
	want := engine.Want{}
	want.Put(a.Receiver, a.Denom, amt)
	if d := want.Diff(sh); d != "" {
		w.Violate("C10", "balance-sheet/from-erc20", "conversion of %s%s from ERC20 to %s: %s; sheet: %s", a.Amount, a.Denom, a.Receiver, d, sh)
	}
	m.supplyOnly(w, "C10", "from-erc20", sh, map[string]*big.Int{a.Denom: new(big.Int).Set(amt)})
	m.hold(a.Receiver, a.Denom, amt)
	from := ethOf(w.A(op.Actor).Addr)
	if left := m.ercAdd(t.Contract, from, neg(amt)); left.Sign() < 0 {
		w.Violate("C10", "from-erc20/overdrawn", "conversion of %s%s from ERC20 accepted although %s held only %s of contract %s", a.Amount, a.Denom, from, add(left, amt), t.Contract)
		left.SetInt64(0)
	} else if left.Sign() == 0 {
		w.Hit("token.from_erc20_whole_balance")
	}
	if a.Receiver != w.A(op.Actor).Addr.String() {
		w.Hit("token.from_erc20_other_receiver")
	}
	if k := m.opKey[op.ID]; k != "" && m.fired[k] != "" {
		w.Hit("token.conversion_accepted_despite_fault")
	}
}

func (m *Module) onFeeSwap(w *engine.World, tx *engine.TxRecord, i int, op *engine.Op, sh *engine.Sheet) {
	var a feeSwapArgs
	op.Decode(&a)
	sender := w.A(op.Actor).Addr.String()
	offered := bigOf(a.Amount)
	if m.byMin[a.Denom] == nil {
		m.ghostAccepted(w, "feeswap", "min unit", a.Denom, sender)
	}
	p, ok := m.pairs[a.Denom]
	if !ok {
		w.Violate("C10", "fee-swap/unregistered-accepted", "fee-token swap of %s accepted although no pair is configured for it", a.Denom)
		return
	}
	tin, tout := m.byMin[p.In], m.byMin[p.Out]
	if tin != nil && tout == nil && m.toks[p.Out] != nil {
		// the configured pay-out MIN UNIT is declared by no token, but the same string is the
		// SYMBOL of one: the swap paid out coins of a denom that no token declares
		o := m.toks[p.Out]
		m.phantomDenom[p.Out] = true
		w.Violate("C10", "fee-swap/payout-resolved-by-symbol/undeclared-denom", "fee-token swap %s -> %s accepted and minted %s%s although no token declares min unit %s; the string is the symbol of token %s/%s (scale %d)",
			p.In, p.Out, sh.SupplyOf(p.Out), p.Out, p.Out, o.Symbol, o.MinUnit, o.Scale)
		return
	}
	if tin == nil || tout == nil {
		m.phantomDenom[p.Out] = true
		w.Violate("C10", "fee-swap/unknown-token", "fee-token swap %s -> %s accepted although the harness never saw both tokens", p.In, p.Out)
		return
	}
	// identifiers colliding across kinds: the pay-out min unit is also another token's symbol
	collide := ""
	if o := m.toks[p.Out]; o != nil && o != tout {
		collide = "/payout-min-unit-is-a-symbol"
		w.Hit("token.feeswap_payout_collides_with_symbol")
	}
	w.Hit("C10.feeswap_checks")
	tin.Tainted, tout.Tainted = true, true
	for _, g := range m.ghosts {
		if g.MinUnit == p.Out && g.Cause == "failtail" {
			w.Hit("token.feeswap_after_payout_ghost")
			break
		}
	}
	if m.toks[p.Out] != nil || m.toks[p.In] != nil {
		w.Hit("token.collision_feeswap")
	}
	rcpt := a.Receiver
	if rcpt == "" {
		rcpt = sender
	}
	burned := neg(sh.SupplyOf(p.In))
	minted := sh.SupplyOf(p.Out)
	ratio := new(big.Rat).SetFrac(bigOf(p.Ratio), e18)
	// C10: "A fee-token swap never burns more than was offered"
	if burned.Cmp(offered) > 0 || burned.Sign() < 0 {
		w.Violate("C10", "fee-swap/burned-exceeds-offered", "swap offering %s%s burned %s", offered, p.In, burned)
	}
	// C10: "and never mints more than the burned amount is worth at the configured ratio and
	// decimal scales": minted x 10^scale_in <= burned x 10^scale_out x ratio, exactly.
	lhs := new(big.Rat).SetInt(mul(minted, pow10(tin.Scale)))
	rhs := new(big.Rat).Mul(new(big.Rat).SetInt(mul(burned, pow10(tout.Scale))), ratio)
	one := ratio.Cmp(big.NewRat(1, 1)) == 0
	shape := "ratio-below-1"
	if one {
		shape = "ratio-1"
	} else if ratio.Cmp(big.NewRat(1, 1)) > 0 {
		shape = "ratio-above-1"
	}
	if lhs.Cmp(rhs) > 0 {
		w.Violate("C10", "fee-swap/over-minted/"+shape+collide, "swap %s -> %s at ratio %s/1e18, scales %d -> %d: offered %s, burned %s, minted %s; the burned amount is worth only %s", p.In, p.Out, p.Ratio, tin.Scale, tout.Scale, offered, burned, minted, new(big.Rat).Quo(rhs, new(big.Rat).SetInt(pow10(tin.Scale))).FloatString(20))
	}
	kept := sub(offered, burned)
	if one {
		w.Hit("token.feeswap_ratio_one")
		// C10: "at ratio 1 it is exact (burned x 10^scale_out = minted x 10^scale_in) and any
		// unconvertible dust stays with the sender"
		if lhs.Cmp(rhs) != 0 {
			w.Violate("C10", "fee-swap/ratio-1-inexact"+collide, "swap %s -> %s at ratio 1, scales %d -> %d: burned %s, minted %s", p.In, p.Out, tin.Scale, tout.Scale, burned, minted)
		}
		// what stays behind is dust only: it would not make a single unit of the output
		if kept.Sign() > 0 && mul(kept, pow10(tout.Scale)).Cmp(pow10(tin.Scale)) >= 0 {
			w.Violate("C10", "fee-swap/ratio-1-kept-convertible"+collide, "swap %s -> %s at ratio 1, scales %d -> %d: offered %s, burned only %s although the remainder %s converts to whole units", p.In, p.Out, tin.Scale, tout.Scale, offered, burned, kept)
		}
	}
	if kept.Sign() > 0 {
		w.Hit("token.feeswap_with_dust")
	}
	if minted.Sign() == 0 {
		w.Hit("token.feeswap_minted_nothing")
	}
	if tin.Scale != tout.Scale {
		w.Hit("token.feeswap_across_scales")
	}
	// the sender gives up exactly what was burned ("dust stays with the sender"), the
	// recipient receives exactly what was minted, nobody else is touched
	m.hold(rcpt, p.Out, minted)
	want := engine.Want{}
	want.Put(sender, p.In, neg(burned))
	want.Put(rcpt, p.Out, minted)
	if d := want.Diff(sh); d != "" {
		w.Violate("C10", "balance-sheet/fee-swap", "swap of %s%s to %s: %s; sheet: %s", a.Amount, a.Denom, rcpt, d, sh)
	}
	m.supplyOnly(w, "C10", "fee-swap", sh, map[string]*big.Int{p.In: neg(burned), p.Out: minted})
	var resp v1.MsgSwapFeeTokenResponse
	if tx.Resp(i, &resp) {
		if resp.FeeGot.Denom != p.Out || resp.FeeGot.Amount.BigInt().Cmp(minted) != 0 {
			w.Violate("C10", "fee-swap/response", "swap reported %s, minted %s%s", resp.FeeGot, minted, p.Out)
		}
	}
}

// ---- block boundary ----------------------------------------------------------------------

func (m *Module) OnCommit(w *engine.World) {
	ctx := w.Node.Ctx()
	k := w.Node.K.Token
	// C16: parameters
	got := k.GetParams(ctx)
	want := m.sdkParams(m.par)
	if !got.TokenTaxRate.Equal(want.TokenTaxRate) || !got.MintTokenFeeRatio.Equal(want.MintTokenFeeRatio) ||
		!got.IssueTokenBaseFee.IsEqual(want.IssueTokenBaseFee) || got.EnableErc20 != want.EnableErc20 || got.Beacon != want.Beacon {
		w.Violate("C16", "params-drift/token", "stored token params %v differ from the last accepted authority update %v", got, want)
		m.par = params{Tax: got.TokenTaxRate.BigInt(), MintRatio: got.MintTokenFeeRatio.BigInt(), BaseFee: got.IssueTokenBaseFee.Amount.BigInt(),
			FeeSym: got.IssueTokenBaseFee.Denom, Enable: got.EnableErc20, Beacon: got.Beacon}
	}
	if err := got.Validate(); err != nil {
		w.Violate("C16", "invalid-stored/token", "stored token params fail the module's own validation: %v", err)
	}
	// C09/C10: "nothing left in the module account"
	// (apart from what users deliberately sent there: it is an ordinary, receivable account)
	denoms := map[string]bool{}
	for _, d := range w.Ledger.Denoms(modAddr) {
		denoms[d] = true
	}
	for d := range m.modHold {
		denoms[d] = true
	}
	for _, d := range engine.SortedKeys(denoms) {
		if have := w.Bal(modAddr, d); have.Cmp(orZero(m.modHold[d])) != 0 {
			w.Violate("C09", "module-account-residue", "token module account holds %s%s after block %d; users sent it %s", have, d, w.Height, orZero(m.modHold[d]))
			m.modHold[d] = have
		}
	}
	// harness self-check: the swap registry is process-local and must have been refilled
	// after every restart
	if reg := k.VerifSwapRegistry(); len(reg) != len(m.pairs) {
		engine.Fatal("token: swap registry has %d entries after block %d, the run configured %d", len(reg), w.Height, len(m.pairs))
	}
	m.checkRegistry(w, ctx)
	m.checkBurnTally(w, ctx)
	m.checkGhostSupply(w)
	m.checkEVM(w, ctx)
	for _, t := range m.sortedToks() {
		if t.Genesis && t.MinUnit == stake {
			continue
		}
		w.State("token", t.Symbol, t.Owner == "", len(t.Prev), t.Mintable, t.Contract != "", w.Ledger.GetSupply(t.MinUnit).BitLen(), t.Tainted)
	}
	m.conv = map[string]*convNote{}
	m.sawRejected = false
}

func (m *Module) checkRegistry(w *engine.World, ctx sdk.Context) {
	k := w.Node.K.Token
	seen := map[string]bool{}
	for _, ti := range k.GetTokens(ctx, nil) {
		q, ok := ti.(*v1.Token)
		if !ok {
			continue
		}
		seen[q.Symbol] = true
		t := m.toks[q.Symbol]
		if t == nil {
			w.Violate("C09", "registry/unknown-token", "module lists token %s/%s that the harness never saw created", q.Symbol, q.MinUnit)
			continue
		}
		if q.MinUnit != t.MinUnit || q.Scale != t.Scale || q.Owner != t.Owner || q.Mintable != t.Mintable || q.Name != t.Name {
			w.Violate("C09", "registry/token-fields", "token %s: module says min unit %s scale %d owner %s mintable %v name %q; the accepted messages give min unit %s scale %d owner %s mintable %v name %q",
				q.Symbol, q.MinUnit, q.Scale, q.Owner, q.Mintable, q.Name, t.MinUnit, t.Scale, t.Owner, t.Mintable, t.Name)
			t.Owner, t.Mintable, t.Name = q.Owner, q.Mintable, q.Name
		}
		if c := q.Contract; (c == "") != (t.Contract == "") || (c != "" && common.HexToAddress(c).Hex() != t.Contract) {
			w.Violate("C10", "registry/contract", "token %s: module says contract %q, the accepted deployments give %q", q.Symbol, q.Contract, t.Contract)
			t.Contract = ""
			if c != "" {
				t.Contract = common.HexToAddress(c).Hex()
			}
		}
		// the maximum: known from the last accepted issue/edit, else learnt here
		if t.MaxKnown && q.MaxSupply != t.Max {
			w.Violate("C09", "registry/max-supply-drift", "token %s: module says max supply %d, the last accepted issue/edit declared %d", q.Symbol, q.MaxSupply, t.Max)
		}
		t.Max, t.MaxKnown = q.MaxSupply, true
		// "symbol and minimum unit each identify at most one token": both lookups lead here
		if bySym, err := k.GetToken(ctx, t.Symbol); err != nil || bySym.GetMinUnit() != t.MinUnit {
			w.Violate("C09", "identity/lookup-by-symbol", "lookup of symbol %s does not lead to the token with min unit %s (err %v)", t.Symbol, t.MinUnit, err)
		}
		if m.toks[t.MinUnit] == nil || t.MinUnit == t.Symbol {
			if byMin, err := k.GetToken(ctx, t.MinUnit); err != nil || byMin.GetSymbol() != t.Symbol {
				w.Violate("C09", "identity/lookup-by-min-unit", "lookup of min unit %s does not lead to token %s (err %v)", t.MinUnit, t.Symbol, err)
			}
		}
		// cap on committed state, with the queried maximum
		if !t.NoCap && !t.Tainted {
			sup := w.Ledger.GetSupply(t.MinUnit)
			capAmt := mul(new(big.Int).SetUint64(q.MaxSupply), pow10(q.Scale))
			w.Hit("C09.cap_checks")
			if sup.Cmp(capAmt) > 0 && !t.BelowByEdit {
				w.Violate("C09", "cap/exceeded/at-commit", "after block %d the supply of %s is %s, above the queried maximum %d x 10^%d", w.Height, t.MinUnit, sup, q.MaxSupply, q.Scale)
			}
		}
	}
	for _, s := range engine.SortedKeys(m.toks) {
		if !seen[s] {
			w.Violate("C09", "registry/token-lost", "token %s/%s was issued but the module no longer lists it", s, m.toks[s].MinUnit)
		}
	}
	// the per-owner index follows the ownership
	owned := map[string][]string{}
	for _, t := range m.sortedToks() {
		owned[t.Owner] = append(owned[t.Owner], t.Symbol)
	}
	for _, a := range w.Actors {
		var have []string
		for _, ti := range k.GetTokens(ctx, a.Addr) {
			have = append(have, ti.GetSymbol())
		}
		wantS := strings.Join(owned[a.Addr.String()], ",")
		sortStrings(have)
		if gotS := strings.Join(have, ","); gotS != wantS {
			w.Violate("C09", "registry/owner-index", "tokens listed for owner %s: [%s]; by the accepted issues and transfers it owns [%s]", a.Addr, gotS, wantS)
		}
	}
	w.Hit("C09.registry_compares")
}

func sortStrings(s []string) {
	for i := 1; i < len(s); i++ {
		for j := i; j > 0 && s[j] < s[j-1]; j-- {
			s[j], s[j-1] = s[j-1], s[j]
		}
	}
}

// C09: "burned amounts are tallied exactly"
func (m *Module) checkBurnTally(w *engine.World, ctx sdk.Context) {
	resp, err := w.Node.K.Token.TotalBurn(ctx, &v1.QueryTotalBurnRequest{})
	if err != nil {
		w.Violate("C09", "burn-tally/query-failed", "total-burn query failed: %v", err)
		return
	}
	got := map[string]*big.Int{}
	for _, c := range resp.BurnedCoins {
		if got[c.Denom] != nil {
			w.Violate("C09", "burn-tally/duplicate-denom", "total-burn query lists %s twice", c.Denom)
		}
		got[c.Denom] = c.Amount.BigInt()
	}
	for _, d := range engine.SortedKeys(m.burnt) {
		w.Hit("C09.burn_tally_checks")
		if orZero(got[d]).Cmp(m.burnt[d]) != 0 {
			w.Violate("C09", "burn-tally/mismatch", "burned tally of %s is %s, the accepted burns add up to %s", d, orZero(got[d]), m.burnt[d])
			m.burnt[d] = new(big.Int).Set(orZero(got[d]))
		}
	}
	for _, d := range engine.SortedKeys(got) {
		if m.burnt[d] == nil && got[d].Sign() != 0 {
			w.Violate("C09", "burn-tally/unexplained", "burned tally lists %s%s although no burn of it was accepted", got[d], d)
			m.burnt[d] = new(big.Int).Set(got[d])
		}
	}
}

// checkEVM compares the committed simEVM ledger with the model: every accepted conversion
// moved exactly its amount, every rejected one moved nothing.
func (m *Module) checkEVM(w *engine.World, ctx sdk.Context) {
	if m.key == nil {
		return
	}
	d := dumpEVM(ctx, m.key)
	w.Hit("C10.ledger_compares")
	if m.sawRejected {
		w.Hit("C10.ledger_compares_after_rejection")
	}
	classify := func(c string) string {
		n := m.conv[c]
		switch {
		case n != nil && n.accepted:
			return "after-accepted-conversion"
		case n != nil && n.rejected:
			// C10: "a conversion that fails changes neither side"
			return "after-rejected-conversion"
		}
		return "unprovoked"
	}
	contracts := map[string]bool{}
	for c := range d.Bal {
		contracts[c] = true
	}
	for c := range m.erc {
		contracts[c] = true
	}
	for _, c := range engine.SortedKeys(contracts) {
		accts := map[string]bool{}
		for a := range d.Bal[c] {
			accts[a] = true
		}
		for a := range m.erc[c] {
			accts[a] = true
		}
		sum := new(big.Int)
		for _, a := range engine.SortedKeys(accts) {
			have, wantV := orZero(d.Bal[c][a]), orZero(m.erc[c][a])
			sum.Add(sum, have)
			if have.Cmp(wantV) != 0 {
				w.Violate("C10", "erc20-ledger/"+classify(c), "contract %s account %s holds %s; the accepted conversions give %s (block %d)", c, a, have, wantV, w.Height)
				if m.erc[c] == nil {
					m.erc[c] = map[string]*big.Int{}
				}
				m.erc[c][a] = new(big.Int).Set(have)
			}
		}
		if sum.Cmp(orZero(d.Supply[c])) != 0 {
			w.Violate("C10", "erc20-ledger/supply-sum", "contract %s: balances add up to %s, recorded total supply %s", c, sum, orZero(d.Supply[c]))
		}
	}
	// every bound contract exists in the EVM, and nothing else was deployed
	bound := map[string]string{}
	for _, t := range m.sortedToks() {
		if t.Contract != "" {
			bound[t.Contract] = t.Symbol
			if _, ok := d.Meta[t.Contract]; !ok {
				w.Violate("C10", "erc20-ledger/contract-missing", "token %s is bound to contract %s which does not exist in the EVM", t.Symbol, t.Contract)
			}
		}
	}
	for _, c := range engine.SortedKeys(d.Meta) {
		if bound[c] == "" {
			// C10: a failed deployment "changes neither side"
			w.Violate("C10", "erc20-ledger/orphan-contract", "contract %s exists in the EVM but no token is bound to it (block %d)", c, w.Height)
		}
	}
	// the module's own balances query agrees (sampled: contracts touched in this block)
	for _, c := range engine.SortedKeys(m.conv) {
		sym := bound[c]
		if sym == "" {
			continue
		}
		t := m.toks[sym]
		for _, a := range w.Actors {
			resp, err := w.Node.K.Token.Balances(ctx, &v1.QueryBalancesRequest{Address: a.Addr.String(), Denom: t.Symbol})
			if err != nil {
				w.Violate("C10", "balances-query/failed", "balances query for %s of %s failed: %v", a.Addr, t.MinUnit, err)
				break
			}
			gotE := new(big.Int)
			for _, bc := range resp.Balances {
				if strings.HasPrefix(bc.Denom, "erc20/") {
					gotE = bc.Amount.BigInt()
				}
			}
			if wantE := orZero(m.erc[c][ethOf(a.Addr)]); gotE.Cmp(wantE) != 0 {
				w.Violate("C10", "balances-query/erc20", "balances query: %s holds %s of contract %s; the accepted conversions give %s", a.Addr, gotE, c, wantE)
			}
		}
		w.Hit("C10.balances_query_compares")
	}
}

func (m *Module) Final(w *engine.World) {
	// conservation over the whole history, per converted token: native supply + ERC20 supply
	// changed only by what the non-conversion messages did. The per-transaction sheets and
	// the per-block ledger comparison already imply it; here it is stated once more on the
	// final state as a cross-check of the model itself.
	for _, t := range m.sortedToks() {
		if t.Contract == "" {
			continue
		}
		sum := new(big.Int)
		for _, a := range engine.SortedKeys(m.erc[t.Contract]) {
			sum.Add(sum, m.erc[t.Contract][a])
		}
		if sum.Sign() < 0 {
			w.Violate("C10", "erc20-ledger/negative-supply", "contract %s of %s ends with total %s", t.Contract, t.Symbol, sum)
		}
	}
}
