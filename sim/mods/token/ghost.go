package tokenmod

import (
	"math/big"
	"strconv"

	v1 "mods.irisnet.org/modules/token/types/v1"

	"verif/sim/engine"
)

// Ghost probing. A "ghost" is the (symbol, min unit) pair of an issue attempt that executed
// or may have executed but did NOT commit: rejected, out of gas, rolled back because a later
// message of the same transaction failed. By the model (accepted transactions only) such
// identifiers identify nothing, so
//
//	C09: "A token's symbol and minimum unit each identify at most one token forever."
//
// implies that no operation naming them may be accepted until an accepted issue declares
// them, and that no coins of an undeclared min unit exist. Anything the module remembers
// outside the transaction's store (process memory that is not rolled back) shows up here.
//
// Soundness on sub-schedules: "ghost" only steers the generator and the probes. The oracle
// itself asks the model: an accepted operation on an identifier no accepted issue of THIS
// execution declared is a violation, whether or not a ghost was recorded for it.

type ghost struct {
	Symbol, MinUnit string
	Owner           int // the would-be owner (actor index)
	Cause           string
}

func altMinUnit(symbol string) string {
	s := "w" + symbol
	if len(s) > 64 {
		s = s[:64]
	}
	return s
}

func altSymbol(minUnit string) string {
	s := "g" + minUnit
	if len(s) > 64 {
		s = s[:64]
	}
	return s
}

// noteGhost records the identifiers of an issue attempt that did not commit.
func (m *Module) noteGhost(w *engine.World, tx *engine.TxRecord, op *engine.Op) {
	var a issueArgs
	op.Decode(&a)
	if t := m.toks[a.Symbol]; t != nil && t.MinUnit == a.MinUnit {
		return // a plain re-issue of an existing token: nothing ghostly
	}
	cause := "rejection"
	switch {
	case len(tx.Plan.Ops) > 1 && tx.Plan.Ops[len(tx.Plan.Ops)-1] != op:
		cause = "failtail" // a later message of the same transaction was there to fail
	case tx.Infra:
		cause = "out_of_gas"
	}
	w.Hit("token.ghost_created_by_" + cause)
	for _, g := range m.ghosts {
		if g.Symbol == a.Symbol && g.MinUnit == a.MinUnit {
			return
		}
	}
	m.ghosts = append(m.ghosts, ghost{Symbol: a.Symbol, MinUnit: a.MinUnit, Owner: op.Actor, Cause: cause})
	m.ghostMin[a.MinUnit] = true
	m.ghostSym[a.Symbol] = true
}

// ghostAttempt counts executed-and-failed operations that named an undeclared identifier.
func (m *Module) ghostAttempt(w *engine.World, op *engine.Op) {
	var denom, symbol string
	switch op.Kind {
	case "mint":
		var a mintArgs
		op.Decode(&a)
		denom, symbol = a.Denom, a.Symbol
	case "burn":
		var a burnArgs
		op.Decode(&a)
		denom, symbol = a.Denom, a.Symbol
	case "to_erc20":
		var a toErcArgs
		op.Decode(&a)
		denom = a.Denom
	case "feeswap":
		var a feeSwapArgs
		op.Decode(&a)
		denom = a.Denom
	case "send":
		var a sendArgs
		op.Decode(&a)
		denom = a.Denom
	case "edit":
		var a editArgs
		op.Decode(&a)
		symbol = a.Symbol
	case "transfer":
		var a transferArgs
		op.Decode(&a)
		symbol = a.Symbol
	default:
		return
	}
	if denom != "" && m.byMin[denom] == nil && m.ghostMin[denom] {
		w.Hit("token.ghost_op_attempted")
		w.Hit("token.ghost_op_attempted." + op.Kind)
		for _, g := range m.ghosts {
			if g.MinUnit == denom && m.toks[g.Symbol] != nil {
				// the ghost's symbol meanwhile names a real token with another min unit
				w.Hit("token.ghost_min_unit_op_after_symbol_taken")
				break
			}
		}
	}
	if symbol != "" && m.toks[symbol] == nil && m.ghostSym[symbol] {
		w.Hit("token.ghost_op_attempted")
		w.Hit("token.ghost_op_attempted." + op.Kind)
	}
}

// ghostAccepted is the oracle: an accepted operation named an identifier that no accepted
// issue declared.
func (m *Module) ghostAccepted(w *engine.World, kind, what, id string, signer string) {
	note := ""
	for _, g := range m.ghosts {
		if (what == "min unit" && g.MinUnit == id) || (what == "symbol" && g.Symbol == id) {
			note = " (named by an issue attempt of symbol " + g.Symbol + " / min unit " + g.MinUnit + " that did not commit: " + g.Cause
			if t := m.toks[g.Symbol]; t != nil {
				note += "; symbol " + g.Symbol + " now names the token with min unit " + t.MinUnit + " owned by " + t.Owner
			}
			note += ")"
			break
		}
	}
	w.Violate("C09", "identity/ghost-operation-accepted/"+kind, "%s signed by %s naming %s %s was accepted although no accepted issue declares that %s%s", kind, signer, what, id, what, note)
}

// checkGhostSupply: coins of a min unit no token declares must not exist.
func (m *Module) checkGhostSupply(w *engine.World) {
	for _, d := range engine.SortedKeys(m.ghostMin) {
		if m.byMin[d] != nil || m.phantomDenom[d] {
			continue // declared, or paid out by a fee swap that was reported under its own C10 key
		}
		w.Hit("C09.ghost_supply_checks")
		if s := w.Ledger.GetSupply(d); s.Sign() != 0 {
			w.Violate("C09", "identity/supply-of-undeclared-denom", "after block %d %s%s exist although no token declares min unit %s", w.Height, s, d, d)
		}
	}
}

// genGhostMaker plans an issue that executes and is rolled back by a failing second message,
// followed - in the next blocks - by a real issue of the same symbol under another min unit
// (or of the same min unit under another symbol) and operations naming the ghost.
func (m *Module) genGhostMaker(w *engine.World, r *engine.Rand) *engine.TxPlan {
	nAct := len(w.Actors) - 1
	if r.Bool(0.5) {
		if tp := m.genPayoutGhost(w, r); tp != nil {
			return tp
		}
	}
	var free []poolTok
	for _, p := range m.cfg.Pool {
		if m.toks[p.Symbol] == nil && m.byMin[p.MinUnit] == nil && m.toks[altSymbol(p.MinUnit)] == nil && m.byMin[altMinUnit(p.Symbol)] == nil {
			free = append(free, p)
		}
	}
	if len(free) == 0 {
		return nil
	}
	p := free[r.Intn(len(free))]
	actor := r.Intn(nAct)
	init := uint64(1 + r.Intn(1000))
	issue := func(sym, mu string) *engine.Op {
		return engine.NewOp(Name, "issue", actor, issueArgs{Symbol: sym, MinUnit: mu, Name: "token " + sym[:3], Scale: p.Scale,
			Initial: strconv.FormatUint(init, 10), Max: strconv.FormatUint(init*1000, 10), Mintable: true})
	}
	at := w.Height + 2 + int64(r.Intn(2))
	first := &engine.TxPlan{Ops: []*engine.Op{issue(p.Symbol, p.MinUnit),
		// deliberately failing tail: burns more stake than exists
		engine.NewOp(Name, "burn", actor, burnArgs{Denom: stake, Amount: new(big.Int).Lsh(big.NewInt(1), 140).String()})}}
	first.At, first.NoOOG = at, true
	plan := func(op *engine.Op, dh int64) {
		tp := engine.Tx1(op)
		tp.At, tp.NoOOG = at+dh, true
		m.planned = append(m.planned, tp)
	}
	who := func() int {
		switch r.Intn(4) {
		case 0:
			return r.Intn(nAct) // a stranger
		default:
			return actor
		}
	}
	amt := func() string { return big.NewInt(1 + r.Int63n(1000)).String() }
	if r.Bool(0.7) {
		// the symbol is really issued, under another min unit; the ghost min unit is then probed
		plan(issue(p.Symbol, altMinUnit(p.Symbol)), 1)
		plan(engine.NewOp(Name, "mint", who(), mintArgs{Denom: p.MinUnit, Amount: amt()}), 2)
		if r.Bool(0.6) {
			plan(engine.NewOp(Name, "burn", actor, burnArgs{Denom: p.MinUnit, Amount: "1"}), 3)
		}
		if r.Bool(0.4) {
			plan(engine.NewOp(Name, "to_erc20", actor, toErcArgs{Denom: p.MinUnit, Amount: "1", Receiver: ethOf(w.A(actor).Addr)}), 3)
		}
		if _, ok := m.pairs[p.MinUnit]; ok {
			plan(engine.NewOp(Name, "feeswap", actor, feeSwapArgs{Denom: p.MinUnit, Amount: "1"}), 3)
		}
	} else {
		// the min unit is really issued, under another symbol; the ghost symbol is then probed
		plan(issue(altSymbol(p.MinUnit), p.MinUnit), 1)
		plan(engine.NewOp(Name, "edit", who(), editArgs{Symbol: p.Symbol, Name: v1.DoNotModify, Max: "0", Mintable: "true"}), 2)
		plan(engine.NewOp(Name, "transfer", who(), transferArgs{Symbol: p.Symbol, To: w.A(actor + 1).Addr.String()}), 2)
	}
	w.Hit("token.ghost_maker_planned")
	return first
}

// genGhostOp proposes an operation around a recorded ghost (whatever made it: the engine's
// failing tail, an injected gas limit, a plain rejection).
func (m *Module) genGhostOp(w *engine.World, r *engine.Rand, forced int) *engine.Op {
	if len(m.ghosts) == 0 {
		return nil
	}
	nAct := len(w.Actors) - 1
	// recent ghosts first: whatever was left behind is most likely still there
	g := m.ghosts[len(m.ghosts)-1-r.Intn(minInt(len(m.ghosts), 3))]
	if r.Bool(0.3) {
		g = m.ghosts[r.Intn(len(m.ghosts))]
	}
	if r.Bool(0.7) {
		// prefer attempts that certainly reached the handler and were rolled back
		var strong []ghost
		for _, x := range m.ghosts {
			if x.Cause != "rejection" {
				strong = append(strong, x)
			}
		}
		if len(strong) > 0 {
			g = strong[len(strong)-1-r.Intn(minInt(len(strong), 4))]
		}
	}
	symTok, minTok := m.toks[g.Symbol], m.byMin[g.MinUnit]
	pick := func(def int) int {
		if forced >= 0 {
			return forced
		}
		return def
	}
	signer := func(t *tok) int {
		switch r.Intn(5) {
		case 0:
			return r.Intn(nAct)
		case 1:
			return g.Owner
		}
		if t != nil {
			if a := w.ActorOf(t.Owner); a != nil && a.Idx < nAct {
				return a.Idx
			}
		}
		return g.Owner
	}
	scale := uint32(6)
	for _, p := range m.cfg.Pool {
		if p.Symbol == g.Symbol || p.MinUnit == g.MinUnit {
			scale = p.Scale
		}
	}
	issue := func(actor int, sym, mu string) *engine.Op {
		return engine.NewOp(Name, "issue", actor, issueArgs{Symbol: sym, MinUnit: mu, Name: "token " + sym[:3], Scale: scale,
			Initial: "1000", Max: "1000000", Mintable: true})
	}
	amt := big.NewInt(1 + r.Int63n(1000)).String()
	switch {
	case symTok == nil && minTok == nil:
		actor := pick(g.Owner)
		if r.Bool(0.25) {
			actor = pick(r.Intn(nAct))
		}
		switch r.Intn(6) {
		case 0, 1, 2:
			return issue(actor, g.Symbol, altMinUnit(g.Symbol))
		case 3:
			return issue(actor, altSymbol(g.MinUnit), g.MinUnit)
		case 4:
			return engine.NewOp(Name, "mint", actor, mintArgs{Denom: g.MinUnit, Amount: amt})
		default:
			return engine.NewOp(Name, "edit", actor, editArgs{Symbol: g.Symbol, Name: v1.DoNotModify, Max: "0", Mintable: "true"})
		}
	case symTok != nil && minTok == nil:
		// the symbol names a real token with another min unit: the ghost min unit must stay dead
		actor := pick(signer(symTok))
		holderAct := actor
		for i := 0; i < nAct; i++ {
			if w.Bal(w.A(i).Addr.String(), g.MinUnit).Sign() > 0 {
				holderAct = pick(i)
				break
			}
		}
		switch r.Intn(7) {
		case 0, 1, 2:
			return engine.NewOp(Name, "mint", actor, mintArgs{Denom: g.MinUnit, Amount: amt})
		case 3:
			return engine.NewOp(Name, "burn", holderAct, burnArgs{Denom: g.MinUnit, Amount: "1"})
		case 4:
			return engine.NewOp(Name, "to_erc20", holderAct, toErcArgs{Denom: g.MinUnit, Amount: "1", Receiver: ethOf(w.A(holderAct).Addr)})
		case 5:
			return engine.NewOp(Name, "feeswap", holderAct, feeSwapArgs{Denom: g.MinUnit, Amount: "1"})
		default:
			return issue(actor, altSymbol(g.MinUnit), g.MinUnit) // legitimate: the min unit is free
		}
	case symTok == nil && minTok != nil:
		// the min unit belongs to a real token with another symbol: the ghost symbol must stay dead
		actor := pick(signer(minTok))
		switch r.Intn(3) {
		case 0:
			return engine.NewOp(Name, "edit", actor, editArgs{Symbol: g.Symbol, Name: v1.DoNotModify, Max: "0", Mintable: "false"})
		case 1:
			return engine.NewOp(Name, "transfer", actor, transferArgs{Symbol: g.Symbol, To: w.A(actor + 1).Addr.String()})
		default:
			return issue(actor, g.Symbol, altMinUnit(g.Symbol)) // legitimate: the symbol is free
		}
	}
	return nil
}

func minInt(a, b int) int {
	if a < b {
		return a
	}
	return b
}

// genPayoutGhost aims at the pay-out token of a configured fee-token swap that is not issued
// yet: one doomed transaction issues it with ANOTHER scale, swaps into it and fails; then the
// token is really issued with the pool's scale and swaps follow. Whatever the module
// remembered of the discarded token (its scale, its existence) shows in those swaps.
func (m *Module) genPayoutGhost(w *engine.World, r *engine.Rand) *engine.TxPlan {
	nAct := len(w.Actors) - 1
	type cand struct {
		pair pairCfg
		out  poolTok
	}
	var cands []cand
	for _, pr := range m.cfg.Pairs {
		if m.byMin[pr.In] == nil || m.byMin[pr.Out] != nil {
			continue
		}
		for _, p := range m.cfg.Pool {
			if p.MinUnit == pr.Out && m.toks[p.Symbol] == nil {
				cands = append(cands, cand{pr, p})
			}
		}
	}
	if len(cands) == 0 {
		return nil
	}
	c := cands[r.Intn(len(cands))]
	actor := m.holder(w, r, c.pair.In)
	if w.Bal(w.A(actor).Addr.String(), c.pair.In).Sign() == 0 {
		return nil
	}
	other := (c.out.Scale + 1 + uint32(r.Intn(maxScale))) % (maxScale + 1)
	issue := func(scale uint32) *engine.Op {
		return engine.NewOp(Name, "issue", actor, issueArgs{Symbol: c.out.Symbol, MinUnit: c.out.MinUnit, Name: "token " + c.out.Symbol[:3],
			Scale: scale, Initial: "1000", Max: strconv.FormatUint(maxU64, 10), Mintable: true})
	}
	swap := func(who int) *engine.Op {
		have := w.Bal(w.A(who).Addr.String(), c.pair.In)
		amt := m.amountNear(r, new(big.Int).Rsh(have, uint(20+r.Intn(40))), m.byMin[c.pair.In].Scale)
		return engine.NewOp(Name, "feeswap", who, feeSwapArgs{Denom: c.pair.In, Amount: amt.String()})
	}
	at := w.Height + 2 + int64(r.Intn(2))
	first := &engine.TxPlan{Ops: []*engine.Op{issue(other), swap(actor),
		engine.NewOp(Name, "burn", actor, burnArgs{Denom: stake, Amount: new(big.Int).Lsh(big.NewInt(1), 140).String()})}}
	first.At, first.NoOOG = at, true
	plan := func(op *engine.Op, dh int64) {
		tp := engine.Tx1(op)
		tp.At, tp.NoOOG = at+dh, true
		m.planned = append(m.planned, tp)
	}
	if r.Bool(0.3) {
		plan(swap(actor), 1) // before the token exists: must fail
	}
	plan(issue(c.out.Scale), 1+int64(r.Intn(2)))
	for i, k := 0, 1+r.Intn(3); i < k; i++ {
		who := actor
		if r.Bool(0.4) {
			who = m.holder(w, r, c.pair.In)
		}
		plan(swap(who), 3+int64(i))
	}
	_ = nAct
	w.Hit("token.ghost_payout_planned")
	return first
}
