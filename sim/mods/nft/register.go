package nft

import "verif/sim/engine"

// Register installs the nft profile and the property it decides.
func Register() {
	engine.RegisterProfile(&engine.Profile{
		Name: "nft",
		Mods: func() []engine.Module { return []engine.Module{New()} },
		Tune: func(c *engine.EngineConfig, r *engine.Rand) {
			c.OpsPerBlock = 1.5 + 5*r.Float()
		},
	})
	engine.RegisterProperty(&engine.Property{
		ID: "C14", Profile: "nft",
		NonTrivial: func(c map[string]int64) bool {
			strangers := c["nft.stranger_transfer_rejected"] + c["nft.stranger_edit_rejected"] + c["nft.stranger_burn_rejected"] +
				c["nft.restricted_mint_by_stranger_rejected"] + c["nft.handover_by_stranger_rejected"]
			return c["C14.verdict_checks"] > 10 && c["C14.supply_checks"] > 0 && c["nft.minted"] > 1 && strangers > 0
		},
		Probes: []string{"C14.verdict_checks", "C14.query_checks", "C14.supply_checks",
			"nft.class_flags_false_false", "nft.class_flags_false_true", "nft.class_flags_true_false", "nft.class_flags_true_true",
			"nft.stranger_transfer_rejected", "nft.stranger_edit_rejected", "nft.stranger_burn_rejected",
			"nft.creator_not_owner_rejected", "nft.former_owner_rejected",
			"nft.restricted_mint_by_stranger_rejected", "nft.open_mint_by_non_creator", "nft.mint_to_other",
			"nft.mint_of_existing_id_rejected", "nft.issue_of_existing_class_rejected", "nft.remint_after_burn",
			"nft.update_restricted_change_rejected", "nft.transfer_to_self", "nft.transfer_with_change",
			"nft.transfer_all_keep", "nft.transfer_partial_keep", "nft.edit_all_keep",
			"nft.handover", "nft.handover_by_stranger_rejected", "nft.mint_by_former_creator_rejected", "nft.mint_by_new_creator"},
		Rule: "a run is non-trivial when more than ten messages had their outcome compared with the reference model's verdict, at least one of them an attempt by a non-entitled party that was refused, more than one token was minted, and the class supply / collection / owner queries were compared with the model at least once; distinct = different fingerprint of the executed (operation kind, outcome class) sequence",
	})
}
