// Package nft is the NFT workload and the oracle of C14 (one owner per token; only owners
// and class creators can act; restriction flags; ids stable; supply = |tokens| = Σ balances).
package nft

import (
	"encoding/json"
	"fmt"
	"sort"
	"strings"

	sdk "github.com/cosmos/cosmos-sdk/types"
	"github.com/cosmos/cosmos-sdk/types/query"

	nfttypes "mods.irisnet.org/modules/nft/types"
	"mods.irisnet.org/simapp"

	"verif/sim/engine"
)

const (
	Name = "nft"
	Prop = "C14"
	// keep is the value of a metadata field of edit / transfer that means "leave this field
	// as it is" (the property's "do-not-modify sentinel"; part of the message format).
	keep = "[do-not-modify]"
)

// Config is the per-run swarm configuration.
type Config struct {
	Classes   []ClassCfg `json:"classes"`
	TokenIDs  []string   `json:"token_ids"` // pool shared by all classes (same id in several classes)
	PRightful float64    `json:"p_rightful"`
	PKeep     float64    `json:"p_keep_field"`
	PAllKeep  float64    `json:"p_all_keep"`
	PSelf     float64    `json:"p_self"`
	PFresh    float64    `json:"p_fresh_recipient"`
	PUnknown  float64    `json:"p_unknown_object"`
	Weights   []int      `json:"weights"` // mint, edit, transfer, burn, handover, re-issue
	// Bulk: the chain starts with one class in which one party already holds about a hundred
	// tokens (a long history behind the chain): counts beyond what one page of a listing holds
	Bulk *BulkCfg `json:"bulk,omitempty"`
}

type BulkCfg struct {
	Class  ClassCfg `json:"class"`
	Holder int      `json:"holder"`
	N      int      `json:"n"`
}

type ClassCfg struct {
	ID     string `json:"id"`
	MintR  bool   `json:"mint_restricted"`
	UpdR   bool   `json:"update_restricted"`
	Issuer int    `json:"issuer"`
}

// ---- reference model -------------------------------------------------------------------

type meta struct{ Name, URI, Hash, Data string }

type token struct {
	Owner string
	Prev  string // the owner before the last change of hands ("" = none)
	M     meta
}

type class struct {
	ID      string
	Creator string
	MintR   bool
	UpdR    bool
	Prev    []string // former creators, oldest first
	Tokens  map[string]*token
	Burned  map[string]bool // ids that existed once and were burned (probe only)
}

// Module implements engine.Module.
type Module struct {
	engine.Base
	cfg     Config
	classes map[string]*class
	holders map[string]bool // every address that ever was sender or recipient of an accepted message
	fresh   []string
}

func New() *Module {
	return &Module{classes: map[string]*class{}, holders: map[string]bool{}}
}

func (m *Module) Name() string { return Name }

func freshAddr(i int) string {
	return sdk.AccAddress([]byte(fmt.Sprintf("nft-fresh-holder-%03d", i))).String()
}

func (m *Module) Configure(w *engine.World, r *engine.Rand) any {
	nAct := len(w.Actors) - 1
	// class ids: some share prefixes with each other and contain the separator the id
	// syntax allows
	idPool := []string{"cls", "clsa", "cls/a", "clsA", "art", "arts", "game0", "x01", "cls/a/b"}
	p := r.Perm(len(idPool))
	n := 4 + r.Intn(3)
	combos := r.Perm(4)
	c := Config{}
	for i := 0; i < n; i++ {
		cc := ClassCfg{ID: idPool[p[i]], Issuer: r.Intn(nAct)}
		if i < 4 {
			cc.MintR, cc.UpdR = combos[i]&1 != 0, combos[i]&2 != 0
		} else {
			cc.MintR, cc.UpdR = r.Bool(0.5), r.Bool(0.5)
		}
		c.Classes = append(c.Classes, cc)
	}
	tokPool := []string{"tok", "toka", "tok/a", "tokA", "tok/a/b", "nft0", "nft1", "nft2", "zzz", "a00", "a01", "a02", "a03", "a04", "a05", "a06"}
	tp := r.Perm(len(tokPool))
	nt := 3 + r.Intn(len(tokPool)-2)
	for i := 0; i < nt; i++ {
		c.TokenIDs = append(c.TokenIDs, tokPool[tp[i]])
	}
	sort.Strings(c.TokenIDs)
	c.PRightful = 0.45 + 0.45*r.Float()
	c.PKeep = r.Float()
	c.PAllKeep = 0.5 * r.Float()
	c.PSelf = 0.3 * r.Float()
	c.PFresh = 0.15 * r.Float()
	c.PUnknown = 0.1 * r.Float()
	c.Weights = []int{3 + r.Intn(6), 1 + r.Intn(5), 2 + r.Intn(6), 1 + r.Intn(3), r.Intn(3), r.Intn(2)}
	if r.Bool(0.7) && c.Weights[4] == 0 {
		c.Weights[4] = 1
	}
	if w.Focus == Prop {
		// (a stream of its own: a seed's run is otherwise what it was before this arm existed)
		br := engine.NewRand(engine.Mix(w.Sched.Seed, "nft-bulk", 0))
		if br.Bool(0.12) {
			c.Bulk = &BulkCfg{Class: ClassCfg{ID: "bulk", MintR: br.Bool(0.5), UpdR: br.Bool(0.5), Issuer: br.Intn(nAct)},
				Holder: br.Intn(nAct), N: 97 + br.Intn(8)}
		}
	}
	return c
}

func bulkTokenID(i int) string { return fmt.Sprintf("g%03d", i) }

// Genesis puts the bulk class into the chain's genesis and into the model.
func (m *Module) Genesis(w *engine.World, n *engine.Node, gs simapp.GenesisState) {
	b := m.cfg.Bulk
	if b == nil {
		return
	}
	cdc := n.App.AppCodec()
	var g nfttypes.GenesisState
	cdc.MustUnmarshalJSON(gs[nfttypes.ModuleName], &g)
	creator, holder := w.A(b.Class.Issuer).Addr.String(), w.A(b.Holder).Addr.String()
	col := nfttypes.Collection{Denom: nfttypes.Denom{Id: b.Class.ID, Name: "bulk", Schema: "", Creator: creator, Symbol: "bulk",
		MintRestricted: b.Class.MintR, UpdateRestricted: b.Class.UpdR}}
	first := m.classes[b.Class.ID] == nil
	var c *class
	if first {
		c = &class{ID: b.Class.ID, Creator: creator, MintR: b.Class.MintR, UpdR: b.Class.UpdR, Tokens: map[string]*token{}, Burned: map[string]bool{}}
		m.classes[b.Class.ID] = c
	}
	for i := 0; i < b.N; i++ {
		mt := meta{Name: names[i%len(names)], URI: uris[i%len(uris)], Hash: hashs[i%len(hashs)], Data: datas[i%len(datas)]}
		col.NFTs = append(col.NFTs, nfttypes.BaseNFT{Id: bulkTokenID(i), Name: mt.Name, URI: mt.URI, UriHash: mt.Hash, Data: mt.Data, Owner: holder})
		if first {
			c.Tokens[bulkTokenID(i)] = &token{Owner: holder, M: mt}
		}
	}
	g.Collections = append(g.Collections, col)
	if err := nfttypes.ValidateGenesis(g); err != nil {
		engine.Fatal("nft: generated invalid genesis: %v", err)
	}
	gs[nfttypes.ModuleName] = cdc.MustMarshalJSON(&g)
	w.Hit("nft.genesis_bulk_class")
}

func (m *Module) LoadConfig(w *engine.World, raw json.RawMessage) {
	if err := json.Unmarshal(raw, &m.cfg); err != nil {
		engine.Fatal("nft config: %v", err)
	}
	if nfttypes.DoNotModify != keep {
		engine.Fatal("nft: the message format's keep-value is %q, the harness assumes %q", nfttypes.DoNotModify, keep)
	}
	for len(m.cfg.Weights) < 6 {
		m.cfg.Weights = append(m.cfg.Weights, 1)
	}
	m.fresh = []string{freshAddr(0), freshAddr(1), freshAddr(2)}
}

// Started: every party that can ever act or receive is a potential holder from the start.
func (m *Module) Started(w *engine.World) {
	for _, a := range w.Actors {
		m.holders[a.Addr.String()] = true
	}
	for _, f := range m.fresh {
		m.holders[f] = true
	}
}

// ---- operations ------------------------------------------------------------------------

type issueArgs struct {
	ID     string `json:"id"`
	Name   string `json:"name"`
	Schema string `json:"schema"`
	Symbol string `json:"symbol"`
	MintR  bool   `json:"mint_restricted"`
	UpdR   bool   `json:"update_restricted"`
	Descr  string `json:"description"`
	URI    string `json:"uri"`
	Hash   string `json:"uri_hash"`
	Data   string `json:"data"`
}

// tokArgs serves mint, edit, transfer and burn (unused fields stay empty).
type tokArgs struct {
	Class     string `json:"class"`
	ID        string `json:"id"`
	Name      string `json:"name,omitempty"`
	URI       string `json:"uri,omitempty"`
	Hash      string `json:"uri_hash,omitempty"`
	Data      string `json:"data,omitempty"`
	Recipient string `json:"recipient,omitempty"`
}

type handArgs struct {
	Class     string `json:"class"`
	Recipient string `json:"recipient"`
}

var (
	names = []string{"", "n1", "n2", "n3", "a name with spaces"}
	uris  = []string{"", "u1", "u2", "ipfs://Qm/3"}
	hashs = []string{"", "h1", "h2"}
	datas = []string{"", `{"k":1}`, `{"k":2}`, `"s"`, `[1,2]`, `{"nested":{"a":[1,2,3]}}`}
)

func pick(r *engine.Rand, from []string) string { return from[r.Intn(len(from))] }

// field draws a value for one metadata field of edit / transfer.
func (m *Module) field(r *engine.Rand, from []string, cur string, has bool) string {
	switch {
	case r.Bool(m.cfg.PKeep):
		return keep
	case has && r.Bool(0.15):
		return cur // stated explicitly, equal to what is stored
	default:
		return pick(r, from)
	}
}

func (m *Module) sortedClasses() []*class {
	var out []*class
	for _, id := range engine.SortedKeys(m.classes) {
		out = append(out, m.classes[id])
	}
	return out
}

func (m *Module) otherActor(w *engine.World, r *engine.Rand, not string) int {
	nAct := len(w.Actors) - 1
	for i := 0; i < 8; i++ {
		a := r.Intn(nAct)
		if w.A(a).Addr.String() != not {
			return a
		}
	}
	return r.Intn(nAct)
}

func (m *Module) recipient(w *engine.World, r *engine.Rand, sender int) string {
	nAct := len(w.Actors) - 1
	switch {
	case r.Bool(m.cfg.PSelf):
		return w.A(sender).Addr.String()
	case r.Bool(m.cfg.PFresh):
		return m.fresh[r.Intn(len(m.fresh))]
	default:
		return w.A(r.Intn(nAct)).Addr.String()
	}
}

func (m *Module) actorIdx(w *engine.World, addr string) (int, bool) {
	if a := w.ActorOf(addr); a != nil && a.Idx != w.Governor().Idx {
		return a.Idx, true
	}
	return 0, false
}

func (m *Module) Gen(w *engine.World, r *engine.Rand) *engine.TxPlan {
	nAct := len(w.Actors) - 1
	// classes not yet issued
	var missing []ClassCfg
	for _, cc := range m.cfg.Classes {
		if m.classes[cc.ID] == nil {
			missing = append(missing, cc)
		}
	}
	if len(missing) > 0 && (len(m.classes) == 0 || r.Bool(0.35)) {
		cc := missing[r.Intn(len(missing))]
		actor := cc.Issuer
		if r.Bool(0.15) {
			actor = r.Intn(nAct)
		}
		return engine.Tx1(engine.NewOp(Name, "issue", actor, m.issueOf(r, cc.ID, cc.MintR, cc.UpdR)))
	}
	if len(m.classes) == 0 {
		return nil
	}
	cls := m.sortedClasses()
	c := cls[r.Intn(len(cls))]
	classID := c.ID
	unknownClass := false
	if r.Bool(m.cfg.PUnknown) {
		// a class the chain has not seen (or not yet)
		unknownClass = true
		classID = "ghost"
		if len(missing) > 0 {
			classID = missing[0].ID
		}
	}
	existing := engine.SortedKeys(c.Tokens)
	someToken := func() (string, *token) {
		if len(existing) > 0 && !r.Bool(0.12) {
			id := existing[r.Intn(len(existing))]
			return id, c.Tokens[id]
		}
		id := pick(r, m.cfg.TokenIDs)
		return id, c.Tokens[id]
	}
	// the sender of an owner-only operation: the owner, or somebody who is not
	ownerOrNot := func(t *token) int {
		if t != nil {
			if r.Bool(m.cfg.PRightful) {
				if a, ok := m.actorIdx(w, t.Owner); ok {
					return a
				}
			}
			switch r.Intn(4) {
			case 0: // the previous owner
				if a, ok := m.actorIdx(w, t.Prev); ok && t.Prev != t.Owner {
					return a
				}
			case 1: // the class creator
				if a, ok := m.actorIdx(w, c.Creator); ok {
					return a
				}
			}
		}
		return r.Intn(nAct)
	}
	switch r.Weighted(m.cfg.Weights) {
	case 0: // mint
		var id string
		switch {
		case len(existing) > 0 && r.Bool(0.12):
			id = existing[r.Intn(len(existing))] // id in use
		case len(c.Burned) > 0 && r.Bool(0.4):
			b := engine.SortedKeys(c.Burned)
			id = b[r.Intn(len(b))] // an id that was burned before
		default:
			id = pick(r, m.cfg.TokenIDs)
		}
		actor := r.Intn(nAct)
		if a, ok := m.actorIdx(w, c.Creator); ok && r.Bool(m.cfg.PRightful) {
			actor = a
		} else if len(c.Prev) > 0 && r.Bool(0.5) {
			if a, ok := m.actorIdx(w, c.Prev[r.Intn(len(c.Prev))]); ok {
				actor = a
			}
		}
		a := tokArgs{Class: classID, ID: id, Name: pick(r, names), URI: pick(r, uris), Hash: pick(r, hashs),
			Data: pick(r, datas), Recipient: m.recipient(w, r, actor)}
		if r.Bool(0.03) {
			a.Name = keep // on mint the value has no special meaning: it is stored as it is
		}
		return engine.Tx1(engine.NewOp(Name, "mint", actor, a))
	case 1: // edit
		id, t := someToken()
		a := tokArgs{Class: classID, ID: id}
		cur := meta{}
		if t != nil {
			cur = t.M
		}
		a.Name, a.URI = m.field(r, names, cur.Name, t != nil), m.field(r, uris, cur.URI, t != nil)
		a.Hash, a.Data = m.field(r, hashs, cur.Hash, t != nil), m.field(r, datas, cur.Data, t != nil)
		if r.Bool(m.cfg.PAllKeep / 2) {
			a.Name, a.URI, a.Hash, a.Data = keep, keep, keep, keep
		}
		return engine.Tx1(engine.NewOp(Name, "edit", ownerOrNot(t), a))
	case 2: // transfer
		id, t := someToken()
		actor := ownerOrNot(t)
		a := tokArgs{Class: classID, ID: id, Recipient: m.recipient(w, r, actor)}
		cur := meta{}
		if t != nil {
			cur = t.M
		}
		if r.Bool(m.cfg.PAllKeep) || (c.UpdR && !unknownClass && r.Bool(0.5)) {
			a.Name, a.URI, a.Hash, a.Data = keep, keep, keep, keep
		} else {
			a.Name, a.URI = m.field(r, names, cur.Name, t != nil), m.field(r, uris, cur.URI, t != nil)
			a.Hash, a.Data = m.field(r, hashs, cur.Hash, t != nil), m.field(r, datas, cur.Data, t != nil)
		}
		return engine.Tx1(engine.NewOp(Name, "transfer", actor, a))
	case 3: // burn
		id, t := someToken()
		return engine.Tx1(engine.NewOp(Name, "burn", ownerOrNot(t), tokArgs{Class: classID, ID: id}))
	case 4: // class handover
		actor := r.Intn(nAct)
		if a, ok := m.actorIdx(w, c.Creator); ok && r.Bool(m.cfg.PRightful) {
			actor = a
		} else if len(c.Prev) > 0 && r.Bool(0.5) {
			if a, ok := m.actorIdx(w, c.Prev[len(c.Prev)-1]); ok {
				actor = a
			}
		}
		to := w.A(m.otherActor(w, r, w.A(actor).Addr.String())).Addr.String()
		if r.Bool(0.1) {
			to = w.A(actor).Addr.String()
		}
		return engine.Tx1(engine.NewOp(Name, "handover", actor, handArgs{Class: classID, Recipient: to}))
	default: // issue a class id that is in use, with other flags, by anybody
		return engine.Tx1(engine.NewOp(Name, "issue", r.Intn(nAct), m.issueOf(r, c.ID, r.Bool(0.5), r.Bool(0.5))))
	}
}

func (m *Module) issueOf(r *engine.Rand, id string, mintR, updR bool) issueArgs {
	return issueArgs{ID: id, Name: pick(r, names), Schema: pick(r, []string{"", "{}", "schema"}), Symbol: pick(r, []string{"", "SYM"}),
		MintR: mintR, UpdR: updR, Descr: pick(r, []string{"", "descr"}), URI: pick(r, uris), Hash: pick(r, hashs), Data: pick(r, datas)}
}

func (m *Module) Build(w *engine.World, op *engine.Op) (sdk.Msg, error) {
	sender := w.A(op.Actor).Addr.String()
	switch op.Kind {
	case "issue":
		var a issueArgs
		op.Decode(&a)
		return &nfttypes.MsgIssueDenom{Id: a.ID, Name: a.Name, Schema: a.Schema, Sender: sender, Symbol: a.Symbol,
			MintRestricted: a.MintR, UpdateRestricted: a.UpdR, Description: a.Descr, Uri: a.URI, UriHash: a.Hash, Data: a.Data}, nil
	case "mint":
		var a tokArgs
		op.Decode(&a)
		return &nfttypes.MsgMintNFT{Id: a.ID, DenomId: a.Class, Name: a.Name, URI: a.URI, UriHash: a.Hash, Data: a.Data,
			Sender: sender, Recipient: a.Recipient}, nil
	case "edit":
		var a tokArgs
		op.Decode(&a)
		return &nfttypes.MsgEditNFT{Id: a.ID, DenomId: a.Class, Name: a.Name, URI: a.URI, UriHash: a.Hash, Data: a.Data, Sender: sender}, nil
	case "transfer":
		var a tokArgs
		op.Decode(&a)
		return &nfttypes.MsgTransferNFT{Id: a.ID, DenomId: a.Class, Name: a.Name, URI: a.URI, UriHash: a.Hash, Data: a.Data,
			Sender: sender, Recipient: a.Recipient}, nil
	case "burn":
		var a tokArgs
		op.Decode(&a)
		return &nfttypes.MsgBurnNFT{Id: a.ID, DenomId: a.Class, Sender: sender}, nil
	case "handover":
		var a handArgs
		op.Decode(&a)
		return &nfttypes.MsgTransferDenom{Id: a.Class, Sender: sender, Recipient: a.Recipient}, nil
	}
	return nil, fmt.Errorf("unknown op %s", op.Kind)
}

// ---- oracle: verdicts ------------------------------------------------------------------

type verdict int

const (
	either     verdict = iota // the property does not say
	mustAccept                // a rightful operation on existing objects
	mustReject                // the property forbids it
)

func applyKeep(cur, req string) string {
	if req == keep {
		return cur
	}
	return req
}

func (a tokArgs) requested(cur meta) meta {
	return meta{Name: applyKeep(cur.Name, a.Name), URI: applyKeep(cur.URI, a.URI), Hash: applyKeep(cur.Hash, a.Hash), Data: applyKeep(cur.Data, a.Data)}
}

func (a tokArgs) allKeep() bool {
	return a.Name == keep && a.URI == keep && a.Hash == keep && a.Data == keep
}

// judge decides, from the reference model alone, what the property says about a message.
func (m *Module) judge(kind, sender string, op *engine.Op) (verdict, string) {
	switch kind {
	case "issue":
		var a issueArgs
		op.Decode(&a)
		// "a class ... its id ... never change or get reused while it exists"
		if m.classes[a.ID] != nil {
			return mustReject, "class-id-in-use"
		}
		return mustAccept, "fresh-class"
	case "handover":
		var a handArgs
		op.Decode(&a)
		c := m.classes[a.Class]
		if c == nil {
			return mustReject, "unknown-class"
		}
		// "a class changes hands only by its current creator"
		if c.Creator != sender {
			return mustReject, "not-creator"
		}
		return mustAccept, "creator"
	}
	var a tokArgs
	op.Decode(&a)
	c := m.classes[a.Class]
	if c == nil {
		// no class, hence no token and no owner or creator who could be entitled
		return mustReject, "unknown-class"
	}
	t := c.Tokens[a.ID]
	switch kind {
	case "mint":
		// "a token's id never change[s] or get[s] reused while it exists"
		if t != nil {
			return mustReject, "token-id-in-use"
		}
		// "minting into a mint-restricted class is possible only for the class creator"
		if c.MintR && c.Creator != sender {
			return mustReject, "mint-restricted"
		}
		return mustAccept, "entitled"
	case "edit", "transfer", "burn":
		if t == nil {
			return mustReject, "no-such-token"
		}
		// "only the current owner can transfer, edit or burn it"
		if t.Owner != sender {
			return mustReject, "not-owner"
		}
		if kind == "burn" {
			return mustAccept, "owner"
		}
		if c.UpdR {
			// "tokens of an update-restricted class never change their metadata": a message
			// that would change it must not go through; one that changes nothing may be
			// refused or not (the property is silent), except the plain transfer
			if a.requested(t.M) != t.M {
				return mustReject, "update-restricted"
			}
			if kind == "transfer" && a.allKeep() {
				return mustAccept, "owner-plain-transfer"
			}
			return either, "update-restricted-no-change"
		}
		return mustAccept, "owner"
	}
	return either, "?"
}

func (m *Module) OnTx(w *engine.World, tx *engine.TxRecord) {
	// an injected failure (gas limit, block gas, a failing tail message appended by the
	// transport) "did not happen"; that it left no trace is what OnCommit compares
	if tx.Infra {
		return
	}
	if len(tx.Plan.Ops) != 1 || tx.Plan.Ops[0].Mod != Name {
		return
	}
	op := tx.Plan.Ops[0]
	sender := w.A(op.Actor).Addr.String()
	v, why := m.judge(op.Kind, sender, op)
	w.Hit("C14.verdict_checks")
	if !tx.OK() {
		if v == mustAccept {
			w.Violate(Prop, "refused/"+op.Kind+"/"+why, "%s by %s (op %d, args %s) is rightful by the reference model (%s) but was rejected: %s/%d %s",
				op.Kind, sender, op.ID, op.Args, why, tx.Codespace, tx.Code, tx.Log)
		}
		if v == mustReject {
			m.probeRejected(w, op.Kind, why, sender, op)
		}
		return
	}
	if v == mustReject {
		w.Violate(Prop, "accepted/"+op.Kind+"/"+why, "%s by %s (op %d, args %s) was accepted although the reference model forbids it (%s); model: %s",
			op.Kind, sender, op.ID, op.Args, why, m.describe(op))
	}
	m.apply(w, op, sender, why)
}

func (m *Module) describe(op *engine.Op) string {
	var a tokArgs
	op.Decode(&a)
	id := a.Class
	if op.Kind == "issue" {
		var ia issueArgs
		op.Decode(&ia)
		id = ia.ID
	}
	c := m.classes[id]
	if c == nil {
		return "class unknown"
	}
	s := fmt.Sprintf("class %s creator %s mint-restricted=%v update-restricted=%v", c.ID, c.Creator, c.MintR, c.UpdR)
	if t := c.Tokens[a.ID]; t != nil {
		s += fmt.Sprintf("; token %s owner %s metadata %+v", a.ID, t.Owner, t.M)
	} else if a.ID != "" {
		s += "; token " + a.ID + " does not exist"
	}
	return s
}

func (m *Module) probeRejected(w *engine.World, kind, why, sender string, op *engine.Op) {
	switch kind + "/" + why {
	case "transfer/not-owner":
		w.Hit("nft.stranger_transfer_rejected")
	case "edit/not-owner":
		w.Hit("nft.stranger_edit_rejected")
	case "burn/not-owner":
		w.Hit("nft.stranger_burn_rejected")
	case "mint/mint-restricted":
		w.Hit("nft.restricted_mint_by_stranger_rejected")
		var a tokArgs
		op.Decode(&a)
		if c := m.classes[a.Class]; c != nil {
			for _, p := range c.Prev {
				if p == sender {
					w.Hit("nft.mint_by_former_creator_rejected")
				}
			}
		}
	case "mint/token-id-in-use":
		w.Hit("nft.mint_of_existing_id_rejected")
	case "issue/class-id-in-use":
		w.Hit("nft.issue_of_existing_class_rejected")
	case "handover/not-creator":
		w.Hit("nft.handover_by_stranger_rejected")
	case "edit/update-restricted", "transfer/update-restricted":
		w.Hit("nft.update_restricted_change_rejected")
	case "edit/no-such-token", "transfer/no-such-token", "burn/no-such-token":
		w.Hit("nft.op_on_missing_token_rejected")
	}
	if why == "not-owner" {
		var a tokArgs
		op.Decode(&a)
		if c := m.classes[a.Class]; c != nil {
			if c.Creator == sender {
				w.Hit("nft.creator_not_owner_rejected")
			}
			if t := c.Tokens[a.ID]; t != nil && t.Prev == sender {
				w.Hit("nft.former_owner_rejected")
			}
		}
	}
}

// apply drives the reference model with an accepted message.
func (m *Module) apply(w *engine.World, op *engine.Op, sender, why string) {
	m.holders[sender] = true
	switch op.Kind {
	case "issue":
		var a issueArgs
		op.Decode(&a)
		if m.classes[a.ID] != nil {
			return // flagged above; the first creation stays the reference
		}
		m.classes[a.ID] = &class{ID: a.ID, Creator: sender, MintR: a.MintR, UpdR: a.UpdR, Tokens: map[string]*token{}, Burned: map[string]bool{}}
		w.Hit("nft.class_issued")
		w.Hit(fmt.Sprintf("nft.class_flags_%v_%v", a.MintR, a.UpdR))
		return
	case "handover":
		var a handArgs
		op.Decode(&a)
		c := m.classes[a.Class]
		if c == nil {
			return
		}
		if a.Recipient != c.Creator {
			c.Prev = append(c.Prev, c.Creator)
		}
		c.Creator = a.Recipient
		m.holders[a.Recipient] = true
		w.Hit("nft.handover")
		return
	}
	var a tokArgs
	op.Decode(&a)
	c := m.classes[a.Class]
	if c == nil {
		return // flagged: nothing the model could attach the token to
	}
	t := c.Tokens[a.ID]
	switch op.Kind {
	case "mint":
		c.Tokens[a.ID] = &token{Owner: a.Recipient, M: meta{Name: a.Name, URI: a.URI, Hash: a.Hash, Data: a.Data}}
		m.holders[a.Recipient] = true
		w.Hit("nft.minted")
		if c.Burned[a.ID] {
			w.Hit("nft.remint_after_burn")
		}
		if a.Recipient != sender {
			w.Hit("nft.mint_to_other")
		}
		if sender != c.Creator {
			w.Hit("nft.open_mint_by_non_creator")
		} else if len(c.Prev) > 0 {
			w.Hit("nft.mint_by_new_creator")
		}
	case "edit":
		if t == nil {
			return
		}
		t.M = a.requested(t.M)
		w.Hit("nft.edited")
		if a.allKeep() {
			w.Hit("nft.edit_all_keep")
		}
	case "transfer":
		if t == nil {
			return
		}
		nm := a.requested(t.M)
		if nm != t.M {
			w.Hit("nft.transfer_with_change")
		} else if a.allKeep() {
			w.Hit("nft.transfer_all_keep")
		} else {
			w.Hit("nft.transfer_restating_same_values")
		}
		if !a.allKeep() && (a.Name == keep || a.URI == keep || a.Hash == keep || a.Data == keep) {
			w.Hit("nft.transfer_partial_keep")
		}
		t.M = nm
		if a.Recipient == t.Owner {
			w.Hit("nft.transfer_to_self")
		} else {
			t.Prev = t.Owner
		}
		t.Owner = a.Recipient
		m.holders[a.Recipient] = true
		w.Hit("nft.transferred")
	case "burn":
		if t == nil {
			return
		}
		delete(c.Tokens, a.ID)
		c.Burned[a.ID] = true
		w.Hit("nft.burned")
	}
}

// ---- oracle: queries vs model ----------------------------------------------------------

func (m *Module) OnCommit(w *engine.World) {
	if len(m.classes) == 0 || len(m.holders) == 0 {
		return // nothing issued yet, or the genesis block itself (the parties are set up after it)
	}
	ctx := w.Node.Ctx()
	k := w.Node.K.NFT
	holders := engine.SortedKeys(m.holders)
	ownedByModel := map[string]map[string][]string{} // owner -> class -> ids
	for _, c := range m.sortedClasses() {
		w.Hit("C14.query_checks")
		// class record: "a class changes hands only by its current creator and its id ...
		// never change[s]"; the flags are what the mint / update clauses are about
		dr, err := k.Denom(ctx, &nfttypes.QueryDenomRequest{DenomId: c.ID})
		if err != nil || dr.Denom == nil {
			w.Violate(Prop, "query/class-missing", "class %s was issued (creator %s) but the class query fails: %v", c.ID, c.Creator, err)
			continue
		}
		if dr.Denom.Id != c.ID {
			w.Violate(Prop, "query/class-id", "class %s is reported with id %s", c.ID, dr.Denom.Id)
		}
		if dr.Denom.Creator != c.Creator {
			w.Violate(Prop, "query/class-creator", "class %s: reported creator %s, by the accepted issue/handover messages it is %s", c.ID, dr.Denom.Creator, c.Creator)
		}
		if dr.Denom.MintRestricted != c.MintR || dr.Denom.UpdateRestricted != c.UpdR {
			w.Violate(Prop, "query/class-flags", "class %s: reported restrictions mint=%v update=%v, issued with mint=%v update=%v (former creators: %d)",
				c.ID, dr.Denom.MintRestricted, dr.Denom.UpdateRestricted, c.MintR, c.UpdR, len(c.Prev))
		}
		// collection: every token, its one owner, its metadata
		got := map[string]nfttypes.BaseNFT{}
		var next []byte
		for page := 0; page < 1000; page++ {
			cr, err := k.Collection(ctx, &nfttypes.QueryCollectionRequest{DenomId: c.ID, Pagination: &query.PageRequest{Key: next, Limit: 100}})
			if err != nil || cr.Collection == nil {
				w.Violate(Prop, "query/collection-fails", "collection query of class %s fails: %v", c.ID, err)
				break
			}
			for _, n := range cr.Collection.NFTs {
				if _, dup := got[n.Id]; dup {
					w.Violate(Prop, "query/collection-duplicate", "class %s lists token %s twice", c.ID, n.Id)
				}
				got[n.Id] = n
			}
			if cr.Pagination == nil || len(cr.Pagination.NextKey) == 0 {
				break
			}
			next = cr.Pagination.NextKey
		}
		for _, id := range engine.SortedKeys(c.Tokens) {
			t := c.Tokens[id]
			n, ok := got[id]
			if !ok {
				w.Violate(Prop, "query/token-missing", "class %s: token %s (owner %s) is not in the collection", c.ID, id, t.Owner)
				continue
			}
			if n.Owner != t.Owner {
				w.Violate(Prop, "query/token-owner", "class %s token %s: reported owner %s, by the accepted messages %s", c.ID, id, n.Owner, t.Owner)
			}
			if (meta{n.Name, n.URI, n.UriHash, n.Data}) != t.M {
				key := "query/token-metadata"
				if c.UpdR {
					key = "query/token-metadata-update-restricted"
				}
				w.Violate(Prop, key, "class %s (update-restricted=%v) token %s: reported metadata %+v, by the accepted messages %+v",
					c.ID, c.UpdR, id, meta{n.Name, n.URI, n.UriHash, n.Data}, t.M)
			}
			// the single-token query agrees
			nr, err := k.NFT(ctx, &nfttypes.QueryNFTRequest{DenomId: c.ID, TokenId: id})
			if err != nil || nr.NFT == nil {
				w.Violate(Prop, "query/nft-missing", "class %s token %s exists but the token query fails: %v", c.ID, id, err)
			} else if *nr.NFT != n {
				w.Violate(Prop, "query/nft-vs-collection", "class %s token %s: token query %+v, collection %+v", c.ID, id, *nr.NFT, n)
			}
			if ownedByModel[t.Owner] == nil {
				ownedByModel[t.Owner] = map[string][]string{}
			}
			ownedByModel[t.Owner][c.ID] = append(ownedByModel[t.Owner][c.ID], id)
		}
		for _, id := range engine.SortedKeys(got) {
			if c.Tokens[id] == nil {
				key := "query/token-unexpected"
				if c.Burned[id] {
					key = "query/token-survived-burn"
				}
				w.Violate(Prop, key, "class %s lists token %s (owner %s) which does not exist by the accepted messages", c.ID, id, got[id].Owner)
			}
		}
		for _, id := range engine.SortedKeys(c.Burned) {
			if c.Tokens[id] == nil {
				if nr, err := k.NFT(ctx, &nfttypes.QueryNFTRequest{DenomId: c.ID, TokenId: id}); err == nil && nr.NFT != nil {
					w.Violate(Prop, "query/nft-survived-burn", "class %s token %s was burned and can still be queried: %+v", c.ID, id, *nr.NFT)
				}
			}
		}
		// "The reported supply of a class always equals the number of its tokens and the sum
		// of all owners' balances."
		w.Hit("C14.supply_checks")
		sr, err := k.Supply(ctx, &nfttypes.QuerySupplyRequest{DenomId: c.ID})
		if err != nil {
			w.Violate(Prop, "query/supply-fails", "supply query of class %s fails: %v", c.ID, err)
			continue
		}
		if sr.Amount != uint64(len(c.Tokens)) {
			w.Violate(Prop, "supply/vs-model", "class %s: reported supply %d, tokens by the accepted messages %d", c.ID, sr.Amount, len(c.Tokens))
		}
		if sr.Amount != uint64(len(got)) {
			w.Violate(Prop, "supply/vs-collection", "class %s: reported supply %d, tokens listed %d", c.ID, sr.Amount, len(got))
		}
		var sum uint64
		for _, h := range holders {
			br, err := k.Supply(ctx, &nfttypes.QuerySupplyRequest{DenomId: c.ID, Owner: h})
			if err != nil {
				w.Violate(Prop, "query/balance-fails", "balance query of %s in class %s fails: %v", h, c.ID, err)
				continue
			}
			sum += br.Amount
			want := 0
			for _, t := range c.Tokens {
				if t.Owner == h {
					want++
				}
			}
			if br.Amount != uint64(want) {
				w.Violate(Prop, "balance/vs-model", "class %s: %s's reported balance %d, tokens owned by the accepted messages %d", c.ID, h, br.Amount, want)
			}
		}
		if sum != sr.Amount {
			w.Violate(Prop, "supply/vs-balances", "class %s: reported supply %d, sum of the balances of all %d parties that ever took part %d", c.ID, sr.Amount, len(holders), sum)
		}
		cr, _ := m.actorIdx(w, c.Creator)
		w.State("nft", c.ID, cr, len(c.Tokens), len(c.Prev), len(c.Burned))
	}
	// owner index: every party's tokens, over all classes
	for _, h := range holders {
		gotIDs := map[string][]string{}
		var next []byte
		failed := false
		for page := 0; page < 1000; page++ {
			or, err := k.NFTsOfOwner(ctx, &nfttypes.QueryNFTsOfOwnerRequest{Owner: h, Pagination: &query.PageRequest{Key: next, Limit: 100}})
			if err != nil || or.Owner == nil {
				w.Violate(Prop, "query/owner-fails", "tokens-of-owner query of %s fails: %v", h, err)
				failed = true
				break
			}
			for _, idc := range or.Owner.IDCollections {
				gotIDs[idc.DenomId] = append(gotIDs[idc.DenomId], idc.TokenIds...)
			}
			if or.Pagination == nil || len(or.Pagination.NextKey) == 0 {
				break
			}
			next = or.Pagination.NextKey
		}
		if failed {
			continue
		}
		want := ownedByModel[h]
		if d := diffOwned(gotIDs, want); d != "" {
			w.Violate(Prop, "query/owner-index", "tokens of %s: %s", h, d)
		}
	}
}

func diffOwned(got, want map[string][]string) string {
	var out []string
	for _, c := range engine.SortedKeys(want) {
		g, x := append([]string{}, got[c]...), append([]string{}, want[c]...)
		sort.Strings(g)
		sort.Strings(x)
		if strings.Join(g, ",") != strings.Join(x, ",") {
			out = append(out, fmt.Sprintf("class %s: reported [%s], by the accepted messages [%s]", c, strings.Join(g, ","), strings.Join(x, ",")))
		}
	}
	for _, c := range engine.SortedKeys(got) {
		if _, ok := want[c]; !ok && len(got[c]) > 0 {
			out = append(out, fmt.Sprintf("class %s: reported [%s], by the accepted messages none", c, strings.Join(got[c], ",")))
		}
	}
	return strings.Join(out, "; ")
}
