// Package randommod is the random-module workload (plain and oracle-seeded random-number
// requests on top of the service workload, whose providers answer the `random` service with
// the documents chosen here) and the oracle of C18: every request is fulfilled exactly once, in
// the block after its due height (or in the block of the seed response), with a value that is
// a pure function of the previous block's app hash, the block time, the requester and the
// seed; plus the random part of C13 (the pending queue holds exactly the requests not yet due).
package randommod

import (
	"encoding/hex"
	"encoding/json"
	"fmt"
	"math/big"
	"strings"

	sdk "github.com/cosmos/cosmos-sdk/types"

	randomtypes "mods.irisnet.org/modules/random/types"
	svctypes "mods.irisnet.org/modules/service/types"
	"mods.irisnet.org/simapp"

	"verif/sim/engine"
	servicemod "verif/sim/mods/service"
)

const (
	Name = "random"
	Std  = servicemod.Std
	// ServiceName is the service whose providers deliver oracle seeds.
	ServiceName = svctypes.RandomServiceName
)

// Config is the per-run swarm configuration.
type Config struct {
	Salt        uint64  `json:"salt"`
	Requesters  []int   `json:"requesters"`
	MaxInterval int64   `json:"max_interval"`
	POracle     float64 `json:"p_oracle"`
	PCluster    float64 `json:"p_cluster"`
	PTimed      float64 `json:"p_timed"`
	PFar        float64 `json:"p_far_future"`
	FeeBits     int     `json:"fee_bits"`
	PGarbage    float64 `json:"p_garbage_seed"`
	PErrResult  float64 `json:"p_error_result"`
	PSilent     float64 `json:"p_silent"`
	PPoor       float64 `json:"p_poor_requester"`
	// GenesisBulk: the chain starts with this many pending plain requests of as many
	// consumers, all due at height GenesisDue (a long history behind the chain): more than a
	// hundred fulfilments in one begin block
	GenesisBulk int   `json:"genesis_bulk,omitempty"`
	GenesisDue  int64 `json:"genesis_due,omitempty"`
}

// Module implements engine.Module.
type Module struct {
	engine.Base
	cfg Config

	reqs  map[string]*rreq // by request id (lower-case hex)
	ord   []string
	queue map[string]*qent // pending queue of the model: "<due>|<id>"
	hash  map[int64][]byte // app hash after block h, as the primary returned it
	times map[int64]int64  // unix seconds of block h

	// observations of the current block
	resps   []respEvent
	genEv   map[string]int // generate_random events of this block, by request id
	started map[string]string

	// generator-side state
	planned    map[int]map[int64]bool
	inflight   map[int]int64
	responder  bool
	horizon    int64
	bulkLoaded bool
}

func New() *Module {
	return &Module{reqs: map[string]*rreq{}, queue: map[string]*qent{}, hash: map[int64][]byte{}, times: map[int64]int64{},
		genEv: map[string]int{}, started: map[string]string{}, planned: map[int]map[int64]bool{}, inflight: map[int]int64{}}
}

func (m *Module) Name() string { return Name }

func (m *Module) Weight() int { return 8 }

func (m *Module) svc(w *engine.World) *servicemod.Module {
	s, _ := w.Mod(servicemod.Name).(*servicemod.Module)
	if s == nil {
		engine.Fatal("random needs the service workload in the same profile")
	}
	return s
}

func (m *Module) Configure(w *engine.World, r *engine.Rand) any {
	c := Config{Salt: r.Uint64()}
	n := len(w.Actors) - 1
	k := 2 + r.Intn(4)
	if k > n {
		k = n
	}
	for _, i := range r.Perm(n)[:k] {
		c.Requesters = append(c.Requesters, i)
	}
	c.MaxInterval = []int64{0, 1, 3, 10, 30}[r.Intn(5)]
	c.POracle = []float64{0.15, 0.3, 0.5, 0.8}[r.Intn(4)]
	c.PCluster = 0.2 + 0.6*r.Float()
	c.PTimed = r.Float()
	if r.Bool(0.3) {
		c.PFar = 0.05
	}
	c.FeeBits = 1 + r.Intn(70)
	c.PGarbage = []float64{0, 0.1, 0.4}[r.Intn(3)]
	c.PErrResult = []float64{0, 0.1, 0.3}[r.Intn(3)]
	c.PSilent = []float64{0, 0.1, 0.4}[r.Intn(3)]
	c.PPoor = []float64{0, 0, 0.1}[r.Intn(3)]
	// (a stream of its own: a seed's run is otherwise what it was before this arm existed)
	if gr := engine.NewRand(engine.Mix(w.Sched.Seed, "random-genesis", 0)); gr.Bool(0.06) {
		c.GenesisBulk = 101 + gr.Intn(40)
		c.GenesisDue = 3 + gr.Int63n(8)
	}
	return c
}

func bulkConsumer(i int) sdk.AccAddress {
	return sdk.AccAddress([]byte(fmt.Sprintf("rbulk-consumer-%05d", i))) // 20 bytes
}

func (m *Module) LoadConfig(w *engine.World, raw json.RawMessage) {
	if err := json.Unmarshal(raw, &m.cfg); err != nil {
		engine.Fatal("random config: %v", err)
	}
}

func (m *Module) Setup(w *engine.World) {
	w.NeedDenom(Std, new(big.Int).Lsh(big.NewInt(1), 120))
}

// Genesis puts the `random` system service definition into the service genesis (the
// application's InitChainer would do that on a real chain; simapp has it commented out).
func (m *Module) Genesis(w *engine.World, n *engine.Node, gs simapp.GenesisState) {
	m.genesisBulk(w, n, gs)
	cdc := n.App.AppCodec()
	var g svctypes.GenesisState
	cdc.MustUnmarshalJSON(gs[svctypes.ModuleName], &g)
	for _, d := range g.Definitions {
		if d.Name == ServiceName {
			return
		}
	}
	g.Definitions = append(g.Definitions, svctypes.GetRandomSvcDefinition())
	gs[svctypes.ModuleName] = cdc.MustMarshalJSON(&g)
}

// genesisBulk puts the pending requests of the bulk arm into the random genesis.
func (m *Module) genesisBulk(w *engine.World, n *engine.Node, gs simapp.GenesisState) {
	if m.cfg.GenesisBulk == 0 {
		return
	}
	cdc := n.App.AppCodec()
	var g randomtypes.GenesisState
	cdc.MustUnmarshalJSON(gs[randomtypes.ModuleName], &g)
	if g.PendingRandomRequests == nil {
		g.PendingRandomRequests = map[string]randomtypes.Requests{}
	}
	var rs randomtypes.Requests
	for i := 0; i < m.cfg.GenesisBulk; i++ {
		rs.Requests = append(rs.Requests, randomtypes.Request{Height: w.Base(), Consumer: bulkConsumer(i).String(), TxHash: strings.Repeat("00", 32)})
	}
	g.PendingRandomRequests[fmt.Sprint(w.Base()+m.cfg.GenesisDue)] = rs
	gs[randomtypes.ModuleName] = cdc.MustMarshalJSON(&g)
}

func (m *Module) Started(w *engine.World) {
	m.hash[w.Height] = append([]byte{}, w.Node.AppHash()...)
	m.times[w.Height] = w.Time.Unix()
	m.loadGenesisBulk(w)
}

// loadGenesisBulk registers the genesis requests of the bulk arm with the model (once; also
// called by the queue check, which runs after the genesis block already).
func (m *Module) loadGenesisBulk(w *engine.World) {
	if m.cfg.GenesisBulk == 0 || m.bulkLoaded {
		return
	}
	m.bulkLoaded = true
	// the requests the chain starts with are pending requests like any other: made at the
	// height their record states, due at the height they are queued for
	n := 0
	w.Node.K.Random.IterateRandomRequestQueue(w.Node.Ctx(), func(height int64, reqID []byte, rq randomtypes.Request) bool {
		id := hex.EncodeToString(reqID)
		addr, err := sdk.AccAddressFromBech32(rq.Consumer)
		if err != nil {
			return false
		}
		e := &rreq{OpID: -1, ID: id, Requester: rq.Consumer, Addr: append([]byte{}, addr.Bytes()...), ReqH: rq.Height,
			Interval: uint64(height - rq.Height), Due: height, Oracle: rq.Oracle}
		m.reqs[id] = e
		m.ord = append(m.ord, id)
		m.queue[qkey(height, id)] = &qent{Due: height, ID: id}
		n++
		return false
	})
	w.Hit("random.genesis_bulk")
	if n != m.cfg.GenesisBulk {
		w.Violate("C18", "request/id-collision/genesis", "the genesis carries %d pending requests of different consumers; after import the queue holds %d", m.cfg.GenesisBulk, n)
	}
}

// ---- operations ---------------------------------------------------------------------------------------

type requestArgs struct {
	Interval uint64 `json:"interval"`
	Oracle   bool   `json:"oracle,omitempty"`
	FeeCap   string `json:"fee_cap,omitempty"`
}

func bigOf(s string) *big.Int {
	if s == "" {
		return new(big.Int)
	}
	v, ok := new(big.Int).SetString(s, 10)
	if !ok {
		engine.Fatal("random: bad integer %q", s)
	}
	return v
}

func (m *Module) Build(w *engine.World, op *engine.Op) (sdk.Msg, error) {
	sender := w.A(op.Actor).Addr.String()
	switch op.Kind {
	case "request":
		var a requestArgs
		op.Decode(&a)
		msg := &randomtypes.MsgRequestRandom{BlockInterval: a.Interval, Consumer: sender, Oracle: a.Oracle}
		if v := bigOf(a.FeeCap); v.Sign() > 0 {
			msg.ServiceFeeCap = sdk.NewCoins(sdk.NewCoin(Std, engine.Int(v)))
		}
		return msg, nil
	}
	return nil, fmt.Errorf("unknown op %s", op.Kind)
}

// ---- generation ----------------------------------------------------------------------------------------

const seedOK = "0123456789abcdefABCDEF"

func hexStr(r *engine.Rand, n int) string {
	b := make([]byte, n)
	for i := range b {
		b[i] = seedOK[r.Intn(len(seedOK))]
	}
	return string(b)
}

const (
	okResult  = `{"code":200,"message":""}`
	errResult = `{"code":500,"message":"no entropy"}`
)

// respond chooses a provider's answer to a request of the `random` service: a pure function
// of (salt, request id).
func (m *Module) respond(w *engine.World, req *servicemod.Request) (output, result string, ok bool) {
	r := engine.NewRand(engine.Mix(m.cfg.Salt, req.ID, 7))
	switch {
	case r.Bool(m.cfg.PSilent):
		return "", "", false
	case r.Bool(m.cfg.PErrResult):
		return "", errResult, true
	case r.Bool(m.cfg.PGarbage):
		var body string
		switch r.Intn(8) {
		case 0:
			body = `{"seed":"` + hexStr(r, 63) + `"}` // one digit short
		case 1:
			body = `{"seed":"` + hexStr(r, 65) + `"}`
		case 2:
			body = `{"seed":"` + hexStr(r, 63) + `g"}` // not hexadecimal
		case 3:
			body = `{"seed":"` + hexStr(r, 64) + `","extra":1}` // the schema allows no other property
		case 4:
			body = `{}`
		case 5:
			body = `{"seed":12345}`
		case 6:
			return `{"header":{}}`, okResult, true // no body at all
		default:
			body = `{"Seed":"` + hexStr(r, 64) + `"}`
		}
		return `{"header":{},"body":` + body + `}`, okResult, true
	}
	return `{"header":{},"body":{"seed":"` + hexStr(r, 64) + `"}}`, okResult, true
}

func (m *Module) randomProviders(w *engine.World) []servicemod.ProviderInfo {
	for _, s := range m.svc(w).Services(w) {
		if s.Name == ServiceName {
			return s.Providers
		}
	}
	return nil
}

func (m *Module) Gen(w *engine.World, r *engine.Rand) *engine.TxPlan {
	if !m.responder {
		m.responder = true
		m.svc(w).RegisterResponder(ServiceName, m.respond)
	}
	if len(m.cfg.Requesters) == 0 {
		return nil
	}
	who := m.cfg.Requesters[r.Intn(len(m.cfg.Requesters))]
	a := requestArgs{}
	// interval: 0..k, sometimes far beyond the end of the run
	a.Interval = uint64(r.Range(0, m.cfg.MaxInterval))
	if r.Bool(m.cfg.PFar) {
		a.Interval = uint64(1000 + r.Int63n(1_000_000))
	}
	provs := m.randomProviders(w)
	mkOracle := func() {
		a.Oracle = true
		maxPrice := new(big.Int)
		for _, p := range provs {
			if v := bigOf(p.Price); p.Denom == Std && v.Cmp(maxPrice) > 0 {
				maxPrice = v
			}
		}
		switch r.Intn(6) {
		case 0: // below some or all prices: the batch finds no provider
			a.FeeCap = r.BigBelow(new(big.Int).Add(maxPrice, big.NewInt(1))).String()
		case 1:
			a.FeeCap = maxPrice.String()
		default:
			a.FeeCap = new(big.Int).Add(maxPrice, r.BigLogUniform(m.cfg.FeeBits)).String()
		}
		if bigOf(a.FeeCap).Sign() == 0 {
			a.FeeCap = "1"
		}
		if r.Bool(m.cfg.PPoor) {
			// more than the requester owns: must be refused
			a.FeeCap = new(big.Int).Add(w.Bal(w.A(who).Addr.String(), Std), big.NewInt(1+r.Int63n(1000))).String()
		}
	}
	if r.Bool(m.cfg.POracle) && (len(provs) > 0 || r.Bool(0.1)) {
		mkOracle()
	}
	tp := engine.Tx1(engine.NewOp(Name, "request", who, a))
	// The id scheme identifies a request by (requester, height): at most one request per
	// requester per block. Timed requests go to a height of their own; an untimed one (left to
	// the transport, which may delay it by up to 24 blocks) keeps the requester quiet meanwhile.
	busy := w.Height < m.inflight[who]
	if m.planned[who] == nil {
		m.planned[who] = map[int64]bool{}
	}
	future := false
	for h := range m.planned[who] {
		if h > w.Height {
			future = true
		} else {
			delete(m.planned[who], h)
		}
	}
	timed := r.Bool(m.cfg.PTimed)
	switch {
	case busy:
		return nil
	case timed || future:
		at := w.Height + 1 + int64(r.Intn(4))
		for i := 0; i < 6 && m.planned[who][at]; i++ {
			at++
		}
		if m.planned[who][at] {
			return nil
		}
		if r.Bool(m.cfg.PCluster) {
			// aim at a due height other pending requests already have - and, mostly, with the
			// other kind: plain and oracle-seeded requests falling due together
			var dues []int64
			kinds := map[int64][2]bool{}
			for _, k := range engine.SortedKeys(m.queue) {
				q := m.queue[k]
				if q.Due < at || q.Due-at > m.cfg.MaxInterval {
					continue
				}
				if _, seen := kinds[q.Due]; !seen {
					dues = append(dues, q.Due)
				}
				kk := kinds[q.Due]
				if e := m.reqs[q.ID]; e != nil && e.Oracle {
					kk[1] = true
				} else {
					kk[0] = true
				}
				kinds[q.Due] = kk
			}
			if len(dues) > 0 {
				d := dues[r.Intn(len(dues))]
				a.Interval = uint64(d - at)
				if kk := kinds[d]; kk[0] != kk[1] && r.Bool(0.75) {
					switch {
					case kk[1]: // only oracle requests wait there: add a plain one
						a.Oracle, a.FeeCap = false, ""
					case len(provs) > 0 && !a.Oracle:
						mkOracle()
					}
				}
			}
		}
		tp = engine.Tx1(engine.NewOp(Name, "request", who, a))
		m.planned[who][at] = true
		tp.At = at
	default:
		m.inflight[who] = w.Height + 27
	}
	return tp
}

// MaxDue: the fulfilment block of every pending request that falls due soon, and the expiry of
// the seed requests in flight.
func (m *Module) MaxDue(w *engine.World) int64 {
	if m.horizon == 0 {
		hz := w.Height
		for _, id := range m.ord {
			e := m.reqs[id]
			d := e.Due + 1
			if e.Oracle {
				d += m.svc(w).Params().MaxRequestTimeout + 1
			}
			if e.doneAt == 0 && d > hz && d <= w.Height+45 {
				hz = d
			}
		}
		m.horizon = hz
	}
	return m.horizon
}
