package randommod

import (
	"verif/sim/engine"
	servicemod "verif/sim/mods/service"
)

// Register installs the random profile (service workload with the `random` service added +
// random requests) and property C18.
func Register() {
	engine.RegisterProfile(&engine.Profile{
		Name: "random",
		Mods: func() []engine.Module {
			s := servicemod.New()
			// the `random` service is defined at genesis (Module.Genesis below); the service
			// workload's providers bind it, its consumers may call it, and the seeds come from
			// this module's responder
			s.AddService(ServiceName, true)
			return []engine.Module{s, New()}
		},
		Tune: func(c *engine.EngineConfig, r *engine.Rand) {
			c.OpsPerBlock = 3 + 5*r.Float()
			c.Blocks = 40 + r.Intn(60)
		},
	})
	engine.RegisterProperty(&engine.Property{
		ID: "C18", Profile: "random",
		NonTrivial: func(c map[string]int64) bool {
			return c["C18.value_checks"] > 0 && c["C18.result_checks"] > 2 && c["C13.random_queue_checks"] > 0
		},
		Probes: []string{"C18.value_checks", "C18.value_checks_plain", "C18.value_checks_oracle", "C18.result_checks",
			"C18.reread_checks", "C18.once_checks", "C18.oracle_entry_checks", "C13.random_queue_checks",
			"random.interval_zero", "random.several_due_at_one_height", "random.same_requester_two_blocks_one_due_height", "random.oracle_and_plain_due_at_one_height",
			"random.absent_at_due_height", "random.seed_valid", "random.seed_garbage", "random.seed_failure_report",
			"random.seed_timeout", "random.oracle_request_refused"},
		Rule: "a run is non-trivial when at least one freshly fulfilled request had its number compared with the harness's own computation from (previous app hash, block time, requester, seed), more than two result queries were compared with the fulfilment schedule, and the pending queue was compared with the ledger; distinct = different fingerprint of the executed (operation kind, outcome class) sequence",
	})
}
