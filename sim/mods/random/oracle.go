package randommod

import (
	"bytes"
	"crypto/sha256"
	"encoding/hex"
	"encoding/json"
	"fmt"
	"math/big"
	"regexp"
	"sort"
	"strings"

	storetypes "cosmossdk.io/store/types"
	abci "github.com/cometbft/cometbft/abci/types"
	sdk "github.com/cosmos/cosmos-sdk/types"

	randomtypes "mods.irisnet.org/modules/random/types"
	svctypes "mods.irisnet.org/modules/service/types"

	"verif/sim/engine"
	servicemod "verif/sim/mods/service"
)

// ---- the ledger ------------------------------------------------------------------------------------------

// rreq is one accepted random-number request.
type rreq struct {
	ID        string // lower-case hex, as the request_random event names it
	Requester string
	Addr      []byte
	ReqH      int64
	Interval  uint64
	Due       int64 // ReqH + Interval: "made at height h with interval n"
	Oracle    bool
	FeeCap    string
	OpID      int
	CtxID     string // oracle: the service request context (upper-case hex), read from the queue query
	labelled  bool
	// OutOfDomain: a second request of the same requester was accepted in the same block; the
	// id scheme's stated domain is one request per requester per block, so nothing about the
	// result of this id is judged (the queue still is)
	OutOfDomain bool

	seenAt  int64  // height after which the result query first found it (0 = not yet)
	value   string // as first read
	events  int    // generate_random events carrying this id
	doneAt  int64  // height at which the model considers the request finished (fulfilled or failed)
	seedAt  int64  // oracle: height of the block whose transaction carried a valid seed (0 = none)
	seed    []byte
	endWhy  string // oracle: how the seed request ended without a seed
	started bool   // oracle: the begin block after the due height started the service call
}

// qent is one entry of the model's pending queue.
type qent struct {
	Due int64
	ID  string
}

func qkey(due int64, id string) string { return fmt.Sprintf("%020d|%s", due, id) }

type respEvent struct {
	reqID  string // service request id (upper-case hex)
	output string
}

// ---- transactions ----------------------------------------------------------------------------------------

func (m *Module) OnTx(w *engine.World, tx *engine.TxRecord) {
	// only this module's ops (the engine may append a failing tail message of its own)
	for _, op := range tx.Plan.Ops {
		if op.Mod == Name && op.Kind == "request" {
			m.onRequest(w, tx, op)
		}
	}
}

func (m *Module) onRequest(w *engine.World, tx *engine.TxRecord, op *engine.Op) {
	var a requestArgs
	op.Decode(&a)
	if !tx.OK() {
		if !tx.Infra && a.Oracle {
			w.Hit("random.oracle_request_refused")
		}
		return
	}
	id, ok := engine.EventAttr(tx.Events, randomtypes.EventTypeRequestRandom, randomtypes.AttributeKeyRequestID)
	if !ok || len(id) != 64 {
		w.Violate("C18", "request/no-id", "accepted random request at height %d reports no request id (event %s)", tx.Height, randomtypes.EventTypeRequestRandom)
		return
	}
	id = strings.ToLower(id)
	actor := w.A(op.Actor)
	due := tx.Height + int64(a.Interval)
	if old := m.reqs[id]; old != nil {
		if old.Requester == actor.Addr.String() && old.ReqH == tx.Height {
			// outside the id scheme's domain ("identifies a request by requester and height")
			old.OutOfDomain = true
			w.Hit("random.second_request_same_block")
			m.queue[qkey(due, id)] = &qent{Due: due, ID: id}
			return
		}
		// "fulfilled exactly once ... read back unchanged by its request id": two requests
		// that differ in requester or height must not share an id
		w.Violate("C18", "request/id-collision", "request by %s at height %d got id %s, which names the request by %s at height %d", actor.Addr, tx.Height, id, old.Requester, old.ReqH)
		return
	}
	e := &rreq{OpID: op.ID, ID: id, Requester: actor.Addr.String(), Addr: append([]byte{}, actor.Addr.Bytes()...), ReqH: tx.Height,
		Interval: a.Interval, Due: due, Oracle: a.Oracle, FeeCap: a.FeeCap}
	m.reqs[id] = e
	m.ord = append(m.ord, id)
	m.queue[qkey(due, id)] = &qent{Due: due, ID: id}
	w.Hit("random.requests")
	if a.Oracle {
		w.Hit("random.oracle_requests")
	}
	if a.Interval == 0 {
		w.Hit("random.interval_zero")
	}
	n := 0
	for _, k := range engine.SortedKeys(m.queue) {
		if m.queue[k].Due == due {
			n++
		}
	}
	if n > 1 {
		w.Hit("random.several_due_at_one_height")
		for _, k := range engine.SortedKeys(m.queue) {
			if q := m.queue[k]; q.Due == due && q.ID != id && m.reqs[q.ID] != nil && m.reqs[q.ID].Oracle != e.Oracle {
				w.Hit("random.oracle_and_plain_due_at_one_height")
				break
			}
		}
		for _, k := range engine.SortedKeys(m.queue) {
			if q := m.queue[k]; q.Due == due && q.ID != id && m.reqs[q.ID] != nil && m.reqs[q.ID].Requester == e.Requester {
				w.Hit("random.same_requester_two_blocks_one_due_height")
			}
		}
	}
}

// OnBlock reads the seed responses back from the block's own transactions and counts the
// fulfilment events of every phase.
func (m *Module) OnBlock(w *engine.World, blk *engine.Block, res *abci.ResponseFinalizeBlock) {
	count := func(evs []abci.Event) {
		for _, ev := range evs {
			switch ev.Type {
			case randomtypes.EventTypeGenerateRandom:
				if id, ok := engine.EventAttr([]abci.Event{ev}, ev.Type, randomtypes.AttributeKeyRequestID); ok {
					m.genEv[strings.ToLower(id)]++
				}
			case randomtypes.EventTypeRequestService:
				id, _ := engine.EventAttr([]abci.Event{ev}, ev.Type, randomtypes.AttributeKeyRequestID)
				cid, _ := engine.EventAttr([]abci.Event{ev}, ev.Type, randomtypes.AttributeKeyRequestContextID)
				m.started[strings.ToLower(id)] = strings.ToUpper(cid)
			}
		}
	}
	count(res.Events)
	dec := w.Node.App.TxConfig().TxDecoder()
	for i, bz := range blk.Txs {
		if i >= len(res.TxResults) || res.TxResults[i].Code != 0 {
			continue
		}
		count(res.TxResults[i].Events)
		tx, err := dec(bz)
		if err != nil {
			continue
		}
		for _, msg := range tx.GetMsgs() {
			if r, ok := msg.(*svctypes.MsgRespondService); ok {
				m.resps = append(m.resps, respEvent{reqID: strings.ToUpper(r.RequestId), output: r.Output})
			}
		}
	}
}

// ---- the number ---------------------------------------------------------------------------------------------

var e20 = new(big.Int).Exp(big.NewInt(10), big.NewInt(20), nil)

func shaInt(b []byte) *big.Int {
	s := sha256.Sum256(b)
	return new(big.Int).SetBytes(s[:])
}

// expectedValue is the harness's own implementation of the documented generator: the block
// time T (unix seconds) plus the hashes of the previous block's app hash, of the requester's
// address and (oracle) of the seed, each divided by T, hashed once more and reduced modulo
// 10^20; rendered with 20 fractional digits. It takes nothing but the inputs the property names.
func expectedValue(prevAppHash []byte, unix int64, requester []byte, seed []byte, oracle bool) (string, bool) {
	if unix <= 0 {
		return "", false
	}
	t := big.NewInt(unix)
	sum := new(big.Int).Set(t)
	sum.Add(sum, new(big.Int).Quo(shaInt(prevAppHash), t))
	sum.Add(sum, new(big.Int).Quo(shaInt(requester), t))
	if oracle {
		sum.Add(sum, new(big.Int).Quo(shaInt(seed), t))
	}
	v := new(big.Int).Mod(shaInt(sum.Bytes()), e20)
	s := v.String()
	return "0." + strings.Repeat("0", 20-len(s)) + s, true
}

var valueRe = regexp.MustCompile(`^0\.[0-9]{20}$`)
var seedRe = regexp.MustCompile(`^[0-9a-fA-F]{64}$`)

// seedOf reads the seed out of a response document the way the `random` service's schema
// defines a valid one: the body is an object with the single property "seed", 64 hex digits.
func seedOf(output string) ([]byte, bool) {
	dec := json.NewDecoder(bytes.NewReader([]byte(output)))
	var doc map[string]json.RawMessage
	if err := dec.Decode(&doc); err != nil {
		return nil, false
	}
	var body map[string]json.RawMessage
	if json.Unmarshal(doc["body"], &body) != nil || len(body) != 1 {
		return nil, false
	}
	var s string
	if json.Unmarshal(body["seed"], &s) != nil || !seedRe.MatchString(s) {
		return nil, false
	}
	bz, err := hex.DecodeString(s)
	return bz, err == nil
}

// ---- after every block -----------------------------------------------------------------------------------------

func (m *Module) OnCommit(w *engine.World) {
	m.loadGenesisBulk(w)
	h := w.Height
	ctx := w.Node.Ctx()
	k := w.Node.K.Random
	svc := m.svc(w)
	m.hash[h] = append([]byte{}, w.Node.AppHash()...)
	m.times[h] = w.Time.Unix()

	// the begin block of h drained the queue of h-1: those requests left the model's queue
	for _, key := range engine.SortedKeys(m.queue) {
		if q := m.queue[key]; q.Due < h {
			delete(m.queue, key)
		}
	}

	// oracle requests: context ids (from the queue query, while the request is pending)
	var needCtx bool
	for _, id := range m.ord {
		if e := m.reqs[id]; e.Oracle && e.CtxID == "" && e.Due >= h {
			needCtx = true
		}
	}
	if needCtx {
		if res, err := k.RandomRequestQueue(ctx, &randomtypes.QueryRandomRequestQueueRequest{}); err == nil {
			for _, q := range res.Requests {
				for _, id := range m.ord {
					e := m.reqs[id]
					if e.Oracle && e.CtxID == "" && e.Requester == q.Consumer && e.ReqH == q.Height {
						e.CtxID = strings.ToUpper(q.ServiceContextID)
					}
				}
			}
		}
	}
	for id, cid := range m.started {
		if e := m.reqs[id]; e != nil && e.Oracle {
			e.started = true
			if e.CtxID == "" {
				e.CtxID = cid
			}
		}
	}
	m.started = map[string]string{}
	for _, id := range m.ord {
		if e := m.reqs[id]; e.Oracle && e.CtxID != "" && !e.labelled {
			// the seed response names the context by a label (see servicemod.SetContextLabel)
			e.labelled = true
			label := fmt.Sprintf("random.ctx.%d", e.OpID)
			w.Label(label, e.CtxID)
			svc.SetContextLabel(e.CtxID, label)
		}
	}

	// the seed responses accepted in this block
	for _, rv := range m.resps {
		for _, id := range m.ord {
			e := m.reqs[id]
			if !e.Oracle || e.CtxID == "" || e.doneAt != 0 || e.Due >= h {
				continue
			}
			for _, q := range svc.Requests(e.CtxID) {
				if strings.ToUpper(q.ID) != rv.reqID {
					continue
				}
				e.doneAt = h
				if seed, ok := seedOf(rv.output); ok {
					e.seedAt, e.seed = h, seed
					w.Hit("random.seed_valid")
				} else if rv.output == "" {
					e.endWhy = "failure-report"
					w.Hit("random.seed_failure_report")
				} else {
					e.endWhy = "invalid-seed-document"
					w.Hit("random.seed_garbage")
				}
			}
		}
	}
	m.resps = nil

	// seed requests that ended without an answer
	for _, id := range m.ord {
		e := m.reqs[id]
		if !e.Oracle || e.doneAt != 0 || e.Due >= h || e.CtxID == "" {
			continue
		}
		var ci *servicemod.ContextInfo
		for _, c := range svc.Contexts() {
			if c.ID == e.CtxID {
				ci = c
			}
		}
		if ci == nil {
			continue
		}
		rq := svc.Requests(e.CtxID)
		switch {
		case len(rq) > 0 && rq[0].ExpirationHeight <= h:
			e.doneAt, e.endWhy = h, "timeout"
			w.Hit("random.seed_timeout")
		case len(rq) == 0 && ci.Batch >= 1 && e.Due+1+ci.Timeout <= h:
			e.doneAt, e.endWhy = h, "no-provider-timeout"
			w.Hit("random.seed_no_provider")
		case len(rq) == 0 && ci.Batch == 0 && ci.State == "paused" && h >= e.Due+1:
			e.doneAt, e.endWhy = h, "requester-cannot-pay"
			w.Hit("random.seed_cannot_pay")
		}
	}

	m.checkResults(w)
	QueueCheck(w)
	m.checkOracleEntries(w)
	m.genEv = map[string]int{}

	pend, done := 0, 0
	for _, id := range m.ord {
		if m.reqs[id].seenAt != 0 {
			done++
		} else {
			pend++
		}
	}
	w.State("random", pend, done, len(m.queue))
}

// expectAt is the height after whose block the result must first be readable (0 = never, as
// far as the history so far says).
func (e *rreq) expectAt() int64 {
	if !e.Oracle {
		// "fulfilled exactly once, in the block following height h+n"
		return e.Due + 1
	}
	// "or, for oracle-seeded requests, when the seed response arrives"
	return e.seedAt
}

func (m *Module) checkResults(w *engine.World) {
	h := w.Height
	ctx := w.Node.Ctx()
	k := w.Node.K.Random
	for i, id := range m.ord {
		e := m.reqs[id]
		m.countEvents(w, e)
		if e.OutOfDomain {
			continue
		}
		// finished requests are read again every few blocks ("read back unchanged"), open ones
		// after every block
		at := e.expectAt()
		if e.seenAt != 0 && h > e.seenAt+2 && (int64(i)+h)%5 != 0 {
			continue
		}
		if e.seenAt == 0 && at == 0 && h > e.Due+3 && e.doneAt != 0 && h > e.doneAt+2 && (int64(i)+h)%5 != 0 {
			continue
		}
		res, err := k.Random(ctx, &randomtypes.QueryRandomRequest{ReqId: e.ID})
		found := err == nil && res.Random != nil
		kind := "plain"
		if e.Oracle {
			kind = "oracle"
		}
		w.Hit("C18.result_checks")
		switch {
		case !found && at != 0 && h >= at:
			// due and not there
			if e.seenAt != 0 {
				w.Violate("C18", "result/vanished/"+kind, "request %s: its number was readable after block %d and is gone after block %d", e.ID, e.seenAt, h)
			} else {
				shape := kind
				with := ""
				if !e.Oracle {
					// the quantifier's case "several requests falling due at the same height":
					// name the company the request had in the queue
					for _, oid := range m.ord {
						if o := m.reqs[oid]; o != e && o.Due == e.Due && o.Oracle {
							shape = "plain/oracle-request-due-at-same-height"
							with = fmt.Sprintf("; oracle-seeded request %s fell due at the same height", o.ID)
							break
						}
					}
				}
				w.Violate("C18", "result/not-fulfilled-on-time/"+shape, "request %s (%s, made at %d, interval %d%s) has no number after block %d; it was to be fulfilled in block %d%s",
					e.ID, kind, e.ReqH, e.Interval, e.seedNote(), h, at, with)
			}
		case found && (at == 0 || h < at):
			if e.Oracle {
				w.Violate("C18", "result/fulfilled-without-valid-seed", "oracle request %s (made at %d, due %d, seed request: %s) has the number %s after block %d although no valid seed response was accepted",
					e.ID, e.ReqH, e.Due, e.endNote(), res.Random.Value, h)
			} else {
				w.Violate("C18", "result/fulfilled-early", "request %s made at %d with interval %d has a number after block %d, before the block following height %d", e.ID, e.ReqH, e.Interval, h, e.Due)
			}
		case found:
			if e.seenAt == 0 {
				e.seenAt = h
				e.value = res.Random.Value
				if h != at {
					// only reachable when an earlier block's check was skipped
					w.Violate("C18", "result/late/"+kind, "request %s was to be fulfilled in block %d, its number appeared after block %d", e.ID, at, h)
				}
				m.judgeValue(w, e, res.Random.Value, at)
			} else if res.Random.Value != e.value {
				// "can afterwards be read back unchanged by its request id"
				w.Violate("C18", "result/changed/"+kind, "request %s: number %s after block %d, %s after block %d", e.ID, e.value, e.seenAt, res.Random.Value, h)
				e.value = res.Random.Value
			} else {
				w.Hit("C18.reread_checks")
			}
		default:
			if h == e.Due && !e.Oracle {
				w.Hit("random.absent_at_due_height")
			}
		}
	}
}

func (e *rreq) seedNote() string {
	if !e.Oracle {
		return ""
	}
	return fmt.Sprintf(", valid seed %x accepted in block %d", e.seed, e.seedAt)
}

func (e *rreq) endNote() string {
	if e.endWhy == "" {
		return "open"
	}
	return e.endWhy
}

// judgeValue compares a fresh number with the harness's own computation.
func (m *Module) judgeValue(w *engine.World, e *rreq, got string, at int64) {
	kind := "plain"
	if e.Oracle {
		kind = "oracle"
	}
	w.Hit("C18.value_checks")
	w.Hit("C18.value_checks_" + kind)
	// "a decimal in [0,1) with 20 fractional digits"
	if !valueRe.MatchString(got) {
		w.Violate("C18", "value/format/"+kind, "request %s: number %q is not a decimal in [0,1) with 20 fractional digits", e.ID, got)
		return
	}
	prev, okh := m.hash[at-1]
	t, okt := m.times[at]
	if !okh || !okt {
		return // the block before the fulfilment is not part of the observed history
	}
	// "depends only on the previous block's app hash, the block time, the requester and (if
	// used) the oracle seed"
	want, ok := expectedValue(prev, t, e.Addr, e.seed, e.Oracle)
	if !ok {
		return
	}
	if got != want {
		w.Violate("C18", "value/not-the-documented-function/"+kind, "request %s by %s fulfilled in block %d (previous app hash %X, block time %d%s): number %s, the documented generator gives %s",
			e.ID, e.Requester, at, prev, t, e.seedNote(), got, want)
	}
}

// countEvents: "fulfilled exactly once".
func (m *Module) countEvents(w *engine.World, e *rreq) {
	n := m.genEv[e.ID]
	if n == 0 {
		return
	}
	e.events += n
	if e.OutOfDomain {
		return
	}
	kind := "plain"
	if e.Oracle {
		kind = "oracle"
	}
	w.Hit("C18.once_checks")
	if e.events > 1 {
		w.Violate("C18", "fulfilled-more-than-once/"+kind, "request %s was fulfilled %d times (last in block %d)", e.ID, e.events, w.Height)
	}
}

// QueueCheck is the random part of C13: "every queue entry refers to an existing object while
// every object awaiting time-based processing has exactly one entry, at its due height"; after
// block h nothing is left at a height below h.
func QueueCheck(w *engine.World) {
	m, _ := w.Mod(Name).(*Module)
	if m != nil {
		m.loadGenesisBulk(w)
	}
	h := w.Height
	ctx := w.Node.Ctx()
	w.Hit("C13.random_queue_checks")
	chain := map[string]*qent{}
	w.Node.K.Random.IterateRandomRequestQueue(ctx, func(height int64, reqID []byte, r randomtypes.Request) bool {
		id := hex.EncodeToString(reqID)
		chain[qkey(height, id)] = &qent{Due: height, ID: id}
		return false
	})
	for _, key := range engine.SortedKeys(chain) {
		q := chain[key]
		if q.Due < h {
			w.Violate("C13", "queue/random/stale-entry", "random request %s queued for height %d is still in the queue after block %d", q.ID, q.Due, h)
			// C18: "... and then disappears from the pending queue"
			w.Violate("C18", "queue/left-behind", "random request %s, due at height %d, is still in the pending queue after block %d", q.ID, q.Due, h)
		}
	}
	if m == nil {
		return
	}
	for _, key := range engine.SortedKeys(chain) {
		q := chain[key]
		if m.queue[key] == nil && q.Due >= h {
			w.Violate("C13", "queue/random/unknown-entry", "queue entry (height %d, request %s) after block %d matches no accepted request that is still pending", q.Due, q.ID, h)
		}
	}
	for _, key := range engine.SortedKeys(m.queue) {
		q := m.queue[key]
		if q.Due < h {
			continue // drained by the begin block of h
		}
		if chain[key] == nil {
			w.Violate("C13", "queue/random/missing-entry", "request %s is pending until height %d but has no queue entry there after block %d", q.ID, q.Due, h)
			delete(m.queue, key)
		}
	}
}

// checkOracleEntries: a seed request that ended - answered (well or badly), failed or timed
// out - leaves no pending oracle entry behind.
func (m *Module) checkOracleEntries(w *engine.World) {
	ctx := w.Node.Ctx()
	store := ctx.KVStore(w.Node.App.GetKey(randomtypes.StoreKey))
	it := storetypes.KVStorePrefixIterator(store, randomtypes.OracleRandomRequestKey)
	have := map[string]bool{}
	for ; it.Valid(); it.Next() {
		have[strings.ToUpper(hex.EncodeToString(it.Key()[len(randomtypes.OracleRandomRequestKey):]))] = true
	}
	it.Close()
	known := map[string]*rreq{}
	for _, id := range m.ord {
		if e := m.reqs[id]; e.Oracle && e.CtxID != "" {
			known[e.CtxID] = e
		}
	}
	var ids []string
	for id := range have {
		ids = append(ids, id)
	}
	sort.Strings(ids)
	for _, cid := range ids {
		e := known[cid]
		if e == nil {
			continue // a context whose request the harness could not tie to an id (never judged)
		}
		w.Hit("C18.oracle_entry_checks")
		if e.doneAt != 0 && w.Height >= e.doneAt {
			why := e.endWhy
			if e.seedAt != 0 {
				why = "fulfilled"
			}
			w.Violate("C18", "oracle-entry/left-behind/"+why, "oracle request %s (context %s): its seed request ended in block %d (%s), the pending oracle entry is still stored after block %d",
				e.ID, cid, e.doneAt, why, w.Height)
		}
	}
}

// Final: every request whose fulfilment block is part of the history was read at least once.
func (m *Module) Final(w *engine.World) {
	ctx := w.Node.Ctx()
	for _, id := range m.ord {
		e := m.reqs[id]
		if e.OutOfDomain || e.seenAt == 0 {
			continue
		}
		res, err := w.Node.K.Random.Random(ctx, &randomtypes.QueryRandomRequest{ReqId: e.ID})
		if err != nil || res.Random == nil {
			w.Violate("C18", "result/vanished/at-end", "request %s: its number was readable after block %d and is gone at the end of the history", e.ID, e.seenAt)
		} else if res.Random.Value != e.value {
			w.Violate("C18", "result/changed/at-end", "request %s: number %s after block %d, %s at the end of the history", e.ID, e.value, e.seenAt, res.Random.Value)
		}
	}
}

// DurableQueries renders the pending queue and every known result (C12).
func (m *Module) DurableQueries(w *engine.World, n *engine.Node) []engine.KV {
	var out []engine.KV
	ctx := n.Ctx()
	if res, err := n.K.Random.RandomRequestQueue(ctx, &randomtypes.QueryRandomRequestQueueRequest{}); err != nil {
		out = append(out, engine.KV{K: "random-queue", V: "error: " + err.Error()})
	} else {
		var rows []string
		for _, r := range res.Requests {
			rows = append(rows, fmt.Sprintf("%d/%s/%s/%v/%s/%s", r.Height, r.Consumer, r.TxHash, r.Oracle, r.ServiceFeeCap, r.ServiceContextID))
		}
		sort.Strings(rows)
		out = append(out, engine.KV{K: "random-queue", V: strings.Join(rows, ";")})
	}
	// Fulfilled numbers are not part of the random module's genesis and C12's list of durable
	// objects names "pending random requests" only: results are not compared.
	return out
}

var _ = sdk.AccAddress{}
