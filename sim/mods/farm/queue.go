package farm

import (
	storetypes "cosmossdk.io/store/types"
	sdk "github.com/cosmos/cosmos-sdk/types"

	ftypes "mods.irisnet.org/modules/farm/types"

	"verif/sim/engine"
)

// QueueCheck is the farm part of C13 (b): after every block H, by raw iteration of the
// active-pool queue with the module's own key builders against the pool records:
//
//	queue == {(end height, id) | pool not yet ended}, every entry's pool exists with that
//	end height, nothing at heights <= H.
//
// "Not yet ended" is decided from the pool records alone (end height > H): a pool whose end
// height has been reached was handled by that height's end block (or by a destroy, which
// moves the end height onto the destroy block). It needs no model and can be called from
// any profile's OnCommit.
func QueueCheck(w *engine.World) {
	ctx := w.Node.Ctx()
	k := w.Node.K.Farm
	cdc := w.Node.App.AppCodec()
	key := w.Node.App.GetKey(ftypes.StoreKey)
	if key == nil {
		engine.Fatal("farm store key not found")
	}
	h := w.Height
	store := ctx.KVStore(key)
	it := storetypes.KVStorePrefixIterator(store, ftypes.ActiveFarmPoolKey)
	defer it.Close()
	queued := map[string]int{}
	n := 0
	for ; it.Valid(); it.Next() {
		n++
		kb := it.Key()
		if len(kb) < 1+8 {
			w.Violate("C13", "queue/farm/malformed-key", "active-pool queue key %x is too short", kb)
			continue
		}
		at := int64(sdk.BigEndianToUint64(kb[1:9]))
		idKey := string(kb[9:])
		idVal := ftypes.MustUnMarshalPoolId(cdc, it.Value())
		if idKey != idVal {
			w.Violate("C13", "queue/farm/key-value-mismatch", "active-pool queue entry at height %d: key names %q, value names %q", at, idKey, idVal)
		}
		queued[idVal]++
		pool, ok := k.GetPool(ctx, idVal)
		if !ok {
			w.Violate("C13", "queue/farm/orphan-entry", "after height %d the active-pool queue holds (%d, %s) but no such pool exists", h, at, idVal)
			continue
		}
		if pool.EndHeight != at {
			w.Violate("C13", "queue/farm/end-height-mismatch", "after height %d the active-pool queue holds (%d, %s) but the pool's end height is %d", h, at, idVal, pool.EndHeight)
		}
		if at <= h {
			w.Violate("C13", "queue/farm/stale-entry", "after height %d the active-pool queue still holds (%d, %s): an entry at a height that has passed can never fire", h, at, idVal)
		}
	}
	k.IteratorAllPools(ctx, func(p ftypes.FarmPool) {
		c := queued[p.Id]
		switch {
		case p.EndHeight > h && c == 0:
			w.Violate("C13", "queue/farm/missing-entry", "after height %d pool %s (end height %d) has not ended but is not in the active-pool queue: it will never end or refund", h, p.Id, p.EndHeight)
		case c > 1:
			w.Violate("C13", "queue/farm/duplicate-entry", "after height %d pool %s has %d entries in the active-pool queue", h, p.Id, c)
		}
		if p.EndHeight <= h && c == 0 {
			// "processed exactly at its due height": ending a pool releases the last rewards and
			// hands the rest of every budget back; a pool that is past its end height and off the
			// queue with budget still recorded was taken off the queue without being ended
			for _, r := range k.GetRewardRules(ctx, p.Id) {
				if r.RemainingReward.IsPositive() {
					w.Violate("C13", "queue/farm/ended-but-not-processed", "after height %d pool %s (end height %d) is off the active-pool queue but still records a remaining reward of %s%s (last distribution at height %d): its end was not carried out",
						h, p.Id, p.EndHeight, r.RemainingReward, r.Reward, p.LastHeightDistrRewards)
					break
				}
			}
		}
	})
	w.Hit("C13.farm_queue_checks")
	if n > 0 {
		w.Count("C13.farm_queue_entries_seen", int64(n))
	}
}
