package farm

import (
	"encoding/json"
	"strings"
	"time"

	storetypes "cosmossdk.io/store/types"
	sdk "github.com/cosmos/cosmos-sdk/types"

	ftypes "mods.irisnet.org/modules/farm/types"

	"verif/sim/engine"
)

// The drain lab asks C05's question at arbitrary moments of a history instead of only at
// its end: "A farmer can at any height ... whatever other farmers have done - withdraw any
// amount up to their full recorded stake ...; such a withdrawal never fails." At seeded
// block boundaries, on a throw-away branch of the committed state, every staker of every
// pool withdraws everything, in an order fixed by the fault's arguments. A shortfall of the
// reward collector that the history has not yet run into shows up here. The main chain is
// never touched.

type drainArgs struct {
	Order uint64 `json:"order"` // seed of the withdrawal order
}

// GenFaults implements engine.FaultGen.
func (m *Module) GenFaults(w *engine.World, r *engine.Rand) []engine.Fault {
	if len(m.order) == 0 || !r.Bool(0.12) {
		return nil
	}
	bz, _ := json.Marshal(drainArgs{Order: r.Uint64()})
	return []engine.Fault{{Kind: "farm_drain", Args: bz}}
}

// OnFault implements engine.FaultHandler.
func (m *Module) OnFault(w *engine.World, f engine.Fault) {
	if f.Kind != "farm_drain" {
		return
	}
	var a drainArgs
	_ = json.Unmarshal(f.Args, &a)
	type item struct {
		p     *poolM
		actor int
	}
	var items []item
	for _, p := range m.order {
		for _, fi := range m.stakers(w, p) {
			items = append(items, item{p, fi})
		}
	}
	if len(items) == 0 {
		return
	}
	// deterministic shuffle from the recorded seed
	for i := len(items) - 1; i > 0; i-- {
		j := int(engine.Mix(a.Order, "drain", uint64(i)) % uint64(i+1))
		items[i], items[j] = items[j], items[i]
	}
	n := w.Node
	ctx, _ := n.Ctx().CacheContext()
	ctx = ctx.WithBlockHeight(n.Height + 1).WithBlockTime(n.Time.Add(5 * time.Second)).
		WithEventManager(sdk.NewEventManager()).WithGasMeter(storetypes.NewInfiniteGasMeter())
	w.Hit("C05.branch_drains")
	for k, it := range items {
		addr := w.A(it.actor).Addr.String()
		stake := it.p.stakeOf(addr)
		msg := &ftypes.MsgUnstake{PoolId: it.p.ID, Amount: sdk.NewCoin(it.p.Lpt, engine.Int(stake)), Sender: addr}
		h := n.App.MsgServiceRouter().Handler(msg)
		var herr error
		perr := engine.Catch("handler", func() error { _, herr = h(ctx, msg); return nil })
		w.Hit("C05.branch_unstakes")
		if perr != nil {
			herr = perr
		}
		if herr != nil {
			class := "other"
			if strings.Contains(herr.Error(), "insufficient funds") || strings.Contains(herr.Error(), "is smaller than") {
				class = "insufficient-funds"
			}
			key := "unstake-failed/branch-drain/" + class
			if it.p.tainted != "" {
				key += "/" + it.p.tainted
			}
			w.Violate("C05", key, "on a branch of the state after block %d all %d stakers withdraw everything; withdrawal %d (farmer %s, pool %s, %s%s - the stake the accepted transactions add up to) failed: %v",
				n.Height, len(items), k+1, addr, it.p.ID, stake, it.p.Lpt, firstLine(herr.Error()))
			return
		}
	}
}

func firstLine(s string) string {
	if i := strings.IndexByte(s, '\n'); i >= 0 {
		return s[:i]
	}
	return s
}
