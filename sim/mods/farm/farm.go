// Package farm is the farm workload (pool creators, farmers, governor, strangers) and the
// oracles of C05 (principal exactly accounted for and always withdrawable) and C06 (rewards
// conserved and paid pro rata), plus the farm part of the C13 queue-hygiene check.
//
// Files: farm.go = configuration, generator, message building; oracle.go = the exact
// reference model and every comparison; queue.go = QueueCheck (raw active-pool queue).
package farm

import (
	"encoding/json"
	"fmt"
	"math/big"
	"sort"

	sdkmath "cosmossdk.io/math"
	sdk "github.com/cosmos/cosmos-sdk/types"
	authtypes "github.com/cosmos/cosmos-sdk/x/auth/types"
	banktypes "github.com/cosmos/cosmos-sdk/x/bank/types"
	distrtypes "github.com/cosmos/cosmos-sdk/x/distribution/types"

	ftypes "mods.irisnet.org/modules/farm/types"
	"mods.irisnet.org/simapp"

	"verif/sim/engine"
	"verif/sim/mods/amm"
)

const (
	Name = "farm"
	Std  = "stake"
)

var (
	e18      = new(big.Int).Exp(big.NewInt(10), big.NewInt(18), nil)
	farmAddr = engine.ModAddr(ftypes.ModuleName)
	collAddr = engine.ModAddr(ftypes.RewardCollector)
	feeAddr  = engine.ModAddr(authtypes.FeeCollectorName)
	// distrAddr: the distribution module account, which holds the community pool; it is the
	// creator of a pool created through governance
	distrAddr = engine.ModAddr(distrtypes.ModuleName)
)

// Config is the per-run swarm configuration.
type Config struct {
	NPools      int      `json:"n_pools"`
	NFarmers    int      `json:"n_farmers"`
	Denoms      []string `json:"reward_denoms"` // universe of reward denoms of this run
	FeeDenom    string   `json:"fee_denom"`
	Fee         string   `json:"fee"`
	Tax         string   `json:"tax"` // 18-decimal scaled integer
	MaxCat      uint32   `json:"max_reward_categories"`
	SmallMag    float64  `json:"p_small_magnitudes"` // small coprime-ish integers vs huge values
	MaxLife     int      `json:"max_life"`           // pool lifetime in blocks
	PFuture     float64  `json:"p_future_start"`
	PEditable   float64  `json:"p_editable"`
	PRetime     float64  `json:"p_retime"`
	PStranger   float64  `json:"p_stranger"`
	PParam      float64  `json:"p_param_change"`
	PMulti      float64  `json:"p_multi_msg"`
	Donations   bool     `json:"donations"`
	HarvestBias []int    `json:"harvest_bias"` // per farmer: 0 = never harvests … 6 = harvest-happy
	WAdjust     int      `json:"w_adjust"`
	WDestroy    int      `json:"w_destroy"`
	// ManyPools > 0: ten or more pools are created early in the run (cheap ones), so that pool
	// ids that are string prefixes of each other exist (farm-1 / farm-10..), and the first
	// pool keeps being operated on
	ManyPools int `json:"many_pools"`
	// PExact: share of created pools whose budget is an exact multiple of the rate for every
	// denom, that start in the future, get their first stake exactly at the start height, are
	// never empty and expire untouched (nothing is left to refund)
	PExact float64 `json:"p_exact_budget"`
	// PCluster: chance per generator call of planning two or three operations on one pool in
	// one block (the later ones harvests/unstakes), followed by operations in later blocks
	PCluster float64 `json:"p_cluster"`
	// Gov: a pool as the governance route creates it (creator = the distribution module
	// account, i.e. the community pool; not editable), present in the chain's genesis
	Gov *govPool `json:"gov_pool,omitempty"`
}

// govPool describes the governance-created pool of a run (genesis state, see Genesis).
type govPool struct {
	Lpt     string       `json:"lpt"`
	Start   int64        `json:"start"`
	Rewards []rewardSpec `json:"rewards"`
}

type params struct {
	FeeDenom string
	Fee, Tax *big.Int
	MaxCat   uint32
}

// Module implements engine.Module.
type Module struct {
	engine.Base
	cfg Config
	par params

	order []*poolM          // pools in the order their creation was observed
	byID  map[string]*poolM // by on-chain id
	// donated: harness-made bank sends into the farm module account, per denom
	donated map[string]*big.Int
	// resolved: values fixed at Build time that OnTx needs (unstake "all")
	resolved map[int]string
	endSheet *engine.Sheet
	phase    string // run phase of the block being executed (main | quiesce | epilogue)
	// generation-only memory
	nextCreate    int64
	createsIssued int
	queue         []*engine.TxPlan // planned operations with their heights (At)
}

func New() *Module {
	return &Module{byID: map[string]*poolM{}, donated: map[string]*big.Int{}, resolved: map[int]string{}}
}

func (m *Module) Name() string { return Name }

// Weight: the farm gets a little more than half of the Gen calls; the rest goes to amm so
// that liquidity pools and LP holders exist early.
func (m *Module) Weight() int { return 13 }

var smalls = []int64{1, 2, 3, 5, 7, 11, 13, 4, 6, 9, 10, 17, 19, 23}

func taxStr(r *engine.Rand) string {
	switch r.Intn(6) {
	case 0:
		return "400000000000000000" // 0.4 (the default)
	case 1:
		return "1" // 1e-18
	case 2:
		return new(big.Int).Sub(e18, big.NewInt(1)).String() // 1 - 1e-18
	case 3:
		v := big.NewInt(1 + r.Int63n(999))
		return v.Mul(v, new(big.Int).Exp(big.NewInt(10), big.NewInt(15), nil)).String()
	default:
		return new(big.Int).Add(r.BigBelow(new(big.Int).Sub(e18, big.NewInt(2))), big.NewInt(1)).String()
	}
}

func feeStr(r *engine.Rand) string {
	switch r.Intn(5) {
	case 0:
		return "0"
	case 1:
		return "5000"
	case 2:
		return big.NewInt(1 + r.Int63n(9)).String()
	default:
		return r.BigLogUniform(60).String()
	}
}

func (m *Module) Configure(w *engine.World, r *engine.Rand) any {
	c := Config{NPools: 1 + r.Intn(3), NFarmers: 3 + r.Intn(4)}
	c.Denoms = []string{"rwa", "rwb", "rwc"}[:1+r.Intn(3)]
	if r.Bool(0.2) {
		c.Denoms = append(c.Denoms, Std)
	}
	c.FeeDenom = Std
	if r.Bool(0.2) {
		c.FeeDenom = c.Denoms[r.Intn(len(c.Denoms))]
	}
	c.Fee = feeStr(r)
	c.Tax = taxStr(r)
	c.MaxCat = uint32(1 + r.Intn(3))
	c.SmallMag = []float64{0.95, 0.8, 0.5, 0.2, 0.05}[r.Intn(5)]
	c.MaxLife = []int{8, 20, 40, 70}[r.Intn(4)]
	c.PFuture = 0.6 * r.Float()
	c.PEditable = 0.3 + 0.7*r.Float()
	c.PRetime = 0.5 * r.Float()
	c.PStranger = 0.25 * r.Float()
	if r.Bool(0.5) {
		c.PParam = 0.04 * r.Float()
	}
	c.PMulti = 0.2 * r.Float()
	// Transfers straight into the farm module account are off: a production application
	// blocks module addresses as recipients, and an unexpected balance there breaks the
	// module's own registered invariant, which the application asserts at genesis import
	// (DESIGN.md section 14, "application wiring").
	_ = r.Bool(0.4)
	c.Donations = false
	for i := 0; i < c.NFarmers; i++ {
		c.HarvestBias = append(c.HarvestBias, []int{0, 0, 1, 2, 6}[r.Intn(5)])
	}
	c.WAdjust = r.Intn(4)
	c.WDestroy = r.Intn(3)
	if r.Bool(0.2) {
		c.ManyPools = 10 + r.Intn(5)
	}
	c.PExact = []float64{0, 0.15, 0.3, 0.5}[r.Intn(4)]
	c.PCluster = 0.02 + 0.1*r.Float()
	if r.Bool(0.3) {
		g := &govPool{Lpt: "lpt-1", Start: 2 + int64(r.Intn(8))}
		life := int64(6 + r.Intn(40))
		nr := 1 + r.Intn(2)
		if nr > int(c.MaxCat) {
			nr = int(c.MaxCat) // the run's own genesis stays within the limit its parameters state
		}
		for i, d := range []string{"rwg", "rwh"}[:nr] {
			var rate *big.Int
			if r.Bool(c.SmallMag) {
				rate = big.NewInt(smalls[r.Intn(len(smalls))])
			} else {
				rate = r.BigLogUniform(96)
			}
			total := new(big.Int).Mul(rate, big.NewInt(life+int64(i*r.Intn(5))))
			if r.Bool(0.6) {
				total.Add(total, r.BigBelow(rate))
			}
			g.Rewards = append(g.Rewards, rewardSpec{Denom: d, Total: total.String(), Rate: rate.String()})
		}
		c.Gov = g
	}
	return c
}

func bigOf(s string) *big.Int {
	v, ok := new(big.Int).SetString(s, 10)
	if !ok {
		engine.Fatal("farm: bad integer %q", s)
	}
	return v
}

func (m *Module) LoadConfig(w *engine.World, raw json.RawMessage) {
	if err := json.Unmarshal(raw, &m.cfg); err != nil {
		engine.Fatal("farm config: %v", err)
	}
	m.par = params{FeeDenom: m.cfg.FeeDenom, Fee: bigOf(m.cfg.Fee), Tax: bigOf(m.cfg.Tax), MaxCat: m.cfg.MaxCat}
}

func (m *Module) Setup(w *engine.World) {
	per := new(big.Int).Lsh(big.NewInt(1), 140)
	for _, d := range m.cfg.Denoms {
		w.NeedDenom(d, per)
	}
	w.NeedDenom(Std, per)
}

func sdkParams(p params) ftypes.Params {
	return ftypes.Params{
		PoolCreationFee:     sdk.NewCoin(p.FeeDenom, engine.Int(p.Fee)),
		MaxRewardCategories: p.MaxCat,
		TaxRate:             sdkmath.LegacyNewDecFromBigIntWithPrec(p.Tax, 18),
	}
}

func (m *Module) Genesis(w *engine.World, n *engine.Node, gs simapp.GenesisState) {
	cdc := n.App.AppCodec()
	var g ftypes.GenesisState
	cdc.MustUnmarshalJSON(gs[ftypes.ModuleName], &g)
	g.Params = sdkParams(m.par)
	if err := g.Params.Validate(); err != nil {
		engine.Fatal("farm: generated invalid params: %v", err)
	}
	if gp := m.cfg.Gov; gp != nil {
		// The state HandleCreateFarmProposal produces when a community-pool farm proposal
		// passes: creator = distribution module account, not editable, budget in the farm
		// module account. (The message route itself cannot run in this application: its app
		// config has no escrow_collector module account and no farm route in gov's legacy
		// router, so MsgCreatePoolWithCommunityPool aborts in the bank keeper.) The chain
		// starts from a genesis that already contains such a pool, as after an export/import.
		pool := ftypes.FarmPool{Id: govPoolID, Creator: distrAddr, Description: "created by governance",
			StartHeight: w.Base() + gp.Start, EndHeight: w.Base() + gp.end(), Editable: false,
			TotalLptLocked: sdk.NewCoin(gp.Lpt, sdkmath.ZeroInt())}
		var budget sdk.Coins
		for _, rw := range gp.Rewards {
			pool.Rules = append(pool.Rules, ftypes.RewardRule{Reward: rw.Denom, TotalReward: engine.Int(bigOf(rw.Total)),
				RemainingReward: engine.Int(bigOf(rw.Total)), RewardPerBlock: engine.Int(bigOf(rw.Rate)), RewardPerShare: sdkmath.LegacyZeroDec()})
			budget = budget.Add(coin(rw.Denom, rw.Total))
		}
		g.Pools = append(g.Pools, pool)
		if g.Sequence < 1 {
			g.Sequence = 1
		}
		var bg banktypes.GenesisState
		cdc.MustUnmarshalJSON(gs[banktypes.ModuleName], &bg)
		bg.Balances = append(bg.Balances, banktypes.Balance{Address: farmAddr, Coins: budget})
		bg.Supply = bg.Supply.Add(budget...)
		gs[banktypes.ModuleName] = cdc.MustMarshalJSON(&bg)
	}
	gs[ftypes.ModuleName] = cdc.MustMarshalJSON(&g)
}

const govPoolID = "farm-1"

// end = start + min_i floor(budget_i/rate_i), what createPool computes.
func (g *govPool) end() int64 {
	var life *big.Int
	for _, rw := range g.Rewards {
		q := new(big.Int).Quo(bigOf(rw.Total), bigOf(rw.Rate))
		if life == nil || q.Cmp(life) < 0 {
			life = q
		}
	}
	return g.Start + life.Int64()
}

// Started installs the model of the governance-created pool that the genesis carries.
func (m *Module) Started(w *engine.World) {
	gp := m.cfg.Gov
	if gp == nil {
		return
	}
	p := &poolM{Idx: len(m.order), ID: govPoolID, Creator: distrAddr, CreatorIdx: -1, Lpt: gp.Lpt, Editable: false,
		Start: w.Base() + gp.Start, End: w.Base() + gp.end(), Rate: map[string]*big.Int{}, Funded: map[string]*big.Int{},
		Released: map[string]*big.Int{}, Refunded: map[string]*big.Int{}, PaidOut: map[string]*big.Int{},
		Total: new(big.Int), Far: map[string]*farmerM{}, gov: true}
	p.Last = p.Start
	for _, rw := range gp.Rewards {
		p.Denoms = append(p.Denoms, rw.Denom)
		p.Rate[rw.Denom] = bigOf(rw.Rate)
		p.Funded[rw.Denom] = bigOf(rw.Total)
		p.Released[rw.Denom] = new(big.Int)
		p.Refunded[rw.Denom] = new(big.Int)
		p.PaidOut[rw.Denom] = new(big.Int)
	}
	sort.Strings(p.Denoms)
	m.order = append(m.order, p)
	m.byID[p.ID] = p
	w.Label(fmt.Sprintf("farm.pool.%d", p.Idx), p.ID)
	w.Hit("farm.gov_pool_in_genesis")
}

// ---- operations ----------------------------------------------------------------------

type rewardSpec struct {
	Denom string `json:"denom"`
	Total string `json:"total"`
	Rate  string `json:"rate"`
}
type createArgs struct {
	Lpt      string       `json:"lpt"`
	StartRel int64        `json:"start_rel"` // start height = inclusion height + StartRel
	Rewards  []rewardSpec `json:"rewards"`
	Editable bool         `json:"editable"`
	// Exact: generator's note that the budget is an exact multiple of the rate (the pool is
	// then left alone after its first stake); no effect on the message
	Exact bool `json:"exact,omitempty"`
}
type stakeArgs struct {
	Pool int    `json:"pool"` // ordinal of the pool in observed creation order; -1 = a pool id that never existed
	Amt  string `json:"amt"`
}
type unstakeArgs struct {
	Pool int    `json:"pool"`
	Amt  string `json:"amt"` // decimal, or "all" = the signer's whole stake when the tx is built
}
type harvestArgs struct {
	Pool int `json:"pool"`
}
type coinSpec struct {
	Denom string `json:"denom"`
	Amt   string `json:"amt"`
}
type adjustArgs struct {
	Pool int        `json:"pool"`
	Add  []coinSpec `json:"add,omitempty"`
	Rate []coinSpec `json:"rate,omitempty"`
}
type destroyArgs struct {
	Pool int `json:"pool"`
}
type paramArgs struct {
	FeeDenom  string `json:"fee_denom"`
	Fee       string `json:"fee"`
	Tax       string `json:"tax"`
	MaxCat    uint32 `json:"max_cat"`
	Authority string `json:"authority"`
}
type donateArgs struct {
	Denom string `json:"denom"`
	Amt   string `json:"amt"`
}
type giveArgs struct {
	To    int    `json:"to"`
	Denom string `json:"denom"`
	Amt   string `json:"amt"`
}

// mag draws a reward-per-block magnitude: a small coprime-ish integer or a huge value
// (bounded so that the 18-decimal accumulator times any stake stays inside the SDK's
// 315-bit decimal range — beyond that every implementation of the type aborts).
func (m *Module) mag(r *engine.Rand) *big.Int {
	if r.Bool(m.cfg.SmallMag) {
		return big.NewInt(smalls[r.Intn(len(smalls))])
	}
	return r.BigLogUniform(96)
}

func (m *Module) stakeAmt(r *engine.Rand, bal *big.Int) *big.Int {
	var v *big.Int
	switch {
	case r.Bool(m.cfg.SmallMag):
		v = big.NewInt(smalls[r.Intn(len(smalls))])
	case r.Bool(0.25):
		v = new(big.Int).Set(bal)
	case r.Bool(0.5):
		v = new(big.Int).Add(r.BigBelow(bal), big.NewInt(1))
	default:
		v = new(big.Int).Rsh(bal, uint(1+r.Intn(40)))
		if v.Sign() == 0 {
			v = big.NewInt(1)
		}
	}
	if v.Cmp(bal) > 0 && !r.Bool(0.03) {
		v = new(big.Int).Set(bal)
	}
	if v.Sign() <= 0 {
		v = big.NewInt(1)
	}
	return v
}

func (m *Module) lpts(w *engine.World) []string {
	if a, ok := w.Mod(amm.Name).(*amm.Module); ok && a != nil {
		return a.Pools()
	}
	return nil
}

func (m *Module) nFarmers(w *engine.World) int {
	n := m.cfg.NFarmers
	if max := len(w.Actors) - 1; n > max {
		n = max
	}
	return n
}

// retime picks a boundary height of pool p for an operation, 0 = let the transport decide.
func (m *Module) retime(w *engine.World, r *engine.Rand, p *poolM) int64 {
	if !r.Bool(m.cfg.PRetime) {
		return 0
	}
	var c []int64
	add := func(h int64) {
		if h > w.Height && h-w.Height <= 25 {
			c = append(c, h)
		}
	}
	if !p.Ended {
		add(p.Start)
		add(p.End - 1)
		add(p.End)
		add(p.End)
		add(p.End + 1)
	}
	if p.destroyAt > 0 {
		add(p.destroyAt)
		add(p.destroyAt)
		add(p.destroyAt + 1)
	}
	if len(c) == 0 {
		return 0
	}
	return c[r.Intn(len(c))]
}

func (m *Module) Gen(w *engine.World, r *engine.Rand) *engine.TxPlan {
	c := &m.cfg
	nAct := len(w.Actors) - 1 // the governor plays no other role
	if r.Bool(c.PParam) {
		return m.genParams(w, r)
	}
	// planned operations first; one whose height has passed is dropped
	for len(m.queue) > 0 {
		tp := m.queue[0]
		m.queue = m.queue[1:]
		if tp.At > w.Height {
			return tp
		}
	}
	lpts := m.lpts(w)
	if len(lpts) == 0 {
		return nil
	}
	live := 0
	for _, p := range m.order {
		if !p.Ended {
			live++
		}
	}
	if c.ManyPools > 0 && len(m.order) < c.ManyPools && m.createsIssued < c.ManyPools+4 && r.Bool(0.6) {
		// ten or more pools early in the run
		return m.genCreateCheap(w, r, lpts)
	}
	// a pool with an exact budget: its script runs once it is known
	for _, p := range m.order {
		if p.exact && !p.planned {
			p.planned = true
			m.planExact(w, r, p)
		}
	}
	if len(m.queue) == 0 && live > 0 && r.Bool(c.PCluster) {
		m.planCluster(w, r)
	}
	// 1..NPools pools alive at a time; the total over the run grows with its length
	if live < c.NPools && len(m.order) < c.NPools+3+w.Cfg.Blocks/20 && w.Height >= m.nextCreate && (live == 0 || r.Bool(0.3)) {
		m.nextCreate = w.Height + 3
		return m.genCreate(w, r, lpts)
	}
	if len(m.order) == 0 {
		return nil
	}
	if c.Donations && r.Bool(0.03) {
		ds := append([]string{}, c.Denoms...)
		ds = append(ds, m.order[r.Intn(len(m.order))].Lpt)
		d := ds[r.Intn(len(ds))]
		a := r.Intn(nAct)
		bal := w.Bal(w.A(a).Addr.String(), d)
		if bal.Sign() > 0 {
			return engine.Tx1(engine.NewOp(Name, "donate", a, donateArgs{Denom: d, Amt: m.stakeAmt(r, bal).String()}))
		}
	}
	// pick a pool: mostly one that has not ended
	p := m.order[r.Intn(len(m.order))]
	if p.Ended && live > 0 && r.Bool(0.85) {
		var lv []*poolM
		for _, q := range m.order {
			if !q.Ended {
				lv = append(lv, q)
			}
		}
		p = lv[r.Intn(len(lv))]
	}
	if c.ManyPools > 0 && !m.order[0].Ended && r.Bool(0.5) {
		p = m.order[0] // keep operating on the first pool (its id is a prefix of the tenth's)
	}
	if p.exact && !p.Ended {
		return nil // left alone until it has expired
	}
	nf := m.nFarmers(w)
	// farmers short of the pool's LP token get some from a holder (a plain bank send; the
	// liquidity itself always comes from amm's own generator)
	var holders, lacking []int
	for i := 0; i < nAct; i++ {
		if w.Bal(w.A(i).Addr.String(), p.Lpt).Sign() > 0 {
			holders = append(holders, i)
		} else if i < nf && p.stakeOf(w.A(i).Addr.String()).Sign() == 0 {
			lacking = append(lacking, i)
		}
	}
	if len(holders) > 0 && len(lacking) > 0 && r.Bool(0.25) {
		from := holders[r.Intn(len(holders))]
		bal := w.Bal(w.A(from).Addr.String(), p.Lpt)
		amt := new(big.Int).Add(r.BigBelow(bal), big.NewInt(1))
		if r.Bool(0.5) {
			amt.Rsh(amt, 1).Add(amt, big.NewInt(1))
		}
		if amt.Cmp(bal) > 0 {
			amt.Set(bal)
		}
		return engine.Tx1(engine.NewOp(Name, "givelp", from, giveArgs{To: lacking[r.Intn(len(lacking))], Denom: p.Lpt, Amt: amt.String()}))
	}
	kinds := []int{6, 4, 2, c.WAdjust, c.WDestroy} // stake, unstake, harvest, adjust, destroy
	if !p.Editable && !r.Bool(0.1) {
		kinds[3], kinds[4] = 0, 0 // a pool that is not editable refuses both; try only now and then
	}
	if p.Ended {
		// an ended pool: mostly withdrawals; now and then something that must be refused
		kinds = []int{0, 8, 0, 0, 0}
		if r.Bool(0.15) {
			kinds = []int{2, 2, 2, 1, 1}
		} else if len(m.stakers(w, p)) == 0 || r.Bool(0.5) {
			return nil // leave some stakes for the epilogue's full withdrawal
		}
	}
	switch r.Weighted(kinds) {
	case 0:
		return m.genStake(w, r, p)
	case 1:
		return m.genUnstake(w, r, p)
	case 2:
		return m.genHarvest(w, r, p)
	case 3:
		return m.genAdjust(w, r, p)
	case 4:
		return m.genDestroy(w, r, p)
	}
	return nil
}

func (m *Module) genCreate(w *engine.World, r *engine.Rand, lpts []string) *engine.TxPlan {
	c := &m.cfg
	nAct := len(w.Actors) - 1
	nf := m.nFarmers(w)
	// prefer the liquidity token most farmers hold
	best, bestN := lpts[r.Intn(len(lpts))], -1
	if r.Bool(0.7) {
		for _, l := range lpts {
			n := 0
			for i := 0; i < nf; i++ {
				if w.Bal(w.A(i).Addr.String(), l).Sign() > 0 {
					n++
				}
			}
			if n > bestN {
				best, bestN = l, n
			}
		}
	}
	a := createArgs{Lpt: best, Editable: r.Bool(c.PEditable)}
	if r.Bool(0.04) {
		a.Lpt = "lpt-99" // no such liquidity pool
	}
	if r.Bool(c.PFuture) {
		a.StartRel = 1 + int64(r.Intn(8))
	}
	n := 1 + r.Intn(int(m.par.MaxCat))
	if r.Bool(0.06) {
		n = int(m.par.MaxCat) + 1
	}
	if n > len(c.Denoms) {
		n = len(c.Denoms)
	}
	perm := r.Perm(len(c.Denoms))
	exact := r.Bool(c.PExact) && a.Lpt != "lpt-99" && n <= int(m.par.MaxCat)
	if exact {
		// budget = rate * k for every denom, start in the future, not editable
		a.Exact, a.Editable, a.StartRel = true, false, 2+int64(r.Intn(4))
	}
	k := int64(3 + r.Intn(9))
	main := c.ManyPools > 0 && m.createsIssued == 0
	for i := 0; i < n; i++ {
		rate := m.mag(r)
		life := int64(2 + r.Intn(c.MaxLife))
		if main {
			life = 40 + int64(r.Intn(30)) // the pool the run keeps operating on
		}
		if exact {
			life = k
		}
		total := new(big.Int).Mul(rate, big.NewInt(life))
		if !exact && r.Bool(0.6) {
			total.Add(total, r.BigBelow(rate)) // a remainder that never gets released
		}
		a.Rewards = append(a.Rewards, rewardSpec{Denom: c.Denoms[perm[i]], Total: total.String(), Rate: rate.String()})
	}
	m.createsIssued++
	return engine.Tx1(engine.NewOp(Name, "create", r.Intn(nAct), a))
}

// genCreateCheap: one of the many small pools of a many-pools run (the first one is an
// ordinary long-lived pool).
func (m *Module) genCreateCheap(w *engine.World, r *engine.Rand, lpts []string) *engine.TxPlan {
	if m.createsIssued == 0 {
		return m.genCreate(w, r, lpts)
	}
	c := &m.cfg
	a := createArgs{Lpt: lpts[r.Intn(len(lpts))], Editable: r.Bool(0.5), StartRel: int64(r.Intn(3))}
	if len(m.order) > 0 && r.Bool(0.6) {
		a.Lpt = m.order[0].Lpt
	}
	n := 1
	if m.par.MaxCat > 1 && len(c.Denoms) > 1 && r.Bool(0.3) {
		n = 2
	}
	perm := r.Perm(len(c.Denoms))
	for i := 0; i < n; i++ {
		rate := big.NewInt(1 + r.Int63n(7))
		life := int64(2 + r.Intn(40))
		total := new(big.Int).Mul(rate, big.NewInt(life))
		total.Add(total, big.NewInt(r.Int63n(rate.Int64())))
		a.Rewards = append(a.Rewards, rewardSpec{Denom: c.Denoms[perm[i]], Total: total.String(), Rate: rate.String()})
	}
	m.createsIssued++
	return engine.Tx1(engine.NewOp(Name, "create", r.Intn(len(w.Actors)-1), a))
}

func (m *Module) at(tp *engine.TxPlan, h int64) { tp.At = h; m.queue = append(m.queue, tp) }

// planExact: the first stake lands exactly on the start height, the pool is never empty and
// nothing touches it in its end block: it pays out its whole budget and expires on its own.
func (m *Module) planExact(w *engine.World, r *engine.Rand, p *poolM) {
	if p.Start <= w.Height {
		return
	}
	var have []int
	for i := 0; i < len(w.Actors)-1; i++ {
		if w.Bal(w.A(i).Addr.String(), p.Lpt).Sign() > 0 {
			have = append(have, i)
		}
	}
	if len(have) == 0 {
		return
	}
	small := func(f int) string {
		v := big.NewInt(smalls[r.Intn(len(smalls))])
		if bal := w.Bal(w.A(f).Addr.String(), p.Lpt); v.Cmp(bal) > 0 {
			v = bal
		}
		return v.String()
	}
	a := have[r.Intn(len(have))]
	m.at(engine.Tx1(engine.NewOp(Name, "stake", a, stakeArgs{Pool: p.Idx, Amt: small(a)})), p.Start)
	if r.Bool(0.3) { // a second farmer joins at the start as well
		b := have[r.Intn(len(have))]
		m.at(engine.Tx1(engine.NewOp(Name, "stake", b, stakeArgs{Pool: p.Idx, Amt: small(b)})), p.Start)
	}
	// the last operation comes before the end height
	if span := p.End - p.Start; span > 2 && r.Bool(0.6) {
		h := p.Start + 1 + int64(r.Intn(int(span-1)))
		if r.Bool(0.5) {
			m.at(engine.Tx1(engine.NewOp(Name, "harvest", a, harvestArgs{Pool: p.Idx})), h)
		} else {
			b := have[r.Intn(len(have))]
			m.at(engine.Tx1(engine.NewOp(Name, "stake", b, stakeArgs{Pool: p.Idx, Amt: small(b)})), h)
		}
	}
}

// planCluster: two or three operations on one pool in one block, the later ones a harvest or
// an unstake by farmers who have been in the pool for a while, then operations of the same
// farmers in later blocks.
func (m *Module) planCluster(w *engine.World, r *engine.Rand) {
	var cand []*poolM
	for _, p := range m.order {
		if !p.Ended && !p.exact && p.Start <= w.Height && p.End > w.Height+5 && len(m.stakers(w, p)) > 0 {
			cand = append(cand, p)
		}
	}
	if len(cand) == 0 {
		return
	}
	p := cand[r.Intn(len(cand))]
	st := m.stakers(w, p)
	h := w.Height + 3
	pick := func() int { return st[r.Intn(len(st))] }
	harvest := func(f int) *engine.TxPlan {
		return engine.Tx1(engine.NewOp(Name, "harvest", f, harvestArgs{Pool: p.Idx}))
	}
	unstake := func(f int, all bool) *engine.TxPlan {
		amt := "1"
		if all {
			amt = "all"
		}
		return engine.Tx1(engine.NewOp(Name, "unstake", f, unstakeArgs{Pool: p.Idx, Amt: amt}))
	}
	// first operation of the block: anything
	x := pick()
	switch r.Intn(3) {
	case 0:
		m.at(harvest(x), h)
	case 1:
		m.at(unstake(x, false), h)
	default:
		f := x
		for i := 0; i < len(w.Actors)-1; i++ {
			if w.Bal(w.A(i).Addr.String(), p.Lpt).Sign() > 0 && r.Bool(0.5) {
				f = i
				break
			}
		}
		m.at(engine.Tx1(engine.NewOp(Name, "stake", f, stakeArgs{Pool: p.Idx, Amt: big.NewInt(smalls[r.Intn(len(smalls))]).String()})), h)
	}
	b := pick()
	m.at(harvest(b), h)
	c := pick()
	if r.Bool(0.6) {
		if r.Bool(0.5) {
			m.at(harvest(c), h)
		} else {
			m.at(unstake(c, false), h)
		}
	}
	// later blocks: the same farmers again
	m.at(harvest(b), h+1+int64(r.Intn(3)))
	if r.Bool(0.7) {
		m.at(unstake(b, r.Bool(0.5)), h+2+int64(r.Intn(4)))
	}
	if r.Bool(0.5) {
		m.at(unstake(c, r.Bool(0.3)), h+1+int64(r.Intn(4)))
	}
	sort.SliceStable(m.queue, func(i, j int) bool { return m.queue[i].At < m.queue[j].At })
}

func (m *Module) withAt(w *engine.World, r *engine.Rand, p *poolM, tp *engine.TxPlan) *engine.TxPlan {
	if at := m.retime(w, r, p); at > 0 {
		tp.At = at
	}
	return tp
}

func (m *Module) genStake(w *engine.World, r *engine.Rand, p *poolM) *engine.TxPlan {
	nf := m.nFarmers(w)
	var have []int
	for i := 0; i < nf; i++ {
		if w.Bal(w.A(i).Addr.String(), p.Lpt).Sign() > 0 {
			have = append(have, i)
		}
	}
	if len(have) == 0 {
		if !r.Bool(0.05) {
			return nil
		}
		have = []int{r.Intn(nf)}
	}
	f := have[r.Intn(len(have))]
	bal := w.Bal(w.A(f).Addr.String(), p.Lpt)
	if bal.Sign() == 0 {
		bal = big.NewInt(5)
	}
	idx := p.Idx
	if r.Bool(0.01) {
		idx = -1
	}
	ops := []*engine.Op{engine.NewOp(Name, "stake", f, stakeArgs{Pool: idx, Amt: m.stakeAmt(r, bal).String()})}
	if r.Bool(m.cfg.PMulti) {
		switch r.Intn(4) {
		case 0: // two stakes in one tx
			ops = append(ops, engine.NewOp(Name, "stake", f, stakeArgs{Pool: p.Idx, Amt: m.stakeAmt(r, bal).String()}))
		case 1: // stake then harvest
			ops = append(ops, engine.NewOp(Name, "harvest", f, harvestArgs{Pool: p.Idx}))
		case 2: // stake, then a tail that cannot succeed: the whole tx must leave no trace
			over := new(big.Int).Lsh(big.NewInt(1), 200)
			ops = append(ops, engine.NewOp(Name, "unstake", f, unstakeArgs{Pool: p.Idx, Amt: over.String()}))
		default: // stake here and in another pool
			q := m.order[r.Intn(len(m.order))]
			b2 := w.Bal(w.A(f).Addr.String(), q.Lpt)
			if b2.Sign() > 0 {
				ops = append(ops, engine.NewOp(Name, "stake", f, stakeArgs{Pool: q.Idx, Amt: m.stakeAmt(r, b2).String()}))
			}
		}
	}
	return m.withAt(w, r, p, &engine.TxPlan{Ops: ops})
}

func (m *Module) stakers(w *engine.World, p *poolM) []int {
	var out []int
	for i := 0; i < len(w.Actors)-1; i++ {
		if p.stakeOf(w.A(i).Addr.String()).Sign() > 0 {
			out = append(out, i)
		}
	}
	return out
}

func (m *Module) genUnstake(w *engine.World, r *engine.Rand, p *poolM) *engine.TxPlan {
	st := m.stakers(w, p)
	if len(st) == 0 {
		if !r.Bool(0.05) {
			return nil
		}
		return engine.Tx1(engine.NewOp(Name, "unstake", r.Intn(m.nFarmers(w)), unstakeArgs{Pool: p.Idx, Amt: "1"}))
	}
	f := st[r.Intn(len(st))]
	have := p.stakeOf(w.A(f).Addr.String())
	var amt string
	switch {
	case r.Bool(0.35):
		amt = "all"
	case r.Bool(0.05):
		amt = new(big.Int).Add(have, big.NewInt(1+r.Int63n(3))).String() // more than the stake
	default:
		v := m.stakeAmt(r, have)
		if v.Cmp(have) > 0 {
			v = have
		}
		amt = v.String()
	}
	ops := []*engine.Op{engine.NewOp(Name, "unstake", f, unstakeArgs{Pool: p.Idx, Amt: amt})}
	if r.Bool(m.cfg.PMulti) {
		switch r.Intn(3) {
		case 0: // harvest first, then withdraw
			ops = []*engine.Op{engine.NewOp(Name, "harvest", f, harvestArgs{Pool: p.Idx}), ops[0]}
		case 1: // withdraw, then stake a little again
			ops = append(ops, engine.NewOp(Name, "stake", f, stakeArgs{Pool: p.Idx, Amt: big.NewInt(smalls[r.Intn(len(smalls))]).String()}))
		default: // two partial withdrawals
			ops = append(ops, engine.NewOp(Name, "unstake", f, unstakeArgs{Pool: p.Idx, Amt: "1"}))
		}
	}
	return m.withAt(w, r, p, &engine.TxPlan{Ops: ops})
}

func (m *Module) genHarvest(w *engine.World, r *engine.Rand, p *poolM) *engine.TxPlan {
	st := m.stakers(w, p)
	var wts []int
	for _, f := range st {
		b := 1
		if f < len(m.cfg.HarvestBias) {
			b = m.cfg.HarvestBias[f]
		}
		wts = append(wts, b)
	}
	sum := 0
	for _, x := range wts {
		sum += x
	}
	if len(st) == 0 || sum == 0 || r.Bool(0.04) {
		if !r.Bool(0.1) {
			return nil
		}
		return engine.Tx1(engine.NewOp(Name, "harvest", r.Intn(m.nFarmers(w)), harvestArgs{Pool: p.Idx})) // not a farmer of the pool
	}
	f := st[r.Weighted(wts)]
	ops := []*engine.Op{engine.NewOp(Name, "harvest", f, harvestArgs{Pool: p.Idx})}
	if r.Bool(0.15) {
		// twice in one tx: the second one has nothing pending
		ops = append(ops, engine.NewOp(Name, "harvest", f, harvestArgs{Pool: p.Idx}))
	}
	return m.withAt(w, r, p, &engine.TxPlan{Ops: ops})
}

func (m *Module) who(w *engine.World, r *engine.Rand, p *poolM) int {
	if r.Bool(m.cfg.PStranger) {
		return r.Intn(len(w.Actors) - 1)
	}
	return p.CreatorIdx
}

func (m *Module) genAdjust(w *engine.World, r *engine.Rand, p *poolM) *engine.TxPlan {
	a := adjustArgs{Pool: p.Idx}
	mode := r.Intn(3) // 0 top-up, 1 rate, 2 both
	for _, d := range p.Denoms {
		if mode != 1 && r.Bool(0.7) {
			amt := new(big.Int).Mul(p.Rate[d], big.NewInt(r.Range(0, 12)))
			if r.Bool(0.6) {
				amt.Add(amt, m.mag(r))
			}
			if amt.Sign() > 0 {
				a.Add = append(a.Add, coinSpec{d, amt.String()})
			}
		}
		if mode != 0 && r.Bool(0.7) {
			var nr *big.Int
			switch r.Intn(4) {
			case 0:
				nr = m.mag(r)
			case 1: // nearby
				nr = new(big.Int).Add(p.Rate[d], big.NewInt(r.Range(-2, 3)))
			case 2: // larger than what is left: the pool can only end at once
				nr = new(big.Int).Add(p.remaining(d), big.NewInt(r.Range(0, 2)))
			default:
				nr = new(big.Int).Rsh(p.Rate[d], uint(r.Intn(3)))
			}
			if nr.Sign() <= 0 {
				nr = big.NewInt(1)
			}
			a.Rate = append(a.Rate, coinSpec{d, nr.String()})
		}
	}
	if r.Bool(0.04) {
		a.Add = append(a.Add, coinSpec{"rwz", "5"}) // not a reward of the pool
	}
	if len(a.Add) == 0 && len(a.Rate) == 0 {
		d := p.Denoms[r.Intn(len(p.Denoms))]
		a.Add = []coinSpec{{d, new(big.Int).Add(p.Rate[d], big.NewInt(r.Range(0, 5))).String()}}
	}
	tp := engine.Tx1(engine.NewOp(Name, "adjust", m.who(w, r, p), a))
	return m.withAt(w, r, p, tp)
}

func (m *Module) genDestroy(w *engine.World, r *engine.Rand, p *poolM) *engine.TxPlan {
	tp := engine.Tx1(engine.NewOp(Name, "destroy", m.who(w, r, p), destroyArgs{Pool: p.Idx}))
	switch {
	case p.Ended:
	case r.Bool(0.25) && p.End > w.Height && p.End-w.Height <= 25:
		tp.At = p.End // destroy in the end block
	case r.Bool(0.5):
		tp.At = w.Height + 1 + int64(r.Intn(8))
	}
	if tp.At > 0 && tp.Ops[0].Actor == p.CreatorIdx {
		p.destroyAt = tp.At // other operations get retimed onto the destroy block
	}
	return tp
}

func (m *Module) genParams(w *engine.World, r *engine.Rand) *engine.TxPlan {
	a := paramArgs{FeeDenom: m.par.FeeDenom, Fee: feeStr(r), Tax: taxStr(r), MaxCat: uint32(1 + r.Intn(3))}
	if r.Bool(0.15) {
		a.FeeDenom = m.cfg.Denoms[r.Intn(len(m.cfg.Denoms))]
	}
	actor := w.Governor().Idx
	a.Authority = w.Governor().Addr.String()
	if r.Bool(0.3) {
		// a stranger tries, honestly naming itself or naming the governor
		actor = r.Intn(len(w.Actors) - 1)
		if r.Bool(0.5) {
			a.Authority = w.A(actor).Addr.String()
		}
	}
	tp := engine.Tx1(engine.NewOp(Name, "params", actor, a))
	tp.NoOOG = true
	return tp
}

func coin(denom, amt string) sdk.Coin { return sdk.Coin{Denom: denom, Amount: engine.Int(bigOf(amt))} }

func coinsOf(cs []coinSpec) sdk.Coins {
	if len(cs) == 0 {
		return nil
	}
	var out sdk.Coins
	for _, c := range cs {
		out = append(out, coin(c.Denom, c.Amt))
	}
	return out.Sort()
}

func (m *Module) poolID(idx int) (string, error) {
	if idx == -1 {
		return "farm-9999", nil
	}
	if idx < 0 || idx >= len(m.order) {
		return "", fmt.Errorf("pool #%d not created in this history", idx)
	}
	return m.order[idx].ID, nil
}

func (m *Module) Build(w *engine.World, op *engine.Op) (sdk.Msg, error) {
	sender := w.A(op.Actor).Addr.String()
	switch op.Kind {
	case "create":
		var a createArgs
		op.Decode(&a)
		msg := &ftypes.MsgCreatePool{Description: fmt.Sprintf("pool of op %d", op.ID), LptDenom: a.Lpt,
			StartHeight: w.Height + a.StartRel, Editable: a.Editable, Creator: sender}
		for _, rw := range a.Rewards {
			msg.RewardPerBlock = append(msg.RewardPerBlock, coin(rw.Denom, rw.Rate))
			msg.TotalReward = append(msg.TotalReward, coin(rw.Denom, rw.Total))
		}
		msg.RewardPerBlock, msg.TotalReward = msg.RewardPerBlock.Sort(), msg.TotalReward.Sort()
		return msg, nil
	case "stake":
		var a stakeArgs
		op.Decode(&a)
		id, err := m.poolID(a.Pool)
		if err != nil {
			return nil, err
		}
		lpt := "lpt-1"
		if a.Pool >= 0 {
			lpt = m.order[a.Pool].Lpt
		}
		return &ftypes.MsgStake{PoolId: id, Amount: coin(lpt, a.Amt), Sender: sender}, nil
	case "unstake":
		var a unstakeArgs
		op.Decode(&a)
		id, err := m.poolID(a.Pool)
		if err != nil {
			return nil, err
		}
		lpt := "lpt-1"
		if a.Pool >= 0 {
			lpt = m.order[a.Pool].Lpt
		}
		amt := a.Amt
		if amt == "all" {
			if a.Pool < 0 {
				return nil, fmt.Errorf("no such pool")
			}
			have := m.order[a.Pool].stakeOf(sender)
			if have.Sign() <= 0 {
				return nil, fmt.Errorf("nothing staked")
			}
			amt = have.String()
			m.resolved[op.ID] = amt
		}
		return &ftypes.MsgUnstake{PoolId: id, Amount: coin(lpt, amt), Sender: sender}, nil
	case "harvest":
		var a harvestArgs
		op.Decode(&a)
		id, err := m.poolID(a.Pool)
		if err != nil {
			return nil, err
		}
		return &ftypes.MsgHarvest{PoolId: id, Sender: sender}, nil
	case "adjust":
		var a adjustArgs
		op.Decode(&a)
		id, err := m.poolID(a.Pool)
		if err != nil {
			return nil, err
		}
		return &ftypes.MsgAdjustPool{PoolId: id, AdditionalReward: coinsOf(a.Add), RewardPerBlock: coinsOf(a.Rate), Creator: sender}, nil
	case "destroy":
		var a destroyArgs
		op.Decode(&a)
		id, err := m.poolID(a.Pool)
		if err != nil {
			return nil, err
		}
		return &ftypes.MsgDestroyPool{PoolId: id, Creator: sender}, nil
	case "params":
		var a paramArgs
		op.Decode(&a)
		return &ftypes.MsgUpdateParams{Authority: a.Authority, Params: sdkParams(params{FeeDenom: a.FeeDenom,
			Fee: bigOf(a.Fee), Tax: bigOf(a.Tax), MaxCat: a.MaxCat})}, nil
	case "donate":
		var a donateArgs
		op.Decode(&a)
		to, _ := sdk.AccAddressFromBech32(farmAddr)
		return engine.BankSendMsg(w.A(op.Actor).Addr, to, sdk.NewCoins(coin(a.Denom, a.Amt))), nil
	case "givelp":
		var a giveArgs
		op.Decode(&a)
		return engine.BankSendMsg(w.A(op.Actor).Addr, w.A(a.To).Addr, sdk.NewCoins(coin(a.Denom, a.Amt))), nil
	}
	return nil, fmt.Errorf("unknown op %s", op.Kind)
}

// MaxDue: the largest end height of a pool that has not ended yet.
func (m *Module) MaxDue(w *engine.World) int64 {
	var d int64
	for _, p := range m.order {
		if !p.Ended && p.End > d {
			d = p.End
		}
	}
	return d
}

// Epilogue: every farmer withdraws everything, in a PRNG-chosen order.
func (m *Module) Epilogue(w *engine.World, r *engine.Rand) []*engine.TxPlan {
	var out []*engine.TxPlan
	for _, p := range m.order {
		for _, f := range m.stakers(w, p) {
			out = append(out, engine.Tx1(engine.NewOp(Name, "unstake", f, unstakeArgs{Pool: p.Idx, Amt: "all"})))
		}
	}
	perm := r.Perm(len(out))
	sh := make([]*engine.TxPlan, len(out))
	for i, j := range perm {
		sh[i] = out[j]
	}
	return sh
}
