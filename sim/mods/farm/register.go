package farm

import (
	"verif/sim/engine"
	"verif/sim/mods/amm"
)

// Register installs the farm profile and the properties it decides.
func Register() {
	engine.RegisterProfile(&engine.Profile{
		Name: "farm",
		Mods: func() []engine.Module { return []engine.Module{amm.New(), New()} },
		Tune: func(c *engine.EngineConfig, r *engine.Rand) {
			c.OpsPerBlock = 2.5 + 5*r.Float()
			if b := 35 + r.Intn(45); c.Blocks < 80 { // the thorough tier's longer runs stay as sampled
				c.Blocks = b
			}
		},
	})
	engine.RegisterProperty(&engine.Property{
		ID: "C05", Profile: "farm",
		NonTrivial: func(c map[string]int64) bool {
			return c["C05.unstake_verdicts"] > 2 && c["C05.escrow_checks"] > 0 && c["C05.stake_sum_checks"] > 0 && c["C05.principal_move_checks"] > 4
		},
		Probes: []string{"C05.unstake_verdicts", "C05.escrow_checks", "C05.stake_sum_checks", "C05.principal_move_checks",
			"farm.unstake_live", "farm.unstake_end_block", "farm.unstake_after_end", "farm.unstake_after_destroy",
			"farm.unstake_destroy_block", "farm.stake_end_block", "farm.stake_at_start_height", "farm.stake_before_start_rejected",
			"farm.stake_after_end_rejected", "farm.epilogue_unstakes", "farm.full_withdrawal", "farm.pool_future_start",
			"farm.multi_denom_pool", "farm.destroy_with_stakers", "farm.pool_ended_with_stakers", "farm.huge_stake",
			"farm.unstake_beyond_stake_rejected", "farm.multi_msg_tx_accepted", "farm.multi_msg_tx_rolled_back",
			"C13.farm_queue_checks", "C05.branch_drains", "C05.unstake_reward_checks", "farm.tenth_pool_created",
			"farm.op_on_pool_whose_id_prefixes_another", "farm.same_block_later_harvest", "farm.same_block_later_unstake",
			"farm.three_ops_one_pool_one_block", "farm.pool_expired_nothing_to_refund_last_span_in_end_block"},
		Rule: "a run is non-trivial when more than two withdrawals within the recorded stake had their verdict compared (must succeed), more than four accepted stake/unstake messages had their balance sheet compared, and the per-pool stake sums and the escrow identity were compared after blocks; distinct = different fingerprint of the executed (operation kind, outcome class) sequence",
	})
	engine.RegisterProperty(&engine.Property{
		ID: "C06", Profile: "farm",
		NonTrivial: func(c map[string]int64) bool {
			return c["C06.release_spans"] > 2 && c["C06.payout_checks"] > 2 && c["C06.budget_checks"] > 0 &&
				c["C06.refund_end_block"]+c["C06.refund_destroy"] > 0 && c["C06.farmer_share_checks"] > 0
		},
		Probes: []string{"C06.release_spans", "C06.payout_checks", "C06.budget_checks", "C06.budget_escrow_checks",
			"C06.refund_end_block", "C06.refund_destroy", "C06.end_height_create", "C06.end_height_adjust",
			"C06.farmer_share_checks", "farm.farmer_rounding_nonzero", "farm.adjust_topup", "farm.adjust_rate",
			"farm.adjust_end_block", "farm.adjust_before_start", "farm.adjust_ends_pool_at_once", "farm.destroy_end_block",
			"farm.destroy_before_start", "farm.harvest", "farm.harvest_zero_pending", "farm.harvest_end_block",
			"farm.harvest_after_end_rejected", "farm.span_without_stake", "farm.multi_denom_different_exhaustion",
			"farm.pools_end_same_height", "farm.pool_ended_budget_exhausted", "farm.params_changed", "farm.params_rejected",
			"farm.gov_pool_in_genesis", "farm.gov_pool_expired", "C06.community_pool_checks", "farm.tenth_pool_created",
			"farm.op_on_pool_whose_id_prefixes_another", "farm.same_block_later_harvest",
			"farm.pool_expired_nothing_to_refund_last_span_in_end_block"},
		Rule: "a run is non-trivial when more than two positive release spans were accounted, more than two payouts were compared with the exact model, the budget identity was compared after blocks, at least one pool ended (end block or destroy) with its refund compared, and at least one farmer who withdrew everything had the cumulative payout judged against the exact stake-weighted share; distinct = different fingerprint of the executed (operation kind, outcome class) sequence",
	})
}
