package farm

import (
	"fmt"
	"math/big"
	"sort"
	"strings"

	sdkmath "cosmossdk.io/math"
	sdk "github.com/cosmos/cosmos-sdk/types"

	ftypes "mods.irisnet.org/modules/farm/types"

	"verif/sim/engine"
)

// ---- the reference model ---------------------------------------------------------------
//
// Exact, in big.Int / big.Rat, driven only by accepted transactions and block boundaries.
// Per pool and reward denom: funded, released, refunded. Rewards are released for a span
// of blocks (last, h] at rate·span iff somebody is staked during the span; stake and rate
// changes take effect at their transaction; nothing is released before the start height or
// after the end height. Per farmer: the exact integral Σ released·stake/total.

type farmerM struct {
	Stake *big.Int
	Exact map[string]*big.Rat // exact stake-weighted share of the released rewards
	Paid  map[string]*big.Int // what the bank actually moved to the farmer as reward
	Inter int64               // accepted stake/unstake/harvest messages ("interactions")
	Trunc *big.Rat            // Σ over accumulator updates while staked of stake·10⁻¹⁸
}

type poolM struct {
	Idx        int
	ID         string
	Creator    string
	CreatorIdx int
	Lpt        string
	Editable   bool
	Start, End int64
	Last       int64 // height up to which releases are accounted
	Ended      bool
	EndedBy    string // expiry | destroy
	EndedAt    int64
	Denoms     []string
	Rate       map[string]*big.Int
	Funded     map[string]*big.Int
	Released   map[string]*big.Int
	Refunded   map[string]*big.Int
	PaidOut    map[string]*big.Int
	Total      *big.Int
	Far        map[string]*farmerM
	createdAt  int64
	adjustedAt int64
	// tainted: a finding about this pool's own bookkeeping already fired (its end height
	// promises more than its budget); what follows from it is reported under keys of its own
	tainted string
	// opsAt/opsN: accepted messages on this pool in the block being executed (probes)
	opsAt int64
	opsN  int
	// gov: created by the governance route (creator = distribution module account): the
	// remaining budget goes back to the community pool
	gov bool
	// exact: generator's note (budget = rate * k); planned, destroyAt: generation-only
	exact, planned bool
	destroyAt      int64
}

func (p *poolM) stakeOf(addr string) *big.Int {
	if f := p.Far[addr]; f != nil {
		return f.Stake
	}
	return new(big.Int)
}

func (p *poolM) farmer(addr string) *farmerM {
	f := p.Far[addr]
	if f == nil {
		f = &farmerM{Stake: new(big.Int), Exact: map[string]*big.Rat{}, Paid: map[string]*big.Int{}, Trunc: new(big.Rat)}
		for _, d := range p.Denoms {
			f.Exact[d] = new(big.Rat)
			f.Paid[d] = new(big.Int)
		}
		p.Far[addr] = f
	}
	return f
}

// remaining = funded − released − refunded.
func (p *poolM) remaining(d string) *big.Int {
	v := new(big.Int).Sub(p.Funded[d], p.Released[d])
	return v.Sub(v, p.Refunded[d])
}

var tiny = new(big.Rat).SetFrac(big.NewInt(1), e18) // 10⁻¹⁸

// accrue brings the pool's releases up to height h and returns what was released per denom.
func (p *poolM) accrue(w *engine.World, h int64) map[string]*big.Int {
	out := map[string]*big.Int{}
	for _, d := range p.Denoms {
		out[d] = new(big.Int)
	}
	if p.Ended {
		return out
	}
	hh := h
	if hh > p.End {
		hh = p.End
	}
	span := hh - p.Last
	if span <= 0 {
		return out
	}
	p.Last = hh
	if p.Total.Sign() == 0 {
		// "only while someone is staked"
		w.Hit("farm.span_without_stake")
		return out
	}
	for _, d := range p.Denoms {
		rel := new(big.Int).Mul(p.Rate[d], big.NewInt(span))
		out[d] = rel
		p.Released[d].Add(p.Released[d], rel)
		for _, a := range engine.SortedKeys(p.Far) {
			f := p.Far[a]
			if f.Stake.Sign() > 0 {
				share := new(big.Rat).SetFrac(new(big.Int).Mul(rel, f.Stake), p.Total)
				f.Exact[d].Add(f.Exact[d], share)
			}
		}
	}
	for _, a := range engine.SortedKeys(p.Far) {
		f := p.Far[a]
		if f.Stake.Sign() > 0 {
			f.Trunc.Add(f.Trunc, new(big.Rat).Mul(new(big.Rat).SetInt(f.Stake), tiny))
		}
	}
	w.Hit("C06.release_spans")
	return out
}

// overRelease names a denom whose release due at height h exceeds the remaining budget.
func (p *poolM) overRelease(h int64) string {
	if p.Ended || p.Total.Sign() == 0 {
		return ""
	}
	hh := h
	if hh > p.End {
		hh = p.End
	}
	span := hh - p.Last
	if span <= 0 {
		return ""
	}
	for _, d := range p.Denoms {
		if new(big.Int).Mul(p.Rate[d], big.NewInt(span)).Cmp(p.remaining(d)) > 0 {
			return d
		}
	}
	return ""
}

func (p *poolM) phase(h int64) string {
	switch {
	case p.Ended && p.EndedBy == "destroy" && p.EndedAt == h:
		return "destroy-block"
	case p.Ended && p.EndedBy == "destroy":
		return "after-destroy"
	case p.Ended || h > p.End:
		return "after-end"
	case h == p.End:
		return "end-block"
	case h < p.Start:
		return "before-start"
	}
	return "live"
}

// ---- balance-sheet judgement -----------------------------------------------------------

// judge compares a balance sheet with the expectation, entry by entry. A difference in the
// staked (liquidity) denom is a C05 matter ("stake/unstake move exactly the stated
// amount"), a difference in any other denom a C06 matter (escrowed budgets, releases,
// payouts, refunds).
func (m *Module) judge(w *engine.World, p *poolM, sh *engine.Sheet, want engine.Want, lpt, kind, what string) {
	keys := map[string]bool{}
	for a, dm := range want {
		for d := range dm {
			keys[a+"|"+d] = true
		}
	}
	for _, a := range sh.Addrs() {
		for _, d := range sh.Denoms(a) {
			keys[a+"|"+d] = true
		}
	}
	for _, k := range engine.SortedKeys(keys) {
		parts := strings.SplitN(k, "|", 2)
		a, d := parts[0], parts[1]
		wv := new(big.Int)
		if want[a] != nil && want[a][d] != nil {
			wv = want[a][d]
		}
		gv := sh.Of(a, d)
		if gv.Cmp(wv) == 0 {
			continue
		}
		prop, key := "C06", "reward-sheet/"+kind
		if d == lpt {
			prop, key = "C05", "principal-sheet/"+kind
		}
		m.vio(w, p, prop, key, "%s: account %s denom %s moved %s, expected %s (farm=%s collector=%s); sheet: %s",
			what, m.nameOf(w, a), d, gv, wv, farmAddr, collAddr, sh)
	}
}

func (m *Module) nameOf(w *engine.World, addr string) string {
	switch addr {
	case farmAddr:
		return "farm-module-account"
	case collAddr:
		return "reward-collector"
	case feeAddr:
		return "fee-collector"
	}
	if a := w.ActorOf(addr); a != nil {
		return fmt.Sprintf("actor%d", a.Idx)
	}
	return addr
}

// vio reports a violation about pool p; consequences of an already reported broken pool
// state get a key of their own, so that they are not mistaken for a separate defect.
func (m *Module) vio(w *engine.World, p *poolM, prop, key, format string, a ...any) {
	if p != nil && p.tainted != "" {
		key += "/after-" + p.tainted
	}
	w.Violate(prop, key, format, a...)
}

// anyTainted returns a pool with a reported broken state, if any.
func (m *Module) anyTainted() *poolM {
	for _, p := range m.order {
		if p.tainted != "" {
			return p
		}
	}
	return nil
}

func neg(v *big.Int) *big.Int { return new(big.Int).Neg(v) }

// ---- transactions ----------------------------------------------------------------------

func (m *Module) BeforeBlock(w *engine.World, bp *engine.BlockPlan) { m.phase = bp.Phase }

func (m *Module) OnTx(w *engine.World, tx *engine.TxRecord) {
	mine := 0
	for _, op := range tx.Plan.Ops {
		if op.Mod == Name {
			mine++
		}
	}
	if mine != len(tx.Plan.Ops) {
		return // the generator never mixes modules in one tx
	}
	if !tx.OK() {
		if !tx.Infra {
			m.rejected(w, tx)
		}
		return
	}
	if len(tx.Plan.Ops) > 1 {
		w.Hit("farm.multi_msg_tx_accepted")
	}
	for i, op := range tx.Plan.Ops {
		sh := tx.MsgSheet(i)
		switch op.Kind {
		case "create":
			m.onCreate(w, tx, i, op, sh)
		case "stake":
			m.onStake(w, tx, i, op, sh)
		case "unstake":
			m.onUnstake(w, tx, i, op, sh)
		case "harvest":
			m.onHarvest(w, tx, i, op, sh)
		case "adjust":
			m.onAdjust(w, tx, i, op, sh)
		case "destroy":
			m.onDestroy(w, tx, i, op, sh)
		case "params":
			var a paramArgs
			op.Decode(&a)
			if a.Authority != w.Governor().Addr.String() || op.Actor != w.Governor().Idx {
				w.Violate("C16", "authority/farm", "MsgUpdateParams signed by actor %d naming authority %s was accepted; the authority is %s", op.Actor, a.Authority, w.Governor().Addr)
			}
			m.par = params{FeeDenom: a.FeeDenom, Fee: bigOf(a.Fee), Tax: bigOf(a.Tax), MaxCat: a.MaxCat}
			w.Hit("farm.params_changed")
		case "donate":
			var a donateArgs
			op.Decode(&a)
			if m.donated[a.Denom] == nil {
				m.donated[a.Denom] = new(big.Int)
			}
			m.donated[a.Denom].Add(m.donated[a.Denom], bigOf(a.Amt))
			w.Hit("farm.donation")
		case "givelp":
		}
	}
}

func (m *Module) poolOf(idx int) *poolM {
	if idx < 0 || idx >= len(m.order) {
		return nil
	}
	return m.order[idx]
}

// amountOf returns the unstake amount the built message carried.
func (m *Module) amountOf(op *engine.Op, a unstakeArgs) *big.Int {
	if a.Amt == "all" {
		if s, ok := m.resolved[op.ID]; ok {
			return bigOf(s)
		}
		return nil
	}
	return bigOf(a.Amt)
}

// rejected looks at a transaction the chain refused for a reason of its own.
func (m *Module) rejected(w *engine.World, tx *engine.TxRecord) {
	if len(tx.Plan.Ops) > 1 {
		w.Hit("farm.multi_msg_tx_rolled_back")
		return
	}
	op := tx.Plan.Ops[0]
	switch op.Kind {
	case "unstake":
		var a unstakeArgs
		op.Decode(&a)
		p := m.poolOf(a.Pool)
		amt := m.amountOf(op, a)
		if p == nil || amt == nil {
			return
		}
		sender := w.A(op.Actor).Addr.String()
		have := p.stakeOf(sender)
		if amt.Sign() <= 0 || amt.Cmp(have) > 0 {
			w.Hit("farm.unstake_beyond_stake_rejected")
			return
		}
		// C05: "A farmer can at any height - before or after the pool ends or is destroyed,
		// whatever other farmers have done - withdraw any amount up to their full recorded
		// stake ... such a withdrawal never fails."
		w.Hit("C05.unstake_verdicts")
		ph := p.phase(tx.Height)
		cause := ph
		short := ""
		for _, d := range p.Denoms {
			if strings.Contains(tx.Log, d+" is smaller than") {
				short = d
			}
		}
		if short != "" && w.Bal(farmAddr, p.Lpt).Cmp(amt) >= 0 {
			// the principal was there; it is the reward payment out of the collector account
			// that could not be made
			cause = "reward-collector-short"
		}
		if over := p.overRelease(tx.Height); over != "" {
			// by the model the release due now exceeds the pool's remaining budget: the end
			// height promises more blocks than the budget can pay
			cause = "release-exceeds-budget"
		}
		m.vio(w, p, "C05", "unstake-failed/"+cause,
			"unstake of %s%s by actor %d from pool %s (phase %s, run phase %s, height %d) failed although the farmer's recorded stake is %s: %s/%d %s | pool: start %d end %d total stake %s, rates %v, released %v, paid out %v; reward collector holds %v; farm account holds %s%s; stakes: %s",
			amt, p.Lpt, op.Actor, p.ID, ph, m.phase, tx.Height, have, tx.Codespace, tx.Code, tx.Log,
			p.Start, p.End, p.Total, p.Rate, p.Released, p.PaidOut, m.balances(w, collAddr, p.Denoms), w.Bal(farmAddr, p.Lpt), p.Lpt, p.stakes(w))
	case "stake":
		var a stakeArgs
		op.Decode(&a)
		if p := m.poolOf(a.Pool); p != nil {
			switch p.phase(tx.Height) {
			case "before-start":
				w.Hit("farm.stake_before_start_rejected")
			case "after-end", "after-destroy", "destroy-block":
				w.Hit("farm.stake_after_end_rejected")
			}
		}
	case "harvest":
		var a harvestArgs
		op.Decode(&a)
		if p := m.poolOf(a.Pool); p != nil && p.Ended {
			w.Hit("farm.harvest_after_end_rejected")
		}
	case "adjust", "destroy":
		w.Hit("farm." + op.Kind + "_rejected")
	case "params":
		w.Hit("farm.params_rejected")
	case "create":
		w.Hit("farm.create_rejected")
	}
}

func (m *Module) balances(w *engine.World, addr string, denoms []string) string {
	var b strings.Builder
	for _, d := range denoms {
		fmt.Fprintf(&b, "%s%s ", w.Bal(addr, d), d)
	}
	return b.String()
}

func (p *poolM) stakes(w *engine.World) string {
	var b strings.Builder
	for _, a := range engine.SortedKeys(p.Far) {
		if f := p.Far[a]; f.Stake.Sign() > 0 {
			idx := -1
			if ac := w.ActorOf(a); ac != nil {
				idx = ac.Idx
			}
			fmt.Fprintf(&b, "actor%d=%s ", idx, f.Stake)
		}
	}
	return b.String()
}

func (m *Module) onCreate(w *engine.World, tx *engine.TxRecord, i int, op *engine.Op, sh *engine.Sheet) {
	var a createArgs
	op.Decode(&a)
	id, ok := engine.EventAttr(tx.MsgEvents(i), ftypes.EventTypeCreatePool, ftypes.AttributeValuePoolId)
	if !ok || id == "" {
		w.Violate("C05", "create/no-pool-id", "accepted MsgCreatePool reported no pool id in its %s event", ftypes.EventTypeCreatePool)
		return
	}
	if m.byID[id] != nil {
		w.Violate("C05", "create/duplicate-id", "MsgCreatePool reported pool id %s which already names pool #%d", id, m.byID[id].Idx)
		return
	}
	creator := w.A(op.Actor).Addr.String()
	p := &poolM{Idx: len(m.order), ID: id, Creator: creator, CreatorIdx: w.A(op.Actor).Idx, Lpt: a.Lpt, Editable: a.Editable,
		Start: tx.Height + a.StartRel, Rate: map[string]*big.Int{}, Funded: map[string]*big.Int{},
		Released: map[string]*big.Int{}, Refunded: map[string]*big.Int{}, PaidOut: map[string]*big.Int{},
		Total: new(big.Int), Far: map[string]*farmerM{}, createdAt: tx.Height, exact: a.Exact}
	p.Last = p.Start
	want := engine.Want{}
	var life *big.Int
	for _, rw := range a.Rewards {
		p.Denoms = append(p.Denoms, rw.Denom)
		p.Rate[rw.Denom] = bigOf(rw.Rate)
		p.Funded[rw.Denom] = bigOf(rw.Total)
		p.Released[rw.Denom] = new(big.Int)
		p.Refunded[rw.Denom] = new(big.Int)
		p.PaidOut[rw.Denom] = new(big.Int)
		// C06: "the budget funded by the creator" is escrowed in the farm account
		want.Put(creator, rw.Denom, neg(bigOf(rw.Total)))
		want.Put(farmAddr, rw.Denom, bigOf(rw.Total))
		// C06 mechanism: end height = start + min_i floor(budget_i / per-block_i)
		q := new(big.Int).Quo(bigOf(rw.Total), bigOf(rw.Rate))
		if life == nil || q.Cmp(life) < 0 {
			life = q
		}
	}
	sort.Strings(p.Denoms)
	p.End = p.Start + life.Int64()
	// the creation fee (current parameters) leaves the creator; it must not stay in the
	// escrow: part goes to the fee collector, the rest is burned
	fee := m.par.Fee
	want.Put(creator, m.par.FeeDenom, neg(fee))
	toColl := sh.Of(feeAddr, m.par.FeeDenom)
	burned := neg(sh.SupplyOf(m.par.FeeDenom))
	if toColl.Sign() < 0 || burned.Sign() < 0 || new(big.Int).Add(toColl, burned).Cmp(fee) != 0 {
		w.Violate("C05", "create/fee-split", "pool creation fee %s%s: fee collector received %s, burned %s (must add up to the fee)", fee, m.par.FeeDenom, toColl, burned)
	}
	want.Put(feeAddr, m.par.FeeDenom, toColl)
	m.judge(w, nil, sh, want, a.Lpt, "create", fmt.Sprintf("create pool %s", id))
	for _, d := range sh.SupplyDenoms() {
		if d != m.par.FeeDenom {
			w.Violate("C06", "supply/create", "pool creation changed the supply of %s by %s", d, sh.SupplyOf(d))
		}
	}
	m.order = append(m.order, p)
	m.byID[id] = p
	w.Label(fmt.Sprintf("farm.pool.%d", p.Idx), id)
	w.Hit("farm.pool_created")
	if len(m.order) == 10 {
		w.Hit("farm.tenth_pool_created")
	}
	w.Hit("C06.budget_escrow_checks")
	if a.StartRel > 0 {
		w.Hit("farm.pool_future_start")
	}
	if len(p.Denoms) > 1 {
		w.Hit("farm.multi_denom_pool")
		// different exhaustion heights: the pool ends at the earliest one
		first := new(big.Int).Quo(p.Funded[p.Denoms[0]], p.Rate[p.Denoms[0]])
		for _, d := range p.Denoms[1:] {
			if new(big.Int).Quo(p.Funded[d], p.Rate[d]).Cmp(first) != 0 {
				w.Hit("farm.multi_denom_different_exhaustion")
				break
			}
		}
	}
}

func (m *Module) noSupply(w *engine.World, sh *engine.Sheet, kind string) {
	for _, d := range sh.SupplyDenoms() {
		w.Violate("C06", "supply/"+kind, "%s changed the total supply of %s by %s", kind, d, sh.SupplyOf(d))
	}
}

// payout reads what the bank moved to the farmer in the pool's reward denoms, checks it
// against the message response, books it and applies the bounds that hold at any time.
func (m *Module) payout(w *engine.World, tx *engine.TxRecord, p *poolM, f *farmerM, sender string, sh *engine.Sheet,
	reported sdk.Coins, kind string, want engine.Want) {
	f.Inter++
	zero := true
	for _, d := range p.Denoms {
		paid := sh.Of(sender, d)
		if d == p.Lpt {
			continue
		}
		// "every reward amount returned by stake/unstake/harvest responses"
		if reported.AmountOf(d).BigInt().Cmp(paid) != 0 {
			m.vio(w, p, "C06", "response/"+kind, "%s on pool %s reported reward %s, the bank moved %s%s to the farmer", kind, p.ID, reported, paid, d)
		}
		if paid.Sign() < 0 {
			m.vio(w, p, "C06", "negative-reward/"+kind, "%s on pool %s took %s%s from the farmer", kind, p.ID, neg(paid), d)
		}
		if paid.Sign() != 0 {
			zero = false
		}
		want.Put(sender, d, paid)
		want.Put(collAddr, d, neg(paid))
		f.Paid[d].Add(f.Paid[d], paid)
		p.PaidOut[d].Add(p.PaidOut[d], paid)
		w.Hit("C06.payout_checks")
		// C06: "each farmer's cumulative payout equals their exact stake-weighted share of
		// the released rewards up to rounding (below one base unit per interaction ...)":
		// the upper side holds at any time, because the exact share only grows.
		over := new(big.Rat).Sub(new(big.Rat).SetInt(f.Paid[d]), f.Exact[d])
		if over.Cmp(new(big.Rat).SetInt64(f.Inter)) >= 0 {
			m.vio(w, p, "C06", "share/farmer-overpaid", "pool %s denom %s: farmer %s has been paid %s, exact stake-weighted share of the released rewards so far is %s (excess %s) after %d interactions: at least one base unit per interaction too much",
				p.ID, d, m.nameOf(w, sender), f.Paid[d], f.Exact[d].FloatString(6), over.FloatString(6), f.Inter)
		}
		if kind == "unstake" {
			// C05: a withdrawal pays "exactly that amount of the staked token plus their
			// accrued rewards": everything accrued so far is paid out by an unstake, so the
			// cumulative payout may fall short of the exact share only by the stated rounding
			w.Hit("C05.unstake_reward_checks")
			under := new(big.Rat).Sub(f.Exact[d], new(big.Rat).SetInt(f.Paid[d]))
			tol := new(big.Rat).Add(new(big.Rat).SetInt64(f.Inter), f.Trunc)
			if under.Cmp(tol) >= 0 {
				m.vio(w, p, "C05", "unstake/accrued-rewards-short", "pool %s denom %s: after an unstake farmer %s has been paid %s in total, the exact stake-weighted share accrued so far is %s (short by %s, tolerance %s after %d interactions)",
					p.ID, d, sender, f.Paid[d], f.Exact[d].FloatString(6), under.FloatString(6), tol.FloatString(6), f.Inter)
			}
		}
		// conservation per pool: Σ paid ≤ Σ released
		if p.PaidOut[d].Cmp(p.Released[d]) > 0 {
			m.vio(w, p, "C06", "conservation/pool-paid-more-than-released", "pool %s denom %s: farmers have been paid %s in total but only %s was released (rate %s, funded %s); the excess came out of rewards collected for other pools; this %s paid %s to %s (stakes: %s)",
				p.ID, d, p.PaidOut[d], p.Released[d], p.Rate[d], p.Funded[d], kind, paid, m.nameOf(w, sender), p.stakes(w))
		}
	}
	if zero && kind == "harvest" {
		w.Hit("farm.harvest_zero_pending")
	}
}

func (m *Module) onStake(w *engine.World, tx *engine.TxRecord, i int, op *engine.Op, sh *engine.Sheet) {
	var a stakeArgs
	op.Decode(&a)
	p := m.poolOf(a.Pool)
	if p == nil {
		w.Violate("C05", "stake/unknown-pool", "stake into pool ordinal %d accepted although the harness never saw that pool created", a.Pool)
		return
	}
	var resp ftypes.MsgStakeResponse
	tx.Resp(i, &resp)
	sender := w.A(op.Actor).Addr.String()
	amt := bigOf(a.Amt)
	ph := p.phase(tx.Height)
	m.touched(w, p, tx.Height, "stake")
	rel := p.accrue(w, tx.Height)
	f := p.farmer(sender)
	want := engine.Want{}
	// C05: "stake/unstake move exactly the stated LP amount"
	want.Put(sender, p.Lpt, neg(amt))
	want.Put(farmAddr, p.Lpt, amt)
	for _, d := range p.Denoms {
		// C06: released rewards leave the escrow for the reward collector
		want.Put(farmAddr, d, neg(rel[d]))
		want.Put(collAddr, d, rel[d])
	}
	m.payout(w, tx, p, f, sender, sh, resp.Reward, "stake", want)
	m.judge(w, p, sh, want, p.Lpt, "stake", fmt.Sprintf("stake %s into pool %s (%s) at height %d", amt, p.ID, ph, tx.Height))
	m.noSupply(w, sh, "stake")
	f.Stake = new(big.Int).Add(f.Stake, amt)
	p.Total.Add(p.Total, amt)
	w.Hit("C05.principal_move_checks")
	switch ph {
	case "end-block":
		w.Hit("farm.stake_end_block")
	case "before-start":
		w.Hit("farm.stake_before_start_accepted")
	case "after-end", "after-destroy", "destroy-block":
		w.Hit("farm.stake_after_end_accepted")
	}
	if tx.Height == p.Start {
		w.Hit("farm.stake_at_start_height")
	}
	if amt.BitLen() > 64 {
		w.Hit("farm.huge_stake")
	}
}

func (m *Module) onUnstake(w *engine.World, tx *engine.TxRecord, i int, op *engine.Op, sh *engine.Sheet) {
	var a unstakeArgs
	op.Decode(&a)
	p := m.poolOf(a.Pool)
	amt := m.amountOf(op, a)
	if p == nil || amt == nil {
		w.Violate("C05", "unstake/unknown-pool", "unstake from pool ordinal %d accepted although the harness never saw that pool created", a.Pool)
		return
	}
	var resp ftypes.MsgUnstakeResponse
	tx.Resp(i, &resp)
	sender := w.A(op.Actor).Addr.String()
	ph := p.phase(tx.Height)
	m.touched(w, p, tx.Height, "unstake")
	have := p.stakeOf(sender)
	if amt.Cmp(have) > 0 {
		// C05: "withdraw any amount up to their full recorded stake"
		m.vio(w, p, "C05", "unstake-accepted-beyond-stake", "unstake of %s%s from pool %s accepted, the farmer's recorded stake is %s", amt, p.Lpt, p.ID, have)
	}
	rel := p.accrue(w, tx.Height)
	f := p.farmer(sender)
	want := engine.Want{}
	// C05: "receiving exactly that amount of the staked token plus their accrued rewards"
	want.Put(sender, p.Lpt, amt)
	want.Put(farmAddr, p.Lpt, neg(amt))
	for _, d := range p.Denoms {
		want.Put(farmAddr, d, neg(rel[d]))
		want.Put(collAddr, d, rel[d])
	}
	m.payout(w, tx, p, f, sender, sh, resp.Reward, "unstake", want)
	m.judge(w, p, sh, want, p.Lpt, "unstake", fmt.Sprintf("unstake %s from pool %s (%s) at height %d", amt, p.ID, ph, tx.Height))
	m.noSupply(w, sh, "unstake")
	f.Stake = new(big.Int).Sub(f.Stake, amt)
	if f.Stake.Sign() < 0 {
		f.Stake.SetInt64(0)
	}
	p.Total.Sub(p.Total, amt)
	if p.Total.Sign() < 0 {
		p.Total.SetInt64(0)
	}
	w.Hit("C05.unstake_verdicts")
	w.Hit("C05.principal_move_checks")
	w.Hit("farm.unstake_" + strings.ReplaceAll(ph, "-", "_"))
	if m.phase == "epilogue" {
		w.Hit("farm.epilogue_unstakes")
	}
	if f.Stake.Sign() == 0 {
		w.Hit("farm.full_withdrawal")
	}
}

func (m *Module) onHarvest(w *engine.World, tx *engine.TxRecord, i int, op *engine.Op, sh *engine.Sheet) {
	var a harvestArgs
	op.Decode(&a)
	p := m.poolOf(a.Pool)
	if p == nil {
		w.Violate("C06", "harvest/unknown-pool", "harvest from pool ordinal %d accepted although the harness never saw that pool created", a.Pool)
		return
	}
	var resp ftypes.MsgHarvestResponse
	tx.Resp(i, &resp)
	sender := w.A(op.Actor).Addr.String()
	ph := p.phase(tx.Height)
	m.touched(w, p, tx.Height, "harvest")
	rel := p.accrue(w, tx.Height)
	f := p.farmer(sender)
	want := engine.Want{}
	for _, d := range p.Denoms {
		want.Put(farmAddr, d, neg(rel[d]))
		want.Put(collAddr, d, rel[d])
	}
	m.payout(w, tx, p, f, sender, sh, resp.Reward, "harvest", want)
	m.judge(w, p, sh, want, p.Lpt, "harvest", fmt.Sprintf("harvest from pool %s (%s) at height %d", p.ID, ph, tx.Height))
	m.noSupply(w, sh, "harvest")
	w.Hit("farm.harvest")
	if ph == "end-block" {
		w.Hit("farm.harvest_end_block")
	}
}

func (m *Module) onAdjust(w *engine.World, tx *engine.TxRecord, i int, op *engine.Op, sh *engine.Sheet) {
	var a adjustArgs
	op.Decode(&a)
	p := m.poolOf(a.Pool)
	if p == nil {
		w.Violate("C06", "adjust/unknown-pool", "adjust of pool ordinal %d accepted although the harness never saw that pool created", a.Pool)
		return
	}
	sender := w.A(op.Actor).Addr.String()
	if sender != p.Creator {
		w.Hit("farm.adjust_by_stranger_accepted")
	}
	ph := p.phase(tx.Height)
	m.touched(w, p, tx.Height, "adjust")
	rel := p.accrue(w, tx.Height)
	want := engine.Want{}
	for _, d := range p.Denoms {
		want.Put(farmAddr, d, neg(rel[d]))
		want.Put(collAddr, d, rel[d])
	}
	for _, c := range a.Add {
		if p.Funded[c.Denom] == nil {
			m.vio(w, p, "C06", "adjust/foreign-denom", "adjust of pool %s accepted a top-up in %s, which is not a reward of the pool", p.ID, c.Denom)
			continue
		}
		// C06: "the budget funded by the creator" grows by the top-up, escrowed in the farm account
		v := bigOf(c.Amt)
		p.Funded[c.Denom].Add(p.Funded[c.Denom], v)
		want.Put(sender, c.Denom, neg(v))
		want.Put(farmAddr, c.Denom, v)
		w.Hit("farm.adjust_topup")
	}
	for _, c := range a.Rate {
		if p.Rate[c.Denom] == nil {
			m.vio(w, p, "C06", "adjust/foreign-denom", "adjust of pool %s accepted a rate for %s, which is not a reward of the pool", p.ID, c.Denom)
			continue
		}
		p.Rate[c.Denom] = bigOf(c.Amt)
		w.Hit("farm.adjust_rate")
	}
	m.judge(w, p, sh, want, p.Lpt, "adjust", fmt.Sprintf("adjust pool %s (%s) at height %d", p.ID, ph, tx.Height))
	m.noSupply(w, sh, "adjust")
	p.adjustedAt = tx.Height
	switch ph {
	case "end-block":
		w.Hit("farm.adjust_end_block")
	case "before-start":
		w.Hit("farm.adjust_before_start")
	case "after-end", "after-destroy", "destroy-block":
		w.Hit("farm.adjust_after_end_accepted")
	}
}

// finish ends a pool: the remaining budget goes back to the creator, once.
func (p *poolM) finish(by string, h int64, want engine.Want) map[string]*big.Int {
	out := map[string]*big.Int{}
	for _, d := range p.Denoms {
		// C06: "the remaining budget is returned to the creator ... exactly once, when the
		// pool ends or is destroyed"
		r := p.remaining(d)
		out[d] = r
		p.Refunded[d].Add(p.Refunded[d], r)
		want.Put(farmAddr, d, neg(r))
		want.Put(p.Creator, d, r)
	}
	p.Ended, p.EndedBy, p.EndedAt = true, by, h
	if by == "destroy" {
		p.End = h
		if p.Start > h {
			p.Start = h
		}
	}
	return out
}

func (m *Module) onDestroy(w *engine.World, tx *engine.TxRecord, i int, op *engine.Op, sh *engine.Sheet) {
	var a destroyArgs
	op.Decode(&a)
	p := m.poolOf(a.Pool)
	if p == nil {
		w.Violate("C06", "destroy/unknown-pool", "destroy of pool ordinal %d accepted although the harness never saw that pool created", a.Pool)
		return
	}
	sender := w.A(op.Actor).Addr.String()
	if sender != p.Creator {
		w.Hit("farm.destroy_by_stranger_accepted")
	}
	ph := p.phase(tx.Height)
	m.touched(w, p, tx.Height, "destroy")
	if p.Ended {
		// C06: "exactly once": a second ending has nothing left to return; whatever it
		// moves shows in the sheet comparison below
		w.Hit("farm.destroy_after_end_accepted")
	}
	rel := p.accrue(w, tx.Height)
	want := engine.Want{}
	for _, d := range p.Denoms {
		want.Put(farmAddr, d, neg(rel[d]))
		want.Put(collAddr, d, rel[d])
	}
	p.finish("destroy", tx.Height, want)
	m.judge(w, p, sh, want, p.Lpt, "destroy", fmt.Sprintf("destroy pool %s (%s) at height %d", p.ID, ph, tx.Height))
	m.noSupply(w, sh, "destroy")
	w.Hit("C06.refund_destroy")
	switch ph {
	case "end-block":
		w.Hit("farm.destroy_end_block")
	case "before-start":
		w.Hit("farm.destroy_before_start")
	}
	if p.Total.Sign() > 0 {
		w.Hit("farm.destroy_with_stakers")
	}
}

// ---- block boundaries ------------------------------------------------------------------

// OnBeginBlock: nothing of the farm moves at the beginning of a block.
func (m *Module) OnBeginBlock(w *engine.World, ph *engine.Phase) {
	for _, a := range []string{farmAddr, collAddr} {
		for _, d := range ph.Sheet.Denoms(a) {
			w.Violate("C06", "escrow-moved/begin-block", "%s denom %s moved by %s in the begin block of height %d", m.nameOf(w, a), d, ph.Sheet.Of(a, d), ph.Height)
		}
	}
}

// OnEndBlock only keeps the sheet: which pools end in this block is known for certain
// only after the queries of OnCommit (an adjust in this very block may have moved an end
// height onto it).
func (m *Module) OnEndBlock(w *engine.World, ph *engine.Phase) {
	m.endSheet = ph.Sheet
	if w.Mod("service") != nil {
		// other end blockers move coins of the same accounts in this run (service refunds and
		// charges its consumers, who may be pool creators): judge only the transfers in which
		// the farm escrow or the reward collector is a party
		m.endSheet = engine.TransferSheet(ph.Events, map[string]bool{farmAddr: true, collAddr: true})
	}
}

func (m *Module) OnCommit(w *engine.World) {
	h := w.Height
	if h < w.Base()+2 {
		return // the genesis block: the bank mirror and the genesis pool's model are installed after it
	}
	ctx := w.Node.Ctx()
	k := w.Node.K.Farm
	res, err := k.FarmPools(ctx, &ftypes.QueryFarmPoolsRequest{})
	if err != nil {
		engine.Fatal("farm pools query: %v", err)
	}
	byID := map[string]*ftypes.FarmPoolEntry{}
	for _, e := range res.Pools {
		byID[e.Id] = e
		if m.byID[e.Id] == nil {
			w.Violate("C05", "pool-registry", "module lists pool %s that the harness did not see created", e.Id)
		}
	}
	// 1. end heights after create / adjust
	for _, p := range m.order {
		q := byID[p.ID]
		if q == nil {
			w.Violate("C05", "pool-registry/missing", "pool %s (created at height %d) is not listed by the pools query", p.ID, p.createdAt)
			continue
		}
		if p.Ended {
			continue
		}
		switch {
		case p.adjustedAt == h:
			// C06 after an adjust — only what the property needs: the pool does not end in
			// the past, the budget lasts to the end ("the budget funded ... always equals
			// remaining budget plus rewards already released" can only keep holding if
			// rate·(end − now) ≤ remaining), and the pool ends exactly at that height (3.)
			w.Hit("C06.end_height_adjust")
			if q.EndHeight < h {
				m.vio(w, p, "C06", "end-height/adjust-in-past", "pool %s adjusted at height %d now ends at %d, in the past: it can never end and refund", p.ID, h, q.EndHeight)
			}
			from := h // releases run from now, or from the start height of a pool that has not started
			if p.Start > from {
				from = p.Start
			}
			short := false
			for _, d := range p.Denoms {
				need := new(big.Int).Mul(p.Rate[d], big.NewInt(q.EndHeight-from))
				if need.Cmp(p.remaining(d)) > 0 {
					w.Violate("C06", "end-height/adjust-budget-short", "pool %s (start %d) adjusted at height %d ends at %d: %d blocks at %s%s per block need %s, remaining budget is %s",
						p.ID, p.Start, h, q.EndHeight, q.EndHeight-from, p.Rate[d], d, need, p.remaining(d))
					short = true
				}
			}
			if short {
				p.tainted = "adjust-budget-short"
			}
			if q.EndHeight == h {
				w.Hit("farm.adjust_ends_pool_at_once")
			}
			p.End = q.EndHeight
			if p.Start > h && q.StartHeight != p.Start {
				m.vio(w, p, "C06", "start-height/adjust", "pool %s: start height %d became %d after an adjust", p.ID, p.Start, q.StartHeight)
			}
		case p.createdAt == h:
			// C06 mechanism: "end height = start + min_i floor(budget_i / per-block_i)"
			w.Hit("C06.end_height_create")
			if q.StartHeight != p.Start || q.EndHeight != p.End {
				m.vio(w, p, "C06", "end-height/create", "pool %s created at height %d: module says start %d end %d, expected start %d end %d = start + min floor(budget/rate) (funded %v, rates %v)",
					p.ID, h, q.StartHeight, q.EndHeight, p.Start, p.End, p.Funded, p.Rate)
				p.Start, p.End = q.StartHeight, q.EndHeight
				if p.Last < p.Start {
					p.Last = p.Start
				}
			}
		}
	}
	// 2. pools ending in this block: the end block releases the last span and returns the
	// remaining budget to the creator
	want := engine.Want{}
	watch := map[string]bool{farmAddr: true, collAddr: true}
	ending := 0
	var endTaint *poolM
	for _, p := range m.order {
		watch[p.Creator] = true
		if p.Ended || p.End > h {
			continue
		}
		if p.End < h {
			// only reachable after a reported end-height violation
			p.Ended, p.EndedBy, p.EndedAt = true, "expiry", h
			continue
		}
		rel := p.accrue(w, h)
		for _, d := range p.Denoms {
			want.Put(farmAddr, d, neg(rel[d]))
			want.Put(collAddr, d, rel[d])
		}
		lastSpan := false
		for _, d := range p.Denoms {
			if rel[d].Sign() > 0 {
				lastSpan = true
			}
		}
		ref := p.finish("expiry", h, want)
		ending++
		paidOut := true
		for _, d := range p.Denoms {
			if ref[d].Sign() != 0 {
				paidOut = false
			}
		}
		if paidOut {
			// the whole budget was paid out: nothing to return to the creator
			w.Hit("farm.pool_expired_nothing_to_refund")
			if lastSpan {
				w.Hit("farm.pool_expired_nothing_to_refund_last_span_in_end_block")
			}
		}
		if p.gov {
			w.Hit("farm.gov_pool_expired")
		}
		if p.tainted != "" {
			endTaint = p
		}
		w.Hit("C06.refund_end_block")
		if p.Total.Sign() > 0 {
			w.Hit("farm.pool_ended_with_stakers")
		}
		for _, d := range p.Denoms {
			if ref[d].Sign() == 0 {
				w.Hit("farm.pool_ended_budget_exhausted")
			}
		}
	}
	if ending > 1 {
		w.Hit("farm.pools_end_same_height")
	}
	if m.endSheet != nil {
		// C06: "returned to the creator ... exactly once": in an end block the farm escrow,
		// the reward collector and the creators move by exactly the ending pools' last
		// release and refund — and by nothing in any other end block
		denoms := map[string]bool{}
		for a := range watch {
			for _, d := range m.endSheet.Denoms(a) {
				denoms[d] = true
			}
			for d := range want[a] {
				denoms[d] = true
			}
		}
		for _, a := range engine.SortedKeys(watch) {
			if w.ActorOf(a) == nil && a != farmAddr && a != collAddr && a != distrAddr {
				continue
			}
			for _, d := range engine.SortedKeys(denoms) {
				if a == distrAddr && !m.govDenom(d) {
					continue // the distribution account has a life of its own in other denoms
				}
				wv := new(big.Int)
				if want[a] != nil && want[a][d] != nil {
					wv = want[a][d]
				}
				if gv := m.endSheet.Of(a, d); gv.Cmp(wv) != 0 {
					m.vio(w, endTaint, "C06", "refund/end-block", "end block of height %d (%d pools ending): %s denom %s moved %s, expected %s; sheet: %s",
						h, ending, m.nameOf(w, a), d, gv, wv, m.endSheet)
				}
			}
		}
		m.endSheet = nil
	}
	// 3. model against the module's own records
	var locked = map[string]map[string]*big.Int{} // pool id -> farmer -> locked
	k.IteratorAllFarmInfo(ctx, func(fi ftypes.FarmInfo) {
		if locked[fi.PoolId] == nil {
			locked[fi.PoolId] = map[string]*big.Int{}
		}
		locked[fi.PoolId][fi.Address] = fi.Locked.BigInt()
	})
	sumLocked := map[string]*big.Int{}
	sumRemaining := map[string]*big.Int{}
	addTo := func(mm map[string]*big.Int, d string, v *big.Int) {
		if mm[d] == nil {
			mm[d] = new(big.Int)
		}
		mm[d].Add(mm[d], v)
	}
	for _, e := range res.Pools {
		addTo(sumLocked, e.TotalLptLocked.Denom, e.TotalLptLocked.Amount.BigInt())
		for _, c := range e.RemainingReward {
			addTo(sumRemaining, c.Denom, c.Amount.BigInt())
		}
	}
	for _, p := range m.order {
		q := byID[p.ID]
		if q == nil {
			continue
		}
		// C05: "For every farm pool the sum of all farmers' recorded stakes equals the
		// pool's recorded total"
		sum := new(big.Int)
		for _, a := range engine.SortedKeys(locked[p.ID]) {
			sum.Add(sum, locked[p.ID][a])
		}
		w.Hit("C05.stake_sum_checks")
		if sum.Cmp(q.TotalLptLocked.Amount.BigInt()) != 0 {
			m.vio(w, p, "C05", "stake-sum/"+p.phaseClass(h), "pool %s after height %d: farmers' recorded stakes add up to %s, the pool records %s (model total %s; %s)",
				p.ID, h, sum, q.TotalLptLocked.Amount, p.Total, p.stakes(w))
		}
		// the harness's own ledger of accepted stakes/unstakes agrees with the records
		if q.TotalLptLocked.Denom != p.Lpt || q.TotalLptLocked.Amount.BigInt().Cmp(p.Total) != 0 {
			m.vio(w, p, "C05", "stake-total-drift/"+p.phaseClass(h), "pool %s after height %d: accepted stakes minus accepted unstakes give %s%s, the pool records %s",
				p.ID, h, p.Total, p.Lpt, q.TotalLptLocked)
		}
		addrs := map[string]bool{}
		for a := range p.Far {
			addrs[a] = true
		}
		for a := range locked[p.ID] {
			addrs[a] = true
		}
		for _, a := range engine.SortedKeys(addrs) {
			got := new(big.Int)
			if v := locked[p.ID][a]; v != nil {
				got = v
			}
			if got.Cmp(p.stakeOf(a)) != 0 {
				m.vio(w, p, "C05", "farmer-stake-drift/"+p.phaseClass(h), "pool %s after height %d: farmer %s has accepted stakes minus unstakes of %s, the module records %s",
					p.ID, h, m.nameOf(w, a), p.stakeOf(a), got)
			}
			// the same through the farmer query
			if p.stakeOf(a).Sign() > 0 {
				if fr, err := farmerQuery(w, a, p.ID); err != nil {
					w.Hit("farm.farmer_query_error")
				} else if len(fr.List) != 1 || fr.List[0].Locked.Amount.BigInt().Cmp(p.stakeOf(a)) != 0 {
					m.vio(w, p, "C05", "farmer-query", "pool %s after height %d: farmer query for %s returns %v, recorded stake is %s", p.ID, h, m.nameOf(w, a), fr.List, p.stakeOf(a))
				}
			}
		}
		// C06: "the budget funded by the creator always equals remaining budget plus rewards
		// already released" (and nothing remains once the budget was returned)
		for _, d := range p.Denoms {
			w.Hit("C06.budget_checks")
			tot, rem, rate := q.TotalReward.AmountOf(d).BigInt(), q.RemainingReward.AmountOf(d).BigInt(), q.RewardPerBlock.AmountOf(d).BigInt()
			if tot.Cmp(p.Funded[d]) != 0 {
				m.vio(w, p, "C06", "budget/funded", "pool %s denom %s after height %d: module records a total budget of %s, the creator funded %s", p.ID, d, h, tot, p.Funded[d])
			}
			if rem.Cmp(p.remaining(d)) != 0 {
				key := "budget/remaining"
				if p.Ended {
					key = "budget/remaining-after-end"
				}
				m.vio(w, p, "C06", key, "pool %s denom %s after height %d (ended=%v by %s at %d): module records remaining %s; funded %s − released %s − refunded %s = %s",
					p.ID, d, h, p.Ended, p.EndedBy, p.EndedAt, rem, p.Funded[d], p.Released[d], p.Refunded[d], p.remaining(d))
			}
			if rate.Cmp(p.Rate[d]) != 0 {
				m.vio(w, p, "C06", "budget/rate", "pool %s denom %s after height %d: module records %s per block, last accepted rate is %s", p.ID, d, h, rate, p.Rate[d])
			}
		}
		if len(q.TotalReward) != len(p.Denoms) {
			m.vio(w, p, "C06", "budget/denoms", "pool %s: module records rewards %s, the pool was created with %v", p.ID, q.TotalReward, p.Denoms)
		}
		if !p.Ended && q.EndHeight != p.End {
			m.vio(w, p, "C06", "end-height/drift", "pool %s after height %d: end height %d, expected %d", p.ID, h, q.EndHeight, p.End)
			p.End = q.EndHeight
		}
		if p.Ended && (q.EndHeight != p.End || !q.Expired) {
			m.vio(w, p, "C06", "end-height/after-end", "pool %s ended by %s at height %d: module says end height %d, expired=%v", p.ID, p.EndedBy, p.EndedAt, q.EndHeight, q.Expired)
		}
		w.State("farm", p.Idx, p.phaseClass(h), len(locked[p.ID]), p.Total.BitLen(), len(p.Denoms))
	}
	// C05: "the farm escrow account holds exactly all pools' staked tokens plus all
	// not-yet-distributed reward budgets" (harness-made donations set aside)
	denoms := map[string]bool{}
	for _, d := range w.Ledger.Denoms(farmAddr) {
		denoms[d] = true
	}
	for d := range sumLocked {
		denoms[d] = true
	}
	for d := range sumRemaining {
		denoms[d] = true
	}
	for _, d := range engine.SortedKeys(denoms) {
		w.Hit("C05.escrow_checks")
		wantBal := new(big.Int)
		if v := sumLocked[d]; v != nil {
			wantBal.Add(wantBal, v)
		}
		if v := sumRemaining[d]; v != nil {
			wantBal.Add(wantBal, v)
		}
		have := w.Bal(farmAddr, d)
		if v := m.donated[d]; v != nil {
			have.Sub(have, v)
		}
		if have.Cmp(wantBal) != 0 {
			m.vio(w, m.anyTainted(), "C05", "escrow-identity", "after height %d the farm account holds %s%s (donations of %v set aside), pools record %v staked + %v remaining rewards in that denom",
				h, have, d, m.donated[d], sumLocked[d], sumRemaining[d])
		}
	}
	// C06: "the remaining budget is returned to the creator (or community pool) exactly once":
	// for a pool created by governance the distribution module account and the community
	// pool record both hold exactly what was returned (the pool's denoms exist nowhere else)
	for _, p := range m.order {
		if !p.gov {
			continue
		}
		fp, err := w.Node.App.DistrKeeper.FeePool.Get(ctx)
		if err != nil {
			engine.Fatal("fee pool: %v", err)
		}
		for _, d := range p.Denoms {
			w.Hit("C06.community_pool_checks")
			rec := fp.CommunityPool.AmountOf(d)
			bal := w.Bal(distrAddr, d)
			if bal.Cmp(p.Refunded[d]) != 0 || !rec.Equal(sdkmath.LegacyNewDecFromBigInt(p.Refunded[d])) {
				m.vio(w, p, "C06", "refund/community-pool", "pool %s (created by governance, ended=%v at %d) denom %s after height %d: returned budget is %s; the distribution module account holds %s, the community pool record says %s",
					p.ID, p.Ended, p.EndedAt, d, h, p.Refunded[d], bal, rec)
			}
		}
		if p.Ended {
			w.Hit("farm.gov_pool_refunded_to_community_pool")
		}
	}
	// stored parameters follow the last accepted authority update
	got := k.GetParams(ctx)
	wantP := sdkParams(m.par)
	if !got.PoolCreationFee.IsEqual(wantP.PoolCreationFee) || !got.TaxRate.Equal(wantP.TaxRate) || got.MaxRewardCategories != wantP.MaxRewardCategories {
		w.Violate("C16", "params-drift/farm", "stored farm params %v differ from the last accepted authority update %v", got, wantP)
		m.par = params{FeeDenom: got.PoolCreationFee.Denom, Fee: got.PoolCreationFee.Amount.BigInt(), Tax: got.TaxRate.BigInt(), MaxCat: got.MaxRewardCategories}
	}
	if err := got.Validate(); err != nil {
		w.Violate("C16", "invalid-stored/farm", "stored farm params fail the module's own validation: %v", err)
	}
	QueueCheck(w)
}

// farmerQuery calls the module's farmer query; a query that aborts is the module's
// trouble, not the harness's, and no clause of C05/C06 speaks about queries: it is only
// counted.
func farmerQuery(w *engine.World, addr, pool string) (resp *ftypes.QueryFarmerResponse, err error) {
	defer func() {
		if r := recover(); r != nil {
			w.Hit("farm.farmer_query_panic")
			resp, err = nil, fmt.Errorf("query panicked: %v", r)
		}
	}()
	return w.Node.K.Farm.Farmer(w.Node.Ctx(), &ftypes.QueryFarmerRequest{Farmer: addr, PoolId: pool})
}

// touched counts the accepted farm messages on a pool per block and records the shapes the
// properties' quantifiers name (probes only).
func (m *Module) touched(w *engine.World, p *poolM, h int64, kind string) {
	if p.opsAt != h {
		p.opsAt, p.opsN = h, 0
	}
	p.opsN++
	if p.opsN >= 2 {
		w.Hit("farm.same_block_later_op")
		if kind == "harvest" {
			w.Hit("farm.same_block_later_harvest")
		}
		if kind == "unstake" {
			w.Hit("farm.same_block_later_unstake")
		}
	}
	if p.opsN == 3 {
		w.Hit("farm.three_ops_one_pool_one_block")
	}
	if len(m.order) >= 10 {
		for _, q := range m.order {
			if q != p && strings.HasPrefix(q.ID, p.ID) {
				w.Hit("farm.op_on_pool_whose_id_prefixes_another")
				break
			}
		}
	}
}

// govDenom: a reward denom of a governance-created pool.
func (m *Module) govDenom(d string) bool {
	for _, p := range m.order {
		if p.gov && p.Funded[d] != nil {
			return true
		}
	}
	return false
}

func (p *poolM) phaseClass(h int64) string {
	switch {
	case p.Ended && p.EndedBy == "destroy":
		return "destroyed"
	case p.Ended:
		return "ended"
	case h < p.Start:
		return "not-started"
	}
	return "live"
}

// Final: end-of-history judgement of every farmer who has withdrawn everything.
func (m *Module) Final(w *engine.World) {
	for _, p := range m.order {
		for _, a := range engine.SortedKeys(p.Far) {
			f := p.Far[a]
			if f.Inter == 0 {
				continue
			}
			if f.Stake.Sign() != 0 {
				w.Hit("farm.farmer_still_staked_at_end")
				continue
			}
			for _, d := range p.Denoms {
				// C06: "each farmer's cumulative payout equals their exact stake-weighted share
				// of the released rewards up to rounding (below one base unit per interaction
				// plus the 18-decimal truncation of the per-share accumulator)":
				// |paid − exact| < interactions·1 + Σ_updates stake·10⁻¹⁸
				w.Hit("C06.farmer_share_checks")
				tol := new(big.Rat).Add(new(big.Rat).SetInt64(f.Inter), f.Trunc)
				diff := new(big.Rat).Sub(new(big.Rat).SetInt(f.Paid[d]), f.Exact[d])
				if diff.Sign() != 0 {
					w.Hit("farm.farmer_rounding_nonzero")
				}
				if new(big.Rat).Abs(diff).Cmp(tol) >= 0 {
					key := "share/farmer-underpaid"
					if diff.Sign() > 0 {
						key = "share/farmer-overpaid-final"
					}
					m.vio(w, p, "C06", key, "pool %s denom %s: farmer %s withdrew everything and was paid %s in total; exact stake-weighted share of the released rewards is %s; difference %s, tolerance %d interactions + accumulator truncation %s",
						p.ID, d, m.nameOf(w, a), f.Paid[d], f.Exact[d].FloatString(6), diff.FloatString(6), f.Inter, f.Trunc.FloatString(6))
				}
			}
		}
	}
}
