//go:build go1.25

//go:debug asynctimerchan=0
package farm

import (
	"fmt"
	"os"
	"testing"
	"time"

	"verif/sim/engine"

	"verif/sim/engine/devtest"
)

func TestDev(t *testing.T) {
	Register()
	if p := os.Getenv("DEV_REPLAY"); p != "" {
		devtest.Replay(t, p)
		return
	}
	if p := os.Getenv("DEV_MIN"); p != "" {
		// shrink a kept violating schedule (DEV_KEEP=1) on its recorded violation key
		s, err := engine.ReadSchedule(p)
		if err != nil || s.Expect == nil {
			t.Fatalf("read %s: %v", p, err)
		}
		best, v, tries := engine.Minimise(s, s.Expect.Key, 10*time.Minute, func(c *engine.Schedule) *engine.RunResult {
			return devtest.Bubble(t, engine.RunSpec{Property: c.Property, Seed: c.Seed, Replay: c})
		})
		if best == nil {
			t.Fatalf("violation %s did not reproduce", s.Expect.Key)
		}
		best.Expect = &engine.ViolationRecord{Property: v.Property, Key: v.Key, Detail: v.Detail, Height: v.Height}
		best.Write(p + ".min.json")
		fmt.Printf("minimised to %d ops in %d blocks after %d replays: %s\n    %s\n", best.NumOps(), len(best.Blocks), tries, p+".min.json", v.Detail)
		return
	}
	prop := os.Getenv("DEV_PROP")
	if prop == "" {
		prop = "C05"
	}
	devtest.Run(t, prop, 20)
}
