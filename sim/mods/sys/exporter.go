package sys

import (
	"bytes"
	"encoding/hex"
	"encoding/json"
	"fmt"
	"regexp"
	"strings"

	abci "github.com/cometbft/cometbft/abci/types"
	tmbytes "github.com/cometbft/cometbft/libs/bytes"
	cmtproto "github.com/cometbft/cometbft/proto/tendermint/types"
	sdk "github.com/cosmos/cosmos-sdk/types"

	"mods.irisnet.org/modules/htlc"
	htlctypes "mods.irisnet.org/modules/htlc/types"
	"mods.irisnet.org/modules/oracle"
	"mods.irisnet.org/modules/random"
	randomtypes "mods.irisnet.org/modules/random/types"
	"mods.irisnet.org/modules/service"

	"verif/sim/engine"
)

// IrismodSections are the genesis sections of the ten modules under test.
var IrismodSections = []string{"coinswap", "farm", "htlc", "mt", "nft", "oracle", "random", "record", "service", "token"}

// ExporterConfig is the per-run configuration of the export/import machinery.
type ExporterConfig struct {
	PExport float64 `json:"p_export"` // per block
	PPrep   float64 `json:"p_prep"`   // share of exports taken after the modules' zero-height preparation
	Max     int     `json:"max"`
}

type exportArgs struct {
	Prep bool `json:"prep"`
}

// Exporter clones the primary at chosen block boundaries, exports the clone (as is, or after
// the modules' own PrepForZeroHeightGenesis), imports the result into fresh applications
// and compares (C12): import accepted, export of the import equal (fixpoint), durable
// queries equal.
type Exporter struct {
	engine.Base
	cfg  ExporterConfig
	done int
	// followers: chains started from an as-is export through InitChain, fed the primary's
	// next blocks: begin/end block of every module must keep working on the imported state
	followers []*follower
}

type follower struct {
	n    *engine.Node
	left int
	from int64
}

func NewExporter() *Exporter { return &Exporter{} }

func (m *Exporter) Name() string { return "exporter" }
func (m *Exporter) Weight() int  { return 0 }

func (m *Exporter) Configure(w *engine.World, r *engine.Rand) any {
	return ExporterConfig{PExport: 0.02 + 0.05*r.Float(), PPrep: 0.4 * r.Float(), Max: 2 + r.Intn(3)}
}

func (m *Exporter) LoadConfig(w *engine.World, raw json.RawMessage) {
	if err := json.Unmarshal(raw, &m.cfg); err != nil {
		engine.Fatal("exporter config: %v", err)
	}
}

func (m *Exporter) GenFaults(w *engine.World, r *engine.Rand) []engine.Fault {
	if m.done >= m.cfg.Max || !r.Bool(m.cfg.PExport) {
		return nil
	}
	m.done++
	bz, _ := json.Marshal(exportArgs{Prep: r.Bool(m.cfg.PPrep)})
	return []engine.Fault{{Kind: "export", Args: bz}}
}

// Epilogue: one more export at the very end of every history (as is).
func (m *Exporter) Final(w *engine.World) {
	if w.Node == nil || w.Height < w.Base()+2 {
		return
	}
	m.roundTrip(w, false, "final")
}

// OnBlock feeds the primary's block to the chains that were started from an export.
func (m *Exporter) OnBlock(w *engine.World, blk *engine.Block, res *abci.ResponseFinalizeBlock) {
	var keep []*follower
	for _, f := range m.followers {
		if blk.Height != f.n.Height+1 {
			if blk.Height <= f.n.Height {
				keep = append(keep, f) // the export's own block
			}
			continue
		}
		_, err := f.n.Exec(blk)
		if err == nil {
			err = f.n.Commit(blk)
		}
		w.Hit("C12.continuation_blocks")
		if err != nil {
			if p, ok := err.(*engine.Panic); ok && strings.Contains(p.Value, "is not a module account") {
				// Application wiring, not the module (DESIGN.md section 14, "Application wiring
				// is the harness's", (c)): the follower executes the primary's transactions on a
				// state that differs from the primary's (in-flight service items are dropped on
				// export), so a module account the primary had put to use before a workload's
				// transfer reached its address may not be in use here yet; the transfer then
				// plants an ordinary account at the module's address - which a production
				// application's blocked-address list rules out - and the auth keeper aborts the
				// module's next use of it. The follower is retired.
				w.Hit("C12.continuation_wiring_artifact")
			} else if ok && p.Module() != "" {
				w.Violate("C12", "continuation-panic/"+p.Module()+"/"+engine.PanicSite(p.Stack),
					"a chain started from the as-is export of height %d halts %d blocks later (height %d) in module %s: %s", f.from, blk.Height-f.from, blk.Height, p.Module(), p.Value)
			}
			continue
		}
		f.left--
		if f.left > 0 {
			keep = append(keep, f)
		}
	}
	m.followers = keep
}

func (m *Exporter) OnFault(w *engine.World, f engine.Fault) {
	if f.Kind != "export" {
		return
	}
	var a exportArgs
	_ = json.Unmarshal(f.Args, &a)
	m.roundTrip(w, a.Prep, "mid")
}

var (
	reHex   = regexp.MustCompile(`[0-9A-Fa-f]{16,}`)
	reAddr  = regexp.MustCompile(`cosmos1[0-9a-z]{20,}`)
	reNum   = regexp.MustCompile(`[0-9]+`)
	reDenom = regexp.MustCompile(`htlt[a-z]+|ibc/[0-9A-Fa-f]+`)
)

// shape reduces an error text to its class: identifiers and numbers removed.
func shape(s string) string {
	// wrapped errors carry a source position, panics a prefix: neither belongs to the class
	if i := strings.Index(s, " ["); i > 0 {
		s = s[:i]
	}
	// which offending object a validation reports first can depend on map order: the class is
	// the message up to the object's identity
	if i := strings.Index(s, ", ID:"); i > 0 {
		s = s[:i]
	}
	// service's validation walks a Go map of contexts and names the first offender: whether
	// that is a context in the wrong state or one with a batch in the wrong state varies from
	// process to process; both are the same class (only paused, idle contexts are importable)
	s = strings.Replace(s, "request context batch state", "request context state", 1)
	s = strings.TrimPrefix(s, "panic in InitChain: ")
	s = strings.TrimPrefix(s, "panic in InitGenesis: ")
	s = reAddr.ReplaceAllString(s, "ADDR")
	s = reDenom.ReplaceAllString(s, "<denom>")
	s = reHex.ReplaceAllStringFunc(s, func(m string) string {
		for _, c := range m {
			if c < '0' || c > '9' {
				return "HEX"
			}
		}
		return "N" // a long decimal number
	})
	s = reNum.ReplaceAllString(s, "N")
	s = strings.Join(strings.Fields(s), " ")
	if len(s) > 60 {
		s = s[:60]
	}
	return s
}

func uncached(n *engine.Node, height int64) sdk.Context {
	return n.App.BaseApp.NewUncachedContext(false, cmtproto.Header{ChainID: engine.ChainID, Height: height, Time: n.Time})
}

// exportAll exports every module's genesis through the module manager with a context over
// the node's working state.
func exportAll(n *engine.Node, height int64) (out map[string]json.RawMessage, err error) {
	err = engine.Catch("ExportGenesis", func() error {
		gs, e := n.App.ModuleManager.ExportGenesisForModules(uncached(n, height), n.App.AppCodec(), nil)
		if e != nil {
			return e
		}
		out = gs
		return nil
	})
	return
}

func (m *Exporter) roundTrip(w *engine.World, prep bool, when string) {
	m.roundTripFrom(w, prep, when, false)
}

// roundTripFrom does one export/import round trip. servicePrepared: the as-is attempt was
// rejected by the service module's import (a known finding: service only imports contexts
// that are paused and idle, i.e. the state its own zero-height preparation leaves), so the
// source is a second clone on which service's and oracle's preparation ran and nothing
// else - heights stay absolute - so that the other nine modules still get their as-is
// comparison instead of stopping at service's rejection in nine runs out of ten.
func (m *Exporter) roundTripFrom(w *engine.World, prep bool, when string, servicePrepared bool) {
	variant := "as-is"
	if prep {
		variant = "zero-height"
	}
	src := w.Node.Clone("export-source")
	h := src.Height
	if servicePrepared {
		ctx := uncached(src, h)
		if err := engine.Catch("PrepForZeroHeightGenesis", func() error {
			oracle.PrepForZeroHeightGenesis(ctx, src.K.Oracle)
			service.PrepForZeroHeightGenesis(ctx, src.K.Service)
			return nil
		}); err != nil {
			return
		}
		w.Hit("C12.exports_with_service_prepared")
	}
	if prep {
		// what an application does before a restart export
		ctx := uncached(src, h)
		steps := []struct {
			name string
			f    func()
		}{
			{"htlc", func() { htlc.PrepForZeroHeightGenesis(ctx, src.K.HTLC) }},
			{"random", func() { random.PrepForZeroHeightGenesis(ctx, src.K.Random) }},
			{"oracle", func() { oracle.PrepForZeroHeightGenesis(ctx, src.K.Oracle) }},
			{"service", func() { service.PrepForZeroHeightGenesis(ctx, src.K.Service) }},
		}
		for _, s := range steps {
			s := s
			if err := engine.Catch("PrepForZeroHeightGenesis", func() error { s.f(); return nil }); err != nil {
				w.Violate("C12", "prep-panic/"+s.name+"/"+shape(err.Error()), "%s.PrepForZeroHeightGenesis on the state of height %d failed: %v", s.name, h, err)
				return
			}
		}
		w.Hit("C12.prep_exports")
	}
	g1, err := exportAll(src, h)
	if err != nil {
		mod := "?"
		if p, ok := err.(*engine.Panic); ok {
			mod = p.Module()
		}
		w.Violate("C12", "export-failed/"+mod+"/"+shape(err.Error()), "export (%s) of the state of height %d failed: %v", variant, h, err)
		return
	}
	state, e := json.Marshal(g1)
	if e != nil {
		engine.Fatal("marshal genesis: %v", e)
	}
	w.Hit("C12.exports")

	// (1) the ABCI path: InitChain of a fresh application, at the height an operator would use
	initial := h + 1
	if prep {
		initial = 1
	}
	abciNode := engine.NewNode("import-abci", w.NodeOpt)
	if err := abciNode.InitChain(state, src.Time, initial, w.Cfg.MaxGas); err != nil {
		mod, site := "?", ""
		if p, ok := err.(*engine.Panic); ok {
			mod, site = p.Module(), engine.PanicSite(p.Stack)
		}
		// for the service module, which export it was is part of the key: that its as-is export
		// is not importable (contexts still running) says nothing about the prepared ones, in
		// which every context has been paused and its batch closed
		suffix := ""
		switch {
		case mod != "service":
		case prep:
			suffix = "/zero-height"
		case servicePrepared:
			suffix = "/service-prepared"
		}
		w.Violate("C12", fmt.Sprintf("import-rejected/%s/%s/%s%s", mod, site, shape(err.Error()), suffix),
			"the genesis exported (%s) from the state of height %d is rejected by InitChain of a fresh application: %s (error class; identifiers and numbers elided, because which offending object the module names first can depend on Go map order)", variant, h, shape(err.Error()))
		if mod == "service" && !prep && !servicePrepared {
			m.roundTripFrom(w, prep, when, true)
		}
		return
	}
	w.Hit("C12.imports_accepted")
	if !prep && when == "mid" && len(m.followers) < 3 {
		m.followers = append(m.followers, &follower{n: abciNode, left: 25, from: h})
	}

	// (2) the same import written straight into a second fresh application's store, so that
	// the imported state can be exported again and queried without executing a block
	tgt := engine.NewNode("import-direct", w.NodeOpt)
	tgt.Height, tgt.Time = h, src.Time
	initHeight := initial
	if prep {
		initHeight = 0 // baseapp runs the init chainer of a new chain at height 0
	}
	if err := engine.Catch("InitGenesis", func() error {
		_, e := tgt.App.ModuleManager.InitGenesis(uncached(tgt, initHeight), tgt.App.AppCodec(), g1)
		return e
	}); err != nil {
		engine.Fatal("direct InitGenesis failed although InitChain accepted the same genesis: %v", err)
	}
	g2, err := exportAll(tgt, h)
	if err != nil {
		mod := "?"
		if p, ok := err.(*engine.Panic); ok {
			mod = p.Module()
		}
		w.Violate("C12", "reexport-failed/"+mod+"/"+shape(err.Error()), "export of the re-imported state failed: %v", err)
		return
	}
	for _, sec := range IrismodSections {
		w.Hit("C12.fixpoint_comparisons")
		if !bytes.Equal(g1[sec], g2[sec]) {
			w.Violate("C12", "fixpoint/"+sec+"/"+variant, "export -> import -> export is not a fixpoint for module %q (%s export of height %d): %s",
				sec, variant, h, rawDiff(g1[sec], g2[sec]))
		}
	}
	// (2b) as-is exports: the module stores themselves - including the indexes, queues and
	// counters that no genesis field and no query shows - must come back identical, except
	// for what a module documents as dropped on export
	if !prep {
		compareStores(w, src, tgt, h)
	}

	// (3) durable queries answer identically on source and target
	type named struct {
		name string
		f    func(n *engine.Node) []engine.KV
	}
	qs := []named{{"builtin", func(n *engine.Node) []engine.KV { return builtinQueries(w, n) }}}
	for _, mod := range w.Mods {
		if q, ok := mod.(engine.Querier); ok {
			q := q
			qs = append(qs, named{mod.Name(), func(n *engine.Node) []engine.KV { return q.DurableQueries(w, n) }})
		}
	}
	for _, mod := range qs {
		a := mod.f(src)
		b := mod.f(tgt)
		w.Count("C12.query_comparisons", int64(len(a)))
		bm := map[string]string{}
		for _, kv := range b {
			bm[kv.K] = kv.V
		}
		am := map[string]bool{}
		for _, kv := range a {
			am[kv.K] = true
		}
		for _, kv := range b {
			if !am[kv.K] {
				w.Violate("C12", "query-differs/"+mod.name+"/"+queryClass(kv.K)+"/"+variant,
					"after re-import (%s export of height %d) the re-imported chain answers a query %q the source has no object for: %s", variant, h, kv.K, clip(kv.V))
				break
			}
		}
		for _, kv := range a {
			if got, ok := bm[kv.K]; !ok || got != kv.V {
				w.Violate("C12", "query-differs/"+mod.name+"/"+queryClass(kv.K)+"/"+variant,
					"after re-import (%s export of height %d) the query %q answers differently: %s", variant, h, kv.K, strDiff(kv.V, got))
				break
			}
		}
	}
	if prep {
		prepPreserves(w, w.Node, tgt, h)
	}
}

// prepPreserves (zero-height variant): the modules' own preparation step rebases heights
// and closes what is in flight; what users rely on must still come back. The comparison
// above is between the prepared source and the target, so a preparation step that itself
// drops or rewrites something is invisible there. Here the chain as it was before the
// preparation is compared with the re-imported one, with the one documented change (heights
// count from the restart) applied:
//   - htlc asset supplies (current / incoming / outgoing supply, the running limit period
//     and what was completed in it): identical;
//   - every open hash-locked contract: identical but for its expiration height, which is
//     rebased to expiration - h + 1;
//   - every pending random request: the same request id (the id its consumer holds), the
//     same request, due at height - h + 1.
func prepPreserves(w *engine.World, orig, tgt *engine.Node, h int64) {
	w.Hit("C12.prep_preserves_checks")
	octx, tctx := orig.Ctx(), tgt.Ctx()
	// htlc supplies
	a, errA := orig.K.HTLC.AssetSupplies(octx, &htlctypes.QueryAssetSuppliesRequest{})
	b, errB := tgt.K.HTLC.AssetSupplies(tctx, &htlctypes.QueryAssetSuppliesRequest{})
	if errA == nil && errB == nil && a.String() != b.String() {
		w.Violate("C12", "prep-loses/htlc-supplies", "after the zero-height preparation of the state of height %d, export and re-import, the asset supplies differ from the chain's before the preparation: %s", h, strDiff(a.String(), b.String()))
	}
	// open contracts
	open := func(n *engine.Node, ctx sdk.Context, rebase bool) map[string]string {
		out := map[string]string{}
		n.K.HTLC.IterateHTLCs(ctx, func(id tmbytes.HexBytes, c htlctypes.HTLC) bool {
			if c.State == htlctypes.Open {
				if rebase {
					c.ExpirationHeight = c.ExpirationHeight - uint64(h) + 1
				}
				out[id.String()] = c.String()
			}
			return false
		})
		return out
	}
	oa, ob := open(orig, octx, true), open(tgt, tctx, false)
	for _, id := range engine.SortedKeys(oa) {
		if ob[id] != oa[id] {
			w.Violate("C12", "prep-loses/htlc-contract", "open contract %s of the state of height %d after zero-height preparation, export and re-import: %s", id, h, strDiff(oa[id], ob[id]))
			break
		}
	}
	// pending random requests
	pend := func(n *engine.Node, ctx sdk.Context, shift int64) map[string]string {
		out := map[string]string{}
		n.K.Random.IterateRandomRequestQueue(ctx, func(height int64, reqID []byte, r randomtypes.Request) bool {
			out[hex.EncodeToString(reqID)] = fmt.Sprintf("due %d %s", height-shift, r.String())
			return false
		})
		return out
	}
	ra, rb := pend(orig, octx, h-1), pend(tgt, tctx, 0)
	for _, id := range engine.SortedKeys(ra) {
		if rb[id] != ra[id] {
			got := rb[id]
			if got == "" {
				got = "(no pending request under this id)"
			}
			w.Violate("C12", "prep-loses/random-request", "pending random request %s of the state of height %d after zero-height preparation, export and re-import: before %q, after %q", id, h, ra[id], got)
			break
		}
	}
}

func queryClass(k string) string {
	if i := strings.IndexAny(k, ":/ "); i > 0 {
		return k[:i]
	}
	return k
}

func clip(s string) string {
	if len(s) > 400 {
		return s[:400] + "..."
	}
	return s
}

func rawDiff(a, b json.RawMessage) string {
	x, y := string(a), string(b)
	i := 0
	for i < len(x) && i < len(y) && x[i] == y[i] {
		i++
	}
	lo := i - 100
	if lo < 0 {
		lo = 0
	}
	cut := func(s string) string {
		hi := i + 160
		if hi > len(s) {
			hi = len(s)
		}
		if lo > len(s) {
			return ""
		}
		return s[lo:hi]
	}
	return fmt.Sprintf("first difference at byte %d: exported ...%s... re-exported ...%s...", i, cut(x), cut(y))
}

// strDiff shows two strings around their first difference.
func strDiff(x, y string) string {
	i := 0
	for i < len(x) && i < len(y) && x[i] == y[i] {
		i++
	}
	lo := i - 160
	if lo < 0 {
		lo = 0
	}
	cut := func(s string) string {
		hi := i + 200
		if hi > len(s) {
			hi = len(s)
		}
		if lo > len(s) {
			return ""
		}
		return s[lo:hi]
	}
	return fmt.Sprintf("first difference at byte %d: source ...%s... re-imported ...%s...", i, cut(x), cut(y))
}

// exempt decides whether a store entry is outside what an as-is export promises to carry:
//   - htlc 0x01: records of contracts that are no longer open (the module exports open
//     contracts only; C12 lists "open hash-locked contracts");
//   - mt 0x02: the stored token record (the import writes the exported supply into it,
//     at run time the supply lives under its own prefix; the MTs query is compared instead);
//   - nft 0x05: a class total-supply entry of zero (absent and zero are the same supply);
//   - random 0x01: fulfilled numbers are not genesis data (C12 lists pending requests);
//   - service 0x09-0x16, 0x18-0x20: batch queues and their height markers, requests, active
//     markers, responses, earned-fee tallies, the per-block counter: the in-flight items the
//     module documents as dropped / refunded on export;
//   - token 0xf0: the harness's own ERC20 ledger.
func exempt(n *engine.Node, store string, key, value []byte) bool {
	if len(key) == 0 {
		return false
	}
	switch store {
	case "htlc":
		if key[0] == 0x01 {
			var h htlctypes.HTLC
			if err := n.App.AppCodec().Unmarshal(value, &h); err == nil && h.State != htlctypes.Open {
				return true
			}
		}
	case "mt":
		return key[0] == 0x02
	case "nft":
		if key[0] == 0x05 {
			for _, b := range value {
				if b != 0 {
					return false
				}
			}
			return true
		}
	case "random":
		return key[0] == 0x01
	case "service":
		return (key[0] >= 0x09 && key[0] <= 0x16) || key[0] == 0x18 || key[0] == 0x19 || key[0] == 0x20
	case "token":
		return key[0] == 0xf0
	}
	return false
}

// compareStores walks the ten irismod stores of source and re-imported node in key order.
func compareStores(w *engine.World, src, tgt *engine.Node, h int64) {
	for _, name := range IrismodSections {
		ka, kb := src.App.GetKey(name), tgt.App.GetKey(name)
		if ka == nil || kb == nil {
			continue
		}
		ia := uncached(src, h).KVStore(ka).Iterator(nil, nil)
		ib := uncached(tgt, h).KVStore(kb).Iterator(nil, nil)
		w.Hit("C12.store_comparisons")
		next := func(n *engine.Node, it interface {
			Valid() bool
			Next()
			Key() []byte
			Value() []byte
		}) {
			for it.Valid() && exempt(n, name, it.Key(), it.Value()) {
				it.Next()
			}
		}
		next(src, ia)
		next(tgt, ib)
		for ia.Valid() || ib.Valid() {
			var what, key string
			switch {
			case !ib.Valid() || (ia.Valid() && bytes.Compare(ia.Key(), ib.Key()) < 0):
				what, key = "missing-after-import", string(ia.Key())
			case !ia.Valid() || bytes.Compare(ia.Key(), ib.Key()) > 0:
				what, key = "extra-after-import", string(ib.Key())
			case !bytes.Equal(ia.Value(), ib.Value()):
				what, key = "value-differs", string(ia.Key())
			}
			if what != "" {
				pfx := key
				if len(pfx) > 0 {
					pfx = fmt.Sprintf("%02x", key[0])
				}
				w.Violate("C12", "store-differs/"+name+"/"+pfx+"/"+what, "after an as-is export of height %d and re-import, the %s store differs: %s at key %x (prefix %s)", h, name, what, key, pfx)
				break
			}
			ia.Next()
			ib.Next()
			next(src, ia)
			next(tgt, ib)
		}
		ia.Close()
		ib.Close()
	}
}
