package sys

import (
	"encoding/hex"
	"fmt"

	tmbytes "github.com/cometbft/cometbft/libs/bytes"
	"github.com/cosmos/cosmos-sdk/types/query"

	farmtypes "mods.irisnet.org/modules/farm/types"
	htlctypes "mods.irisnet.org/modules/htlc/types"
	mttypes "mods.irisnet.org/modules/mt/types"
	nfttypes "mods.irisnet.org/modules/nft/types"
	recordtypes "mods.irisnet.org/modules/record/types"
	tokenv1 "mods.irisnet.org/modules/token/types/v1"

	"verif/sim/engine"
)

// builtinQueries renders the modules' own queries about durable user-visible objects for
// the modules whose workloads do not provide them (C12): open hash-locked contracts and
// asset supplies, farm pools and every actor's stake, tokens (all, and by owner) and burn
// tallies, NFT classes / collections / holdings, MT classes / tokens / balances, records by
// id. Objects are enumerated on the node itself, so a missing or extra object shows as a
// missing key.
func builtinQueries(w *engine.World, n *engine.Node) []engine.KV {
	var out []engine.KV
	ctx := n.Ctx()
	page := &query.PageRequest{Limit: 1000}
	put := func(k string, v fmt.Stringer, err error) {
		if err != nil {
			out = append(out, engine.KV{K: k, V: "error: " + shape(err.Error())})
			return
		}
		out = append(out, engine.KV{K: k, V: v.String()})
	}

	// htlc: every open contract by id, asset supplies
	var ids []string
	n.K.HTLC.IterateHTLCs(ctx, func(id tmbytes.HexBytes, h htlctypes.HTLC) bool {
		if h.State == htlctypes.Open {
			ids = append(ids, id.String())
		}
		return false
	})
	for _, id := range ids {
		r, err := n.K.HTLC.HTLC(ctx, &htlctypes.QueryHTLCRequest{Id: id})
		put("htlc:"+id, r, err)
	}
	{
		r, err := n.K.HTLC.AssetSupplies(ctx, &htlctypes.QueryAssetSuppliesRequest{})
		put("htlc-supplies", r, err)
	}

	// farm: pools, and every actor's stake and pending reward in every pool
	{
		r, err := n.K.Farm.FarmPools(ctx, &farmtypes.QueryFarmPoolsRequest{Pagination: page})
		put("farm-pools", r, err)
		if err == nil {
			for _, a := range w.Actors {
				fr, ferr := n.K.Farm.Farmer(ctx, &farmtypes.QueryFarmerRequest{Farmer: a.Addr.String()})
				if ferr != nil {
					// "not a farmer" is an answer too
					out = append(out, engine.KV{K: "farm-farmer:" + a.Addr.String(), V: "error: " + shape(ferr.Error())})
					continue
				}
				out = append(out, engine.KV{K: "farm-farmer:" + a.Addr.String(), V: fr.String()})
			}
		}
	}

	// token: all tokens, tokens by owner, burn tallies
	{
		r, err := n.K.Token.Tokens(ctx, &tokenv1.QueryTokensRequest{Pagination: page})
		put("tokens", r, err)
		for _, a := range w.Actors {
			r, err := n.K.Token.Tokens(ctx, &tokenv1.QueryTokensRequest{Owner: a.Addr.String(), Pagination: page})
			put("tokens-of:"+a.Addr.String(), r, err)
		}
		tb, err := n.K.Token.TotalBurn(ctx, &tokenv1.QueryTotalBurnRequest{})
		put("token-burn", tb, err)
	}

	// nft: classes, collections, supply, holdings
	{
		r, err := n.K.NFT.Denoms(ctx, &nfttypes.QueryDenomsRequest{Pagination: page})
		put("nft-denoms", r, err)
		if err == nil {
			for _, d := range r.Denoms {
				c, cerr := n.K.NFT.Collection(ctx, &nfttypes.QueryCollectionRequest{DenomId: d.Id, Pagination: page})
				put("nft-collection:"+d.Id, c, cerr)
				s, serr := n.K.NFT.Supply(ctx, &nfttypes.QuerySupplyRequest{DenomId: d.Id})
				put("nft-supply:"+d.Id, s, serr)
				for _, a := range w.Actors {
					o, oerr := n.K.NFT.NFTsOfOwner(ctx, &nfttypes.QueryNFTsOfOwnerRequest{DenomId: d.Id, Owner: a.Addr.String(), Pagination: page})
					put("nft-of:"+d.Id+":"+a.Addr.String(), o, oerr)
				}
			}
		}
	}

	// mt: classes, tokens with supply, balances
	{
		r, err := n.K.MT.Denoms(ctx, &mttypes.QueryDenomsRequest{Pagination: page})
		put("mt-denoms", r, err)
		if err == nil {
			for _, d := range r.Denoms {
				m, merr := n.K.MT.MTs(ctx, &mttypes.QueryMTsRequest{DenomId: d.Id, Pagination: page})
				put("mt-tokens:"+d.Id, m, merr)
				for _, a := range w.Actors {
					b, berr := n.K.MT.Balances(ctx, &mttypes.QueryBalancesRequest{Owner: a.Addr.String(), DenomId: d.Id, Pagination: page})
					put("mt-balances:"+d.Id+":"+a.Addr.String(), b, berr)
				}
			}
		}
	}

	// record: every record by id
	{
		it := n.K.Record.RecordsIterator(ctx)
		var rids []string
		for ; it.Valid(); it.Next() {
			rids = append(rids, hex.EncodeToString(it.Key()[len(recordtypes.RecordKey):]))
		}
		it.Close()
		for _, id := range rids {
			r, err := n.K.Record.Record(ctx, &recordtypes.QueryRecordRequest{RecordId: id})
			put("record:"+id, r, err)
		}
	}
	return out
}
