package sys

import (
	"encoding/json"
	"fmt"
	"strings"
	"time"

	sdkmath "cosmossdk.io/math"
	storetypes "cosmossdk.io/store/types"
	sdk "github.com/cosmos/cosmos-sdk/types"

	cstypes "mods.irisnet.org/modules/coinswap/types"
	farmtypes "mods.irisnet.org/modules/farm/types"
	htlctypes "mods.irisnet.org/modules/htlc/types"
	svctypes "mods.irisnet.org/modules/service/types"
	tokenv1 "mods.irisnet.org/modules/token/types/v1"
	"mods.irisnet.org/simapp"

	"verif/sim/engine"
)

// ParamLab decides C16 by experiments on throw-away branches of the committed state: a
// generated parameter set P of one module is submitted through the module's own
// MsgUpdateParams handler (authority and non-authority senders); if it is stored, sampled
// messages of the workload and the next begin/end block are executed under P and, on a
// second branch, under the module's defaults D. Outcome classes {ok, error, panic}; a
// violation iff P panics where D does not, iff a set the module's Validate rejects gets
// stored, or iff a non-authority changes anything. The main chain is never touched.
type ParamLab struct {
	engine.Base
	cfg LabConfig
	n   int
	// outcomes of the canonical scenario under the defaults, per module (computed once a run)
	canonD map[string][]outcome
}

type LabConfig struct {
	PLab     float64 `json:"p_lab"`
	PGenesis float64 `json:"p_genesis"`
	Max      int     `json:"max"`
	Ops      int     `json:"ops"`
}

// pv is an abstract parameter value: "absent" (proto zero value: nil decimal / nil integer)
// or a decimal literal.
type labArgs struct {
	Module  string              `json:"module"`
	Values  map[string]string   `json:"values"`
	Assets  []map[string]string `json:"assets,omitempty"` // htlc
	Ops     []*engine.Op        `json:"ops,omitempty"`
	Genesis bool                `json:"genesis,omitempty"`
}

func NewParamLab() *ParamLab { return &ParamLab{} }

func (m *ParamLab) Name() string { return "paramlab" }
func (m *ParamLab) Weight() int  { return 0 }

func (m *ParamLab) Configure(w *engine.World, r *engine.Rand) any {
	return LabConfig{PLab: 0.25 + 0.35*r.Float(), PGenesis: 0.2, Max: 18 + r.Intn(30), Ops: 3 + r.Intn(8)}
}

func (m *ParamLab) LoadConfig(w *engine.World, raw json.RawMessage) {
	if err := json.Unmarshal(raw, &m.cfg); err != nil {
		engine.Fatal("paramlab config: %v", err)
	}
}

var labModules = []string{"coinswap", "farm", "htlc", "service", "token"}

// workload module names whose messages are crossed with each module's parameters
var labWorkload = map[string][]string{
	"coinswap": {"amm"}, "farm": {"farm"}, "htlc": {"htlc"}, "service": {"service", "oraclefeed", "random"}, "token": {"token"},
}

var decKinds = []string{"absent", "0", "0.000000000000000001", "0.003", "0.5", "0.999999999999999999", "1", "1.000000000000000001", "2", "-0.000000000000000001", "-1", "1000000000000000000000000000000"}
var intKinds = []string{"absent", "0", "1", "2", "5000", "1000000000000", "340282366920938463463374607431768211456", "-1", "1809251394333065553493296640760748560207343510400633813116524750123642650624"}

func pick(r *engine.Rand, xs []string) string { return xs[r.Intn(len(xs))] }

// interior-biased pick: valid-looking values most of the time
func pickDec(r *engine.Rand) string {
	if r.Bool(0.45) {
		return []string{"0.003", "0.5", "0.4", "0.05", "0.001", "0.1"}[r.Intn(6)]
	}
	return pick(r, decKinds)
}
func pickInt(r *engine.Rand) string {
	if r.Bool(0.45) {
		return []string{"1", "5000", "60000", "1000", "100"}[r.Intn(5)]
	}
	return pick(r, intKinds)
}
func pickDenom(r *engine.Rand) string {
	if r.Bool(0.85) {
		return "stake"
	}
	return []string{"", "x", "aaa", "STAKE", "st ake"}[r.Intn(5)]
}

func (m *ParamLab) GenFaults(w *engine.World, r *engine.Rand) []engine.Fault {
	if m.n >= m.cfg.Max || !r.Bool(m.cfg.PLab) {
		return nil
	}
	m.n++
	// only modules whose workload takes part in this run
	var present []string
	for _, name := range labModules {
		for _, wl := range labWorkload[name] {
			if w.Mod(wl) != nil {
				present = append(present, name)
				break
			}
		}
	}
	if len(present) == 0 {
		return nil
	}
	a := labArgs{Module: present[r.Intn(len(present))], Values: map[string]string{}, Genesis: r.Bool(m.cfg.PGenesis)}
	v := a.Values
	switch a.Module {
	case "coinswap":
		v["fee"], v["tax_rate"], v["unilateral_liquidity_fee"] = pickDec(r), pickDec(r), pickDec(r)
		v["pool_creation_fee"], v["pool_creation_fee_denom"] = pickInt(r), pickDenom(r)
	case "farm":
		v["tax_rate"] = pickDec(r)
		v["pool_creation_fee"], v["pool_creation_fee_denom"] = pickInt(r), pickDenom(r)
		v["max_reward_categories"] = []string{"0", "1", "2", "3", "10", "4294967295"}[r.Intn(6)]
	case "token":
		v["token_tax_rate"], v["mint_token_fee_ratio"] = pickDec(r), pickDec(r)
		v["issue_token_base_fee"], v["issue_token_base_fee_denom"] = pickInt(r), pickDenom(r)
		v["enable_erc20"] = []string{"true", "false"}[r.Intn(2)]
		v["beacon"] = []string{"", "", "0x0000000000000000000000000000000000000001", "nothex"}[r.Intn(4)]
	case "service":
		v["max_request_timeout"] = []string{"100", "1", "0", "-1", "5", "9223372036854775807"}[r.Intn(6)]
		v["min_deposit_multiple"] = []string{"1000", "1", "0", "-1", "9223372036854775807"}[r.Intn(5)]
		v["min_deposit"], v["min_deposit_denom"] = pickInt(r), pickDenom(r)
		v["service_fee_tax"], v["slash_fraction"] = pickDec(r), pickDec(r)
		v["complaint_retrospect"] = []string{"1296000000000000", "1", "0", "-1", "9223372036854775807"}[r.Intn(5)]
		v["arbitration_time_limit"] = []string{"432000000000000", "1", "0", "-1", "9223372036854775807"}[r.Intn(5)]
		v["tx_size_limit"] = []string{"4000", "1", "0", "18446744073709551615"}[r.Intn(4)]
		v["base_denom"] = pickDenom(r)
		v["restricted_service_fee_denom"] = []string{"true", "false"}[r.Intn(2)]
	case "htlc":
		if r.Bool(0.6) {
			// the parameters the chain runs with, one field of one asset moved to a boundary:
			// the assets that have supplies, open transfers and a used time window are these
			v["mutate_asset"] = []string{"0", "1", "2"}[r.Intn(3)]
			v["mutate_field"] = []string{"time_period", "time_limited", "limit", "time_based_limit", "active", "fixed_fee", "min_swap", "max_swap", "min_lock", "max_lock", "deputy"}[r.Intn(11)]
			switch v["mutate_field"] {
			case "time_period":
				v["mutate_value"] = []string{"0", "1", "-1", "1000000000", "3600000000000"}[r.Intn(5)]
				v["also_time_limited"] = "true"
			case "time_limited", "active":
				v["mutate_value"] = []string{"true", "false"}[r.Intn(2)]
			case "min_lock":
				v["mutate_value"] = []string{"50", "0", "49", "100"}[r.Intn(4)]
			case "max_lock":
				v["mutate_value"] = []string{"25480", "50", "25481", "10"}[r.Intn(4)]
			case "deputy":
				v["mutate_value"] = []string{"actor0", "actor1", "governor", "bad"}[r.Intn(4)]
			default:
				v["mutate_value"] = pickInt(r)
			}
			break
		}
		for i, n := 0, r.Intn(4); i < n; i++ {
			as := map[string]string{
				"denom": []string{"htltbnb", "htltinc", "htltdec", "htlt", "bnb", "HTLTX"}[r.Intn(6)],
				"limit": pickInt(r), "time_limited": []string{"true", "false"}[r.Intn(2)],
				"time_period": []string{"3600000000000", "1", "0", "-1", "1000000000"}[r.Intn(5)], "time_based_limit": pickInt(r),
				"active": []string{"true", "false"}[r.Intn(2)], "deputy": []string{"actor0", "actor1", "governor", "bad"}[r.Intn(4)],
				"fixed_fee": pickInt(r), "min_swap": pickInt(r), "max_swap": pickInt(r),
				"min_lock": []string{"50", "0", "49", "100"}[r.Intn(4)], "max_lock": []string{"25480", "50", "25481", "10"}[r.Intn(4)],
			}
			if r.Bool(0.5) {
				// a mostly valid asset: boundaries reached one field at a time
				as["denom"] = []string{"htltbnb", "htltinc", "htltdec"}[r.Intn(3)]
				as["limit"], as["time_based_limit"] = "1000000000000", "1000000"
				as["min_swap"], as["max_swap"], as["fixed_fee"] = "1", "1000000000", "0"
				as["min_lock"], as["max_lock"], as["deputy"] = "50", "25480", "actor0"
				switch r.Intn(6) {
				case 0:
					as["limit"] = "0"
					as["time_based_limit"] = "0"
				case 1:
					as["fixed_fee"] = pickInt(r)
				case 2:
					as["time_period"] = "0"
				case 3:
					as["max_swap"] = "340282366920938463463374607431768211456"
				}
			}
			a.Assets = append(a.Assets, as)
		}
	}
	// messages to cross with the parameter set: ops of the matching workload modules
	for tries := 0; len(a.Ops) < m.cfg.Ops && tries < 4*m.cfg.Ops; tries++ {
		names := labWorkload[a.Module]
		mod := w.Mod(names[r.Intn(len(names))])
		if mod == nil {
			continue
		}
		if tp := mod.Gen(w, r); tp != nil {
			for _, op := range tp.Ops {
				if !strings.Contains(op.Kind, "param") {
					a.Ops = append(a.Ops, op)
				}
			}
		}
	}
	bz, _ := json.Marshal(a)
	return []engine.Fault{{Kind: "paramlab", Args: bz}}
}

func decOf(s string) sdkmath.LegacyDec {
	if s == "absent" || s == "" {
		return sdkmath.LegacyDec{}
	}
	d, err := sdkmath.LegacyNewDecFromStr(s)
	if err != nil {
		engine.Fatal("paramlab: bad decimal %q", s)
	}
	return d
}

func intOf(s string) sdkmath.Int {
	if s == "absent" || s == "" {
		return sdkmath.Int{}
	}
	v, ok := sdkmath.NewIntFromString(s)
	if !ok {
		engine.Fatal("paramlab: bad integer %q", s)
	}
	return v
}

func i64(s string) int64 {
	var v int64
	fmt.Sscan(s, &v)
	return v
}
func u64(s string) uint64 {
	var v uint64
	fmt.Sscan(s, &v)
	return v
}

type labCase struct {
	module   string
	validate func() error // the module's own Validate on P
	update   func(authority string) sdk.Msg
	defaults func(ctx sdk.Context, n *engine.Node) error
	stored   func(ctx sdk.Context, n *engine.Node) (string, error) // rendered stored params + their Validate
	genesis  func(n *engine.Node, gs simapp.GenesisState)
	// extra: operations that only exist under P (a cross-chain transfer of an asset P adds);
	// they join the sampled workload operations in the differential
	extra func(n *engine.Node) []sdk.Msg
}

func (m *ParamLab) caseOf(w *engine.World, a labArgs) *labCase {
	v := a.Values
	switch a.Module {
	case "coinswap":
		p := cstypes.Params{Fee: decOf(v["fee"]), TaxRate: decOf(v["tax_rate"]), UnilateralLiquidityFee: decOf(v["unilateral_liquidity_fee"]),
			PoolCreationFee: sdk.Coin{Denom: v["pool_creation_fee_denom"], Amount: intOf(v["pool_creation_fee"])}}
		return &labCase{module: a.Module, validate: p.Validate,
			update: func(auth string) sdk.Msg { return &cstypes.MsgUpdateParams{Authority: auth, Params: p} },
			defaults: func(ctx sdk.Context, n *engine.Node) error {
				return n.K.Coinswap.SetParams(ctx, cstypes.DefaultParams())
			},
			stored: func(ctx sdk.Context, n *engine.Node) (string, error) {
				s := n.K.Coinswap.GetParams(ctx)
				return s.String(), s.Validate()
			},
			genesis: func(n *engine.Node, gs simapp.GenesisState) {
				var g cstypes.GenesisState
				n.App.AppCodec().MustUnmarshalJSON(gs[cstypes.ModuleName], &g)
				g.Params = p
				gs[cstypes.ModuleName] = n.App.AppCodec().MustMarshalJSON(&g)
			}}
	case "farm":
		p := farmtypes.Params{TaxRate: decOf(v["tax_rate"]), MaxRewardCategories: uint32(u64(v["max_reward_categories"])),
			PoolCreationFee: sdk.Coin{Denom: v["pool_creation_fee_denom"], Amount: intOf(v["pool_creation_fee"])}}
		return &labCase{module: a.Module, validate: p.Validate,
			update:   func(auth string) sdk.Msg { return &farmtypes.MsgUpdateParams{Authority: auth, Params: p} },
			defaults: func(ctx sdk.Context, n *engine.Node) error { return n.K.Farm.SetParams(ctx, farmtypes.DefaultParams()) },
			stored: func(ctx sdk.Context, n *engine.Node) (string, error) {
				s := n.K.Farm.GetParams(ctx)
				return s.String(), s.Validate()
			},
			genesis: func(n *engine.Node, gs simapp.GenesisState) {
				var g farmtypes.GenesisState
				n.App.AppCodec().MustUnmarshalJSON(gs[farmtypes.ModuleName], &g)
				g.Params = p
				gs[farmtypes.ModuleName] = n.App.AppCodec().MustMarshalJSON(&g)
			}}
	case "token":
		p := tokenv1.Params{TokenTaxRate: decOf(v["token_tax_rate"]), MintTokenFeeRatio: decOf(v["mint_token_fee_ratio"]),
			IssueTokenBaseFee: sdk.Coin{Denom: v["issue_token_base_fee_denom"], Amount: intOf(v["issue_token_base_fee"])},
			EnableErc20:       v["enable_erc20"] == "true", Beacon: v["beacon"]}
		return &labCase{module: a.Module, validate: p.Validate,
			update:   func(auth string) sdk.Msg { return &tokenv1.MsgUpdateParams{Authority: auth, Params: p} },
			defaults: func(ctx sdk.Context, n *engine.Node) error { return n.K.Token.SetParams(ctx, tokenv1.DefaultParams()) },
			stored: func(ctx sdk.Context, n *engine.Node) (string, error) {
				s := n.K.Token.GetParams(ctx)
				return s.String(), s.Validate()
			},
			genesis: func(n *engine.Node, gs simapp.GenesisState) {
				var g tokenv1.GenesisState
				n.App.AppCodec().MustUnmarshalJSON(gs["token"], &g)
				g.Params = p
				gs["token"] = n.App.AppCodec().MustMarshalJSON(&g)
			}}
	case "service":
		p := svctypes.Params{MaxRequestTimeout: i64(v["max_request_timeout"]), MinDepositMultiple: i64(v["min_deposit_multiple"]),
			MinDeposit:    sdk.Coins{sdk.Coin{Denom: v["min_deposit_denom"], Amount: intOf(v["min_deposit"])}},
			ServiceFeeTax: decOf(v["service_fee_tax"]), SlashFraction: decOf(v["slash_fraction"]),
			ComplaintRetrospect: time.Duration(i64(v["complaint_retrospect"])), ArbitrationTimeLimit: time.Duration(i64(v["arbitration_time_limit"])),
			TxSizeLimit: u64(v["tx_size_limit"]), BaseDenom: v["base_denom"], RestrictedServiceFeeDenom: v["restricted_service_fee_denom"] == "true"}
		return &labCase{module: a.Module, validate: p.Validate,
			update: func(auth string) sdk.Msg { return &svctypes.MsgUpdateParams{Authority: auth, Params: p} },
			defaults: func(ctx sdk.Context, n *engine.Node) error {
				return n.K.Service.SetParams(ctx, svctypes.DefaultParams())
			},
			stored: func(ctx sdk.Context, n *engine.Node) (string, error) {
				s := n.K.Service.GetParams(ctx)
				return s.String(), s.Validate()
			},
			genesis: func(n *engine.Node, gs simapp.GenesisState) {
				var g svctypes.GenesisState
				n.App.AppCodec().MustUnmarshalJSON(gs[svctypes.ModuleName], &g)
				g.Params = p
				gs[svctypes.ModuleName] = n.App.AppCodec().MustMarshalJSON(&g)
			}}
	case "htlc":
		var p htlctypes.Params
		if f, ok := v["mutate_field"]; ok {
			cur := w.Node.K.HTLC.GetParams(w.Node.Ctx())
			p.AssetParams = append(p.AssetParams, cur.AssetParams...)
			if len(p.AssetParams) > 0 {
				i := int(u64(v["mutate_asset"])) % len(p.AssetParams)
				as := p.AssetParams[i]
				val := v["mutate_value"]
				switch f {
				case "time_period":
					as.SupplyLimit.TimePeriod = time.Duration(i64(val))
					if v["also_time_limited"] == "true" {
						as.SupplyLimit.TimeLimited = true
					}
				case "time_limited":
					as.SupplyLimit.TimeLimited = val == "true"
				case "limit":
					as.SupplyLimit.Limit = intOf(val)
				case "time_based_limit":
					as.SupplyLimit.TimeBasedLimit = intOf(val)
				case "active":
					as.Active = val == "true"
				case "fixed_fee":
					as.FixedFee = intOf(val)
				case "min_swap":
					as.MinSwapAmount = intOf(val)
				case "max_swap":
					as.MaxSwapAmount = intOf(val)
				case "min_lock":
					as.MinBlockLock = u64(val)
				case "max_lock":
					as.MaxBlockLock = u64(val)
				case "deputy":
					switch val {
					case "actor0":
						as.DeputyAddress = w.A(0).Addr.String()
					case "actor1":
						as.DeputyAddress = w.A(1).Addr.String()
					case "governor":
						as.DeputyAddress = w.Governor().Addr.String()
					default:
						as.DeputyAddress = val
					}
				}
				p.AssetParams[i] = as
			}
		}
		for _, as := range a.Assets {
			dep := as["deputy"]
			switch dep {
			case "actor0":
				dep = w.A(0).Addr.String()
			case "actor1":
				dep = w.A(1).Addr.String()
			case "governor":
				dep = w.Governor().Addr.String()
			}
			p.AssetParams = append(p.AssetParams, htlctypes.AssetParam{Denom: as["denom"],
				SupplyLimit: htlctypes.SupplyLimit{Limit: intOf(as["limit"]), TimeLimited: as["time_limited"] == "true",
					TimePeriod: time.Duration(i64(as["time_period"])), TimeBasedLimit: intOf(as["time_based_limit"])},
				Active: as["active"] == "true", DeputyAddress: dep, FixedFee: intOf(as["fixed_fee"]),
				MinSwapAmount: intOf(as["min_swap"]), MaxSwapAmount: intOf(as["max_swap"]),
				MinBlockLock: u64(as["min_lock"]), MaxBlockLock: u64(as["max_lock"])})
		}
		return &labCase{module: a.Module, validate: p.Validate,
			update: func(auth string) sdk.Msg { return &htlctypes.MsgUpdateParams{Authority: auth, Params: p} },
			// "defaults" for htlc: the parameters the chain currently runs with (the module's
			// literal default is an empty asset list, under which no cross-chain operation is
			// possible at all)
			defaults: func(ctx sdk.Context, n *engine.Node) error { return nil },
			stored: func(ctx sdk.Context, n *engine.Node) (string, error) {
				s := n.K.HTLC.GetParams(ctx)
				return s.String(), s.Validate()
			},
			genesis: func(n *engine.Node, gs simapp.GenesisState) {
				var g htlctypes.GenesisState
				n.App.AppCodec().MustUnmarshalJSON(gs[htlctypes.ModuleName], &g)
				g.Params = p
				gs[htlctypes.ModuleName] = n.App.AppCodec().MustMarshalJSON(&g)
			},
			extra: func(n *engine.Node) []sdk.Msg {
				// for every asset of P: the deputy opens an incoming transfer and a user an
				// outgoing one, in the very block the set came into force (before the next
				// begin block has seen it)
				var out []sdk.Msg
				for i, as := range p.AssetParams {
					if _, err := sdk.AccAddressFromBech32(as.DeputyAddress); err != nil || as.Denom == "" || as.MinSwapAmount.IsNil() || as.MaxSwapAmount.IsNil() || as.FixedFee.IsNil() {
						continue
					}
					amt := as.MinSwapAmount
					if amt.LTE(as.FixedFee) {
						amt = as.FixedFee.AddRaw(1)
					}
					if !amt.IsPositive() || amt.GT(as.MaxSwapAmount) {
						continue
					}
					if sdk.ValidateDenom(as.Denom) != nil {
						continue
					}
					lock := as.MinBlockLock
					hl := fmt.Sprintf("%064x", 0x5151+i)
					user := w.A(2 + i%2).Addr.String()
					out = append(out, &htlctypes.MsgCreateHTLC{Sender: as.DeputyAddress, To: user, ReceiverOnOtherChain: "other-chain-deputy", SenderOnOtherChain: "other-chain-sender",
						Amount: sdk.NewCoins(sdk.NewCoin(as.Denom, amt)), HashLock: hl, Timestamp: uint64(n.Time.Unix()), TimeLock: lock, Transfer: true})
					out = append(out, &htlctypes.MsgCreateHTLC{Sender: user, To: as.DeputyAddress, ReceiverOnOtherChain: "other-chain-user", SenderOnOtherChain: "other-chain-deputy",
						Amount: sdk.NewCoins(sdk.NewCoin(as.Denom, amt)), HashLock: fmt.Sprintf("%064x", 0x6161+i), Timestamp: uint64(n.Time.Unix()), TimeLock: lock, Transfer: true})
				}
				return out
			}}
	}
	return nil
}

type outcome struct {
	class string // ok | error | panic
	text  string
	site  string
}

func runMsg(n *engine.Node, ctx sdk.Context, msg sdk.Msg) outcome {
	if vb, ok := msg.(interface{ ValidateBasic() error }); ok {
		var verr error
		if err := engine.Catch("ValidateBasic", func() error { verr = vb.ValidateBasic(); return nil }); err != nil {
			p := err.(*engine.Panic)
			return outcome{"panic", p.Value, "ValidateBasic/" + engine.PanicSite(p.Stack)}
		}
		if verr != nil {
			return outcome{"error", verr.Error(), ""}
		}
	}
	h := n.App.MsgServiceRouter().Handler(msg)
	if h == nil {
		return outcome{"error", "no handler", ""}
	}
	var herr error
	if err := engine.Catch("handler", func() error { _, herr = h(ctx, msg); return nil }); err != nil {
		p := err.(*engine.Panic)
		if strings.Contains(p.Value, "overflow") {
			// the SDK's checked integers and decimals panic when a result leaves their range
			// and baseapp turns that into a failed transaction: it depends on the magnitudes
			// in the state and in the message, not on the parameter value "by itself", and is
			// counted as an ordinary rejection of a message (never for begin/end block)
			return outcome{"overflow", p.Value, engine.PanicSite(p.Stack)}
		}
		return outcome{"panic", p.Value, engine.PanicSite(p.Stack)}
	}
	if herr != nil {
		return outcome{"error", herr.Error(), ""}
	}
	return outcome{"ok", "", ""}
}

func branch(n *engine.Node) sdk.Context {
	ctx, _ := n.Ctx().CacheContext()
	return ctx.WithBlockHeight(n.Height + 1).WithBlockTime(n.Time.Add(5 * time.Second)).
		WithEventManager(sdk.NewEventManager()).WithGasMeter(storetypes.NewInfiniteGasMeter())
}

func runBlockHooks(n *engine.Node, ctx sdk.Context) outcome {
	if err := engine.Catch("BeginBlock", func() error { _, e := n.App.ModuleManager.BeginBlock(ctx); return e }); err != nil {
		if p, ok := err.(*engine.Panic); ok {
			return outcome{"panic", p.Value, "BeginBlock/" + engine.PanicSite(p.Stack)}
		}
		return outcome{"error", err.Error(), ""}
	}
	if err := engine.Catch("EndBlock", func() error { _, e := n.App.ModuleManager.EndBlock(ctx); return e }); err != nil {
		if p, ok := err.(*engine.Panic); ok {
			return outcome{"panic", p.Value, "EndBlock/" + engine.PanicSite(p.Stack)}
		}
		return outcome{"error", err.Error(), ""}
	}
	return outcome{"ok", "", ""}
}

func (m *ParamLab) OnFault(w *engine.World, f engine.Fault) {
	if f.Kind != "paramlab" {
		return
	}
	var a labArgs
	if err := json.Unmarshal(f.Args, &a); err != nil {
		engine.Fatal("paramlab args: %v", err)
	}
	c := m.caseOf(w, a)
	if c == nil {
		return
	}
	n := w.Node
	w.Hit("C16.experiments")
	w.Hit("C16.experiments." + a.Module)
	// the module's own verdict on P (a panic inside Validate counts as a rejection)
	var verr error
	if err := engine.Catch("Validate", func() error { verr = c.validate(); return nil }); err != nil {
		verr = err
		w.Hit("C16.validate_panicked")
	}
	valid := verr == nil
	if valid {
		w.Hit("C16.valid_sets")
	} else {
		w.Hit("C16.invalid_sets")
	}

	// (1) non-authority: rejected, nothing changes
	for i, who := range []string{w.A(0).Addr.String(), engine.ModAddr("gov")} {
		ctx := branch(n)
		before, _ := c.stored(ctx, n)
		out := runMsg(n, ctx, c.update(who))
		after, _ := c.stored(ctx, n)
		w.Hit("C16.non_authority_attempts")
		if out.class == "ok" || before != after {
			w.Violate("C16", "authority/"+a.Module, "MsgUpdateParams of %s naming authority %s (not the configured authority %s; attempt %d) ended %q and stored params went from %s to %s",
				a.Module, who, w.Governor().Addr, i, out.class, before, after)
		}
	}

	// (2) the authority submits P
	pctx := branch(n)
	out := runMsg(n, pctx, c.update(w.Governor().Addr.String()))
	storedStr, storedErr := "", error(nil)
	if err := engine.Catch("stored", func() error { storedStr, storedErr = c.stored(pctx, n); return nil }); err != nil {
		storedErr = err
	}
	if out.class == "ok" {
		w.Hit("C16.sets_stored")
		if !valid {
			w.Violate("C16", "invalid-stored/"+a.Module+"/message", "%s parameters that the module's own Validate rejects (%v) were stored by MsgUpdateParams: %s", a.Module, verr, storedStr)
			return
		}
		if storedErr != nil {
			w.Violate("C16", "invalid-stored/"+a.Module+"/readback", "%s parameters stored by MsgUpdateParams fail Validate when read back: %v", a.Module, storedErr)
			return
		}
	} else {
		w.Hit("C16.sets_rejected")
		if valid && out.class == "panic" {
			w.Violate("C16", "handler-abort/"+a.Module+"/MsgUpdateParams/"+out.site, "MsgUpdateParams with %s parameters that pass Validate aborted: %s", a.Module, out.text)
		}
	}

	// (2b) genesis: a set the module rejects must not be importable
	// (a genesis file cannot express an absent field: JSON encodes a nil number as "0", so
	// sets with absent fields are not what the import would see)
	if a.Genesis && !hasAbsent(a) {
		m.genesisArm(w, c, valid, verr)
	}
	if out.class != "ok" {
		return
	}

	// (3) differential: every sampled operation and the next begin/end block under P and
	// under the defaults
	dctx := branch(n)
	if err := c.defaults(dctx, n); err != nil {
		engine.Fatal("paramlab: cannot install default params of %s: %v", a.Module, err)
	}
	for _, op := range a.Ops {
		mod := w.Mod(op.Mod)
		if mod == nil {
			continue
		}
		var msg sdk.Msg
		var berr error
		if err := engine.Catch("Build", func() error { msg, berr = mod.Build(w, op); return nil }); err != nil || berr != nil || msg == nil {
			continue
		}
		po := runMsg(n, pctx, msg)
		do := runMsg(n, dctx, msg)
		w.Hit("C16.differential_msgs")
		w.Hit("C16.outcome." + po.class)
		if po.class == "panic" && do.class != "panic" {
			w.Violate("C16", fmt.Sprintf("handler-abort/%s/%s/%s", a.Module, sdk.MsgTypeURL(msg), po.site),
				"under %s parameters that pass validation (%s) the message %s aborts (%s) while under the defaults it ends %q: %s",
				a.Module, storedStr, sdk.MsgTypeURL(msg), po.text, do.class, do.text)
		}
	}
	if c.extra != nil {
		for _, msg := range c.extra(n) {
			po := runMsg(n, pctx, msg)
			do := runMsg(n, dctx, msg)
			w.Hit("C16.differential_msgs")
			w.Hit("C16.differential_extra_msgs")
			w.Hit("C16.outcome." + po.class)
			if po.class == "panic" && do.class != "panic" {
				w.Violate("C16", fmt.Sprintf("handler-abort/%s/%s/%s", a.Module, sdk.MsgTypeURL(msg), po.site),
					"under %s parameters that pass validation (%s) the message %s aborts (%s) while under the parameters the chain runs with it ends %q: %s",
					a.Module, storedStr, sdk.MsgTypeURL(msg), po.text, do.class, do.text)
				break
			}
		}
	}
	// the next blocks on both branches: objects fall due (requests expire, batches start,
	// contracts expire, pools end) under the stored set; one of the steps is a jump in block
	// time so that limit windows roll over
	var pb, db outcome
	jumpAt := 1 + int(engine.Mix(w.Seed, "labjump", uint64(n.Height))%4)
	jump := []time.Duration{5 * time.Second, time.Hour, 40 * 24 * time.Hour}[int(engine.Mix(w.Seed, "labjumpsize", uint64(n.Height))%3)]
	t := n.Time
	for k := int64(1); k <= 14; k++ {
		t = t.Add(5 * time.Second)
		if int(k) == jumpAt {
			t = t.Add(jump)
		}
		pb = runBlockHooks(n, pctx.WithBlockHeight(n.Height+k).WithBlockTime(t))
		db = runBlockHooks(n, dctx.WithBlockHeight(n.Height+k).WithBlockTime(t))
		w.Hit("C16.branch_blocks")
		if pb.class == "panic" || db.class == "panic" {
			break
		}
	}
	w.Hit("C16.differential_blocks")
	if pb.class == "panic" && db.class != "panic" {
		w.Violate("C16", fmt.Sprintf("block-abort/%s/%s", a.Module, pb.site),
			"under %s parameters that pass validation (%s) begin/end block aborts (%s) while under the defaults it ends %q", a.Module, storedStr, pb.text, db.class)
	}
}

func hasAbsent(a labArgs) bool {
	for _, v := range a.Values {
		if v == "absent" {
			return true
		}
	}
	for _, as := range a.Assets {
		for _, v := range as {
			if v == "absent" {
				return true
			}
		}
	}
	return false
}

func (m *ParamLab) genesisArm(w *engine.World, c *labCase, valid bool, verr error) {
	n := engine.NewNode("genesis-lab", w.NodeOpt)
	spec := w.GenesisSpec()
	spec.Mutators = append(spec.Mutators, func(n *engine.Node, gs simapp.GenesisState) { c.genesis(n, gs) })
	var state []byte
	if err := engine.Catch("BuildGenesis", func() error { state = n.BuildGenesis(spec); return nil }); err != nil {
		return // the set cannot even be encoded into a genesis file
	}
	err := n.InitChain(state, spec.Time, 1, w.Cfg.MaxGas)
	w.Hit("C16.genesis_imports")
	if err == nil && !valid {
		w.Violate("C16", "invalid-stored/"+c.module+"/genesis", "%s parameters that the module's own Validate rejects (%v) were accepted by genesis import", c.module, verr)
	}
	if err == nil && valid {
		m.canonicalArm(w, c, n)
	}
}

// OnCommit: the parameters stored on the real chain always pass the module's Validate.
func (m *ParamLab) OnCommit(w *engine.World) {
	ctx := w.Node.Ctx()
	k := w.Node.K
	checks := []struct {
		name string
		err  func() error
	}{
		{"coinswap", func() error { return k.Coinswap.GetParams(ctx).Validate() }},
		{"farm", func() error { return k.Farm.GetParams(ctx).Validate() }},
		{"htlc", func() error { return k.HTLC.GetParams(ctx).Validate() }},
		{"service", func() error { return k.Service.GetParams(ctx).Validate() }},
		{"token", func() error { return k.Token.GetParams(ctx).Validate() }},
	}
	for _, c := range checks {
		var verr error
		if err := engine.Catch("Validate", func() error { verr = c.err(); return nil }); err != nil {
			verr = err
		}
		w.Hit("C16.stored_validations")
		if verr != nil {
			w.Violate("C16", "invalid-stored/"+c.name+"/chain", "stored %s parameters fail the module's own validation after block %d: %v", c.name, w.Height, verr)
		}
	}
}
