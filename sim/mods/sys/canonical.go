package sys

import (
	"fmt"

	sdkmath "cosmossdk.io/math"
	sdk "github.com/cosmos/cosmos-sdk/types"

	cstypes "mods.irisnet.org/modules/coinswap/types"
	farmtypes "mods.irisnet.org/modules/farm/types"
	tokenv1 "mods.irisnet.org/modules/token/types/v1"

	"verif/sim/engine"
)

// The canonical scenario: a fixed sequence of the smallest ordinary operations of a module
// (amounts of a few units up to a few thousand) on a chain that has executed nothing but its
// genesis block. Under the defaults every step ends in success or an ordinary rejection.
// When a parameter set P that the module's validation accepts makes one of these steps
// abort, neither the operands nor the history can be blamed: the parameter value did it "by
// itself" - also when the abort is a checked-integer overflow, which the differential on the
// main chain's state has to excuse because large reserves and amounts overflow on their own
// (DESIGN.md section 14, "Checked-integer overflow in C16").
type canonStep struct {
	name string
	msg  func(h int64) sdk.Msg
}

func canonicalSteps(w *engine.World, module string) []canonStep {
	a0, a1 := w.A(0).Addr.String(), w.A(1).Addr.String()
	tok := ""
	for _, c := range w.GenesisSpec().Accounts[0].Coins {
		if c.Denom != "stake" && len(c.Denom) == 3 && tok == "" {
			tok = c.Denom // a plain three-letter denom every actor holds
		}
	}
	coin := func(d string, n int64) sdk.Coin { return sdk.NewInt64Coin(d, n) }
	far := int64(4102444800) // deadline: the year 2100
	var out []canonStep
	if tok == "" {
		return nil
	}
	addLiq := canonStep{"add-liquidity-new-pool", func(int64) sdk.Msg {
		return &cstypes.MsgAddLiquidity{MaxToken: coin(tok, 5000), ExactStandardAmt: sdkmath.NewInt(5000), MinLiquidity: sdkmath.NewInt(1), Deadline: far, Sender: a0}
	}}
	switch module {
	case "coinswap":
		out = append(out, addLiquidityNamed(addLiq),
			canonStep{"add-liquidity", func(int64) sdk.Msg {
				return &cstypes.MsgAddLiquidity{MaxToken: coin(tok, 1000), ExactStandardAmt: sdkmath.NewInt(500), MinLiquidity: sdkmath.NewInt(1), Deadline: far, Sender: a1}
			}},
			canonStep{"sell-exact", func(int64) sdk.Msg {
				return &cstypes.MsgSwapOrder{Input: cstypes.Input{Address: a1, Coin: coin(tok, 100)}, Output: cstypes.Output{Address: a1, Coin: coin("stake", 1)}, Deadline: far, IsBuyOrder: false}
			}},
			canonStep{"buy-exact", func(int64) sdk.Msg {
				return &cstypes.MsgSwapOrder{Input: cstypes.Input{Address: a1, Coin: coin("stake", 1000)}, Output: cstypes.Output{Address: a1, Coin: coin(tok, 50)}, Deadline: far, IsBuyOrder: true}
			}},
			canonStep{"add-one-sided", func(int64) sdk.Msg {
				return &cstypes.MsgAddUnilateralLiquidity{CounterpartyDenom: tok, ExactToken: coin(tok, 100), MinLiquidity: sdkmath.NewInt(1), Deadline: far, Sender: a1}
			}},
			canonStep{"remove-one-sided", func(int64) sdk.Msg {
				return &cstypes.MsgRemoveUnilateralLiquidity{CounterpartyDenom: tok, MinToken: coin(tok, 1), ExactLiquidity: sdkmath.NewInt(10), Deadline: far, Sender: a1}
			}},
			canonStep{"remove-liquidity", func(int64) sdk.Msg {
				return &cstypes.MsgRemoveLiquidity{WithdrawLiquidity: coin("lpt-1", 10), MinToken: sdkmath.NewInt(1), MinStandardAmt: sdkmath.NewInt(1), Deadline: far, Sender: a0}
			}})
	case "farm":
		out = append(out, addLiquidityNamed(addLiq),
			canonStep{"create-pool", func(h int64) sdk.Msg {
				return &farmtypes.MsgCreatePool{Description: "canonical", LptDenom: "lpt-1", StartHeight: h + 1, RewardPerBlock: sdk.NewCoins(coin("stake", 3)),
					TotalReward: sdk.NewCoins(coin("stake", 300)), Editable: true, Creator: a0}
			}},
			canonStep{"stake", func(int64) sdk.Msg { return &farmtypes.MsgStake{PoolId: "farm-CANON", Amount: coin("lpt-1", 100), Sender: a0} }},
			canonStep{"harvest", func(int64) sdk.Msg { return &farmtypes.MsgHarvest{PoolId: "farm-CANON", Sender: a0} }},
			canonStep{"adjust", func(int64) sdk.Msg {
				return &farmtypes.MsgAdjustPool{PoolId: "farm-CANON", AdditionalReward: sdk.NewCoins(coin("stake", 30)), Creator: a0}
			}},
			canonStep{"unstake", func(int64) sdk.Msg { return &farmtypes.MsgUnstake{PoolId: "farm-CANON", Amount: coin("lpt-1", 40), Sender: a0} }},
			canonStep{"destroy", func(int64) sdk.Msg { return &farmtypes.MsgDestroyPool{PoolId: "farm-CANON", Creator: a0} }})
	case "token":
		out = append(out,
			canonStep{"issue", func(int64) sdk.Msg {
				return &tokenv1.MsgIssueToken{Symbol: "canon", Name: "canonical", Scale: 6, MinUnit: "ucanon", InitialSupply: 100, MaxSupply: 1000, Mintable: true, Owner: a0}
			}},
			canonStep{"mint", func(int64) sdk.Msg {
				return &tokenv1.MsgMintToken{Coin: coin("ucanon", 7000000), Receiver: a1, Owner: a0}
			}},
			canonStep{"edit", func(int64) sdk.Msg {
				return &tokenv1.MsgEditToken{Symbol: "canon", Name: "canonical2", MaxSupply: 500, Mintable: "true", Owner: a0}
			}},
			canonStep{"burn", func(int64) sdk.Msg { return &tokenv1.MsgBurnToken{Coin: coin("ucanon", 5), Sender: a0} }},
			canonStep{"transfer-owner", func(int64) sdk.Msg { return &tokenv1.MsgTransferTokenOwner{SrcOwner: a0, DstOwner: a1, Symbol: "canon"} }})
	}
	return out
}

func addLiquidityNamed(s canonStep) canonStep { return s }

// runCanonical executes the module's canonical steps on a node that has committed its
// genesis block only; a few empty begin/end blocks are interleaved (the farm pool starts,
// rewards accrue). It returns the outcome of every step.
func runCanonical(w *engine.World, n *engine.Node, module string) (outs []outcome, names []string) {
	steps := canonicalSteps(w, module)
	if len(steps) == 0 {
		return nil, nil
	}
	blk := &engine.Block{Height: n.Height + 1, Time: n.Time.Add(5e9)}
	if _, err := n.Exec(blk); err != nil {
		return nil, nil
	}
	if err := n.Commit(blk); err != nil {
		return nil, nil
	}
	ctx := branch(n)
	h := n.Height + 1
	farmPool := ""
	for i, s := range steps {
		msg := s.msg(h)
		// the farm pool's id is the module's to choose: read it back after the creation
		switch m := msg.(type) {
		case *farmtypes.MsgStake:
			m.PoolId = farmPool
		case *farmtypes.MsgHarvest:
			m.PoolId = farmPool
		case *farmtypes.MsgAdjustPool:
			m.PoolId = farmPool
		case *farmtypes.MsgUnstake:
			m.PoolId = farmPool
		case *farmtypes.MsgDestroyPool:
			m.PoolId = farmPool
		}
		o := runMsg(n, ctx, msg)
		outs = append(outs, o)
		names = append(names, fmt.Sprintf("%d-%s", i, s.name))
		if _, ok := msg.(*farmtypes.MsgCreatePool); ok && o.class == "ok" {
			n.K.Farm.IteratorAllPools(ctx, func(p farmtypes.FarmPool) {
				if p.Description == "canonical" {
					farmPool = p.Id
				}
			})
		}
		// two blocks pass between the steps
		for k := 0; k < 2; k++ {
			h++
			ctx = ctx.WithBlockHeight(h).WithBlockTime(ctx.BlockTime().Add(5e9))
			if b := runBlockHooks(n, ctx); b.class == "panic" {
				outs = append(outs, b)
				names = append(names, fmt.Sprintf("%d-%s/next-block", i, s.name))
				return
			}
		}
	}
	return
}

// canonicalArm compares the canonical scenario under P (node already initialised from a
// genesis carrying P) with the scenario under the defaults on another fresh node.
func (m *ParamLab) canonicalArm(w *engine.World, c *labCase, pn *engine.Node) {
	if len(canonicalSteps(w, c.module)) == 0 {
		return
	}
	if m.canonD == nil {
		m.canonD = map[string][]outcome{}
	}
	d, ok := m.canonD[c.module]
	if !ok {
		dn := engine.NewNode("canonical-defaults", w.NodeOpt)
		spec := w.GenesisSpec()
		state := dn.BuildGenesis(spec)
		if err := dn.InitChain(state, spec.Time, 1, w.Cfg.MaxGas); err != nil {
			engine.Fatal("canonical scenario: the run's own genesis is rejected by a fresh node: %v", err)
		}
		d, _ = runCanonical(w, dn, c.module)
		m.canonD[c.module] = d
		for _, o := range d {
			w.Hit("C16.canonical_default_outcome." + o.class)
		}
	}
	p, names := runCanonical(w, pn, c.module)
	stored := ""
	_ = engine.Catch("stored", func() error { stored, _ = c.stored(pn.BranchCtx(), pn); return nil })
	w.Hit("C16.canonical_scenarios")
	for i := range p {
		w.Hit("C16.canonical_steps")
		w.Hit("C16.canonical_outcome." + p[i].class)
		aborted := p[i].class == "panic" || p[i].class == "overflow"
		dAborted := i < len(d) && (d[i].class == "panic" || d[i].class == "overflow")
		if aborted && !dAborted {
			dcls := "(not reached)"
			if i < len(d) {
				dcls = d[i].class
			}
			w.Violate("C16", fmt.Sprintf("handler-abort/%s/canonical/%s/%s", c.module, names[i][2:], p[i].site),
				"on a fresh chain whose genesis carries %s parameters that pass validation (%s) the canonical small operation %s aborts (%s: %s); under the defaults the same step ends %q",
				c.module, stored, names[i], p[i].class, p[i].text, dcls)
			return
		}
	}
}
