//go:build go1.25

//go:debug asynctimerchan=0
package sys

import (
	"os"
	"testing"

	"verif/sim/engine/devtest"
	"verif/sim/mods/amm"
)

func TestDev(t *testing.T) {
	amm.Register()
	Register()
	if p := os.Getenv("DEV_REPLAY"); p != "" {
		devtest.Replay(t, p)
		return
	}
	prop := os.Getenv("DEV_PROP")
	if prop == "" {
		prop = "C11"
	}
	devtest.Run(t, prop, 20)
}
