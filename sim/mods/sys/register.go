package sys

import (
	"verif/sim/engine"
	"verif/sim/mods/amm"
)

// Workloads lists the constructors of every workload module that takes part in the mixed
// profile; registry.go appends to it as modules come in.
var Workloads = []func() engine.Module{
	func() engine.Module { return amm.New() },
}

func mixed(extra ...func() engine.Module) func() []engine.Module {
	return func() []engine.Module {
		var ms []engine.Module
		for _, f := range Workloads {
			ms = append(ms, f())
		}
		for _, f := range extra {
			ms = append(ms, f())
		}
		return ms
	}
}

// Register installs the node-level profiles and properties.
func Register() {
	tune := func(c *engine.EngineConfig, r *engine.Rand) {
		c.OpsPerBlock = 2 + 6*r.Float()
	}
	groups := [][]string{{"service", "oraclefeed", "random"}, {"service", "oraclefeed"}, {"farm", "amm"}, {"htlc"}, {"token"}, {"nft", "mt", "record"}}
	engine.RegisterProfile(&engine.Profile{Name: "mixed-replicas",
		Tune: func(c *engine.EngineConfig, r *engine.Rand) {
			tune(c, r)
			if r.Bool(0.6) {
				// the primary runs "live": host clock = block time, chain starts at the host's now
				c.HostFollowsChain = true
				c.GenesisUnix = 946684800 + r.Int63n(3600)
			}
		},
		// the service / feed chain of events (price feed, bindings priced through it) is long;
		// give it a larger share of the operations here
		Weights: map[string]int{"service": 30, "oraclefeed": 30, "random": 20},
		// what C11 names (host clock, map order, floating point, process-local caches) lives
		// mostly in service and oracle: their group is drawn more often here
		Groups: append([][]string{{"service", "oraclefeed"}, {"service", "oraclefeed"}, {"service", "oraclefeed", "random"}}, groups...),
		Mods:    mixed(func() engine.Module { return NewReplicas() })})
	engine.RegisterProfile(&engine.Profile{Name: "mixed-export", Tune: tune, Groups: groups,
		Mods: mixed(func() engine.Module { return NewExporter() })})
	engine.RegisterProfile(&engine.Profile{Name: "mixed-lab", Tune: tune, Groups: groups,
		Mods: mixed(func() engine.Module { return NewParamLab() })})
	engine.RegisterProfile(&engine.Profile{Name: "mixed", Tune: func(c *engine.EngineConfig, r *engine.Rand) {
		tune(c, r)
		if c.Blocks < 70 {
			c.Blocks += 40
		}
	}, Groups: groups, Mods: mixed()})
	engine.RegisterProperty(&engine.Property{
		ID: "C13", Profile: "mixed",
		NonTrivial: func(c map[string]int64) bool {
			return c["C13.htlc_queue_checks"]+c["C13.farm_queue_checks"]+c["C13.service_queue_checks"]+c["C13.random_queue_checks"] > 40 &&
				c["tx.ok"] > 20
		},
		Probes: []string{"C13.htlc_queue_checks", "C13.farm_queue_checks", "C13.service_queue_checks", "C13.random_queue_checks",
			"htlc.multi_expiry_height", "htlc.claim_at_expiry", "farm.pools_end_same_height", "farm.destroy_end_block", "farm.adjust_end_block",
			"farm.stake_end_block", "svc.respond_in_expiry_block", "svc.pause_during_batch", "svc.kill_with_active_requests",
			"svc.request_expired", "random.several_due_at_one_height", "fault.restart", "fault.crash_before_commit", "fault.clock_jump_days"},
		Rule: "all ten workload modules on one chain with due-height targeting; a run is non-trivial when the four modules' queues were compared with their objects after more than forty blocks in total and more than twenty transactions were accepted; any panic escaping FinalizeBlock with an irismod frame is a violation; distinct = different fingerprint of the executed (operation kind, outcome class) sequence",
	})
	engine.RegisterProperty(&engine.Property{
		ID: "C16", Profile: "mixed-lab",
		NonTrivial: func(c map[string]int64) bool { return c["C16.sets_stored"] > 0 && c["C16.differential_msgs"] > 0 },
		Probes: []string{"C16.experiments", "C16.valid_sets", "C16.invalid_sets", "C16.sets_stored", "C16.sets_rejected",
			"C16.non_authority_attempts", "C16.differential_msgs", "C16.differential_blocks", "C16.genesis_imports",
			"C16.stored_validations", "C16.canonical_scenarios"},
		Rule: "a run is non-trivial when at least one generated parameter set was stored through the module's MsgUpdateParams handler on a branch and at least one workload message was executed under it and under the defaults; distinct = different fingerprint of the executed (operation kind, outcome class) sequence",
	})
	engine.RegisterProperty(&engine.Property{
		ID: "C11", Profile: "mixed-replicas",
		NonTrivial: func(c map[string]int64) bool { return c["C11.block_comparisons"] > 10 && c["tx.ok"] > 5 },
		Probes: []string{"C11.block_comparisons", "C11.export_comparisons", "C11.double_exports", "fault.host_clock_skew",
			"fault.host_clock_skew_gt_5m", "fault.host_clock_skew_gt_1h", "fault.host_clock_skew_gt_1d",
			"fault.replica_restart", "fault.replica_crash_before_commit",
			"clock.host_synced_to_block_time", "oraclefeed.exchange_rate_used"},
		Rule: "a run is non-trivial when a replica re-executed more than ten blocks containing more than five accepted transactions and every block's app hash and tx results were compared; distinct = different fingerprint of the executed (operation kind, outcome class) sequence",
	})
	engine.RegisterProperty(&engine.Property{
		ID: "C12", Profile: "mixed-export",
		NonTrivial: func(c map[string]int64) bool { return c["C12.imports_accepted"] > 0 && c["tx.ok"] > 5 },
		Probes:     []string{"C12.exports", "C12.imports_accepted", "C12.fixpoint_comparisons", "C12.prep_exports"},
		Rule:       "a run is non-trivial when at least one export of a state produced by more than five accepted transactions was imported into a fresh application and re-exported; distinct = different fingerprint of the executed (operation kind, outcome class) sequence",
	})
}
