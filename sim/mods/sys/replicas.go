// Package sys holds the node-level machinery: replicas (C11), export/import (C12),
// parameter experiments (C16) and the mixed profile.
package sys

import (
	"bytes"
	"crypto/sha256"
	"encoding/hex"
	"encoding/json"
	"fmt"
	"sort"
	"strings"
	"time"

	storetypes "cosmossdk.io/store/types"
	abci "github.com/cometbft/cometbft/abci/types"

	htlctypes "mods.irisnet.org/modules/htlc/types"
	"mods.irisnet.org/simapp"

	"verif/sim/engine"
)

// ReplicaConfig is the per-run configuration of the replica machinery.
type ReplicaConfig struct {
	Kinds       []string `json:"kinds"`        // twin | late | restarter | crashy
	SkewNs      int64    `json:"skew_ns"`      // host-clock distance of the late joiner
	RestartProb float64  `json:"restart_prob"` // restarter: probability of a restart at each block boundary
	CrashEvery  int      `json:"crash_every"`  // crashy: crash before commit every k-th block
	ExportEvery int      `json:"export_every"` // compare exported genesis every k-th block (0: only at the end)
	// OmitHTLCPrevTime: the genesis leaves htlc's previous_block_time unset (a hand-written
	// genesis may): nothing may then fall back to a process-local value
	OmitHTLCPrevTime bool `json:"omit_htlc_prev_time"`
}

// Replicas executes the recorded block stream again on fresh nodes — at another host-clock
// time, with restarts between blocks, with crashes before commit — and demands identical
// app hashes, transaction results and exported genesis (C11).
type Replicas struct {
	engine.Base
	cfg     ReplicaConfig
	blocks  []*engine.Block
	digests []string
	results [][]string // per block, per tx: rendered result
	logs    [][]string // per block, per tx: the result's log text
	exports map[int64][]byte
}

func NewReplicas() *Replicas { return &Replicas{exports: map[int64][]byte{}} }

func (m *Replicas) Name() string { return "replicas" }
func (m *Replicas) Weight() int  { return 0 }

func (m *Replicas) Configure(w *engine.World, r *engine.Rand) any {
	all := []string{"twin", "late", "restarter", "crashy"}
	c := ReplicaConfig{}
	c.Kinds = append(c.Kinds, all[r.Intn(len(all))])
	if r.Bool(0.35) {
		c.Kinds = append(c.Kinds, "late")
	}
	// skew: log-uniform from a millisecond to ten years
	exp := r.Float() * 38.3 // 2^38.3 ms ~ 10.6 years
	ms := 1.0
	for i := 0.0; i < exp; i++ {
		ms *= 2
	}
	c.SkewNs = int64(ms) * int64(time.Millisecond)
	if c.SkewNs < 0 || c.SkewNs > int64(10*365*24*time.Hour) {
		c.SkewNs = int64(10 * 365 * 24 * time.Hour)
	}
	c.RestartProb = []float64{1, 0.5, 0.1}[r.Intn(3)]
	c.CrashEvery = 1 + r.Intn(7)
	c.ExportEvery = []int{0, 0, 7, 13, 29}[r.Intn(5)]
	c.OmitHTLCPrevTime = r.Bool(0.15)
	return c
}

func (m *Replicas) LoadConfig(w *engine.World, raw json.RawMessage) {
	if err := json.Unmarshal(raw, &m.cfg); err != nil {
		engine.Fatal("replicas config: %v", err)
	}
}

// Genesis runs after the workloads' own genesis hooks.
func (m *Replicas) Genesis(w *engine.World, n *engine.Node, gs simapp.GenesisState) {
	if !m.cfg.OmitHTLCPrevTime {
		return
	}
	cdc := n.App.AppCodec()
	var hg htlctypes.GenesisState
	cdc.MustUnmarshalJSON(gs[htlctypes.ModuleName], &hg)
	hg.PreviousBlockTime = time.Time{}
	gs[htlctypes.ModuleName] = cdc.MustMarshalJSON(&hg)
	if hm, ok := w.Mod("htlc").(interface{ SetGenesisPrevTime(time.Time) }); ok {
		hm.SetGenesisPrevTime(time.Time{})
	}
	w.Hit("C11.genesis_without_htlc_prev_time")
}

func renderTx(r *abci.ExecTxResult) string {
	h := sha256.Sum256(r.Data)
	return fmt.Sprintf("code=%d codespace=%s gas=%d/%d data=%s", r.Code, r.Codespace, r.GasUsed, r.GasWanted, hex.EncodeToString(h[:6]))
}

func digest(res *abci.ResponseFinalizeBlock) (string, []string) {
	h := sha256.New()
	h.Write(res.AppHash)
	var txs []string
	for _, r := range res.TxResults {
		s := renderTx(r)
		txs = append(txs, s)
		h.Write([]byte(s))
	}
	return hex.EncodeToString(h.Sum(nil)[:10]) + "/" + hex.EncodeToString(res.AppHash[:6]), txs
}

// logsOf renders the log texts of a block's transaction results. The log of a transaction
// whose handler panicked is baseapp's, with a goroutine stack trace in it (addresses differ
// from execution to execution): only its first line is kept.
func logsOf(res *abci.ResponseFinalizeBlock) []string {
	var out []string
	for _, r := range res.TxResults {
		l := r.Log
		if i := strings.Index(l, "\nstack:"); i >= 0 {
			l = l[:i]
		}
		if i := strings.Index(l, "goroutine "); i >= 0 {
			l = l[:i]
		}
		out = append(out, l)
	}
	return out
}

func (m *Replicas) OnBlock(w *engine.World, blk *engine.Block, res *abci.ResponseFinalizeBlock) {
	cp := &engine.Block{Height: blk.Height, Time: blk.Time, Txs: blk.Txs}
	m.blocks = append(m.blocks, cp)
	d, txs := digest(res)
	m.digests = append(m.digests, d)
	m.results = append(m.results, txs)
	m.logs = append(m.logs, logsOf(res))
	if m.cfg.ExportEvery > 0 && blk.Height%int64(m.cfg.ExportEvery) == 0 {
		m.exportPrimary(w, blk.Height)
	}
}

// exportPrimary exports the primary twice: export is read-only, so two exports of one
// state must agree byte for byte.
func (m *Replicas) exportPrimary(w *engine.World, h int64) {
	a, _, err := w.Node.Export()
	if err != nil {
		reportExportPanic(w, err, "primary")
		return
	}
	b, _, err := w.Node.Export()
	if err != nil {
		reportExportPanic(w, err, "primary")
		return
	}
	w.Hit("C11.double_exports")
	if !bytes.Equal(a, b) {
		mod := firstDifferingSection(a, b)
		w.Violate("C11", "export-unstable/"+mod, "two exports of the same committed state (height %d, same node) differ in module section %q: %s",
			h, mod, sectionDiff(a, b, mod))
	}
	m.exports[h] = a
}

func reportExportPanic(w *engine.World, err error, who string) {
	if p, ok := err.(*engine.Panic); ok && p.Module() != "" {
		w.Violate("C12", "export-panic/"+p.Module(), "exporting the %s's state at height %d panicked in module %s: %s", who, w.Height, p.Module(), p.Value)
		return
	}
	engine.Fatal("export failed: %v", err)
}

func sections(state []byte) map[string]json.RawMessage {
	var m map[string]json.RawMessage
	if err := json.Unmarshal(state, &m); err != nil {
		engine.Fatal("exported state is not a JSON object: %v", err)
	}
	return m
}

func firstDifferingSection(a, b []byte) string {
	sa, sb := sections(a), sections(b)
	for _, k := range engine.SortedKeys(sa) {
		if !bytes.Equal(sa[k], sb[k]) {
			return k
		}
	}
	for _, k := range engine.SortedKeys(sb) {
		if _, ok := sa[k]; !ok {
			return k
		}
	}
	return "?"
}

func sectionDiff(a, b []byte, mod string) string {
	x, y := string(sections(a)[mod]), string(sections(b)[mod])
	i := 0
	for i < len(x) && i < len(y) && x[i] == y[i] {
		i++
	}
	lo := i - 80
	if lo < 0 {
		lo = 0
	}
	cut := func(s string) string {
		hi := i + 120
		if hi > len(s) {
			hi = len(s)
		}
		if lo > len(s) {
			return ""
		}
		return s[lo:hi]
	}
	return fmt.Sprintf("first difference at byte %d: ...%s... vs ...%s...", i, cut(x), cut(y))
}

// Final replays the recorded block stream on the replicas.
func (m *Replicas) Final(w *engine.World) {
	if len(m.blocks) == 0 || w.GenesisState == nil {
		return
	}
	last := m.blocks[len(m.blocks)-1].Height
	if _, ok := m.exports[last]; !ok {
		m.exportPrimary(w, last)
	}
	for _, kind := range m.cfg.Kinds {
		m.replay(w, kind)
	}
}

func (m *Replicas) replay(w *engine.World, kind string) {
	if kind == "late" {
		// the late joiner replays at another wall-clock time: the simulator moves the host
		// clock, nothing sleeps for real
		time.Sleep(time.Duration(m.cfg.SkewNs))
		w.Hit("fault.host_clock_skew")
		switch d := time.Duration(m.cfg.SkewNs); {
		case d > 24*time.Hour:
			w.Hit("fault.host_clock_skew_gt_1d")
		case d > time.Hour:
			w.Hit("fault.host_clock_skew_gt_1h")
		case d > 5*time.Minute:
			w.Hit("fault.host_clock_skew_gt_5m")
		}
	}
	if kind == "late" {
		// another host also has another time zone setting: nothing a node computes may go
		// through the process's local time zone
		old := time.Local
		time.Local = time.FixedZone("SIM", 5*3600+45*60)
		defer func() { time.Local = old }()
		w.Hit("fault.host_time_zone_differs")
	}
	rep := engine.NewNode("replica-"+kind, w.NodeOpt)
	gt := time.Unix(w.Cfg.GenesisUnix, 0).UTC()
	if err := rep.InitChain(w.GenesisState, gt, w.Base()+1, w.Cfg.MaxGas); err != nil {
		w.Violate("C11", "replica-genesis/"+kind, "the genesis the primary accepted was rejected by a replica (%s): %v", kind, err)
		return
	}
	w.Hit("C11.replicas")
	for i, blk := range m.blocks {
		if kind == "restarter" && i > 0 && chance(w.Seed, "restart", uint64(i), m.cfg.RestartProb) {
			rep.Restart()
			w.Hit("fault.replica_restart")
		}
		res, err := rep.Exec(blk)
		if err != nil {
			m.reportReplicaError(w, kind, blk, err)
			return
		}
		if kind == "crashy" && i > 0 && m.cfg.CrashEvery > 0 && i%m.cfg.CrashEvery == 0 {
			// crash after FinalizeBlock, before Commit: restart and execute the block again
			rep.Restart()
			w.Hit("fault.replica_crash_before_commit")
			res, err = rep.Exec(blk)
			if err != nil {
				m.reportReplicaError(w, kind, blk, err)
				return
			}
		}
		d, txs := digest(res)
		w.Hit("C11.block_comparisons")
		if d != m.digests[i] {
			what := "app-hash"
			detail := ""
			for j := range txs {
				if j < len(m.results[i]) && txs[j] != m.results[i][j] {
					what = "tx-result"
					detail = fmt.Sprintf("tx %d: primary {%s} replica {%s}", j, m.results[i][j], txs[j])
					break
				}
			}
			// commit so that the stores can be compared at this version
			_ = rep.Commit(blk)
			store, key := diffStores(w.Node, rep, blk.Height)
			w.Violate("C11", fmt.Sprintf("replica-divergence/%s/%s/%s", kind, what, store),
				"replica (%s, host clock %s later) diverged from the primary at height %d: %s; first differing store %q key %q; digests %s vs %s",
				kind, hostSkew(kind, m.cfg.SkewNs), blk.Height, detail, store, key, m.digests[i], d)
			return
		}
		// "byte-identical ... transaction results": the log text of a result is part of what a
		// node answers for the transaction
		w.Hit("C11.tx_log_comparisons")
		for j, l := range logsOf(res) {
			if j < len(m.logs[i]) && l != m.logs[i][j] {
				w.Violate("C11", "replica-divergence/"+kind+"/tx-log", "replica (%s, host clock %s later, host time zone %s) executed height %d with the same app hash and result codes, but the log of tx %d reads %q on the primary and %q on the replica",
					kind, hostSkew(kind, m.cfg.SkewNs), time.Local, blk.Height, j, clip(m.logs[i][j]), clip(l))
				break
			}
		}
		if err := rep.Commit(blk); err != nil {
			m.reportReplicaError(w, kind, blk, err)
			return
		}
		if want, ok := m.exports[blk.Height]; ok {
			got, _, err := rep.Export()
			if err != nil {
				reportExportPanic(w, err, "replica")
				return
			}
			w.Hit("C11.export_comparisons")
			if !bytes.Equal(got, want) {
				mod := firstDifferingSection(want, got)
				w.Violate("C11", "export-differs/"+mod, "exported genesis at height %d differs between the primary and a replica (%s) that executed the same blocks, in module section %q: %s",
					blk.Height, kind, mod, sectionDiff(want, got, mod))
				return
			}
		}
	}
}

func hostSkew(kind string, ns int64) time.Duration {
	if kind == "late" {
		return time.Duration(ns)
	}
	return 0
}

func (m *Replicas) reportReplicaError(w *engine.World, kind string, blk *engine.Block, err error) {
	if p, ok := err.(*engine.Panic); ok {
		w.Violate("C11", "replica-panic/"+kind+"/"+p.Module(), "replica (%s) panicked at height %d executing a block the primary executed: %s", kind, blk.Height, p.Value)
		return
	}
	engine.Fatal("replica %s: %v", kind, err)
}

// chance is a deterministic coin derived from the run seed (Final has no rng: replay mode).
func chance(seed uint64, tag string, i uint64, p float64) bool {
	if p >= 1 {
		return true
	}
	v := engine.Mix(seed, tag, i)
	return float64(v>>11)/(1<<53) < p
}

// diffStores names the first store and key in which two nodes differ at a version.
func diffStores(a, b *engine.Node, version int64) (string, string) {
	ma, errA := a.App.CommitMultiStore().CacheMultiStoreWithVersion(version)
	mb, errB := b.App.CommitMultiStore().CacheMultiStoreWithVersion(version)
	if errA != nil || errB != nil {
		return "?", fmt.Sprintf("(cannot load version %d: %v %v)", version, errA, errB)
	}
	keys := a.App.GetStoreKeys()
	sort.Slice(keys, func(i, j int) bool { return keys[i].Name() < keys[j].Name() })
	for _, k := range keys {
		kv, ok := k.(*storetypes.KVStoreKey)
		if !ok {
			continue
		}
		kb := b.App.GetKey(kv.Name())
		if kb == nil {
			continue
		}
		ia := ma.GetKVStore(kv).Iterator(nil, nil)
		ib := mb.GetKVStore(kb).Iterator(nil, nil)
		for ia.Valid() || ib.Valid() {
			switch {
			case !ib.Valid():
				key := hex.EncodeToString(ia.Key())
				ia.Close()
				ib.Close()
				return kv.Name(), key + " (missing on replica)"
			case !ia.Valid():
				key := hex.EncodeToString(ib.Key())
				ia.Close()
				ib.Close()
				return kv.Name(), key + " (missing on primary)"
			}
			if !bytes.Equal(ia.Key(), ib.Key()) || !bytes.Equal(ia.Value(), ib.Value()) {
				key := hex.EncodeToString(ia.Key())
				ia.Close()
				ib.Close()
				return kv.Name(), key
			}
			ia.Next()
			ib.Next()
		}
		ia.Close()
		ib.Close()
	}
	return "?", "(no differing key found)"
}
