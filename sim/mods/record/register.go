package record

import "verif/sim/engine"

// Register installs the record profile and the property it decides.
func Register() {
	engine.RegisterProfile(&engine.Profile{
		Name: "record",
		Mods: func() []engine.Module { return []engine.Module{New()} },
		Tune: func(c *engine.EngineConfig, r *engine.Rand) {
			c.OpsPerBlock = 0.5 + 3*r.Float()
		},
	})
	engine.RegisterProperty(&engine.Property{
		ID: "C19", Profile: "record",
		NonTrivial: func(c map[string]int64) bool {
			identical := c["record.identical_in_one_tx"] + c["record.identical_in_one_block"] + c["record.identical_in_another_block"]
			return c["C19.id_checks"] > 3 && c["C19.readback_checks"] > 10 && identical > 0
		},
		Probes: []string{"C19.id_checks", "C19.readback_checks",
			"record.identical_in_one_tx", "record.identical_in_one_block", "record.identical_in_another_block",
			"record.several_creations_in_one_tx", "record.creation_next_to_other_messages",
			"record.tx_with_creations_rolled_back", "record.creation_after_a_rolled_back_one", "record.creation_out_of_gas",
			"fault.restart", "fault.crash_before_commit",
			"record.gov_proposal_submitted", "record.gov_proposal_passed", "record.gov_records_created",
			"record.gov_identical_proposals_different_blocks"},
		Rule: "a run is non-trivial when more than three returned ids were checked for newness, at least one of them for a record byte-identical to an earlier one of the same creator (same tx, same block or another block), and more than ten read-backs of stored records were compared with what was submitted; distinct = different fingerprint of the executed (operation kind, outcome class) sequence",
	})
}
