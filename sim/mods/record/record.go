// Package record is the record workload and the oracle of C19 (a stored record is immutable,
// its id unique and permanent).
package record

import (
	"bytes"
	"crypto/sha256"
	"encoding/hex"
	"encoding/json"
	"fmt"
	"math/big"
	"strconv"
	"strings"
	"time"

	abci "github.com/cometbft/cometbft/abci/types"
	sdk "github.com/cosmos/cosmos-sdk/types"
	authtypes "github.com/cosmos/cosmos-sdk/x/auth/types"
	govtypes "github.com/cosmos/cosmos-sdk/x/gov/types"
	govv1 "github.com/cosmos/cosmos-sdk/x/gov/types/v1"

	"mods.irisnet.org/simapp"

	rectypes "mods.irisnet.org/modules/record/types"

	"verif/sim/engine"
)

const (
	Name = "record"
	Prop = "C19"
	Std  = "stake"
)

// Content mirrors the message's content entry.
type Content struct {
	Digest string `json:"digest"`
	Algo   string `json:"algo"`
	URI    string `json:"uri,omitempty"`
	Meta   string `json:"meta,omitempty"`
}

// Config is the per-run swarm configuration.
type Config struct {
	Pool       [][]Content `json:"pool"` // the content sets of this run (few: identical records are the point)
	PMulti     float64     `json:"p_multi"`
	MaxOps     int         `json:"max_ops"`
	PIdentical float64     `json:"p_identical"`
	PFailing   float64     `json:"p_failing_message"`
	PTailOnly  float64     `json:"p_failing_at_tail"`
	POtherMsg  float64     `json:"p_other_message"`
	PBurst     float64     `json:"p_burst"`
	PFavourite float64     `json:"p_favourite"` // share of creations using pool[0] from one creator
	// governance route: records created by passed proposals (executed in gov's end blocker,
	// outside any transaction)
	GovVotingSec    int64   `json:"gov_voting_sec"` // 0: leave the gov parameters alone, no proposals
	GovExpeditedSec int64   `json:"gov_expedited_voting_sec"`
	GovDepositSec   int64   `json:"gov_max_deposit_sec"`
	GovMinDeposit   int64   `json:"gov_min_deposit"`
	PGov            float64 `json:"p_gov"`
	PGovNoVote      float64 `json:"p_gov_no_vote"`
	PGovExpedited   float64 `json:"p_gov_expedited"`
	PGovFavourite   float64 `json:"p_gov_favourite"`
	// GenesisRecords: the chain starts with this many records (all alike: what a passed
	// proposal creating Pool[0] stores), chosen just below a power of two: a long history
	// behind the chain, so that the creations of the run cross a counter boundary
	GenesisRecords int `json:"genesis_records,omitempty"`
}

type rec struct {
	ID       string // as returned
	Contents []Content
	Creator  string
	TxHash   []byte
	Height   int64
	OpID     int
	Order    int
	// Gov: created by a passed proposal, outside a transaction. Its stored transaction hash
	// is whatever the module stores for "no transaction"; it is pinned at the first read-back
	// and must never change afterwards. NoContents: the proposal was not one of the run's.
	Gov        bool
	HashPinned bool
	PinnedHash string
	NoContents bool
}

// proposal is a governance proposal of this run carrying record creations.
type proposal struct {
	ID       uint64
	Tag      string
	Msgs     [][]Content
	Height   int64 // submitted
	OpID     int
	Voted    bool
	Finished bool
}

type queued struct {
	tp *engine.TxPlan
	at int64
}

type burst struct {
	actor    int
	contents []Content
	at       int64
	left     int
}

// Module implements engine.Module.
type Module struct {
	engine.Base
	cfg      Config
	recs     map[string]*rec // by normalised id
	order    []string
	burst    burst
	lastSeen map[string]int64 // creator|contents -> height of the last accepted identical creation
	inBlock  map[string]int   // creator|contents -> accepted creations in the current block
	blockH   int64
	rolled   bool // a creation was rolled back since the last accepted one

	props     map[uint64]*proposal
	queue     []queued // planned governance transactions (generation mode only)
	govSeq    int
	govAddr   string
	govSeenAt map[string]int64 // contents -> height of the last record a proposal created with them
	storeDiff int              // creations by proposals whose ids the events did not carry
}

func New() *Module {
	return &Module{recs: map[string]*rec{}, lastSeen: map[string]int64{}, inBlock: map[string]int{},
		props: map[uint64]*proposal{}, govSeenAt: map[string]int64{},
		govAddr: authtypes.NewModuleAddress(govtypes.ModuleName).String()}
}

func (m *Module) Name() string { return Name }

func text(r *engine.Rand, n int) string {
	const alpha = "abcdefghijklmnopqrstuvwxyz0123456789 /:-_"
	b := make([]byte, n)
	for i := range b {
		b[i] = alpha[r.Intn(len(alpha))]
	}
	return string(b)
}

func (m *Module) Configure(w *engine.World, r *engine.Rand) any {
	c := Config{
		PMulti:     0.2 + 0.6*r.Float(),
		MaxOps:     2 + r.Intn(4),
		PIdentical: 0.3 + 0.7*r.Float(),
		PFailing:   0.3 * r.Float(),
		PTailOnly:  0.5 + 0.5*r.Float(),
		POtherMsg:  0.3 * r.Float(),
		PBurst:     0.15 * r.Float(),
		PFavourite: 0.2 + 0.6*r.Float(),

		GovVotingSec:  6 + r.Int63n(15),
		GovDepositSec: 5 + r.Int63n(60),
		GovMinDeposit: 1 + r.Int63n(1000),
		PGov:          0.04 + 0.12*r.Float(),
		PGovNoVote:    0.2 * r.Float(),
		PGovExpedited: 0.3 * r.Float(),
		PGovFavourite: 0.5 + 0.5*r.Float(),
	}
	c.GovExpeditedSec = 2 + r.Int63n(c.GovVotingSec-2)
	if w.Focus == Prop {
		// (a stream of its own: a seed's run is otherwise what it was before this arm existed)
		gr := engine.NewRand(engine.Mix(w.Sched.Seed, "record-genesis", 0))
		if gr.Bool(0.07) {
			boundary := 256
			if gr.Bool(0.3) {
				boundary = 65536
			}
			c.GenesisRecords = boundary - 1 - gr.Intn(5)
			c.PGov, c.PGovFavourite, c.PGovNoVote = 0.25, 1, 0
		}
	}
	n := 1 + r.Intn(5)
	for i := 0; i < n; i++ {
		var set []Content
		k := 1 + r.Intn(3)
		for j := 0; j < k; j++ {
			ct := Content{Digest: hex.EncodeToString(r.Bytes(4 + r.Intn(29))), Algo: []string{"sha256", "md5", "x"}[r.Intn(3)]}
			if r.Bool(0.6) {
				ct.URI = "https://example.org/" + text(r, 1+r.Intn(20))
			}
			switch r.Intn(5) {
			case 0:
			case 1:
				ct.Meta = "unicode: żółć ✓ \u0000 end"
			case 2:
				ct.Meta = text(r, 500+r.Intn(3000)) // large: makes the handler's gas cost vary
			default:
				ct.Meta = text(r, 1+r.Intn(40))
			}
			set = append(set, ct)
		}
		if i == 0 && r.Bool(0.5) {
			set[0].Meta = text(r, 1500+r.Intn(3000)) // the favourite set is often a costly one
		}
		if r.Bool(0.2) && len(set) > 1 {
			set[1] = set[0] // the same entry twice inside one record
		}
		c.Pool = append(c.Pool, set)
	}
	return c
}

func (m *Module) LoadConfig(w *engine.World, raw json.RawMessage) {
	if err := json.Unmarshal(raw, &m.cfg); err != nil {
		engine.Fatal("record config: %v", err)
	}
	if m.cfg.MaxOps < 2 {
		m.cfg.MaxOps = 2
	}
}

func (m *Module) Setup(w *engine.World) {
	w.NeedDenom(Std, new(big.Int).Lsh(big.NewInt(1), 100))
}

// Genesis shortens the governance periods so that proposals reach their tally inside a run.
// Quorum and thresholds keep their defaults: actor 0 holds the whole bonded stake (genesis
// delegation), so its YES decides.
func (m *Module) Genesis(w *engine.World, n *engine.Node, gs simapp.GenesisState) {
	cdc := n.App.AppCodec()
	if m.cfg.GenesisRecords > 0 {
		var rg rectypes.GenesisState
		cdc.MustUnmarshalJSON(gs[rectypes.ModuleName], &rg)
		one := rectypes.Record{TxHash: noTxHash, Creator: m.govAddr}
		for _, c := range m.cfg.Pool[0] {
			one.Contents = append(one.Contents, rectypes.Content{Digest: c.Digest, DigestAlgo: c.Algo, URI: c.URI, Meta: c.Meta})
		}
		for i := 0; i < m.cfg.GenesisRecords; i++ {
			rg.Records = append(rg.Records, one)
		}
		if err := rectypes.ValidateGenesis(rg); err != nil {
			engine.Fatal("record: generated invalid genesis: %v", err)
		}
		gs[rectypes.ModuleName] = cdc.MustMarshalJSON(&rg)
	}
	if m.cfg.GovVotingSec <= 0 {
		return
	}
	var g govv1.GenesisState
	cdc.MustUnmarshalJSON(gs[govtypes.ModuleName], &g)
	vp := time.Duration(m.cfg.GovVotingSec) * time.Second
	evp := time.Duration(m.cfg.GovExpeditedSec) * time.Second
	dp := time.Duration(m.cfg.GovDepositSec) * time.Second
	g.Params.VotingPeriod, g.Params.ExpeditedVotingPeriod, g.Params.MaxDepositPeriod = &vp, &evp, &dp
	g.Params.MinDeposit = sdk.NewCoins(sdk.NewInt64Coin(Std, m.cfg.GovMinDeposit))
	g.Params.ExpeditedMinDeposit = sdk.NewCoins(sdk.NewInt64Coin(Std, 2*m.cfg.GovMinDeposit))
	if err := g.Params.ValidateBasic(); err != nil {
		engine.Fatal("record: generated invalid gov params: %v", err)
	}
	gs[govtypes.ModuleName] = cdc.MustMarshalJSON(&g)
}

// noTxHash is the transaction hash field of the genesis records: the sha256 of no bytes, in
// the upper-case hex form the module's records carry (any fixed string would do: a genesis
// file states the field).
var noTxHash = strings.ToUpper(hex.EncodeToString(sha256Of(nil)))

func sha256Of(b []byte) []byte { h := sha256.Sum256(b); return h[:] }

// Started: the records the chain starts with are part of the history: their ids are taken
// and they must read back unchanged for ever like any other (a sample is read every block).
func (m *Module) Started(w *engine.World) {
	if m.cfg.GenesisRecords == 0 || len(m.recs) > 0 {
		return
	}
	it := w.Node.K.Record.RecordsIterator(w.Node.Ctx())
	defer it.Close()
	n := 0
	for ; it.Valid(); it.Next() {
		id := hex.EncodeToString(it.Key()[len(rectypes.RecordKey):])
		m.recs[id] = &rec{ID: id, Contents: m.cfg.Pool[0], Creator: m.govAddr, Height: 0, OpID: -1, Gov: true}
		if n%(m.cfg.GenesisRecords/5+1) == 0 {
			m.recs[id].Order = len(m.order)
			m.order = append(m.order, id)
		}
		n++
	}
	w.Hit("record.genesis_with_records")
	if m.cfg.GenesisRecords > 60000 {
		w.Hit("record.genesis_with_records_64k")
	}
	if n != m.cfg.GenesisRecords {
		// "two creations never receive the same id": the import gave two records one id
		w.Violate(Prop, "id/duplicate/genesis", "the genesis carries %d records; after import the store holds %d", m.cfg.GenesisRecords, n)
	}
}

// ---- operations ------------------------------------------------------------------------

type createArgs struct {
	Contents []Content `json:"contents"`
}

// sendArgs: a bank send of the same signer inside the transaction; Amount larger than any
// balance makes it fail in the handler (after the messages before it were executed).
type sendArgs struct {
	To     int    `json:"to"`
	Amount string `json:"amount"`
}

var tooMuch = new(big.Int).Lsh(big.NewInt(1), 200).String()

// govArgs: "gov_record" submits a proposal whose messages are record creations in the name
// of the gov module account; "gov_vote" is actor 0's YES on the proposal that the submit op
// tagged Tag was given (label "record/prop/<Tag>", bound when the submit response is seen).
type govArgs struct {
	Tag       string      `json:"tag"`
	Msgs      [][]Content `json:"msgs,omitempty"`
	Deposit   string      `json:"deposit,omitempty"`
	Expedited bool        `json:"expedited,omitempty"`
}

func (m *Module) govSubmit(r *engine.Rand, actor int, msgs [][]Content, expedited bool) (*engine.TxPlan, string) {
	m.govSeq++
	tag := fmt.Sprintf("g%d", m.govSeq)
	dep := m.cfg.GovMinDeposit
	if expedited {
		dep = 2 * m.cfg.GovMinDeposit
	}
	dep += r.Int63n(3)
	return engine.Tx1(engine.NewOp(Name, "gov_record", actor, govArgs{Tag: tag, Msgs: msgs, Deposit: fmt.Sprint(dep), Expedited: expedited})), tag
}

func govVote(tag string) *engine.TxPlan {
	tp := engine.Tx1(engine.NewOp(Name, "gov_vote", 0, govArgs{Tag: tag}))
	tp.NoOOG = true
	return tp
}

// planGov queues one governance scenario: byte-identical proposals once, twice in one block
// or in two consecutive blocks; the vote follows in the next block (or never).
func (m *Module) planGov(w *engine.World, r *engine.Rand) {
	nAct := len(w.Actors) - 1
	set := m.cfg.Pool[0]
	if !r.Bool(m.cfg.PGovFavourite) {
		set = m.cfg.Pool[r.Intn(len(m.cfg.Pool))]
	}
	msgs := [][]Content{set}
	if r.Bool(0.3) {
		msgs = append(msgs, set) // two identical creations inside one proposal
	} else if r.Bool(0.15) {
		msgs = append(msgs, m.cfg.Pool[r.Intn(len(m.cfg.Pool))])
	}
	expedited := r.Bool(m.cfg.PGovExpedited)
	base := w.Height + 1
	shape := r.Intn(4) // 0,1: single; 2: two in one block; 3: two in consecutive blocks
	offsets := []int64{0}
	switch shape {
	case 2:
		offsets = []int64{0, 0}
	case 3:
		offsets = []int64{0, 1}
	}
	for _, off := range offsets {
		tp, tag := m.govSubmit(r, r.Intn(nAct), msgs, expedited)
		m.queue = append(m.queue, queued{tp, base + off})
		if !r.Bool(m.cfg.PGovNoVote) {
			m.queue = append(m.queue, queued{govVote(tag), base + off + 1})
		}
	}
}

func (m *Module) contents(r *engine.Rand) []Content {
	if r.Bool(m.cfg.PFavourite) {
		return m.cfg.Pool[0]
	}
	return m.cfg.Pool[r.Intn(len(m.cfg.Pool))]
}

func (m *Module) Gen(w *engine.World, r *engine.Rand) *engine.TxPlan {
	nAct := len(w.Actors) - 1
	if len(m.queue) == 0 && m.cfg.GovVotingSec > 0 && r.Bool(m.cfg.PGov) {
		m.planGov(w, r)
	}
	if len(m.queue) > 0 {
		q := m.queue[0]
		m.queue = m.queue[1:]
		q.tp.At = q.at
		if q.tp.At <= w.Height {
			q.tp.At = w.Height + 1
		}
		return q.tp
	}
	if m.burst.left > 0 && m.burst.at > w.Height {
		// several identical records from one creator, in separate transactions of one block
		m.burst.left--
		tp := engine.Tx1(engine.NewOp(Name, "create", m.burst.actor, createArgs{Contents: m.burst.contents}))
		tp.At = m.burst.at
		return tp
	}
	actor := r.Intn(nAct)
	if r.Bool(m.cfg.PFavourite) {
		actor = 0 // one busy creator: identical records keep coming from the same party
	}
	first := m.contents(r)
	if r.Bool(m.cfg.PBurst) {
		m.burst = burst{actor: actor, contents: first, at: w.Height + 1 + int64(r.Intn(3)), left: 1 + r.Intn(3)}
		tp := engine.Tx1(engine.NewOp(Name, "create", actor, createArgs{Contents: first}))
		tp.At = m.burst.at
		return tp
	}
	if !r.Bool(m.cfg.PMulti) {
		return engine.Tx1(engine.NewOp(Name, "create", actor, createArgs{Contents: first}))
	}
	k := 2 + r.Intn(m.cfg.MaxOps-1)
	tp := &engine.TxPlan{}
	identical := r.Bool(m.cfg.PIdentical)
	for i := 0; i < k; i++ {
		c := first
		if !identical && i > 0 {
			c = m.contents(r)
		}
		tp.Ops = append(tp.Ops, engine.NewOp(Name, "create", actor, createArgs{Contents: c}))
	}
	insert := func(op *engine.Op, at int) {
		tp.Ops = append(tp.Ops, nil)
		copy(tp.Ops[at+1:], tp.Ops[at:])
		tp.Ops[at] = op
	}
	if r.Bool(m.cfg.POtherMsg) {
		insert(engine.NewOp(Name, "send", actor, sendArgs{To: (actor + 1 + r.Intn(nAct-1)) % nAct, Amount: "1"}), r.Intn(len(tp.Ops)+1))
	}
	if r.Bool(m.cfg.PFailing) {
		at := len(tp.Ops)
		if !r.Bool(m.cfg.PTailOnly) {
			at = r.Intn(len(tp.Ops) + 1)
		}
		insert(engine.NewOp(Name, "send", actor, sendArgs{To: (actor + 1) % nAct, Amount: tooMuch}), at)
	}
	return tp
}

func (m *Module) Epilogue(w *engine.World, r *engine.Rand) []*engine.TxPlan {
	// long after the first creations: the very same contents again, from the busy creator and
	// from somebody else
	var out []*engine.TxPlan
	for _, actor := range []int{0, 1} {
		tp := &engine.TxPlan{}
		for i := 0; i < 2; i++ {
			tp.Ops = append(tp.Ops, engine.NewOp(Name, "create", actor, createArgs{Contents: m.cfg.Pool[0]}))
		}
		out = append(out, tp)
	}
	return out
}

func toMsgContents(cs []Content) []rectypes.Content {
	out := make([]rectypes.Content, 0, len(cs))
	for _, c := range cs {
		out = append(out, rectypes.Content{Digest: c.Digest, DigestAlgo: c.Algo, URI: c.URI, Meta: c.Meta})
	}
	return out
}

func (m *Module) Build(w *engine.World, op *engine.Op) (sdk.Msg, error) {
	sender := w.A(op.Actor).Addr
	switch op.Kind {
	case "create":
		var a createArgs
		op.Decode(&a)
		return &rectypes.MsgCreateRecord{Contents: toMsgContents(a.Contents), Creator: sender.String()}, nil
	case "send":
		var a sendArgs
		op.Decode(&a)
		amt, ok := new(big.Int).SetString(a.Amount, 10)
		if !ok {
			return nil, fmt.Errorf("bad amount %q", a.Amount)
		}
		return engine.BankSendMsg(sender, w.A(a.To).Addr, sdk.NewCoins(sdk.Coin{Denom: Std, Amount: engine.Int(amt)})), nil
	case "gov_record":
		var a govArgs
		op.Decode(&a)
		var msgs []sdk.Msg
		for _, cs := range a.Msgs {
			msgs = append(msgs, &rectypes.MsgCreateRecord{Contents: toMsgContents(cs), Creator: m.govAddr})
		}
		dep, ok := new(big.Int).SetString(a.Deposit, 10)
		if !ok {
			return nil, fmt.Errorf("bad deposit %q", a.Deposit)
		}
		return govv1.NewMsgSubmitProposal(msgs, sdk.NewCoins(sdk.Coin{Denom: Std, Amount: engine.Int(dep)}), sender.String(),
			"records by governance", "create records", "the gov module account creates records", a.Expedited)
	case "gov_vote":
		var a govArgs
		op.Decode(&a)
		v, ok := w.Resolve("record/prop/" + a.Tag)
		if !ok {
			return nil, fmt.Errorf("proposal %s not submitted (yet)", a.Tag)
		}
		id, err := strconv.ParseUint(v, 10, 64)
		if err != nil {
			return nil, err
		}
		return govv1.NewMsgVote(sender, id, govv1.OptionYes, ""), nil
	}
	return nil, fmt.Errorf("unknown op %s", op.Kind)
}

// ---- oracle ----------------------------------------------------------------------------

func sameContents(a []Content, b []rectypes.Content) bool {
	if len(a) != len(b) {
		return false
	}
	for i := range a {
		if a[i].Digest != b[i].Digest || a[i].Algo != b[i].DigestAlgo || a[i].URI != b[i].URI || a[i].Meta != b[i].Meta {
			return false
		}
	}
	return true
}

func fingerprint(creator string, cs []Content) string {
	bz, _ := json.Marshal(cs)
	return creator + "|" + string(bz)
}

// onGovTx follows the governance messages of an accepted transaction.
func (m *Module) onGovTx(w *engine.World, tx *engine.TxRecord) {
	for i, op := range tx.Plan.Ops {
		if op.Mod != Name {
			continue
		}
		switch op.Kind {
		case "gov_record":
			var a govArgs
			op.Decode(&a)
			var resp govv1.MsgSubmitProposalResponse
			if !tx.Resp(i, &resp) || resp.ProposalId == 0 {
				engine.Fatal("record: accepted proposal submission (op %d) returned no proposal id", op.ID)
			}
			m.props[resp.ProposalId] = &proposal{ID: resp.ProposalId, Tag: a.Tag, Msgs: a.Msgs, Height: tx.Height, OpID: op.ID}
			if _, taken := w.Resolve("record/prop/" + a.Tag); !taken {
				w.Label("record/prop/"+a.Tag, fmt.Sprint(resp.ProposalId))
			}
			w.Hit("record.gov_proposal_submitted")
		case "gov_vote":
			var a govArgs
			op.Decode(&a)
			if v, ok := w.Resolve("record/prop/" + a.Tag); ok {
				if id, err := strconv.ParseUint(v, 10, 64); err == nil && m.props[id] != nil {
					m.props[id].Voted = true
					w.Hit("record.gov_vote_cast")
				}
			}
		}
	}
}

func evAttr(ev abci.Event, key string) string {
	for _, a := range ev.Attributes {
		if a.Key == key {
			return a.Value
		}
	}
	return ""
}

// OnEndBlock: gov executes the messages of a passed proposal in its end blocker; the record
// module's creation events of that phase carry the ids, followed by gov's tally event of the
// proposal they belong to.
func (m *Module) OnEndBlock(w *engine.World, ph *engine.Phase) {
	var ids []string
	for _, ev := range ph.Events {
		switch ev.Type {
		case rectypes.EventTypeCreateRecord:
			ids = append(ids, evAttr(ev, rectypes.AttributeKeyRecordID))
		case govtypes.EventTypeActiveProposal:
			pid, _ := strconv.ParseUint(evAttr(ev, govtypes.AttributeKeyProposalID), 10, 64)
			result := evAttr(ev, govtypes.AttributeKeyProposalResult)
			p := m.props[pid]
			if p != nil && result != govtypes.AttributeValueExpeditedProposalRejected {
				p.Finished = true
			}
			if result == govtypes.AttributeValueProposalPassed {
				m.govExecuted(w, ph, p, pid, ids)
			} else if p != nil {
				w.Hit("record.gov_proposal_not_passed")
			}
			ids = nil
		}
	}
}

// govExecuted judges the creations of one executed proposal: "two creations never receive the
// same id" - k creations must show k ids that are new in the run.
func (m *Module) govExecuted(w *engine.World, ph *engine.Phase, p *proposal, pid uint64, ids []string) {
	if p == nil {
		// not one of this run's proposals: its records (if any) are still records
		for _, id := range ids {
			m.govRecord(w, ph, nil, pid, 0, id, nil)
		}
		return
	}
	w.Hit("record.gov_proposal_passed")
	if len(ids) < len(p.Msgs) {
		// the events do not carry every id: the store is compared with the known ids after
		// the commit
		m.storeDiff += len(p.Msgs) - len(ids)
	}
	for i, id := range ids {
		var cs []Content
		if i < len(p.Msgs) {
			cs = p.Msgs[i]
		}
		m.govRecord(w, ph, p, pid, i, id, cs)
	}
}

func (m *Module) govRecord(w *engine.World, ph *engine.Phase, p *proposal, pid uint64, i int, id string, cs []Content) {
	w.Hit("C19.id_checks")
	w.Hit("record.gov_records_created")
	norm := strings.ToLower(id)
	fp := fingerprint(m.govAddr, cs)
	if cs != nil {
		if h := m.govSeenAt[fp]; h > 0 && h != ph.Height {
			w.Hit("record.gov_identical_proposals_different_blocks")
			if ph.Height-h == 1 {
				w.Hit("record.gov_identical_proposals_consecutive_blocks")
			}
		} else if h == ph.Height {
			w.Hit("record.gov_identical_in_one_block")
		}
		m.govSeenAt[fp] = ph.Height
	}
	opID := -1
	if p != nil {
		opID = p.OpID
	}
	if old := m.recs[norm]; id == "" || old != nil {
		if id == "" {
			w.Violate(Prop, "response/no-id-gov-executed", "proposal %d executed at height %d: creation %d reports no id", pid, ph.Height, i)
			return
		}
		rel := "another-block"
		if old.Height == ph.Height {
			rel = "same-block"
		}
		w.Violate(Prop, "id/duplicate/gov-executed", "record creation %d of proposal %d (submitted by op %d), executed by governance at height %d, received id %s, which the creation at height %d (op %d, creator %s, by governance: %v, %s) already received; contents identical: %v - the earlier record is silently overwritten",
			i, pid, opID, ph.Height, id, old.Height, old.OpID, old.Creator, old.Gov, rel, fingerprint(old.Creator, old.Contents) == fp)
		return
	}
	m.recs[norm] = &rec{ID: id, Contents: cs, Creator: m.govAddr, Height: ph.Height, OpID: opID, Order: len(m.order), Gov: true, NoContents: cs == nil}
	m.order = append(m.order, norm)
}

// storeDiffCheck is the fall-back for creations whose ids no event carried: every stored
// record the run does not know yet is a new id; there must be at least as many as creations.
func (m *Module) storeDiffCheck(w *engine.World) {
	want := m.storeDiff
	m.storeDiff = 0
	it := w.Node.K.Record.RecordsIterator(w.Node.Ctx())
	defer it.Close()
	var fresh []string
	for ; it.Valid(); it.Next() {
		id := hex.EncodeToString(it.Key()[len(rectypes.RecordKey):])
		if m.recs[id] == nil {
			fresh = append(fresh, id)
		}
	}
	if len(fresh) < want {
		w.Violate(Prop, "id/duplicate/gov-executed-store", "governance executed %d record creations at height %d whose ids no event reported; only %d records unknown so far appeared in the store", want, w.Height, len(fresh))
	}
	for _, id := range fresh {
		m.recs[id] = &rec{ID: id, Creator: m.govAddr, Height: w.Height, OpID: -1, Order: len(m.order), Gov: true, NoContents: true}
		m.order = append(m.order, id)
	}
}

// MaxDue keeps the quiesce phase going until every voted proposal was tallied.
func (m *Module) MaxDue(w *engine.World) int64 {
	for _, p := range m.props {
		if p.Voted && !p.Finished {
			return w.Height + 1
		}
	}
	return 0
}

func (m *Module) OnTx(w *engine.World, tx *engine.TxRecord) {
	if tx.Height != m.blockH {
		m.blockH = tx.Height
		m.inBlock = map[string]int{}
	}
	if tx.OK() {
		m.onGovTx(w, tx)
	}
	creates, failing := 0, false
	for _, op := range tx.Plan.Ops {
		if op.Mod == "engine" && op.Kind == "failtail" {
			failing = true // the transport appended a message that fails at execution
		}
		if op.Mod != Name {
			continue
		}
		switch op.Kind {
		case "create":
			creates++
		case "send":
			var a sendArgs
			op.Decode(&a)
			if a.Amount == tooMuch {
				failing = true
			}
		}
	}
	if creates == 0 {
		return
	}
	if !tx.OK() {
		// a failed transaction "did not happen": it returned no id, so the property says
		// nothing about it; what it may have left behind shows up as a clash of later ids
		if failing && tx.Plan.Gas == 0 {
			m.rolled = true
			w.Hit("record.tx_with_creations_rolled_back")
		}
		if tx.Infra && tx.Plan.Gas != 0 {
			m.rolled = true
			w.Hit("record.creation_out_of_gas")
		}
		return
	}
	creator := w.A(tx.Plan.Ops[0].Actor).Addr.String()
	if creates > 1 {
		w.Hit("record.several_creations_in_one_tx")
	}
	if creates < len(tx.Plan.Ops) {
		w.Hit("record.creation_next_to_other_messages")
	}
	inTx := map[string]int{}
	for i, op := range tx.Plan.Ops {
		if op.Mod != Name || op.Kind != "create" {
			continue
		}
		var a createArgs
		op.Decode(&a)
		// "Creating a record returns an id ..."
		var resp rectypes.MsgCreateRecordResponse
		if !tx.Resp(i, &resp) || resp.Id == "" {
			w.Violate(Prop, "response/no-id", "accepted record creation (op %d, message %d of the tx) returned no id", op.ID, i)
			continue
		}
		fp := fingerprint(creator, a.Contents)
		shape := "distinct-contents"
		switch {
		case inTx[fp] > 0:
			shape = "identical-in-one-tx"
			w.Hit("record.identical_in_one_tx")
		case m.inBlock[fp] > 0:
			shape = "identical-in-one-block"
			w.Hit("record.identical_in_one_block")
		case m.lastSeen[fp] > 0:
			shape = "identical-in-another-block"
			w.Hit("record.identical_in_another_block")
		}
		inTx[fp]++
		m.inBlock[fp]++
		m.lastSeen[fp] = tx.Height
		if m.rolled {
			m.rolled = false
			w.Hit("record.creation_after_a_rolled_back_one")
		}
		// "... and two creations never receive the same id."
		w.Hit("C19.id_checks")
		norm := strings.ToLower(resp.Id)
		if old := m.recs[norm]; old != nil {
			rel := "another-block"
			if old.Height == tx.Height {
				rel = "same-block"
				if bytes.Equal(old.TxHash, tx.Hash) {
					rel = "same-tx"
				}
			}
			w.Violate(Prop, "id/duplicate/"+rel, "record creation (op %d, message %d, creator %s, height %d, %s) returned id %s, which the creation of op %d (creator %s, height %d) already received; contents identical: %v",
				op.ID, i, creator, tx.Height, shape, resp.Id, old.OpID, old.Creator, old.Height, fingerprint(old.Creator, old.Contents) == fp)
			continue
		}
		m.recs[norm] = &rec{ID: resp.Id, Contents: a.Contents, Creator: creator, TxHash: append([]byte{}, tx.Hash...), Height: tx.Height, OpID: op.ID, Order: len(m.order)}
		m.order = append(m.order, norm)
		w.Hit("record.created")
	}
}

// check reads one record back: "... an id under which exactly the submitted contents, the
// creator and the creating transaction's hash can be read back for ever after; nothing can
// alter or delete it".
func (m *Module) check(w *engine.World, rc *rec) {
	w.Hit("C19.readback_checks")
	age := "later"
	if rc.Height == w.Height {
		age = "at-creation"
	}
	var res *rectypes.QueryRecordResponse
	var err error
	if perr := engine.Catch("Record query", func() error {
		res, err = w.Node.K.Record.Record(w.Node.Ctx(), &rectypes.QueryRecordRequest{RecordId: rc.ID})
		return nil
	}); perr != nil {
		// the stored bytes no longer decode: "nothing can alter or delete it"
		w.Violate(Prop, "readback/undecodable/"+age, "record %s (op %d, created at height %d) cannot be decoded at height %d: the query aborts: %v", rc.ID, rc.OpID, rc.Height, w.Height, firstLine(perr.Error()))
		return
	}
	if err != nil || res == nil || res.Record == nil {
		w.Violate(Prop, "readback/query-fails/"+age, "record %s (op %d, created at height %d) cannot be queried at height %d: %v", rc.ID, rc.OpID, rc.Height, w.Height, err)
		return
	}
	got := res.Record
	if got.Creator == "" && len(got.Contents) == 0 && got.TxHash == "" {
		w.Violate(Prop, "readback/missing/"+age, "record %s (op %d, created at height %d by %s) is gone at height %d", rc.ID, rc.OpID, rc.Height, rc.Creator, w.Height)
		return
	}
	if rc.Gov {
		// no transaction created it: whatever hash the module stored must stay what it was
		if !rc.HashPinned {
			rc.HashPinned, rc.PinnedHash = true, got.TxHash
		} else if got.TxHash != rc.PinnedHash {
			w.Violate(Prop, "readback/tx-hash-changed/"+age, "record %s (created by governance at height %d): transaction hash read back %s, at creation %s", rc.ID, rc.Height, got.TxHash, rc.PinnedHash)
		}
		if got.Creator != rc.Creator {
			w.Violate(Prop, "readback/creator-gov/"+age, "record %s (created by governance at height %d): creator read back %s, the proposal's message names %s", rc.ID, rc.Height, got.Creator, rc.Creator)
		}
		if !rc.NoContents && !sameContents(rc.Contents, got.Contents) {
			w.Violate(Prop, "readback/contents-gov/"+age, "record %s (created by governance at height %d): contents read back %v, the proposal's message carried %v", rc.ID, rc.Height, got.Contents, rc.Contents)
		}
		return
	}
	if got.Creator != rc.Creator {
		w.Violate(Prop, "readback/creator/"+age, "record %s (op %d, height %d): creator read back %s, created by %s", rc.ID, rc.OpID, rc.Height, got.Creator, rc.Creator)
	}
	if !sameContents(rc.Contents, got.Contents) {
		w.Violate(Prop, "readback/contents/"+age, "record %s (op %d, height %d): contents read back %v, submitted %v", rc.ID, rc.OpID, rc.Height, got.Contents, rc.Contents)
	}
	h, err := hex.DecodeString(got.TxHash)
	if err != nil || !bytes.Equal(h, rc.TxHash) {
		w.Violate(Prop, "readback/tx-hash/"+age, "record %s (op %d, height %d): transaction hash read back %s, the creating transaction's sha256 is %X", rc.ID, rc.OpID, rc.Height, got.TxHash, rc.TxHash)
	}
}

const sampleAbove = 200

func (m *Module) OnCommit(w *engine.World) {
	if m.storeDiff > 0 {
		m.storeDiffCheck(w)
	}
	n := len(m.order)
	if n == 0 {
		return
	}
	if n <= sampleAbove {
		for _, id := range m.order {
			m.check(w, m.recs[id])
		}
	} else {
		// the newest 100 always, of the older ones every stride-th, rotating with the height
		stride := (n-100)/100 + 1
		for i, id := range m.order {
			if i >= n-100 || (int64(i)+w.Height)%int64(stride) == 0 {
				m.check(w, m.recs[id])
			}
		}
		w.Hit("record.sampled_readback")
	}
	w.State("record", n, len(m.lastSeen))
}

func (m *Module) Final(w *engine.World) {
	for _, id := range m.order {
		m.check(w, m.recs[id])
	}
}

func firstLine(s string) string {
	for i := 0; i < len(s); i++ {
		if s[i] == '\n' {
			return s[:i]
		}
	}
	return s
}
