// Package record is the record workload and the oracle of C19 (a stored record is immutable,
// its id unique and permanent).
package record

import (
	"bytes"
	"encoding/hex"
	"encoding/json"
	"fmt"
	"math/big"
	"strings"

	sdk "github.com/cosmos/cosmos-sdk/types"

	rectypes "mods.irisnet.org/modules/record/types"

	"verif/sim/engine"
)

const (
	Name = "record"
	Prop = "C19"
	Std  = "stake"
)

// Content mirrors the message's content entry.
type Content struct {
	Digest string `json:"digest"`
	Algo   string `json:"algo"`
	URI    string `json:"uri,omitempty"`
	Meta   string `json:"meta,omitempty"`
}

// Config is the per-run swarm configuration.
type Config struct {
	Pool       [][]Content `json:"pool"` // the content sets of this run (few: identical records are the point)
	PMulti     float64     `json:"p_multi"`
	MaxOps     int         `json:"max_ops"`
	PIdentical float64     `json:"p_identical"`
	PFailing   float64     `json:"p_failing_message"`
	PTailOnly  float64     `json:"p_failing_at_tail"`
	POtherMsg  float64     `json:"p_other_message"`
	PBurst     float64     `json:"p_burst"`
	PFavourite float64     `json:"p_favourite"` // share of creations using pool[0] from one creator
}

type rec struct {
	ID       string // as returned
	Contents []Content
	Creator  string
	TxHash   []byte
	Height   int64
	OpID     int
	Order    int
}

type burst struct {
	actor    int
	contents []Content
	at       int64
	left     int
}

// Module implements engine.Module.
type Module struct {
	engine.Base
	cfg      Config
	recs     map[string]*rec // by normalised id
	order    []string
	burst    burst
	lastSeen map[string]int64 // creator|contents -> height of the last accepted identical creation
	inBlock  map[string]int   // creator|contents -> accepted creations in the current block
	blockH   int64
	rolled   bool // a creation was rolled back since the last accepted one
}

func New() *Module {
	return &Module{recs: map[string]*rec{}, lastSeen: map[string]int64{}, inBlock: map[string]int{}}
}

func (m *Module) Name() string { return Name }

func text(r *engine.Rand, n int) string {
	const alpha = "abcdefghijklmnopqrstuvwxyz0123456789 /:-_"
	b := make([]byte, n)
	for i := range b {
		b[i] = alpha[r.Intn(len(alpha))]
	}
	return string(b)
}

func (m *Module) Configure(w *engine.World, r *engine.Rand) any {
	c := Config{
		PMulti:     0.2 + 0.6*r.Float(),
		MaxOps:     2 + r.Intn(4),
		PIdentical: 0.3 + 0.7*r.Float(),
		PFailing:   0.3 * r.Float(),
		PTailOnly:  0.5 + 0.5*r.Float(),
		POtherMsg:  0.3 * r.Float(),
		PBurst:     0.15 * r.Float(),
		PFavourite: 0.2 + 0.6*r.Float(),
	}
	n := 1 + r.Intn(5)
	for i := 0; i < n; i++ {
		var set []Content
		k := 1 + r.Intn(3)
		for j := 0; j < k; j++ {
			ct := Content{Digest: hex.EncodeToString(r.Bytes(4 + r.Intn(29))), Algo: []string{"sha256", "md5", "x"}[r.Intn(3)]}
			if r.Bool(0.6) {
				ct.URI = "https://example.org/" + text(r, 1+r.Intn(20))
			}
			switch r.Intn(5) {
			case 0:
			case 1:
				ct.Meta = "unicode: żółć ✓ \u0000 end"
			case 2:
				ct.Meta = text(r, 500+r.Intn(3000)) // large: makes the handler's gas cost vary
			default:
				ct.Meta = text(r, 1+r.Intn(40))
			}
			set = append(set, ct)
		}
		if i == 0 && r.Bool(0.5) {
			set[0].Meta = text(r, 1500+r.Intn(3000)) // the favourite set is often a costly one
		}
		if r.Bool(0.2) && len(set) > 1 {
			set[1] = set[0] // the same entry twice inside one record
		}
		c.Pool = append(c.Pool, set)
	}
	return c
}

func (m *Module) LoadConfig(w *engine.World, raw json.RawMessage) {
	if err := json.Unmarshal(raw, &m.cfg); err != nil {
		engine.Fatal("record config: %v", err)
	}
	if m.cfg.MaxOps < 2 {
		m.cfg.MaxOps = 2
	}
}

func (m *Module) Setup(w *engine.World) {
	w.NeedDenom(Std, new(big.Int).Lsh(big.NewInt(1), 100))
}

// ---- operations ------------------------------------------------------------------------

type createArgs struct {
	Contents []Content `json:"contents"`
}

// sendArgs: a bank send of the same signer inside the transaction; Amount larger than any
// balance makes it fail in the handler (after the messages before it were executed).
type sendArgs struct {
	To     int    `json:"to"`
	Amount string `json:"amount"`
}

var tooMuch = new(big.Int).Lsh(big.NewInt(1), 200).String()

func (m *Module) contents(r *engine.Rand) []Content {
	if r.Bool(m.cfg.PFavourite) {
		return m.cfg.Pool[0]
	}
	return m.cfg.Pool[r.Intn(len(m.cfg.Pool))]
}

func (m *Module) Gen(w *engine.World, r *engine.Rand) *engine.TxPlan {
	nAct := len(w.Actors) - 1
	if m.burst.left > 0 && m.burst.at > w.Height {
		// several identical records from one creator, in separate transactions of one block
		m.burst.left--
		tp := engine.Tx1(engine.NewOp(Name, "create", m.burst.actor, createArgs{Contents: m.burst.contents}))
		tp.At = m.burst.at
		return tp
	}
	actor := r.Intn(nAct)
	if r.Bool(m.cfg.PFavourite) {
		actor = 0 // one busy creator: identical records keep coming from the same party
	}
	first := m.contents(r)
	if r.Bool(m.cfg.PBurst) {
		m.burst = burst{actor: actor, contents: first, at: w.Height + 1 + int64(r.Intn(3)), left: 1 + r.Intn(3)}
		tp := engine.Tx1(engine.NewOp(Name, "create", actor, createArgs{Contents: first}))
		tp.At = m.burst.at
		return tp
	}
	if !r.Bool(m.cfg.PMulti) {
		return engine.Tx1(engine.NewOp(Name, "create", actor, createArgs{Contents: first}))
	}
	k := 2 + r.Intn(m.cfg.MaxOps-1)
	tp := &engine.TxPlan{}
	identical := r.Bool(m.cfg.PIdentical)
	for i := 0; i < k; i++ {
		c := first
		if !identical && i > 0 {
			c = m.contents(r)
		}
		tp.Ops = append(tp.Ops, engine.NewOp(Name, "create", actor, createArgs{Contents: c}))
	}
	insert := func(op *engine.Op, at int) {
		tp.Ops = append(tp.Ops, nil)
		copy(tp.Ops[at+1:], tp.Ops[at:])
		tp.Ops[at] = op
	}
	if r.Bool(m.cfg.POtherMsg) {
		insert(engine.NewOp(Name, "send", actor, sendArgs{To: (actor + 1 + r.Intn(nAct-1)) % nAct, Amount: "1"}), r.Intn(len(tp.Ops)+1))
	}
	if r.Bool(m.cfg.PFailing) {
		at := len(tp.Ops)
		if !r.Bool(m.cfg.PTailOnly) {
			at = r.Intn(len(tp.Ops) + 1)
		}
		insert(engine.NewOp(Name, "send", actor, sendArgs{To: (actor + 1) % nAct, Amount: tooMuch}), at)
	}
	return tp
}

func (m *Module) Epilogue(w *engine.World, r *engine.Rand) []*engine.TxPlan {
	// long after the first creations: the very same contents again, from the busy creator and
	// from somebody else
	var out []*engine.TxPlan
	for _, actor := range []int{0, 1} {
		tp := &engine.TxPlan{}
		for i := 0; i < 2; i++ {
			tp.Ops = append(tp.Ops, engine.NewOp(Name, "create", actor, createArgs{Contents: m.cfg.Pool[0]}))
		}
		out = append(out, tp)
	}
	return out
}

func toMsgContents(cs []Content) []rectypes.Content {
	out := make([]rectypes.Content, 0, len(cs))
	for _, c := range cs {
		out = append(out, rectypes.Content{Digest: c.Digest, DigestAlgo: c.Algo, URI: c.URI, Meta: c.Meta})
	}
	return out
}

func (m *Module) Build(w *engine.World, op *engine.Op) (sdk.Msg, error) {
	sender := w.A(op.Actor).Addr
	switch op.Kind {
	case "create":
		var a createArgs
		op.Decode(&a)
		return &rectypes.MsgCreateRecord{Contents: toMsgContents(a.Contents), Creator: sender.String()}, nil
	case "send":
		var a sendArgs
		op.Decode(&a)
		amt, ok := new(big.Int).SetString(a.Amount, 10)
		if !ok {
			return nil, fmt.Errorf("bad amount %q", a.Amount)
		}
		return engine.BankSendMsg(sender, w.A(a.To).Addr, sdk.NewCoins(sdk.Coin{Denom: Std, Amount: engine.Int(amt)})), nil
	}
	return nil, fmt.Errorf("unknown op %s", op.Kind)
}

// ---- oracle ----------------------------------------------------------------------------

func sameContents(a []Content, b []rectypes.Content) bool {
	if len(a) != len(b) {
		return false
	}
	for i := range a {
		if a[i].Digest != b[i].Digest || a[i].Algo != b[i].DigestAlgo || a[i].URI != b[i].URI || a[i].Meta != b[i].Meta {
			return false
		}
	}
	return true
}

func fingerprint(creator string, cs []Content) string {
	bz, _ := json.Marshal(cs)
	return creator + "|" + string(bz)
}

func (m *Module) OnTx(w *engine.World, tx *engine.TxRecord) {
	if tx.Height != m.blockH {
		m.blockH = tx.Height
		m.inBlock = map[string]int{}
	}
	creates, failing := 0, false
	for _, op := range tx.Plan.Ops {
		if op.Mod == "engine" && op.Kind == "failtail" {
			failing = true // the transport appended a message that fails at execution
		}
		if op.Mod != Name {
			continue
		}
		switch op.Kind {
		case "create":
			creates++
		case "send":
			var a sendArgs
			op.Decode(&a)
			if a.Amount == tooMuch {
				failing = true
			}
		}
	}
	if creates == 0 {
		return
	}
	if !tx.OK() {
		// a failed transaction "did not happen": it returned no id, so the property says
		// nothing about it; what it may have left behind shows up as a clash of later ids
		if failing && tx.Plan.Gas == 0 {
			m.rolled = true
			w.Hit("record.tx_with_creations_rolled_back")
		}
		if tx.Infra && tx.Plan.Gas != 0 {
			m.rolled = true
			w.Hit("record.creation_out_of_gas")
		}
		return
	}
	creator := w.A(tx.Plan.Ops[0].Actor).Addr.String()
	if creates > 1 {
		w.Hit("record.several_creations_in_one_tx")
	}
	if creates < len(tx.Plan.Ops) {
		w.Hit("record.creation_next_to_other_messages")
	}
	inTx := map[string]int{}
	for i, op := range tx.Plan.Ops {
		if op.Mod != Name || op.Kind != "create" {
			continue
		}
		var a createArgs
		op.Decode(&a)
		// "Creating a record returns an id ..."
		var resp rectypes.MsgCreateRecordResponse
		if !tx.Resp(i, &resp) || resp.Id == "" {
			w.Violate(Prop, "response/no-id", "accepted record creation (op %d, message %d of the tx) returned no id", op.ID, i)
			continue
		}
		fp := fingerprint(creator, a.Contents)
		shape := "distinct-contents"
		switch {
		case inTx[fp] > 0:
			shape = "identical-in-one-tx"
			w.Hit("record.identical_in_one_tx")
		case m.inBlock[fp] > 0:
			shape = "identical-in-one-block"
			w.Hit("record.identical_in_one_block")
		case m.lastSeen[fp] > 0:
			shape = "identical-in-another-block"
			w.Hit("record.identical_in_another_block")
		}
		inTx[fp]++
		m.inBlock[fp]++
		m.lastSeen[fp] = tx.Height
		if m.rolled {
			m.rolled = false
			w.Hit("record.creation_after_a_rolled_back_one")
		}
		// "... and two creations never receive the same id."
		w.Hit("C19.id_checks")
		norm := strings.ToLower(resp.Id)
		if old := m.recs[norm]; old != nil {
			rel := "another-block"
			if old.Height == tx.Height {
				rel = "same-block"
				if bytes.Equal(old.TxHash, tx.Hash) {
					rel = "same-tx"
				}
			}
			w.Violate(Prop, "id/duplicate/"+rel, "record creation (op %d, message %d, creator %s, height %d, %s) returned id %s, which the creation of op %d (creator %s, height %d) already received; contents identical: %v",
				op.ID, i, creator, tx.Height, shape, resp.Id, old.OpID, old.Creator, old.Height, fingerprint(old.Creator, old.Contents) == fp)
			continue
		}
		m.recs[norm] = &rec{ID: resp.Id, Contents: a.Contents, Creator: creator, TxHash: append([]byte{}, tx.Hash...), Height: tx.Height, OpID: op.ID, Order: len(m.order)}
		m.order = append(m.order, norm)
		w.Hit("record.created")
	}
}

// check reads one record back: "... an id under which exactly the submitted contents, the
// creator and the creating transaction's hash can be read back for ever after; nothing can
// alter or delete it".
func (m *Module) check(w *engine.World, rc *rec) {
	w.Hit("C19.readback_checks")
	age := "later"
	if rc.Height == w.Height {
		age = "at-creation"
	}
	var res *rectypes.QueryRecordResponse
	var err error
	if perr := engine.Catch("Record query", func() error {
		res, err = w.Node.K.Record.Record(w.Node.Ctx(), &rectypes.QueryRecordRequest{RecordId: rc.ID})
		return nil
	}); perr != nil {
		// the stored bytes no longer decode: "nothing can alter or delete it"
		w.Violate(Prop, "readback/undecodable/"+age, "record %s (op %d, created at height %d) cannot be decoded at height %d: the query aborts: %v", rc.ID, rc.OpID, rc.Height, w.Height, firstLine(perr.Error()))
		return
	}
	if err != nil || res == nil || res.Record == nil {
		w.Violate(Prop, "readback/query-fails/"+age, "record %s (op %d, created at height %d) cannot be queried at height %d: %v", rc.ID, rc.OpID, rc.Height, w.Height, err)
		return
	}
	got := res.Record
	if got.Creator == "" && len(got.Contents) == 0 && got.TxHash == "" {
		w.Violate(Prop, "readback/missing/"+age, "record %s (op %d, created at height %d by %s) is gone at height %d", rc.ID, rc.OpID, rc.Height, rc.Creator, w.Height)
		return
	}
	if got.Creator != rc.Creator {
		w.Violate(Prop, "readback/creator/"+age, "record %s (op %d, height %d): creator read back %s, created by %s", rc.ID, rc.OpID, rc.Height, got.Creator, rc.Creator)
	}
	if !sameContents(rc.Contents, got.Contents) {
		w.Violate(Prop, "readback/contents/"+age, "record %s (op %d, height %d): contents read back %v, submitted %v", rc.ID, rc.OpID, rc.Height, got.Contents, rc.Contents)
	}
	h, err := hex.DecodeString(got.TxHash)
	if err != nil || !bytes.Equal(h, rc.TxHash) {
		w.Violate(Prop, "readback/tx-hash/"+age, "record %s (op %d, height %d): transaction hash read back %s, the creating transaction's sha256 is %X", rc.ID, rc.OpID, rc.Height, got.TxHash, rc.TxHash)
	}
}

const sampleAbove = 200

func (m *Module) OnCommit(w *engine.World) {
	n := len(m.order)
	if n == 0 {
		return
	}
	if n <= sampleAbove {
		for _, id := range m.order {
			m.check(w, m.recs[id])
		}
	} else {
		// the newest 100 always, of the older ones every stride-th, rotating with the height
		stride := (n-100)/100 + 1
		for i, id := range m.order {
			if i >= n-100 || (int64(i)+w.Height)%int64(stride) == 0 {
				m.check(w, m.recs[id])
			}
		}
		w.Hit("record.sampled_readback")
	}
	w.State("record", n, len(m.lastSeen))
}

func (m *Module) Final(w *engine.World) {
	for _, id := range m.order {
		m.check(w, m.recs[id])
	}
}

func firstLine(s string) string {
	for i := 0; i < len(s); i++ {
		if s[i] == '\n' {
			return s[:i]
		}
	}
	return s
}
