#!/usr/bin/env python3
"""Regenerates /verif/MANIFEST.json from the table below and validates it against the schema."""
import json, os, sys

ROOT = os.path.dirname(os.path.dirname(os.path.abspath(__file__)))

# property -> (DESIGN section, level text, level note)
CLAIMED = {
    "C01": ("5/C01", "Seeded deterministic simulation of the whole application (real coinswap keeper behind the real SDK ABCI pipeline) over many short histories of swap/add/remove/one-sided add/one-sided remove/donation by several accounts, reserves from units to 2^128, fees over their valid range incl. edges, with delays, retries, out-of-gas, restarts and crashes injected. After every accepted transaction the reserves and liquidity supply before/after (reconstructed from the SDK bank keeper's own events) are judged in exact integers: S'T'L^2 >= STL'^2, and every swap leg against the fee-inclusive constant-product rule plus maximality (exact input) / at most one unit above minimum (exact output).",
            "Sampling, not enumeration. Trusted: SDK bank events as the record of movements (cross-checked against bank state every block); the model's fee tracks accepted authority updates and is compared with the stored params after every block."),
    "C02": ("5/C02", "Same simulation; the whole-chain balance sheet of every accepted coinswap transaction (all accounts, all denoms, all supplies) must equal exactly the traded coins between sender, recipient and the pools involved; bounds, deadlines (with deadlines expiring in flight), liquidity-token mint/burn, response amounts and the creation-fee split are judged per transaction; recipients equal to and different from the sender, fresh and blocked addresses.",
            "Sampling, not enumeration. Trusted: SDK bank events (cross-checked against bank state every block)."),
    "C03": ("5/C03", "Simulated histories of create / claim (right, wrong, replayed and eavesdropped secrets, by any account) / expiry for plain, incoming and outgoing hash-time-locked contracts, multi-coin amounts, time locks biased to the minimum, several contracts per expiry height (in some runs more than a hundred), claims retimed onto expiry-1 / expiry / expiry+1, duplicate creations in every state, parameter updates, delays, retries, out-of-gas, failing tail messages, restarts and crashes. A per-contract lifecycle model decides the verdict of every claim and creation; accepted transactions and every begin-block are judged by exact whole-chain balance sheets; contract state is compared with the HTLC query after every block; at the end every contract has at most/exactly one exit and exits equal entries.",
            "Sampling. Trusted: SDK bank events (cross-checked against bank state every block). Known finding: right-secret claims of incoming transfers refused after a parameter update."),
    "C04": ("5/C04", "Same simulation with a governor changing asset parameters and block-time distributions that cross the time-limit period (a single step larger than the period, steps summing exactly to it, nanosecond periods). After every block: escrow = sum of open plain + outgoing contracts (harness donations subtracted), per-asset incoming/outgoing/current counters = sums over the model's contracts, current = bank supply for HTLT-only denoms, limits within stretches of unchanged parameters with tumbling windows recomputed from block times alone.",
            "Sampling. 'One limit period' is read as the module's documented tumbling window."),
    "C05": ("5/C05", "Simulated farm histories (stake / unstake / harvest / adjust / destroy by several farmers and creators over real coinswap liquidity tokens, 1..max reward denoms, coprime small and huge magnitudes, future starts, natural expiry, operations retimed onto start, end and destroy blocks) with faults. After every block: sum of farmer stakes = pool total, farm escrow = staked + remaining rewards, stake/unstake move exactly the stated amount; any unstake of at most the model stake must succeed at any height; an epilogue makes every farmer withdraw everything.",
            "Sampling. The community-pool creation message cannot execute in this application; the pool such a proposal produces is put into the genesis of some runs instead."),
    "C06": ("5/C06", "Same simulation judged against an exact rational (big.Rat) stake-time reference: funded = remaining + released after every block, released only while someone is staked, refund to the creator exactly once (end block or destroy), end height = start + min floor(budget/rate), after an adjust the budget lasts to the new end, per-farmer cumulative payout within the property's stated rounding of the exact share, sum paid <= released.",
            "Sampling. Tolerance taken from the property's wording (one unit per interaction plus 18-decimal accumulator truncation)."),
    "C07": ("5/C07", "Simulated service histories (define / bind / update / enable / disable / refund-deposit / call one-shot and repeated contexts / respond / withdraw / expire over several providers, owners and consumers; pricing with time and volume promotions, in the base and a second denom; tax and slash fractions sampled; consumers drained) with faults. After every transaction and end block: deposit escrow = sum of bindings' deposits; request escrow = fees of active requests + earned fees (provider and owner tallies agreeing); end-block charge to each consumer = sum of the fees recorded on the requests created for them; answered => tax to the fee collector, rest to the provider tally; expired => full refund and exactly the slashed fraction moved; withdraw pays exactly the tally.",
            "Sampling. Requests are learned from end-block events and queries; the module callback tap is a verif-tagged hook."),
    "C08": ("5/C08", "Same simulation judged against a request / context automaton: respond accepted iff addressed provider and active; each request ends in exactly one outcome at or before its expiration height; one-shot contexts issue one batch and are removed; repeated unmodified running contexts issue batch n+1 exactly their frequency after batch n, none while paused, none beyond total; only the consumer's pause/start/kill/update accepted; module callbacks (recorded by the tap, through oracle feeds and random requests) fire once per batch, with outputs iff the threshold was met.",
            "Sampling."),
    "C13": ("5/C13", "All ten workload modules on one chain with due-height targeting (operations retimed onto expiry / end / batch / fulfilment heights and their neighbours, several objects per due height), restarts, crashes, clock jumps. Any panic escaping FinalizeBlock with an irismod frame is a violation (stack in the replay); after every block each module's queue (HTLC expiry, farm active pools, service new-batch / expired-batch with height markers, random requests) is compared by raw iteration with the objects the module's queries report; exactly-once at the due height comes from the modules' lifecycle ledgers.",
            "Sampling."),
    "C17": ("5/C17", "Simulated feed histories on top of the service workload (create / start / pause / edit feeds with 1..N providers, thresholds, growing and shrinking history, creators running dry, strangers trying; responses with values of either sign, zero, huge, many decimals, non-numeric, missing). For each batch the aggregate of the accepted valid responses is recomputed in exact rationals and compared with the stored value (8 decimals; tolerance 1e-8 + 1e-12|v| for the module's float arithmetic), exactly one value per threshold-meeting batch stamped with the block time, newest first, bounded by latest-history; feed state index = request-context state after every block; creator-only control.",
            "Sampling. Known finding: values outside the float64 range are stored as +-Inf."),
    "C18": ("5/C18", "Simulated random-request histories (several requesters, intervals 0..k, many due at one height, oracle-seeded requests whose provider answers validly, with garbage, or never). Plain requests: absent through block h+n, present from h+n+1 on, queue entry gone, value re-read unchanged until the end and equal to an independent recomputation from the previous block's app hash, the block time and the requester (20 fractional digits, in [0,1)); oracle-seeded: fulfilled exactly in the block carrying the valid seed, pending entry removed on failure or timeout.",
            "Sampling. At most one request per requester per block (the id scheme's stated domain)."),
    "C09": ("5/C09", "Simulated token histories (issue / edit / mint / burn / transfer-owner by owners, previous owners and strangers; scales 0..18; supplies at their limits; fractional burns; max-supply edits at the circulating amount; fee and tax parameters sampled and updated by the governor) with faults. Model decides authority verdicts; symbol and min-unit stay injective; supply <= queried cap after every transaction; burn tally exact; issue/mint fee balance sheet (owner pays, tax share to fee collector, rest burned, module account untouched).",
            "Sampling. Conversions (C10 operations) are outside C09's quantifier: the cap clause is not judged for a token once a conversion moved its native supply."),
    "C10": ("5/C10", "Same simulation with a fault-injectable ERC20 ledger behind the module's EVMKeeper interface whose state lives in the transaction's own cache-wrapped store (rolls back with the transaction): errors, reverts, wrong balance deltas, misdirected mints, gas-estimate failures. Accepted conversions move exactly the amount between native and ERC20 supply; any rejected conversion leaves bank and ERC20 ledgers untouched; fee-token swaps (registry filled through the verif-tagged accessor; ratios and scales swarm-sampled) never burn more than offered nor mint more than the burned amount is worth, exact at ratio 1.",
            "Sampling. The EVM is a stub (interface seam); the module's ordering and re-checks are what is tested."),
    "C14": ("5/C14", "Simulated NFT histories over classes with all four restriction-flag combinations: mint / edit / transfer (to self, with and without metadata change, do-not-modify sentinel) / burn and re-mint of the same id / class handover, by owners, creators, previous owners and strangers, with faults. An ownership model decides must-accept / must-reject for the clauses the property states; class, collection, token, supply, balance and owner queries equal the model after every block.",
            "Sampling."),
    "C15": ("5/C15", "Simulated MT histories with amounts over the whole uint64 range (0, 1, 2^63, 2^64-1, balance +-1, room below the limit +-1): issue / mint / edit / transfer (incl. to self) / burn / class handover by owners and strangers, with faults. Big-integer ledger: sum of balances = supply per token, exact movement, accepted iff the holder has the amount, any stored value differing from the model (wrap-around) is a violation, authority verdicts, generated ids never repeat.",
            "Sampling."),
    "C19": ("5/C19", "Simulated record histories: byte-identical records from one creator in one transaction (multi-message), one block and across blocks, failing tail messages after a create (whole-tx rollback including the id counter), out-of-gas, restarts, crashes. Some runs start from a genesis with 251-255 or 65531-65535 records (counter boundaries). Every returned id is new in the run; every id is read back (contents, creator, sha256 of the creating tx) after every block until the end.",
            "Sampling."),
    "C11": ("5/C11", "Every simulated history (all workload modules on one chain) is recorded as a block stream and executed again on fresh nodes inside the same simulation: a twin, a late joiner whose host clock the simulator moved forward by a log-uniform skew (1 ms .. 10 years; chain time placed on both sides of the host clock at every scale), a node restarted at block boundaries (down to every block), and a node that crashes after FinalizeBlock and before Commit and re-executes the block. App hash and every transaction result (code, codespace, data, gas, and the log text) must agree block by block - the late joiner also runs under another process time zone; the primary alone simulates (gas-estimates) some transactions before their block; exported genesis must agree between nodes and between two exports of one node; on divergence the stores are diffed to name module and key.",
            "Sampling. The host clock is the testing/synctest fake clock (real time never read). Another CPU architecture or toolchain is not explored (amd64, go1.26.8 only)."),
    "C12": ("5/C12", "At seeded block boundaries (and at the end of every history) the primary node's disk is cloned, the clone exported (as is, or after the modules' own PrepForZeroHeightGenesis), the genesis imported into a fresh application through InitChain (must be accepted) and, directly through the module manager, into a second one whose state is exported again (byte-equal module sections = fixpoint) and queried (workload modules render the queries about the durable objects they know; answers must be equal on source and target); as-is exports also compare the raw module stores; for the zero-height variant the chain before the preparation is compared with the re-imported one for what the preparation must preserve (htlc supplies and open contracts, pending random request ids).",
            "Sampling of reachable states by the workload; in-flight items a module documents as dropped are excluded by the modules' query lists."),
    "C16": ("5/C16", "Parameter experiments on throw-away branches of the committed state at seeded block boundaries: generated parameter sets (interior, boundary, zero, huge, absent fields, invalid) of coinswap/farm/htlc/service/token go through the module's own MsgUpdateParams handler from non-authorities (must change nothing) and from the authority; a set the module's Validate rejects must not be stored (message and genesis import); for stored sets, sampled workload messages and the next begin/end block are executed under P and under the defaults, outcome classes compared: violation iff P panics where the defaults do not. After a valid set was imported by a fresh node, the module's canonical small operations run there under P and, on another fresh node, under the defaults (an abort under P only - checked-integer overflow included - is the parameter's doing). Stored parameters of the real chain are validated after every block.",
            "Sampling of the parameter space and of message/state combinations. Handlers are invoked through the app's message router on a branched context (no ante handler)."),
}

NOT_APPLICABLE = {
    "C20": "no schedule, clock, fault, interleaving or history enters the property: descriptors and wire encodings are compile-time constants and pure functions of field values; deciding it is static comparison / input generation, not simulation (DESIGN.md section 5/C20)",
}

PENDING_REASON = "simulation check for this property is not built yet in this tree (see DESIGN.md section 13 build order); not claimed until its check exists"


def main():
    props = [json.loads(l) for l in open(os.path.join(ROOT, "properties.jsonl"))]
    checks = []
    na = []
    for p in props:
        pid = p["id"]
        if pid in CLAIMED:
            sec, text, note = CLAIMED[pid]
            checks.append({
                "property_id": pid,
                "quick_cmd": "./check %s quick" % pid,
                "thorough_cmd": "./check %s thorough" % pid,
                "evidence_file": "/verif/evidence/%s.json" % pid,
                "replay_cmd_template": "./check replay {path}",
                "engine": "simchain",
                "level_claimed": {"category": "exploration", "text": text, "design_ref": "DESIGN.md section " + sec},
                "level_note": note,
                "technique": "deterministic simulation with fault injection: seeded search over schedules and faults, reference-model oracle, minimised replay",
            })
        elif pid in NOT_APPLICABLE:
            na.append({"property_id": pid, "reason": NOT_APPLICABLE[pid]})
        else:
            na.append({"property_id": pid, "reason": PENDING_REASON})
    hooks_commits = []
    hp = os.path.join(ROOT, "tools", "hook_commits.txt")
    if os.path.exists(hp):
        hooks_commits = [l.strip() for l in open(hp) if l.strip()]
    manifest = {
        "version": 1,
        "setup_cmd": "./check build",
        "hooks": {
            "guard": "verif (Go build tag)",
            "enable": "go1.26.8 test -c -tags verif in /verif/sim (replace directives point every mods.irisnet.org module at /repo)",
            "baseline_off_cmd": "for m in $(cat /w/out/gomods.txt); do MF=$(cd /repo/$m && . /w/out/goenv.sh && gomodflag); (cd /repo/$m && go test $MF -json -vet=off -count=1 -timeout 25m ./...); done",
            "source_commits": hooks_commits,
            "add_only": True,
        },
        "engines": [{
            "name": "simchain", "path": "/verif/sim",
            "serves_properties": sorted(CLAIMED),
            "kind_free_text": "deterministic whole-application simulator: real SimApp + SDK baseapp in one process inside a testing/synctest bubble; seeded block producer, transport (delay/drop/retry/reorder), block clock, gas-limit fault injection, node restart / crash-before-commit / replica / export-import faults; per-tx balance sheets from bank events; reference models; delta-debugging minimiser and literal replay",
        }],
        "checks": checks,
        "not_applicable": na,
        "notes": "All checks: ./check <id> <tier>. Exit 0 held / 1 VIOLATION with replay file / 2 harness trouble (build failure, nondeterministic replay, vacuous probes). Known findings in known_findings.json.",
    }
    out = os.path.join(ROOT, "MANIFEST.json")
    with open(out, "w") as f:
        json.dump(manifest, f, indent=1)
    try:
        import jsonschema
        jsonschema.validate(manifest, json.load(open("/root/.vp/MANIFEST.schema.json")))
        print("MANIFEST.json valid; claimed:", sorted(CLAIMED), "not claimed:", [x["property_id"] for x in na])
    except ImportError:
        print("jsonschema not available; wrote MANIFEST.json unvalidated")


if __name__ == "__main__":
    main()
