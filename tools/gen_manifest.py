#!/usr/bin/env python3
"""Regenerates /verif/MANIFEST.json from the table below and validates it against the schema."""
import json, os, sys

ROOT = os.path.dirname(os.path.dirname(os.path.abspath(__file__)))

# property -> (DESIGN section, level text, level note)
CLAIMED = {
    "C01": ("5/C01", "Seeded deterministic simulation of the whole application (real coinswap keeper behind the real SDK ABCI pipeline) over many short histories of swap/add/remove/one-sided add/one-sided remove/donation by several accounts, reserves from units to 2^128, fees over their valid range incl. edges, with delays, retries, out-of-gas, restarts and crashes injected. After every accepted transaction the reserves and liquidity supply before/after (reconstructed from the SDK bank keeper's own events) are judged in exact integers: S'T'L^2 >= STL'^2, and every swap leg against the fee-inclusive constant-product rule plus maximality (exact input) / at most one unit above minimum (exact output).",
            "Sampling, not enumeration. Trusted: SDK bank events as the record of movements (cross-checked against bank state every block); the model's fee tracks accepted authority updates and is compared with the stored params after every block."),
    "C02": ("5/C02", "Same simulation; the whole-chain balance sheet of every accepted coinswap transaction (all accounts, all denoms, all supplies) must equal exactly the traded coins between sender, recipient and the pools involved; bounds, deadlines (with deadlines expiring in flight), liquidity-token mint/burn, response amounts and the creation-fee split are judged per transaction; recipients equal to and different from the sender, fresh and blocked addresses.",
            "Sampling, not enumeration. Trusted: SDK bank events (cross-checked against bank state every block)."),
    "C11": ("5/C11", "Every simulated history (all workload modules on one chain) is recorded as a block stream and executed again on fresh nodes inside the same simulation: a twin, a late joiner whose host clock the simulator moved forward by a log-uniform skew (1 ms .. 10 years; chain time placed on both sides of the host clock at every scale), a node restarted at block boundaries (down to every block), and a node that crashes after FinalizeBlock and before Commit and re-executes the block. App hash and every transaction result must agree block by block; exported genesis must agree between nodes and between two exports of one node; on divergence the stores are diffed to name module and key.",
            "Sampling. The host clock is the testing/synctest fake clock (real time never read). Another CPU architecture or toolchain is not explored (amd64, go1.26.8 only)."),
    "C12": ("5/C12", "At seeded block boundaries (and at the end of every history) the primary node's disk is cloned, the clone exported (as is, or after the modules' own PrepForZeroHeightGenesis), the genesis imported into a fresh application through InitChain (must be accepted) and, directly through the module manager, into a second one whose state is exported again (byte-equal module sections = fixpoint) and queried (workload modules render the queries about the durable objects they know; answers must be equal on source and target).",
            "Sampling of reachable states by the workload; in-flight items a module documents as dropped are excluded by the modules' query lists."),
    "C16": ("5/C16", "Parameter experiments on throw-away branches of the committed state at seeded block boundaries: generated parameter sets (interior, boundary, zero, huge, absent fields, invalid) of coinswap/farm/htlc/service/token go through the module's own MsgUpdateParams handler from non-authorities (must change nothing) and from the authority; a set the module's Validate rejects must not be stored (message and genesis import); for stored sets, sampled workload messages and the next begin/end block are executed under P and under the defaults, outcome classes compared: violation iff P panics where the defaults do not. Stored parameters of the real chain are validated after every block.",
            "Sampling of the parameter space and of message/state combinations. Handlers are invoked through the app's message router on a branched context (no ante handler)."),
}

NOT_APPLICABLE = {
    "C20": "no schedule, clock, fault, interleaving or history enters the property: descriptors and wire encodings are compile-time constants and pure functions of field values; deciding it is static comparison / input generation, not simulation (DESIGN.md section 5/C20)",
}

PENDING_REASON = "simulation check for this property is not built yet in this tree (see DESIGN.md section 13 build order); not claimed until its check exists"


def main():
    props = [json.loads(l) for l in open(os.path.join(ROOT, "properties.jsonl"))]
    checks = []
    na = []
    for p in props:
        pid = p["id"]
        if pid in CLAIMED:
            sec, text, note = CLAIMED[pid]
            checks.append({
                "property_id": pid,
                "quick_cmd": "./check %s quick" % pid,
                "thorough_cmd": "./check %s thorough" % pid,
                "evidence_file": "/verif/evidence/%s.json" % pid,
                "replay_cmd_template": "./check replay {path}",
                "engine": "simchain",
                "level_claimed": {"category": "exploration", "text": text, "design_ref": "DESIGN.md section " + sec},
                "level_note": note,
                "technique": "deterministic simulation with fault injection: seeded search over schedules and faults, reference-model oracle, minimised replay",
            })
        elif pid in NOT_APPLICABLE:
            na.append({"property_id": pid, "reason": NOT_APPLICABLE[pid]})
        else:
            na.append({"property_id": pid, "reason": PENDING_REASON})
    hooks_commits = []
    hp = os.path.join(ROOT, "tools", "hook_commits.txt")
    if os.path.exists(hp):
        hooks_commits = [l.strip() for l in open(hp) if l.strip()]
    manifest = {
        "version": 1,
        "setup_cmd": "./check build",
        "hooks": {
            "guard": "verif (Go build tag)",
            "enable": "go1.26.8 test -c -tags verif in /verif/sim (replace directives point every mods.irisnet.org module at /repo)",
            "baseline_off_cmd": "for m in $(cat /w/out/gomods.txt); do MF=$(cd /repo/$m && . /w/out/goenv.sh && gomodflag); (cd /repo/$m && go test $MF -json -vet=off -count=1 -timeout 25m ./...); done",
            "source_commits": hooks_commits,
            "add_only": True,
        },
        "engines": [{
            "name": "simchain", "path": "/verif/sim",
            "serves_properties": sorted(CLAIMED),
            "kind_free_text": "deterministic whole-application simulator: real SimApp + SDK baseapp in one process inside a testing/synctest bubble; seeded block producer, transport (delay/drop/retry/reorder), block clock, gas-limit fault injection, node restart / crash-before-commit / replica / export-import faults; per-tx balance sheets from bank events; reference models; delta-debugging minimiser and literal replay",
        }],
        "checks": checks,
        "not_applicable": na,
        "notes": "All checks: ./check <id> <tier>. Exit 0 held / 1 VIOLATION with replay file / 2 harness trouble (build failure, nondeterministic replay, vacuous probes). Known findings in known_findings.json.",
    }
    out = os.path.join(ROOT, "MANIFEST.json")
    with open(out, "w") as f:
        json.dump(manifest, f, indent=1)
    try:
        import jsonschema
        jsonschema.validate(manifest, json.load(open("/root/.vp/MANIFEST.schema.json")))
        print("MANIFEST.json valid; claimed:", sorted(CLAIMED), "not claimed:", [x["property_id"] for x in na])
    except ImportError:
        print("jsonschema not available; wrote MANIFEST.json unvalidated")


if __name__ == "__main__":
    main()
