#!/usr/bin/env python3
"""Regenerates /verif/MANIFEST.json from the table below and validates it against the schema."""
import json, os, sys

ROOT = os.path.dirname(os.path.dirname(os.path.abspath(__file__)))

# property -> (DESIGN section, level text, level note)
CLAIMED = {
    "C01": ("5/C01", "Seeded deterministic simulation of the whole application (real coinswap keeper behind the real SDK ABCI pipeline) over many short histories of swap/add/remove/one-sided add/one-sided remove/donation by several accounts, reserves from units to 2^128, fees over their valid range incl. edges, with delays, retries, out-of-gas, restarts and crashes injected. After every accepted transaction the reserves and liquidity supply before/after (reconstructed from the SDK bank keeper's own events) are judged in exact integers: S'T'L^2 >= STL'^2, and every swap leg against the fee-inclusive constant-product rule plus maximality (exact input) / at most one unit above minimum (exact output).",
            "Sampling, not enumeration. Trusted: SDK bank events as the record of movements (cross-checked against bank state every block); the model's fee tracks accepted authority updates and is compared with the stored params after every block."),
    "C02": ("5/C02", "Same simulation; the whole-chain balance sheet of every accepted coinswap transaction (all accounts, all denoms, all supplies) must equal exactly the traded coins between sender, recipient and the pools involved; bounds, deadlines (with deadlines expiring in flight), liquidity-token mint/burn, response amounts and the creation-fee split are judged per transaction; recipients equal to and different from the sender, fresh and blocked addresses.",
            "Sampling, not enumeration. Trusted: SDK bank events (cross-checked against bank state every block)."),
}

NOT_APPLICABLE = {
    "C20": "no schedule, clock, fault, interleaving or history enters the property: descriptors and wire encodings are compile-time constants and pure functions of field values; deciding it is static comparison / input generation, not simulation (DESIGN.md section 5/C20)",
}

PENDING_REASON = "simulation check for this property is not built yet in this tree (see DESIGN.md section 13 build order); not claimed until its check exists"


def main():
    props = [json.loads(l) for l in open(os.path.join(ROOT, "properties.jsonl"))]
    checks = []
    na = []
    for p in props:
        pid = p["id"]
        if pid in CLAIMED:
            sec, text, note = CLAIMED[pid]
            checks.append({
                "property_id": pid,
                "quick_cmd": "./check %s quick" % pid,
                "thorough_cmd": "./check %s thorough" % pid,
                "evidence_file": "/verif/evidence/%s.json" % pid,
                "replay_cmd_template": "./check replay {path}",
                "engine": "simchain",
                "level_claimed": {"category": "exploration", "text": text, "design_ref": "DESIGN.md section " + sec},
                "level_note": note,
                "technique": "deterministic simulation with fault injection: seeded search over schedules and faults, reference-model oracle, minimised replay",
            })
        elif pid in NOT_APPLICABLE:
            na.append({"property_id": pid, "reason": NOT_APPLICABLE[pid]})
        else:
            na.append({"property_id": pid, "reason": PENDING_REASON})
    hooks_commits = []
    hp = os.path.join(ROOT, "tools", "hook_commits.txt")
    if os.path.exists(hp):
        hooks_commits = [l.strip() for l in open(hp) if l.strip()]
    manifest = {
        "version": 1,
        "setup_cmd": "./check build",
        "hooks": {
            "guard": "verif (Go build tag)",
            "enable": "go1.26.8 test -c -tags verif in /verif/sim (replace directives point every mods.irisnet.org module at /repo)",
            "baseline_off_cmd": "for m in $(cat /w/out/gomods.txt); do MF=$(cd /repo/$m && . /w/out/goenv.sh && gomodflag); (cd /repo/$m && go test $MF -json -vet=off -count=1 -timeout 25m ./...); done",
            "source_commits": hooks_commits,
            "add_only": True,
        },
        "engines": [{
            "name": "simchain", "path": "/verif/sim",
            "serves_properties": sorted(CLAIMED),
            "kind_free_text": "deterministic whole-application simulator: real SimApp + SDK baseapp in one process inside a testing/synctest bubble; seeded block producer, transport (delay/drop/retry/reorder), block clock, gas-limit fault injection, node restart / crash-before-commit / replica / export-import faults; per-tx balance sheets from bank events; reference models; delta-debugging minimiser and literal replay",
        }],
        "checks": checks,
        "not_applicable": na,
        "notes": "All checks: ./check <id> <tier>. Exit 0 held / 1 VIOLATION with replay file / 2 harness trouble (build failure, nondeterministic replay, vacuous probes). Known findings in known_findings.json.",
    }
    out = os.path.join(ROOT, "MANIFEST.json")
    with open(out, "w") as f:
        json.dump(manifest, f, indent=1)
    try:
        import jsonschema
        jsonschema.validate(manifest, json.load(open("/root/.vp/MANIFEST.schema.json")))
        print("MANIFEST.json valid; claimed:", sorted(CLAIMED), "not claimed:", [x["property_id"] for x in na])
    except ImportError:
        print("jsonschema not available; wrote MANIFEST.json unvalidated")


if __name__ == "__main__":
    main()
