#!/usr/bin/env python3
"""Confirm a seeded property-breaking change and keep it under /verif/seeded/<name>/.

  seed_keep.py <name> <property> <src_dir> <demo_dest_rel> <demo_test_regex> <needs> [--mods m1,m2] [--runs N] [--no-detect]

Steps, all in a scratch worktree of /repo HEAD (removed afterwards):
  1. demo test passes on the clean tree
  2. patch applies; `go build ./...` in the touched modules
  3. existing tests of the listed modules still pass with the patch (demo file removed)
  4. demo test fails with the patch
  5. the property's quick check (reduced run count) is run against the patched worktree
Writes patch.diff, the demonstration, meta.json.
"""
import json, os, shutil, subprocess, sys, tempfile

ENV = dict(os.environ, GOFLAGS="-mod=mod", GOPROXY="off", GOSUMDB="off")


def sh(cmd, cwd, timeout=3600):
    p = subprocess.run(cmd, cwd=cwd, env=ENV, shell=True, stdout=subprocess.PIPE, stderr=subprocess.STDOUT, text=True, timeout=timeout)
    return p.returncode, p.stdout


def main():
    a = sys.argv[1:]
    name, prop, src, dest, regex, needs = a[:6]
    mods = None
    runs = "640"
    detect = True
    also = []
    i = 6
    while i < len(a):
        if a[i] == "--mods":
            mods = a[i + 1].split(","); i += 2
        elif a[i] == "--runs":
            runs = a[i + 1]; i += 2
        elif a[i] == "--no-detect":
            detect = False; i += 1
        elif a[i] == "--also":
            also = a[i + 1].split(","); i += 2
        else:
            i += 1
    patch = os.path.join(src, "patch.diff")
    demo = os.path.join(src, "demo_test.go")
    wt = tempfile.mkdtemp(prefix="sk-", dir="/tmp")
    os.rmdir(wt)
    rc, out = sh("git -C /repo worktree add -q %s HEAD" % wt, "/")
    if rc != 0:
        print(out); sys.exit(2)
    meta = {"name": name, "property": prop, "needs_to_manifest": needs, "ran": []}
    ok = True
    try:
        touched = sorted({l[6:].split("/")[0] + "/" + l[6:].split("/")[1] for l in open(patch) if l.startswith("+++ b/modules/")})
        if mods is None:
            mods = touched
        if dest.startswith("e2e/") or dest.startswith("simapp/"):
            demo_mod = dest.split("/")[0]
            demo_pkg = "./" + "/".join(dest.split("/")[1:-1]) + "/"
        else:
            demo_mod = "/".join(dest.split("/")[:2])
            demo_pkg = "./" + "/".join(dest.split("/")[2:-1]) + "/"
        shutil.copyfile(demo, os.path.join(wt, dest))
        cmd = "go test %s -run '%s' -count=1" % (demo_pkg, regex)
        rc, out = sh(cmd, os.path.join(wt, demo_mod))
        meta["ran"].append({"step": "demo on clean tree", "cmd": "cd %s && %s" % (demo_mod, cmd), "exit": rc, "tail": out[-600:]})
        if rc != 0:
            ok = False
            print("demo does not pass on the clean tree"); print(out[-2000:])
        os.remove(os.path.join(wt, dest))
        rc, out = sh("git apply %s" % patch, wt)
        meta["ran"].append({"step": "git apply", "exit": rc})
        if rc != 0:
            ok = False
            print("patch does not apply"); print(out)
        for m in mods:
            rc, out = sh("go build ./... && go test -vet=off -count=1 ./...", os.path.join(wt, m))
            fails = [l for l in out.splitlines() if l.startswith("FAIL") or l.startswith("--- FAIL")]
            meta["ran"].append({"step": "existing tests with the change", "cmd": "cd %s && go build ./... && go test -vet=off -count=1 ./..." % m, "exit": rc, "fail_lines": fails[:10]})
            if rc != 0:
                ok = False
                print("existing tests fail in", m); print(out[-3000:])
        shutil.copyfile(demo, os.path.join(wt, dest))
        rc, out = sh(cmd, os.path.join(wt, demo_mod))
        meta["ran"].append({"step": "demo with the change", "cmd": "cd %s && %s" % (demo_mod, cmd), "exit": rc, "tail": out[-900:]})
        if rc == 0:
            ok = False
            print("demo does not fail with the change")
        os.remove(os.path.join(wt, dest))
        if detect and ok:
            e = dict(os.environ, VERIF_REPO=wt, VERIF_RUNS=runs)
            p = subprocess.run(["./check", prop, "quick"], cwd=os.environ.get("VERIF_ROOT", "/verif"), env=e, stdout=subprocess.PIPE, stderr=subprocess.STDOUT, text=True)
            lines = [l for l in p.stdout.splitlines() if l.startswith("VIOLATION") or l.strip().startswith("key:") or l.strip().startswith("seed:") or "quick:" in l or l.startswith("KNOWN") or l.startswith("HARNESS")]
            meta["check"] = {"cmd": "VERIF_REPO=<worktree with patch> VERIF_RUNS=%s ./check %s quick" % (runs, prop), "exit": p.returncode, "lines": [l[:400] for l in lines]}
            meta["detected"] = p.returncode == 1
            print("\n".join(lines)[:3000])
            # the change may break the property through a path that another property's
            # profile exercises (genesis import, queues, replicas): try those when missed
            if not meta["detected"]:
                for other in also:
                    if other == prop:
                        continue
                    e2 = dict(os.environ, VERIF_REPO=wt, VERIF_RUNS="240")
                    p2 = subprocess.run(["./check", other, "quick"], cwd=os.environ.get("VERIF_ROOT", "/verif"), env=e2, stdout=subprocess.PIPE, stderr=subprocess.STDOUT, text=True)
                    l2 = [l for l in p2.stdout.splitlines() if l.startswith("VIOLATION") or l.strip().startswith("key:") or "quick:" in l or l.startswith("HARNESS")]
                    meta.setdefault("other_checks", []).append({"property": other, "exit": p2.returncode, "lines": [l[:300] for l in l2]})
                    if p2.returncode == 1:
                        meta["detected_by_other"] = other
                        print("detected by", other)
                        break
    finally:
        sh("git -C /repo worktree remove --force %s" % wt, "/")
    if not ok:
        print("NOT KEPT:", name)
        sys.exit(1)
    dst = os.path.join("/verif/seeded", name)
    os.makedirs(dst, exist_ok=True)
    if os.path.abspath(src) != os.path.abspath(dst):
        shutil.copyfile(patch, os.path.join(dst, "patch.diff"))
        shutil.copyfile(demo, os.path.join(dst, "demo_test.go"))
        if os.path.exists(os.path.join(src, "README.md")):
            shutil.copyfile(os.path.join(src, "README.md"), os.path.join(dst, "README.md"))
    meta["demo"] = {"file": "demo_test.go", "copy_to": dest, "run": "cd %s && go test %s -run '%s' -count=1" % (demo_mod, demo_pkg, regex)}
    json.dump(meta, open(os.path.join(dst, "meta.json"), "w"), indent=1)
    print("KEPT", name, "detected=%s" % meta.get("detected"))


if __name__ == "__main__":
    main()
