#!/usr/bin/env python3
"""seed_keep_auto.py <property> <root_dir> <name_prefix> [--runs N]
Runs seed_keep.py for every <root_dir>/_out/<k>/ whose README names the demo destination and
the test to run; extracts both heuristically."""
import os, re, subprocess, sys


def parse(readme, patch):
    txt = open(readme).read()
    dest = None
    for m in re.finditer(r"((?:modules|e2e|simapp)/[\w/\.\-]*?zz_[\w]*\.go)", txt):
        dest = m.group(1)
        break
    run = None
    for m in re.finditer(r"-run[ =]+'?\"?([^\s'\"`]+)", txt):
        cand = m.group(1)
        if "Test" in cand:
            run = cand
            break
    needs = ""
    for pat in [r"(?is)\*\*needs[^*]*\*\*:?\s*(.+?)(?:\n\s*\n|\n- \*\*|\n\*\*|\n#)", r"(?is)#+\s*what it needs[^\n]*\n+(.+?)(?:\n#|\Z)",
                r"(?is)#+\s*needs[^\n]*\n+(.+?)(?:\n#|\Z)", r"(?is)needs[^\n:]{0,40}:\s*(.+?)(?:\n\s*\n|\n#)"]:
        m = re.search(pat, txt)
        if m and len(m.group(1).strip()) > 30:
            needs = " ".join(m.group(1).split())[:400]
            break
    mods = sorted({"/".join(l[6:].split("/")[:2]) for l in open(patch) if l.startswith("+++ b/modules/")})
    if "modules/coinswap" in mods and "modules/farm" not in mods:
        mods.append("modules/farm")
    return dest, run, needs, mods


def main():
    prop, root, prefix = sys.argv[1:4]
    runs = None
    if "--runs" in sys.argv:
        runs = sys.argv[sys.argv.index("--runs") + 1]
    out = os.path.join(root, "_out")
    for k in sorted(os.listdir(out)):
        d = os.path.join(out, k)
        if not (os.path.isdir(d) and os.path.exists(os.path.join(d, "patch.diff")) and os.path.exists(os.path.join(d, "README.md")) and os.path.exists(os.path.join(d, "demo_test.go"))):
            continue
        dest, run, needs, mods = parse(os.path.join(d, "README.md"), os.path.join(d, "patch.diff"))
        name = "%s-%s" % (prefix, k)
        if not dest or not run:
            print("SKIP %s: cannot find demo destination (%s) or test name (%s) in README" % (name, dest, run), flush=True)
            continue
        cmd = ["python3", "/verif/tools/seed_keep.py", name, prop, d, dest, run, needs or "see README.md"]
        if mods:
            cmd += ["--mods", ",".join(mods)]
        if runs:
            cmd += ["--runs", runs]
        cmd += ["--also", "C12,C13,C11"]
        print("RUN", " ".join(cmd[:6]), flush=True)
        p = subprocess.run(cmd, stdout=subprocess.PIPE, stderr=subprocess.STDOUT, text=True)
        tail = [l for l in p.stdout.splitlines() if l.startswith("KEPT") or l.startswith("NOT KEPT") or "does not" in l or "fail" in l.lower()][-4:]
        print("\n".join(tail), flush=True)


if __name__ == "__main__":
    main()
