#!/usr/bin/env python3
"""Re-run the detection step for kept seeded changes and refresh meta.json.

  seed_recheck.py <name>[:<property>] ... [--runs N]

For each name: scratch worktree of /repo HEAD, apply /verif/seeded/<name>/patch.diff, run
`./check <property> quick` (property defaults to the one the change was written against)
with VERIF_REPO pointing at the worktree, record the outcome in meta.json ("check" when it
is the change's own property, "other_checks"/"detected_by_other" otherwise), remove the
worktree.
"""
import json, os, subprocess, sys, tempfile


def main():
    a = sys.argv[1:]
    runs = "640"
    if "--runs" in a:
        i = a.index("--runs"); runs = a[i + 1]; del a[i:i + 2]
    for item in a:
        name, _, prop = item.partition(":")
        d = os.path.join("/verif/seeded", name)
        meta = json.load(open(os.path.join(d, "meta.json")))
        prop = prop or meta["property"]
        wt = tempfile.mkdtemp(prefix="sr-", dir="/tmp"); os.rmdir(wt)
        subprocess.run("git -C /repo worktree add -q %s HEAD" % wt, shell=True, check=True)
        try:
            r = subprocess.run("git apply %s" % os.path.join(d, "patch.diff"), shell=True, cwd=wt)
            if r.returncode != 0:
                print(name, "PATCH DOES NOT APPLY", flush=True)
                continue
            e = dict(os.environ, VERIF_REPO=wt, VERIF_RUNS=runs)
            p = subprocess.run(["./check", prop, "quick"], cwd="/verif", env=e, stdout=subprocess.PIPE, stderr=subprocess.STDOUT, text=True)
            lines = [l for l in p.stdout.splitlines() if l.startswith("VIOLATION") or l.strip().startswith("key:") or l.strip().startswith("seed:") or "quick:" in l or l.startswith("HARNESS")]
            rec = {"cmd": "VERIF_REPO=<worktree with patch> VERIF_RUNS=%s ./check %s quick" % (runs, prop), "exit": p.returncode, "lines": [l[:400] for l in lines]}
            if prop == meta["property"]:
                meta["check"] = rec
                meta["detected"] = p.returncode == 1
                if meta["detected"]:
                    meta.pop("detected_by_other", None)
            else:
                rec["property"] = prop
                meta["other_checks"] = [o for o in meta.get("other_checks", []) if o["property"] != prop] + [rec]
                if p.returncode == 1:
                    meta["detected_by_other"] = prop
            json.dump(meta, open(os.path.join(d, "meta.json"), "w"), indent=1)
            print(name, prop, "exit", p.returncode, flush=True)
            print("\n".join(lines[:12]), flush=True)
        finally:
            subprocess.run("git -C /repo worktree remove --force %s" % wt, shell=True)


if __name__ == "__main__":
    main()
