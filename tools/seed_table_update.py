#!/usr/bin/env python3
"""Replaces the catch matrix of DESIGN.md section 15 by the output of seed_table.py."""
import re, subprocess, sys
p = "/verif/DESIGN.md"
s = open(p).read()
tab = subprocess.run([sys.executable, "/verif/tools/seed_table.py"], stdout=subprocess.PIPE, text=True, check=True).stdout.strip()
start = s.index("| seeded change | property | needs, in order to manifest |")
m = re.search(r"\n\d+ of \d+ seeded changes are caught by[^\n]*\n", s[start:])
end = start + m.end()
s = s[:start] + tab + "\n" + s[end:]
open(p, "w").write(s)
print(tab.splitlines()[-1])
