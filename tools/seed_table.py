#!/usr/bin/env python3
"""Prints the catch matrix of /verif/seeded as a markdown table (for DESIGN.md section 15)."""
import json, glob, os

NOTES = {
    "C03-1": "first run exited 2: the half-written refund was reported as 'bank mirror diverged' (harness trouble); bank traces without movement are now violations of the property in focus",
    "C03-3": "same as C03-1",
    "C05-1": "C05 only judged the principal; added the accrued-reward clause on every unstake",
    "C05-3": "rare (about 1 run in 800 at quick length); added the branch drain lab (all stakers withdraw everything on a branch at seeded block boundaries)",
    "C09-3": "needed ghost probing: operations naming identifiers of issue attempts that were rolled back",
    "C10-2": "the EVM post-tx hook was unreachable; added the hook lab (synthetic receipts on a branch)",
    "C11-1": "the mixed profile did not bind the random service, so no oracle-seeded request was ever accepted there; fixed the profile",
    "C12-1": "needed the raw store comparison of source and re-imported node (queues are not in the genesis)",
    "C12-2": "needed the raw store comparison (id counters are not exported)",
    "C12-3": "needed runs with ten or more pools",
    "C14-2": "needed doomed multi-message batches (several messages of one signer executed on a branch that is discarded)",
    "C16-3": "needed parameter sets derived from the chain's current htlc params (existing assets with used windows) and a second block after a time jump on the branch",
    "C18-1": "was found, but the replay in a fresh process did not reproduce (the defect is process-local state) and the driver exited 2; such violations are now reported with a stability note",
    "C19-1": "needed the governance route (records created without tx bytes)",
    "C19-3": "the corrupted record made the query abort and the workload treated that as harness trouble; now a violation",
    "C02-r2-2": "needed bank denoms that merely look like liquidity denoms (kitty-1) named in remove-liquidity",
    "C06-r2-1": "needed runs with ten or more farm pools",
    "C05-r2-2": "needed runs with ten or more farm pools",
    "C06-r2-3": "needed a governance-created pool (creator = distribution module account); the message route cannot execute in this application (no escrow_collector account, no proposal route), so the pool is put into the run's genesis",
    "C05-r2-1": "same-block operation clusters on one pool made it frequent",
    "C05-r2-3": "needed pools with budget = rate*k staked exactly from the start height and left alone until expiry",
    "C07-r2-1": "needed fees in two denominations: C07 now runs on the service+feeds profile",
    "C08-r2-3": "a C07 clause (slash bookkeeping): caught by C07's check",
    "C09-r2-3": "needed the legacy v1beta1 message route in the workload",
    "C10-r2-1": "needed pay-out ghosts (rolled-back issue of the fee-swap pay-out token with another scale); patch rebased after the fee-swap resolution fix",
    "C10-r2-3": "needed tokens whose symbol equals another token's min unit; this workload extension also exposed a genuine defect (fee swap resolved the pay-out token symbol-first), fixed in faa1a4b",
    "C11-r2-2": "needed the cross-process comparison of app-hash chains and runs whose genesis omits htlc's previous_block_time",
    "C16-r2-2": "needed 14 consecutive blocks on the lab's branches (requests expiring under slash fraction 1)",
    "C17-r2-1": "needed feed names in prefix relation",
    "C17-r2-3": "needed threshold edits landing inside open batches and the batch's own threshold as the reference",
    "C15-r2-3": "NOT reachable by construction: needs a hand-written genesis whose balances overflow uint64 in sum; no history and no export produces it (C15 quantifies over histories)",
    "C19-r2-1": "ids are process-history dependent only across nodes: caught by the replicas of C11",
    "C11-r3-2": "rare at first (about one run in 300: only 4 order-sensitive average batches in 240 runs); C11 runs now favour the service/oracle group, four providers per feed and a value class where summation order shows in the eighth decimal",
    "C12-r3-1": "needed the export variant in the key of service import rejections (the as-is rejection is a known finding; the prepared export must import)",
    "C12-r3-3": "needed farm pools whose reward-kind count exceeds a later, lowered max_reward_categories (governor lowers it in farm runs)",
    "C13-r3-2": "an outcome difference between executions, not a queue defect: caught by the replicas of C11",
    "C13-r3-3": "needed the rule that a pool past its end height and off the queue must have been ended",
    "C14-r3-2": "needed one party holding more than a hundred tokens of a class: genesis arm with a holder of 97-104 tokens",
    "C15-r3-1": "only visible after export/import: caught by C12 (query comparison)",
    "C17-r3-2": "only visible after export/import: caught by C12 (raw store comparison)",
    "C19-r3-1": "only visible after export/import: caught by C12 (raw store comparison, the counter key)",
    "C19-r3-2": "needed a history of 65536 records: genesis arm with 65531-65535 records identical to what governance creates",
    "C08-r4-2": "missed at first: in the service+feeds profile every answer was supplied by the feed workload's responder and the respond verdict skipped such answers; the verdict now covers every answer that passes the module's own stateless validation",
    "C08-r4-3": "same as C08-r4-2",
    "C12-r4-1": "needed the comparison of the chain before the zero-height preparation with the re-imported one (prep-preserves)",
    "C02-r4-2": "the README's route (a bank send into the module account) is closed in this application's wiring, but a swap may name the module account as its recipient (the keeper pays recipients without asking the bank's blocked list): added that recipient; the coins such swaps deliver must stay",
    "C03-r4-3": "needed an expiry height of 255 mod 256: chains that start just below 2^8 / 2^16 / 2^32 (initial height knob)",
    "C05-r4-2": "only visible after export/import at the pool's end height: caught by C12 (raw store comparison)",
    "C13-r4-1": "needed more than a hundred contracts falling due in one block (expiry burst)",
    "C13-r4-2": "its first run hit a simulator that did not build at that moment (harness edit in progress); re-run",
    "C18-r4-1": "the left-behind queue entry was only reported under its C13 key (queue hygiene); the property's own words (\"and then disappears from the pending queue\") now also raise `C18/queue/left-behind`",
    "C18-r4-2": "only visible after export/import at the due height: caught by C12",
    "C18-r4-3": "only visible after a zero-height export: caught by C12 (`C12/prep-loses/random-request`)",
    "C02-r4-1": "only visible after export/import: caught by C12",
    "C04-r4-2": "only visible after export/import: caught by C12 (fixpoint)",
    "C06-r4-3": "only visible after export/import: caught by C12",
    "C11-r4-2": "an outcome of process-local state after an out-of-gas inside a callback: on a single node it shows as missing callbacks and feed values, caught by C08 and C17; the replicas of C11 see it only when a restart separates the executions",
    "C16-r4-3": "needed operations that only exist under the new parameter set: the lab now lets the deputy and a user open transfers of every asset the set adds, in the block the set comes into force",
    "C12-r4-3": "reported as missed by a run of the check that was broken at that moment (the random genesis arm registered its requests too late); caught by the raw store comparison",
    "C16-r4-2": "needed the canonical small operations on a fresh chain (overflow by the parameter value alone) and integer values up to 2^250",
}


def main():
    rows = []
    for f in sorted(glob.glob("/verif/seeded/*/meta.json")):
        m = json.load(open(f))
        c = m.get("check", {})
        keys = [l.strip()[5:].strip() for l in c.get("lines", []) if l.strip().startswith("key:")]
        det = "yes" if m.get("detected") else ("by %s" % m["detected_by_other"] if m.get("detected_by_other") else "NO")
        if not m.get("detected") and m.get("detected_by_other"):
            for o in m.get("other_checks", []):
                if o["property"] == m["detected_by_other"]:
                    keys = [l.strip()[5:].strip() for l in o.get("lines", []) if l.strip().startswith("key:")]
        rows.append((m["name"], m["property"], m["needs_to_manifest"], det, "<br>".join("`%s`" % k for k in keys[:3]), NOTES.get(m["name"], "")))
    print("| seeded change | property | needs, in order to manifest | caught by the property's quick check | first keys | what it took |")
    print("|---|---|---|---|---|---|")
    for r in rows:
        print("| %s | %s | %s | %s | %s | %s |" % r)
    n = len(rows)
    d = sum(1 for r in rows if r[3] == "yes")
    o = sum(1 for r in rows if r[3].startswith("by "))
    print()
    print("%d of %d seeded changes are caught by the quick check of the property they were written against, %d more by the check of a related property (named in the column), %d by none." % (d, n, o, n - d - o))


if __name__ == "__main__":
    main()
