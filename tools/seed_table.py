#!/usr/bin/env python3
"""Prints the catch matrix of /verif/seeded as a markdown table (for DESIGN.md section 15)."""
import json, glob, os

NOTES = {
    "C03-1": "first run exited 2: the half-written refund was reported as 'bank mirror diverged' (harness trouble); bank traces without movement are now violations of the property in focus",
    "C03-3": "same as C03-1",
    "C05-1": "C05 only judged the principal; added the accrued-reward clause on every unstake",
    "C05-3": "rare (about 1 run in 800 at quick length); added the branch drain lab (all stakers withdraw everything on a branch at seeded block boundaries)",
    "C09-3": "needed ghost probing: operations naming identifiers of issue attempts that were rolled back",
    "C10-2": "the EVM post-tx hook was unreachable; added the hook lab (synthetic receipts on a branch)",
    "C11-1": "the mixed profile did not bind the random service, so no oracle-seeded request was ever accepted there; fixed the profile",
    "C12-1": "needed the raw store comparison of source and re-imported node (queues are not in the genesis)",
    "C12-2": "needed the raw store comparison (id counters are not exported)",
    "C12-3": "needed runs with ten or more pools",
    "C14-2": "needed doomed multi-message batches (several messages of one signer executed on a branch that is discarded)",
    "C16-3": "needed parameter sets derived from the chain's current htlc params (existing assets with used windows) and a second block after a time jump on the branch",
    "C18-1": "was found, but the replay in a fresh process did not reproduce (the defect is process-local state) and the driver exited 2; such violations are now reported with a stability note",
    "C19-1": "needed the governance route (records created without tx bytes)",
    "C19-3": "the corrupted record made the query abort and the workload treated that as harness trouble; now a violation",
}


def main():
    rows = []
    for f in sorted(glob.glob("/verif/seeded/*/meta.json")):
        m = json.load(open(f))
        c = m.get("check", {})
        keys = [l.strip()[5:].strip() for l in c.get("lines", []) if l.strip().startswith("key:")]
        det = "yes" if m.get("detected") else ("by %s" % m["detected_by_other"] if m.get("detected_by_other") else "NO")
        if not m.get("detected") and m.get("detected_by_other"):
            for o in m.get("other_checks", []):
                if o["property"] == m["detected_by_other"]:
                    keys = [l.strip()[5:].strip() for l in o.get("lines", []) if l.strip().startswith("key:")]
        rows.append((m["name"], m["property"], m["needs_to_manifest"], det, "<br>".join("`%s`" % k for k in keys[:3]), NOTES.get(m["name"], "")))
    print("| seeded change | property | needs, in order to manifest | caught by the property's quick check | first keys | what it took |")
    print("|---|---|---|---|---|---|")
    for r in rows:
        print("| %s | %s | %s | %s | %s | %s |" % r)
    n = len(rows)
    d = sum(1 for r in rows if r[3] == "yes")
    o = sum(1 for r in rows if r[3].startswith("by "))
    print()
    print("%d of %d seeded changes are caught by the quick check of the property they were written against, %d more by the check of a related property (named in the column), %d by none." % (d, n, o, n - d - o))


if __name__ == "__main__":
    main()
