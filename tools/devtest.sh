#!/bin/bash
# Run a workload module's dev test (mods/<name>/dev_test.go: TestDev).
#   tools/devtest.sh <name> [repo-dir]
# repo-dir (default /repo) may be a scratch worktree of /repo carrying a deliberate
# property-breaking change (sensitivity runs). Environment passed through:
#   DEV_PROP=<id> DEV_SEEDS=<n> DEV_SEED=<base> DEV_LONG=1 DEV_KEEP=1 DEV_REPLAY=<file>
#   VERIF_DEBUG_FAIL=<substring of op kind>  (prints rejected txs of that kind with their log)
set -e
name="$1"; repo="${2:-/repo}"; repo="${repo%/}"
export GOFLAGS=-mod=mod GOPROXY=off GOSUMDB=off GOTOOLCHAIN=local GODEBUG=asynctimerchan=0
cd /verif/sim
cp /repo/e2e/go.sum go.sum 2>/dev/null || true
if [ "$repo" = "/repo" ]; then
  exec go1.26.8 test -tags verif ./mods/"$name"/ -run '^TestDev$' -count=1 -v -timeout 60m
else
  mkdir -p /verif/.build
  tag=$(echo -n "$repo" | sha256sum | cut -c1-8)
  alt=/verif/.build/go.$tag.mod
  sed "s#=> /repo/#=> $repo/#" go.mod > "$alt"
  cp "$repo/e2e/go.sum" "/verif/.build/go.$tag.sum"
  exec go1.26.8 test -tags verif -modfile "$alt" ./mods/"$name"/ -run '^TestDev$' -count=1 -v -timeout 60m
fi
