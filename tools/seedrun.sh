#!/bin/bash
# Run a check against a scratch worktree of /repo carrying a patch (sensitivity run).
#   tools/seedrun.sh <patch.diff> <property> [tier]
# Evidence and replays of such runs go to /verif/.build/alt-*, never to /verif/evidence.
set -e
patch=$(readlink -f "$1"); prop="$2"; tier="${3:-quick}"
wt=/tmp/sr-$$
git -C /repo worktree add -q "$wt" HEAD
trap 'git -C /repo worktree remove --force "$wt" >/dev/null 2>&1 || true' EXIT
git -C "$wt" apply "$patch"
cd /verif
set +e
VERIF_REPO="$wt" ./check "$prop" "$tier"
rc=$?
echo "seedrun: exit code $rc"
exit $rc
